#!/verif/.venv/bin/python
# Replay of a counterexample against the real code in /tmp/wt_interp/src (exit 1 = violation reproduced).
import os, sys
os.environ.setdefault("NUMBA_DISABLE_JIT", "1")
sys.path.insert(0, '/tmp/wt_interp' + "/src"); sys.path.insert(0, '/verif')
from fractions import Fraction
import harness.C35 as H
try:
    r = H.replay_talbot({'nr': Fraction(72, 25), 'ni': Fraction(1613, 1000), 'umax': Fraction(-103, 500), 'umin': Fraction(-1569, 1000), 'lx': Fraction(-557, 250), 'ulow': Fraction(-2919, 1000), 'lx2': Fraction(-17, 100), 'xmin': Fraction(17, 50), 'xmax': Fraction(37, 50), 't': Fraction(767, 1000), 'r': Fraction(319, 500), 'o': Fraction(0, 1), 'c0': Fraction(1, 500), 'd0': Fraction(31, 100), 'c1': Fraction(-1347, 1000), 'd1': Fraction(433, 250), 'c2': Fraction(-221, 200), 'd2': Fraction(-437, 500), 'c3': Fraction(204, 125), 'd3': Fraction(17, 25), 'c4': Fraction(1927, 1000), 'd4': Fraction(407, 500), 'c5': Fraction(51, 200), 'd5': Fraction(-1517, 1000)}, **{'half': False})
except Exception:
    import traceback; traceback.print_exc(); sys.exit(2)
print(r)
sys.exit(1 if r else 0)
