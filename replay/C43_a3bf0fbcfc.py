#!/verif/.venv/bin/python
# Replay of a counterexample against the real code in /tmp/wt_ekobox/src (exit 1 = violation reproduced).
import os, sys
os.environ.setdefault("NUMBA_DISABLE_JIT", "1")
sys.path.insert(0, '/tmp/wt_ekobox' + "/src"); sys.path.insert(0, '/verif')
from fractions import Fraction
import harness.C43 as H
try:
    r = H.replay_apply({'x0': Fraction(1, 1), 'F_6_1': Fraction(0, 1), 'O0_0_1_6_0': Fraction(0, 1), 'O0_7_0_13_1': Fraction(0, 1), 'O0_7_1_6_1': Fraction(0, 1), 'O0_7_1_13_1': Fraction(0, 1), 'O0_7_0_6_0': Fraction(0, 1), 'x1': Fraction(1, 1), 'O0_0_0_13_0': Fraction(0, 1), 'O0_0_1_7_1': Fraction(0, 1), 'F_m1_0': Fraction(-1, 1), 'O0_7_0_7_1': Fraction(0, 1), 'O0_7_0_6_1': Fraction(0, 1), 'O0_7_0_13_0': Fraction(0, 1), 'O0_7_1_7_0': Fraction(0, 1), 'O0_0_1_13_1': Fraction(0, 1), 'O0_0_0_7_0': Fraction(0, 1), 'O0_0_0_6_1': Fraction(0, 1), 'F_21_0': Fraction(0, 1), 'X_1_0': Fraction(0, 1), 'O0_7_0_7_0': Fraction(0, 1), 'X_0_1': Fraction(-1, 1), 'F_6_0': Fraction(0, 1), 'F_21_1': Fraction(0, 1), 'O0_0_1_6_1': Fraction(0, 1), 'O0_0_0_7_1': Fraction(0, 1), 'O0_0_0_13_1': Fraction(0, 1), 'F_m1_1': Fraction(0, 1), 'O0_0_1_7_0': Fraction(0, 1), 'O0_0_0_6_0': Fraction(0, 1), 'O0_7_1_13_0': Fraction(0, 1), 'O0_7_1_6_0': Fraction(-1, 1), 'O0_0_1_13_0': Fraction(0, 1), 'O0_7_1_7_1': Fraction(0, 1)}, **{'n': 2, 'what': 'pdf', 'rotate': True, 'target': True, 'qed': 0})
except Exception:
    import traceback; traceback.print_exc(); sys.exit(2)
print(r)
sys.exit(1 if r else 0)
