#!/verif/.venv/bin/python
# Replay of a counterexample against the real code in /tmp/wt_couplings/src (exit 1 = violation reproduced).
import os, sys
os.environ.setdefault("NUMBA_DISABLE_JIT", "1")
sys.path.insert(0, '/tmp/wt_couplings' + "/src"); sys.path.insert(0, '/verif')
from fractions import Fraction
import harness.cplkit as H
try:
    r = H.replay_multi({'alpha': Fraction(1, 2), 'Lc': Fraction(0, 1), 'Lb': Fraction(-3, 4)}, **{'mod': 'harness.C16', 'fn': 'replay_inverse', 'extra': [{'a': Fraction(7, 500), 'alpha': Fraction(11, 500), 'aem': Fraction(57, 100000), 'nf': Fraction(4, 1), 'Lc': Fraction(-517, 1000), 'Lb': Fraction(-53, 125), 'Lt': Fraction(97, 100), 'Lq': Fraction(-1131, 1000)}, {'a': Fraction(7, 250), 'alpha': Fraction(3, 250), 'aem': Fraction(7, 12500), 'nf': Fraction(5, 1), 'Lc': Fraction(197, 250), 'Lb': Fraction(183, 1000), 'Lt': Fraction(129, 250), 'Lq': Fraction(831, 1000)}, {'a': Fraction(7, 500), 'alpha': Fraction(9, 500), 'aem': Fraction(1, 1250), 'nf': Fraction(3, 1), 'Lc': Fraction(-141, 500), 'Lb': Fraction(501, 1000), 'Lt': Fraction(289, 500), 'Lq': Fraction(1, 200)}, {'a': Fraction(3, 200), 'alpha': Fraction(7, 500), 'aem': Fraction(3, 5000), 'nf': Fraction(5, 1), 'Lc': Fraction(1243, 1000), 'Lb': Fraction(77, 250), 'Lt': Fraction(-609, 1000), 'Lq': Fraction(869, 1000)}], 'kw': {'scheme': 'POLE', 'order': 3, 'nfl': 3}})
except Exception:
    import traceback; traceback.print_exc(); sys.exit(2)
print(r)
sys.exit(1 if r else 0)
