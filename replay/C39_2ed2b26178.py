#!/verif/.venv/bin/python
# Replay of a counterexample against the real code in /repo/src (exit 1 = violation reproduced).
import os, sys
os.environ.setdefault("NUMBA_DISABLE_JIT", "1")
sys.path.insert(0, '/repo' + "/src"); sys.path.insert(0, '/verif')
from fractions import Fraction
import harness.C39 as H
try:
    r = H.replay_eko({'readonly': 'True'}, **{'opnames': ['metadata_update'], 'closed': False, 'folder': True, 'aspect': 'nowrite'})
except Exception:
    import traceback; traceback.print_exc(); sys.exit(2)
print(r)
sys.exit(1 if r else 0)
