#!/verif/.venv/bin/python
# Replay of a counterexample against the real code in /repo/src (exit 1 = violation reproduced).
import os, sys
os.environ.setdefault("NUMBA_DISABLE_JIT", "1")
sys.path.insert(0, '/repo' + "/src"); sys.path.insert(0, '/verif')
from fractions import Fraction
import harness.C41 as H
try:
    r = H.replay_versions({'x0': '1/4', 'kbThr': '1', 'iters': '1', 'deg': '1', 'mu_0': '1', 'nf_init': '3', 'cores': '1', 'x1': '1/2', 'x2': '3/4', 'nf_0': '3', 'alphas': '1', 'nf_ref': '3', 'scale': '1', 'alphaem': '1', 'n3lo2': '0', 'kcThr': '1', 'n3lo1': '0', 'mu_1': '1', 'Qmb': '1', 'mt': '1', 'Qmt': '1', 'ktThr': '1', 'nf_max_pdf': '3', 'o_qcd': '2', 'n3lo0': '0', 'n3lo3': '0', 'n3lo4': '0', 'n3lo5': '0', 'maxo_qcd': '1', 'mu0': '1', 'maxo_qed': '0', 'nf_1': '3', 'Qmc': '1', 'n3lo6': '0', 'mc': '1', 'nf_max_as': '3', 'o_qed': '0', 'xif': '1', 'mb': '1'}, **{'var': {'version': 1, 'k': 0, 'fh': 'use_fhmruvv', 'HQ': 'POLE'}, 'card': 'theory', 'name': 'matching_order.qcd'})
except Exception:
    import traceback; traceback.print_exc(); sys.exit(2)
print(r)
sys.exit(1 if r else 0)
