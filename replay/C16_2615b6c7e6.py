#!/verif/.venv/bin/python
# Replay of a counterexample against the real code in /tmp/wt_couplings/src (exit 1 = violation reproduced).
import os, sys
os.environ.setdefault("NUMBA_DISABLE_JIT", "1")
sys.path.insert(0, '/tmp/wt_couplings' + "/src"); sys.path.insert(0, '/verif')
from fractions import Fraction
import harness.cplkit as H
try:
    r = H.replay_multi({'a': Fraction(1, 1), 'Lc': Fraction(1, 1)}, **{'mod': 'harness.C16', 'fn': 'replay_loop', 'extra': [{'a': Fraction(9, 500), 'alpha': Fraction(11, 1000), 'aem': Fraction(7, 10000), 'nf': Fraction(5, 1), 'Lc': Fraction(-229, 200), 'Lb': Fraction(1173, 1000), 'Lt': Fraction(987, 1000), 'Lq': Fraction(-1151, 1000)}, {'a': Fraction(3, 125), 'alpha': Fraction(13, 1000), 'aem': Fraction(11, 20000), 'nf': Fraction(3, 1), 'Lc': Fraction(511, 1000), 'Lb': Fraction(-31, 500), 'Lt': Fraction(-1099, 1000), 'Lq': Fraction(-787, 1000)}, {'a': Fraction(13, 500), 'alpha': Fraction(17, 1000), 'aem': Fraction(69, 100000), 'nf': Fraction(5, 1), 'Lc': Fraction(41, 100), 'Lb': Fraction(-1013, 1000), 'Lt': Fraction(-957, 1000), 'Lq': Fraction(-43, 50)}, {'a': Fraction(11, 1000), 'alpha': Fraction(21, 1000), 'aem': Fraction(27, 50000), 'nf': Fraction(5, 1), 'Lc': Fraction(-1167, 1000), 'Lb': Fraction(-201, 250), 'Lt': Fraction(-91, 200), 'Lq': Fraction(103, 250)}], 'kw': {'scheme': 'POLE', 'order': 1, 'nf_from': 4, 'nf_to': 3}})
except Exception:
    import traceback; traceback.print_exc(); sys.exit(2)
print(r)
sys.exit(1 if r else 0)
