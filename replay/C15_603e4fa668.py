#!/verif/.venv/bin/python
# Replay of a counterexample against the real code in /tmp/wt_couplings/src (exit 1 = violation reproduced).
import os, sys
os.environ.setdefault("NUMBA_DISABLE_JIT", "1")
sys.path.insert(0, '/tmp/wt_couplings' + "/src"); sys.path.insert(0, '/verif')
from fractions import Fraction
import harness.cplkit as H
try:
    r = H.replay_multi({'alpha': Fraction(2, 1), 'beta21': Fraction(-1, 1), 'beta0': Fraction(1, 1), 'betaqed0': Fraction(-1, 1), 'alphaem': Fraction(1, 1)}, **{'mod': 'harness.C15', 'fn': 'replay_compute', 'extra': [{'alpha': Fraction(13, 1000), 'alphaem': Fraction(37, 100000), 'aem': Fraction(31, 100000), 'X': Fraction(-663, 1000), 'lmu': Fraction(2929, 500), 'a_s': Fraction(1, 40), 'a_em': Fraction(33, 100000), 'u': Fraction(-57, 100), 'nf': Fraction(4, 1)}, {'alpha': Fraction(2, 125), 'alphaem': Fraction(7, 12500), 'aem': Fraction(1, 5000), 'X': Fraction(-387, 1000), 'lmu': Fraction(329, 500), 'a_s': Fraction(23, 1000), 'a_em': Fraction(77, 100000), 'u': Fraction(736, 125), 'nf': Fraction(6, 1)}, {'alpha': Fraction(19, 1000), 'alphaem': Fraction(79, 100000), 'aem': Fraction(9, 12500), 'X': Fraction(871, 200), 'lmu': Fraction(399, 1000), 'a_s': Fraction(11, 500), 'a_em': Fraction(39, 50000), 'u': Fraction(-347, 1000), 'nf': Fraction(4, 1)}, {'alpha': Fraction(17, 1000), 'alphaem': Fraction(77, 100000), 'aem': Fraction(9, 12500), 'X': Fraction(13, 100), 'lmu': Fraction(-11, 40), 'a_s': Fraction(9, 500), 'a_em': Fraction(1, 4000), 'u': Fraction(-231, 500), 'nf': Fraction(3, 1)}], 'kw': {'order': [1, 1], 'em_running': True, 'method': 'expanded', 'counting': 'B'}})
except Exception:
    import traceback; traceback.print_exc(); sys.exit(2)
print(r)
sys.exit(1 if r else 0)
