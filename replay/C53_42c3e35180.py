#!/verif/.venv/bin/python
# Replay of a counterexample against the real code in /repo/src (exit 1 = violation reproduced).
import os, sys
os.environ.setdefault("NUMBA_DISABLE_JIT", "1")
sys.path.insert(0, '/repo' + "/src"); sys.path.insert(0, '/verif')
from fractions import Fraction
import harness.C19 as H
try:
    r = H.replay_multi({'t': Fraction(1, 1), 'X2': Fraction(3, 1), 'INF': Fraction(3, 1), 'mu0': Fraction(1, 1), 'M5': Fraction(1, 8), 'eps': Fraction(1, 1048576), 'M4': Fraction(1, 4), 'M6': Fraction(4, 1)}, **{'mod': 'harness.C53', 'fn': 'replay_cont', 'extra': [{'M4': Fraction(6, 1), 'M5': Fraction(36, 1), 'M6': Fraction(15200, 1), 'mu0': Fraction(4, 1), 't': Fraction(4, 1), 'eps': Fraction(-1, 1000000), 'X2': Fraction(4, 1)}, {'M4': Fraction(6, 1), 'M5': Fraction(29, 1), 'M6': Fraction(12800, 1), 'mu0': Fraction(21, 4), 't': Fraction(21, 4), 'eps': Fraction(1, 10000000), 'X2': Fraction(1, 4)}, {'M4': Fraction(20, 1), 'M5': Fraction(22, 1), 'M6': Fraction(10400, 1), 'mu0': Fraction(2427, 1), 't': Fraction(2600, 1), 'eps': Fraction(1, 1000000), 'X2': Fraction(2, 1)}, {'M4': Fraction(3, 1), 'M5': Fraction(5, 1), 'M6': Fraction(12400, 1), 'mu0': Fraction(25, 4), 't': Fraction(3100, 1), 'eps': Fraction(1, 10000000), 'X2': Fraction(1, 4)}], 'kw': {'nf0': 3, 'nff': None, 'sv': 'expanded', 'order': [1, 0]}})
except Exception:
    import traceback; traceback.print_exc(); sys.exit(2)
print(r)
sys.exit(1 if r else 0)
