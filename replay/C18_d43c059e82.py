#!/verif/.venv/bin/python
# Replay of a counterexample against the real code in /repo/src (exit 1 = violation reproduced).
import os, sys
os.environ.setdefault("NUMBA_DISABLE_JIT", "1")
sys.path.insert(0, '/repo' + "/src"); sys.path.insert(0, '/verif')
from fractions import Fraction
import harness.cplkit as H
try:
    r = H.replay_multi({'Lq': Fraction(0, 1), 'zeta3': Fraction(615, 512)}, **{'mod': 'harness.C18', 'fn': 'replay_evolve', 'extra': [{'alpha0': Fraction(3, 200), 'alpha1': Fraction(27, 1000), 'a0': Fraction(11, 1000), 'a1': Fraction(7, 500), 'A': Fraction(9, 1000), 'Lq': Fraction(721, 1000), 'Lc': Fraction(-67, 200), 'Lb': Fraction(-149, 125), 'Lt': Fraction(-337, 1000), 'nf': Fraction(4, 1), 'x0': Fraction(5821, 250), 'm2_ref': Fraction(5869, 500)}, {'alpha0': Fraction(7, 250), 'alpha1': Fraction(11, 500), 'a0': Fraction(1, 100), 'a1': Fraction(9, 500), 'A': Fraction(13, 1000), 'Lq': Fraction(-657, 500), 'Lc': Fraction(-633, 500), 'Lb': Fraction(-33, 125), 'Lt': Fraction(-1261, 1000), 'nf': Fraction(4, 1), 'x0': Fraction(165, 8), 'm2_ref': Fraction(6699, 250)}, {'alpha0': Fraction(3, 200), 'alpha1': Fraction(1, 40), 'a0': Fraction(3, 200), 'a1': Fraction(9, 500), 'A': Fraction(23, 1000), 'Lq': Fraction(29, 500), 'Lc': Fraction(-473, 500), 'Lb': Fraction(307, 1000), 'Lt': Fraction(-301, 500), 'nf': Fraction(4, 1), 'x0': Fraction(10723, 500), 'm2_ref': Fraction(7491, 1000)}, {'alpha0': Fraction(7, 250), 'alpha1': Fraction(27, 1000), 'a0': Fraction(1, 100), 'a1': Fraction(3, 125), 'A': Fraction(3, 125), 'Lq': Fraction(-203, 250), 'Lc': Fraction(-157, 1000), 'Lb': Fraction(-1073, 1000), 'Lt': Fraction(-893, 1000), 'nf': Fraction(5, 1), 'x0': Fraction(5879, 500), 'm2_ref': Fraction(6947, 250)}], 'kw': {'order': 4, 'nf_from': 4, 'nf_to': 3, 'physics': True}})
except Exception:
    import traceback; traceback.print_exc(); sys.exit(2)
print(r)
sys.exit(1 if r else 0)
