#!/verif/.venv/bin/python
# Replay of a counterexample against the real code in /tmp/wt_couplings/src (exit 1 = violation reproduced).
import os, sys
os.environ.setdefault("NUMBA_DISABLE_JIT", "1")
sys.path.insert(0, '/tmp/wt_couplings' + "/src"); sys.path.insert(0, '/verif')
from fractions import Fraction
import harness.C22 as H
try:
    r = H.replay_ome({'alpha': Fraction(4, 125), 'L': Fraction(2, 5), 'nf': Fraction(5, 1), 'A0_00': Fraction(291, 250), 'A0_01': Fraction(2, 25), 'A0_02': Fraction(2037, 1000), 'A0_10': Fraction(-939, 1000), 'A0_11': Fraction(89, 200), 'A0_12': Fraction(-1153, 1000), 'A0_20': Fraction(13, 50), 'A0_21': Fraction(-178, 125), 'A0_22': Fraction(1987, 1000), 'A1_00': Fraction(1983, 250), 'A1_01': Fraction(1653, 1000), 'A1_02': Fraction(423, 50), 'A1_10': Fraction(972, 125), 'A1_11': Fraction(-4251, 500), 'A1_12': Fraction(498, 125), 'A1_20': Fraction(-5367, 1000), 'A1_21': Fraction(6813, 1000), 'A1_22': Fraction(6183, 1000), 'A2_00': Fraction(-234, 125), 'A2_01': Fraction(-1107, 1000), 'A2_02': Fraction(-16443, 1000), 'A2_10': Fraction(6291, 500), 'A2_11': Fraction(-1467, 200), 'A2_12': Fraction(-16371, 1000), 'A2_20': Fraction(-99, 125), 'A2_21': Fraction(3879, 1000), 'A2_22': Fraction(2637, 250), 'c10': Fraction(-4853, 1000), 'c11': Fraction(763, 500), 'c20': Fraction(-254, 25), 'c21': Fraction(-3891, 250), 'c22': Fraction(-274, 25), 'c30': Fraction(1344, 25), 'c31': Fraction(-9366, 125), 'c32': Fraction(-8768, 125), 'c33': Fraction(-2436, 125)}, **{'n': 2, 'm': 3, 'exact': True})
except Exception:
    import traceback; traceback.print_exc(); sys.exit(2)
print(r)
sys.exit(1 if r else 0)
