#!/verif/.venv/bin/python
# Replay of a counterexample against the real code in /tmp/wt_couplings/src (exit 1 = violation reproduced).
import os, sys
os.environ.setdefault("NUMBA_DISABLE_JIT", "1")
sys.path.insert(0, '/tmp/wt_couplings' + "/src"); sys.path.insert(0, '/verif')
from fractions import Fraction
import harness.cplkit as H
try:
    r = H.replay_multi({'a': Fraction(1, 1), 'Lc': Fraction(1, 1), 'aem': Fraction(1, 1)}, **{'mod': 'harness.C16', 'fn': 'replay_loop', 'extra': [{'a': Fraction(13, 500), 'alpha': Fraction(19, 1000), 'aem': Fraction(39, 50000), 'nf': Fraction(4, 1), 'Lc': Fraction(279, 500), 'Lb': Fraction(643, 500), 'Lt': Fraction(138, 125), 'Lq': Fraction(231, 200)}, {'a': Fraction(7, 500), 'alpha': Fraction(21, 1000), 'aem': Fraction(79, 100000), 'nf': Fraction(3, 1), 'Lc': Fraction(1107, 1000), 'Lb': Fraction(767, 1000), 'Lt': Fraction(357, 500), 'Lq': Fraction(527, 1000)}, {'a': Fraction(11, 500), 'alpha': Fraction(17, 1000), 'aem': Fraction(27, 50000), 'nf': Fraction(5, 1), 'Lc': Fraction(-421, 500), 'Lb': Fraction(97, 250), 'Lt': Fraction(-213, 1000), 'Lq': Fraction(57, 1000)}, {'a': Fraction(27, 1000), 'alpha': Fraction(2, 125), 'aem': Fraction(77, 100000), 'nf': Fraction(5, 1), 'Lc': Fraction(547, 1000), 'Lb': Fraction(137, 1000), 'Lt': Fraction(-181, 250), 'Lq': Fraction(1, 10)}], 'kw': {'scheme': 'POLE', 'order': 2, 'nf_from': 3, 'nf_to': 4}})
except Exception:
    import traceback; traceback.print_exc(); sys.exit(2)
print(r)
sys.exit(1 if r else 0)
