#!/verif/.venv/bin/python
# Replay of a counterexample against the real code in /repo/src (exit 1 = violation reproduced).
import os, sys
os.environ.setdefault("NUMBA_DISABLE_JIT", "1")
sys.path.insert(0, '/repo' + "/src"); sys.path.insert(0, '/verif')
from fractions import Fraction
import harness.C41 as H
try:
    r = H.replay_versions({'mu_0': '1', 'mt': '1', 'x0': '1/4', 'iters': '1', 'deg': '1', 'kcThr': '1', 'kbThr': '1', 'mu_1': '1', 'xif': '1', 'nf_init': '3', 'mo_qcd': '0', 'cores': '1', 'mc': '1', 'scale': '1', 'alphas': '1', 'x1': '1/2', 'x2': '3/4', 'Qmb': '1', 'nf_0': '3', 'ktThr': '1', 'nf_ref': '3', 'n3lo2': '0', 'maxo_qed': '0', 'Qmc': '1', 'n3lo1': '0', 'o_qcd': '1', 'n3lo0': '0', 'n3lo4': '0', 'nf_max_pdf': '3', 'n3lo3': '0', 'n3lo5': '0', 'maxo_qcd': '1', 'mb': '1', 'nf_1': '3', 'alphaem': '1', 'n3lo6': '0', 'mu0': '1', 'nf_max_as': '3', 'mo_qed': '0', 'o_qed': '0', 'Qmt': '1'}, **{'var': {'version': 2, 'k': 4, 'fh': 'use_fhmv', 'HQ': 'MSBAR'}, 'name': None})
except Exception:
    import traceback; traceback.print_exc(); sys.exit(2)
print(r)
sys.exit(1 if r else 0)
