#!/verif/.venv/bin/python
# Replay of a counterexample against the real code in /tmp/wt_couplings/src (exit 1 = violation reproduced).
import os, sys
os.environ.setdefault("NUMBA_DISABLE_JIT", "1")
sys.path.insert(0, '/tmp/wt_couplings' + "/src"); sys.path.insert(0, '/verif')
from fractions import Fraction
import harness.cplkit as H
try:
    r = H.replay_multi({'alpha': Fraction(1, 1), 'beta0': Fraction(1, 1), 'X': Fraction(0, 1), 'b1': Fraction(1, 1), 'b2': Fraction(0, 1)}, **{'mod': 'harness.C15', 'fn': 'replay_expanded_fn', 'extra': [{'alpha': Fraction(1, 125), 'alphaem': Fraction(33, 50000), 'aem': Fraction(33, 50000), 'X': Fraction(-87, 500), 'lmu': Fraction(2933, 1000), 'a_s': Fraction(1, 125), 'a_em': Fraction(59, 100000), 'u': Fraction(213, 125), 'nf': Fraction(4, 1)}, {'alpha': Fraction(17, 1000), 'alphaem': Fraction(1, 3125), 'aem': Fraction(37, 50000), 'X': Fraction(143, 25), 'lmu': Fraction(13, 500), 'a_s': Fraction(21, 1000), 'a_em': Fraction(21, 50000), 'u': Fraction(2989, 500), 'nf': Fraction(6, 1)}, {'alpha': Fraction(1, 100), 'alphaem': Fraction(2, 3125), 'aem': Fraction(3, 6250), 'X': Fraction(-21, 125), 'lmu': Fraction(4551, 1000), 'a_s': Fraction(21, 1000), 'a_em': Fraction(51, 100000), 'u': Fraction(-1861, 1000), 'nf': Fraction(5, 1)}, {'alpha': Fraction(9, 500), 'alphaem': Fraction(63, 100000), 'aem': Fraction(17, 25000), 'X': Fraction(107, 500), 'lmu': Fraction(5741, 1000), 'a_s': Fraction(1, 125), 'a_em': Fraction(63, 100000), 'u': Fraction(4893, 1000), 'nf': Fraction(3, 1)}], 'kw': {'n': 4, 'via': 'direct', 'counting': 'A'}})
except Exception:
    import traceback; traceback.print_exc(); sys.exit(2)
print(r)
sys.exit(1 if r else 0)
