#!/verif/.venv/bin/python
# Replay of a counterexample against the real code in /repo/src (exit 1 = violation reproduced).
import os, sys
os.environ.setdefault("NUMBA_DISABLE_JIT", "1")
sys.path.insert(0, '/repo' + "/src"); sys.path.insert(0, '/verif')
from fractions import Fraction
import harness.cplkit as H
try:
    r = H.replay_multi({'alpha': Fraction(1, 1), 'log!2': Fraction(-1, 1), 'beta0': Fraction(1, 1), 'X': Fraction(0, 1), 'beta1': Fraction(-1, 1), 'beta2': Fraction(0, 1), 'beta3': Fraction(0, 1), 'aem': Fraction(1, 1), 'betaqed0': Fraction(-1, 1)}, **{'mod': 'harness.C15', 'fn': 'replay_compute', 'extra': [{'alpha': Fraction(1, 100), 'alphaem': Fraction(19, 50000), 'aem': Fraction(3, 10000), 'X': Fraction(197, 40), 'lmu': Fraction(167, 500), 'a_s': Fraction(11, 1000), 'a_em': Fraction(7, 12500), 'u': Fraction(-393, 200), 'nf': Fraction(6, 1)}, {'alpha': Fraction(7, 500), 'alphaem': Fraction(41, 100000), 'aem': Fraction(1, 3125), 'X': Fraction(-1599, 1000), 'lmu': Fraction(-141, 200), 'a_s': Fraction(17, 1000), 'a_em': Fraction(21, 100000), 'u': Fraction(1713, 500), 'nf': Fraction(3, 1)}, {'alpha': Fraction(3, 200), 'alphaem': Fraction(1, 2000), 'aem': Fraction(73, 100000), 'X': Fraction(3, 125), 'lmu': Fraction(159, 125), 'a_s': Fraction(2, 125), 'a_em': Fraction(59, 100000), 'u': Fraction(-57, 125), 'nf': Fraction(5, 1)}, {'alpha': Fraction(13, 500), 'alphaem': Fraction(29, 100000), 'aem': Fraction(11, 20000), 'X': Fraction(2, 1), 'lmu': Fraction(87, 50), 'a_s': Fraction(9, 1000), 'a_em': Fraction(69, 100000), 'u': Fraction(-319, 500), 'nf': Fraction(6, 1)}], 'kw': {'order': [4, 0], 'em_running': False, 'method': 'expanded', 'counting': 'A'}})
except Exception:
    import traceback; traceback.print_exc(); sys.exit(2)
print(r)
sys.exit(1 if r else 0)
