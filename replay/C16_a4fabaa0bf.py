#!/verif/.venv/bin/python
# Replay of a counterexample against the real code in /tmp/wt_couplings/src (exit 1 = violation reproduced).
import os, sys
os.environ.setdefault("NUMBA_DISABLE_JIT", "1")
sys.path.insert(0, '/tmp/wt_couplings' + "/src"); sys.path.insert(0, '/verif')
from fractions import Fraction
import harness.cplkit as H
try:
    r = H.replay_multi({'alpha': Fraction(1, 1), 'Lc': Fraction(0, 1)}, **{'mod': 'harness.C16', 'fn': 'replay_inverse', 'extra': [{'a': Fraction(1, 100), 'alpha': Fraction(9, 500), 'aem': Fraction(3, 6250), 'nf': Fraction(4, 1), 'Lc': Fraction(-261, 1000), 'Lb': Fraction(541, 1000), 'Lt': Fraction(47, 100), 'Lq': Fraction(-251, 250)}, {'a': Fraction(2, 125), 'alpha': Fraction(1, 40), 'aem': Fraction(13, 25000), 'nf': Fraction(3, 1), 'Lc': Fraction(183, 250), 'Lb': Fraction(-37, 250), 'Lt': Fraction(-11, 40), 'Lq': Fraction(-299, 1000)}, {'a': Fraction(11, 1000), 'alpha': Fraction(13, 1000), 'aem': Fraction(11, 25000), 'nf': Fraction(4, 1), 'Lc': Fraction(-109, 125), 'Lb': Fraction(631, 500), 'Lt': Fraction(573, 1000), 'Lq': Fraction(9, 20)}, {'a': Fraction(7, 500), 'alpha': Fraction(1, 125), 'aem': Fraction(1, 1250), 'nf': Fraction(3, 1), 'Lc': Fraction(171, 125), 'Lb': Fraction(-3, 20), 'Lt': Fraction(29, 40), 'Lq': Fraction(623, 500)}], 'kw': {'scheme': 'MSBAR', 'order': 4, 'nfl': 3}})
except Exception:
    import traceback; traceback.print_exc(); sys.exit(2)
print(r)
sys.exit(1 if r else 0)
