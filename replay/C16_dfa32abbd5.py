#!/verif/.venv/bin/python
# Replay of a counterexample against the real code in /tmp/wt_couplings/src (exit 1 = violation reproduced).
import os, sys
os.environ.setdefault("NUMBA_DISABLE_JIT", "1")
sys.path.insert(0, '/tmp/wt_couplings' + "/src"); sys.path.insert(0, '/verif')
from fractions import Fraction
import harness.cplkit as H
try:
    r = H.replay_multi({'a': Fraction(1, 1)}, **{'mod': 'harness.C16', 'fn': 'replay_loop', 'extra': [{'a': Fraction(7, 250), 'alpha': Fraction(3, 250), 'aem': Fraction(23, 50000), 'nf': Fraction(3, 1), 'Lc': Fraction(11, 125), 'Lb': Fraction(-23, 25), 'Lt': Fraction(787, 1000), 'Lq': Fraction(261, 1000)}, {'a': Fraction(21, 1000), 'alpha': Fraction(27, 1000), 'aem': Fraction(33, 50000), 'nf': Fraction(4, 1), 'Lc': Fraction(-107, 100), 'Lb': Fraction(39, 50), 'Lt': Fraction(81, 500), 'Lq': Fraction(-537, 500)}, {'a': Fraction(11, 500), 'alpha': Fraction(7, 250), 'aem': Fraction(69, 100000), 'nf': Fraction(4, 1), 'Lc': Fraction(213, 200), 'Lb': Fraction(-391, 500), 'Lt': Fraction(-347, 1000), 'Lq': Fraction(441, 1000)}, {'a': Fraction(1, 125), 'alpha': Fraction(1, 50), 'aem': Fraction(3, 4000), 'nf': Fraction(3, 1), 'Lc': Fraction(47, 50), 'Lb': Fraction(287, 250), 'Lt': Fraction(-73, 500), 'Lq': Fraction(-1, 10)}], 'kw': {'scheme': 'POLE', 'order': 2, 'nf_from': 3, 'nf_to': 4, 'unit': True}})
except Exception:
    import traceback; traceback.print_exc(); sys.exit(2)
print(r)
sys.exit(1 if r else 0)
