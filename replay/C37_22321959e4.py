#!/verif/.venv/bin/python
# Replay of a counterexample against the real code in /repo/src (exit 1 = violation reproduced).
import os, sys
os.environ.setdefault("NUMBA_DISABLE_JIT", "1")
sys.path.insert(0, '/repo' + "/src"); sys.path.insert(0, '/verif')
from fractions import Fraction
import harness.C37 as H
try:
    r = H.replay_step({'loaded2': 'True', 'cached1': 'True', 'disk0': 'False', 'loaded1': 'True', 'disk2': 'True', 'j': '0', 'cached2': 'True', 'disk1': 'True'}, **{'kind': 'del', 'j': 0, 'state': [[False, False, False, False], [True, True, True, False], [True, True, True, False]], 'en': False, 'aspect': 'view'})
except Exception:
    import traceback; traceback.print_exc(); sys.exit(2)
print(r)
sys.exit(1 if r else 0)
