#!/verif/.venv/bin/python
# Replay of a counterexample against the real code in /tmp/wt_couplings/src (exit 1 = violation reproduced).
import os, sys
os.environ.setdefault("NUMBA_DISABLE_JIT", "1")
sys.path.insert(0, '/tmp/wt_couplings' + "/src"); sys.path.insert(0, '/verif')
from fractions import Fraction
import harness.cplkit as H
try:
    r = H.replay_multi({'alpha': Fraction(1, 1), 'beta0': Fraction(1, 1), 'b1': Fraction(1, 1)}, **{'mod': 'harness.C15', 'fn': 'replay_expanded_fn', 'extra': [{'alpha': Fraction(19, 1000), 'alphaem': Fraction(69, 100000), 'aem': Fraction(79, 100000), 'X': Fraction(-351, 250), 'lmu': Fraction(-673, 1000), 'a_s': Fraction(3, 125), 'a_em': Fraction(77, 100000), 'u': Fraction(4751, 1000), 'nf': Fraction(4, 1)}, {'alpha': Fraction(13, 1000), 'alphaem': Fraction(61, 100000), 'aem': Fraction(29, 100000), 'X': Fraction(-859, 1000), 'lmu': Fraction(2419, 1000), 'a_s': Fraction(19, 1000), 'a_em': Fraction(1, 5000), 'u': Fraction(789, 200), 'nf': Fraction(5, 1)}, {'alpha': Fraction(1, 40), 'alphaem': Fraction(31, 50000), 'aem': Fraction(67, 100000), 'X': Fraction(819, 200), 'lmu': Fraction(1047, 500), 'a_s': Fraction(13, 500), 'a_em': Fraction(2, 3125), 'u': Fraction(-699, 1000), 'nf': Fraction(6, 1)}, {'alpha': Fraction(1, 125), 'alphaem': Fraction(53, 100000), 'aem': Fraction(59, 100000), 'X': Fraction(237, 50), 'lmu': Fraction(-169, 100), 'a_s': Fraction(1, 40), 'a_em': Fraction(49, 100000), 'u': Fraction(2431, 1000), 'nf': Fraction(5, 1)}], 'kw': {'n': 3, 'via': 'direct', 'counting': 'B'}})
except Exception:
    import traceback; traceback.print_exc(); sys.exit(2)
print(r)
sys.exit(1 if r else 0)
