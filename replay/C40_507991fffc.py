#!/verif/.venv/bin/python
# Replay of a counterexample against the real code in /tmp/wt_cards/src (exit 1 = violation reproduced).
import os, sys
os.environ.setdefault("NUMBA_DISABLE_JIT", "1")
sys.path.insert(0, '/tmp/wt_cards' + "/src"); sys.path.insert(0, '/verif')
from fractions import Fraction
import harness.C40 as H
try:
    r = H.replay_roundtrip({'x0': '1', 'log!1': '4', 'log!2': '3', 'log!3': '2', 'xlog': 'True', 'x1': '4', 'x2': '5'}, **{'subject': 'KXGrid', 'var': {}, 'aspect': 'equal-raw', 'field': 'x'})
except Exception:
    import traceback; traceback.print_exc(); sys.exit(2)
print(r)
sys.exit(1 if r else 0)
