#!/verif/.venv/bin/python
# Replay of a counterexample against the real code in /tmp/wt_interp/src (exit 1 = violation reproduced).
import os, sys
os.environ.setdefault("NUMBA_DISABLE_JIT", "1")
sys.path.insert(0, '/tmp/wt_interp' + "/src"); sys.path.insert(0, '/verif')
from fractions import Fraction
import harness.C34 as H
try:
    r = H.replay_reinterp({'x0': Fraction(0, 1), 'x3': Fraction(5, 1), 't0': Fraction(1, 134217728), 'x4': Fraction(7, 1), 'x1': Fraction(1, 1), 'x2': Fraction(3, 1)}, **{'mode': False, 'n': 5, 'deg': 3, 'tnames': ['t0', 'x1', 'x2', 'x3', 'x4'], 'm': 1})
except Exception:
    import traceback; traceback.print_exc(); sys.exit(2)
print(r)
sys.exit(1 if r else 0)
