#!/verif/.venv/bin/python
# Replay of a counterexample against the real code in /tmp/wt_interp/src (exit 1 = violation reproduced).
import os, sys
os.environ.setdefault("NUMBA_DISABLE_JIT", "1")
sys.path.insert(0, '/tmp/wt_interp' + "/src"); sys.path.insert(0, '/verif')
from fractions import Fraction
import harness.C42 as H
try:
    r = H.replay_xgrid({'x0': Fraction(1, 2), 'log!4': Fraction(0, 1), 'log!3': Fraction(4, 1), 'c1_0_0_0': Fraction(0, 1), 'w_0_0_1': Fraction(0, 1), 'w_0_0_2': Fraction(-1, 1), 'x1': Fraction(131073, 131072), 'c1_0_0_2': Fraction(-1, 1), 'c1_0_0_1': Fraction(0, 1), 'x2': Fraction(3, 1), 't1': Fraction(1, 1), 'w_0_0_0': Fraction(0, 1), 'log!2': Fraction(2, 1), 'log!1': Fraction(-2, 1)}, **{'mode': True, 'n': 3, 'deg': 1, 'tnames': ['x0', 't1', 'x2'], 'side': 'target'})
except Exception:
    import traceback; traceback.print_exc(); sys.exit(2)
print(r)
sys.exit(1 if r else 0)
