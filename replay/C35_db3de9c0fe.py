#!/verif/.venv/bin/python
# Replay of a counterexample against the real code in /tmp/wt_interp/src (exit 1 = violation reproduced).
import os, sys
os.environ.setdefault("NUMBA_DISABLE_JIT", "1")
sys.path.insert(0, '/tmp/wt_interp' + "/src"); sys.path.insert(0, '/verif')
from fractions import Fraction
import harness.C35 as H
try:
    r = H.replay_integrand({'lx': Fraction(-127, 10), 't': Fraction(3, 4), 'sin!2': Fraction(-2302290423542423760813183247545055291, 2658455991569831745807614120560689152), 'cos!1': Fraction(-1, 2), 'pj_im': Fraction(0, 1), 'pj_re': Fraction(0, 1)}, **{'is_log': True, 'mode0': 100})
except Exception:
    import traceback; traceback.print_exc(); sys.exit(2)
print(r)
sys.exit(1 if r else 0)
