#!/verif/.venv/bin/python
# Replay of a counterexample against the real code in /tmp/wt_flavour/src (exit 1 = violation reproduced).
import os, sys
os.environ.setdefault("NUMBA_DISABLE_JIT", "1")
sys.path.insert(0, '/tmp/wt_flavour' + "/src"); sys.path.insert(0, '/verif')
from fractions import Fraction
import harness.C32 as H
try:
    r = H.replay_map({'m_22_101_00': Fraction(0, 1), 'm_21_21_00': Fraction(0, 1), 'm_22_100_00': Fraction(0, 1), 'm_10200_10200_00': Fraction(0, 1), 'm_21_22_00': Fraction(0, 1), 'm_100_101_00': Fraction(0, 1), 'm_21_100_00': Fraction(0, 1), 'm_101_21_00': Fraction(0, 1), 'm_22_21_00': Fraction(0, 1), 'm_10102_0_00': Fraction(0, 1), 'm_10203_0_00': Fraction(0, 1), 'm_22_22_00': Fraction(0, 1), 'm_10204_10200_00': Fraction(0, 1), 'm_10204_10204_00': Fraction(0, 1), 'm_101_22_00': Fraction(0, 1), 'm_100_100_00': Fraction(0, 1), 'm_100_21_00': Fraction(0, 1), 'm_101_101_00': Fraction(0, 1), 'm_101_100_00': Fraction(0, 1), 'm_10200_10204_00': Fraction(0, 1), 'm_10103_0_00': Fraction(0, 1), 'm_10202_0_00': Fraction(0, 1), 'm_21_101_00': Fraction(0, 1), 'm_100_22_00': Fraction(0, 1)}, **{'kind': 'physical', 'nf': 4, 'qed': True, 'g': 1, 'o': 1})
except Exception:
    import traceback; traceback.print_exc(); sys.exit(2)
print(r)
sys.exit(1 if r else 0)
