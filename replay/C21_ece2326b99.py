#!/verif/.venv/bin/python
# Replay of a counterexample against the real code in /tmp/wt_sv/src (exit 1 = violation reproduced).
import os, sys
os.environ.setdefault("NUMBA_DISABLE_JIT", "1")
sys.path.insert(0, '/tmp/wt_sv' + "/src"); sys.path.insert(0, '/verif')
from fractions import Fraction
import harness.C21 as H
try:
    r = H.replay_expanded_qed({'g01_00': Fraction(1, 1), 'L': Fraction(1, 1), 'e_em': Fraction(1, 1)}, **{'kind': 'valence', 'order': [2, 2], 'nf': None, 'nl': 3, 'running': True})
except Exception:
    import traceback; traceback.print_exc(); sys.exit(2)
print(r)
sys.exit(1 if r else 0)
