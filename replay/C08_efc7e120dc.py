#!/verif/.venv/bin/python
# Replay of a counterexample against the real code in /repo/src (exit 1 = violation reproduced).
import os, sys
os.environ.setdefault("NUMBA_DISABLE_JIT", "1")
sys.path.insert(0, '/repo' + "/src"); sys.path.insert(0, '/verif')
from fractions import Fraction
import harness.C08 as H
try:
    r = H.replay_ns({'alpha0': Fraction(17, 1000), 'alpha1': Fraction(19, 500), 'beta0': Fraction(8953, 1000), 'b1': Fraction(5969, 1000), 'b2': Fraction(28301, 1000), 'b3': Fraction(66451, 500), 'g0': Fraction(-307, 200), 'g0_00': Fraction(69, 100), 'g0_01': Fraction(-281, 200), 'g0_10': Fraction(2797, 1000), 'g0_11': Fraction(1147, 1000), 'g1': Fraction(1259, 125), 'g1_00': Fraction(-891, 250), 'g1_01': Fraction(789, 250), 'g1_10': Fraction(-1903, 250), 'g1_11': Fraction(-749, 125), 'g2': Fraction(-2892, 125), 'g2_00': Fraction(4116, 125), 'g2_01': Fraction(2352, 125), 'g2_10': Fraction(358, 125), 'g2_11': Fraction(-1198, 125), 'g3': Fraction(-6136, 125), 'g3_00': Fraction(-3664, 25), 'g3_01': Fraction(5464, 125), 'g3_10': Fraction(-1056, 125), 'g3_11': Fraction(24, 25)}, **{'method': 'truncated', 'order': 4})
except Exception:
    import traceback; traceback.print_exc(); sys.exit(2)
print(r)
sys.exit(1 if r else 0)
