#!/verif/.venv/bin/python
# Replay of a counterexample against the real code in /tmp/wt_interp/src (exit 1 = violation reproduced).
import os, sys
os.environ.setdefault("NUMBA_DISABLE_JIT", "1")
sys.path.insert(0, '/tmp/wt_interp' + "/src"); sys.path.insert(0, '/verif')
from fractions import Fraction
import harness.C42 as H
try:
    r = H.replay_xgrid({'x0': Fraction(1, 2), 's2': Fraction(7, 8), 's3': Fraction(3, 2), 'log!5': Fraction(-5, 1), 'w_0_2_0': Fraction(0, 1), 's0': Fraction(1, 4), 'O_0_1_0_0': Fraction(0, 1), 'log!3': Fraction(0, 1), 'log!7': Fraction(-1, 1), 'log!8': Fraction(2, 1), 'x1': Fraction(3, 4), 'x2': Fraction(1, 1), 'O_0_3_0_1': Fraction(0, 1), 'O_0_3_0_0': Fraction(0, 1), 'O_0_2_0_0': Fraction(0, 1), 'O_0_1_0_1': Fraction(0, 1), 'w_0_1_0': Fraction(0, 1), 'x3': Fraction(2, 1), 'O_0_1_0_2': Fraction(0, 1), 'log!4': Fraction(4, 1), 'log!6': Fraction(-3, 1), 'O_0_2_0_1': Fraction(0, 1), 'O_0_3_0_2': Fraction(-1, 1), 'log!1': Fraction(-4, 1), 'O_0_0_0_2': Fraction(0, 1), 'O_0_0_0_1': Fraction(0, 1), 'w_0_3_0': Fraction(-1, 1), 's1': Fraction(5, 8), 'O_0_2_0_2': Fraction(0, 1), 'w_0_0_0': Fraction(0, 1), 'log!2': Fraction(-2, 1), 'O_0_0_0_0': Fraction(0, 1)}, **{'mode': True, 'n': 4, 'deg': 2, 'tnames': ['s0', 's1', 's2', 's3', 'x3'], 'side': 'input'})
except Exception:
    import traceback; traceback.print_exc(); sys.exit(2)
print(r)
sys.exit(1 if r else 0)
