#!/verif/.venv/bin/python
# Replay of a counterexample against the real code in /tmp/wt_couplings/src (exit 1 = violation reproduced).
import os, sys
os.environ.setdefault("NUMBA_DISABLE_JIT", "1")
sys.path.insert(0, '/tmp/wt_couplings' + "/src"); sys.path.insert(0, '/verif')
from fractions import Fraction
import harness.cplkit as H
try:
    r = H.replay_multi({'beta0': Fraction(1, 2), 'a_s': Fraction(1, 1), 'beta1': Fraction(0, 1), 'a_em': Fraction(1, 1), 'betaqed0': Fraction(-1, 1), 'u': Fraction(1, 1)}, **{'mod': 'harness.C15', 'fn': 'replay_compute', 'extra': [{'alpha': Fraction(27, 1000), 'alphaem': Fraction(9, 20000), 'aem': Fraction(37, 50000), 'X': Fraction(1039, 500), 'lmu': Fraction(2873, 1000), 'a_s': Fraction(1, 40), 'a_em': Fraction(53, 100000), 'u': Fraction(1087, 250), 'nf': Fraction(4, 1)}, {'alpha': Fraction(13, 500), 'alphaem': Fraction(31, 100000), 'aem': Fraction(71, 100000), 'X': Fraction(-281, 1000), 'lmu': Fraction(899, 1000), 'a_s': Fraction(1, 125), 'a_em': Fraction(7, 25000), 'u': Fraction(797, 200), 'nf': Fraction(4, 1)}, {'alpha': Fraction(23, 1000), 'alphaem': Fraction(71, 100000), 'aem': Fraction(71, 100000), 'X': Fraction(1909, 500), 'lmu': Fraction(94, 125), 'a_s': Fraction(27, 1000), 'a_em': Fraction(67, 100000), 'u': Fraction(-3, 8), 'nf': Fraction(4, 1)}, {'alpha': Fraction(23, 1000), 'alphaem': Fraction(33, 50000), 'aem': Fraction(71, 100000), 'X': Fraction(1009, 1000), 'lmu': Fraction(151, 200), 'a_s': Fraction(13, 1000), 'a_em': Fraction(23, 100000), 'u': Fraction(1913, 1000), 'nf': Fraction(4, 1)}], 'kw': {'order': [2, 0], 'em_running': False, 'method': 'exact'}})
except Exception:
    import traceback; traceback.print_exc(); sys.exit(2)
print(r)
sys.exit(1 if r else 0)
