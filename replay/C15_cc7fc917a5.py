#!/verif/.venv/bin/python
# Replay of a counterexample against the real code in /tmp/wt_couplings/src (exit 1 = violation reproduced).
import os, sys
os.environ.setdefault("NUMBA_DISABLE_JIT", "1")
sys.path.insert(0, '/tmp/wt_couplings' + "/src"); sys.path.insert(0, '/verif')
from fractions import Fraction
import harness.cplkit as H
try:
    r = H.replay_multi({'alpha': Fraction(1, 1), 'beta0': Fraction(1, 1), 'X': Fraction(-1, 2), 'b2': Fraction(-1, 1), 'b3': Fraction(0, 1)}, **{'mod': 'harness.C15', 'fn': 'replay_expanded_fn', 'extra': [{'alpha': Fraction(3, 200), 'alphaem': Fraction(1, 2500), 'aem': Fraction(21, 50000), 'X': Fraction(307, 200), 'lmu': Fraction(-411, 500), 'a_s': Fraction(13, 500), 'a_em': Fraction(7, 10000), 'u': Fraction(1127, 250), 'nf': Fraction(5, 1)}, {'alpha': Fraction(11, 500), 'alphaem': Fraction(19, 25000), 'aem': Fraction(21, 50000), 'X': Fraction(101, 200), 'lmu': Fraction(-99, 250), 'a_s': Fraction(2, 125), 'a_em': Fraction(51, 100000), 'u': Fraction(23, 10), 'nf': Fraction(4, 1)}, {'alpha': Fraction(27, 1000), 'alphaem': Fraction(21, 50000), 'aem': Fraction(77, 100000), 'X': Fraction(-1581, 1000), 'lmu': Fraction(1221, 500), 'a_s': Fraction(1, 125), 'a_em': Fraction(79, 100000), 'u': Fraction(803, 500), 'nf': Fraction(3, 1)}, {'alpha': Fraction(1, 50), 'alphaem': Fraction(63, 100000), 'aem': Fraction(31, 50000), 'X': Fraction(613, 500), 'lmu': Fraction(2677, 1000), 'a_s': Fraction(1, 125), 'a_em': Fraction(77, 100000), 'u': Fraction(697, 250), 'nf': Fraction(6, 1)}], 'kw': {'n': 4, 'via': 'expanded_qcd', 'counting': 'A'}})
except Exception:
    import traceback; traceback.print_exc(); sys.exit(2)
print(r)
sys.exit(1 if r else 0)
