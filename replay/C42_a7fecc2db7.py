#!/verif/.venv/bin/python
# Replay of a counterexample against the real code in /tmp/wt_interp/src (exit 1 = violation reproduced).
import os, sys
os.environ.setdefault("NUMBA_DISABLE_JIT", "1")
sys.path.insert(0, '/tmp/wt_interp' + "/src"); sys.path.insert(0, '/verif')
from fractions import Fraction
import harness.C42 as H
try:
    r = H.replay_xgrid({'x0': Fraction(1, 2), 'log!4': Fraction(4, 1), 't2': Fraction(2, 1), 'log!5': Fraction(0, 1), 'log!6': Fraction(2, 1), 'c2_0_0_1': Fraction(-1, 1), 'log!1': Fraction(-2, 1), 'log!3': Fraction(3, 2), 'w_0_0_1': Fraction(-1, 1), 'x1': Fraction(5, 4), 'x2': Fraction(3, 2), 'w_0_0_3': Fraction(0, 1), 'c2_0_0_2': Fraction(0, 1), 'w_0_0_2': Fraction(0, 1), 't1': Fraction(1, 1), 'c2_0_0_0': Fraction(0, 1), 'w_0_0_0': Fraction(0, 1), 'x3': Fraction(3, 1), 'log!2': Fraction(1, 1), 'c2_0_0_3': Fraction(0, 1)}, **{'mode': True, 'n': 4, 'deg': 2, 'tnames': ['x0', 't1', 't2', 'x3'], 'side': 'target'})
except Exception:
    import traceback; traceback.print_exc(); sys.exit(2)
print(r)
sys.exit(1 if r else 0)
