#!/verif/.venv/bin/python
# Replay of a counterexample against the real code in /tmp/wt_io/src (exit 1 = violation reproduced).
import os, sys
os.environ.setdefault("NUMBA_DISABLE_JIT", "1")
sys.path.insert(0, '/tmp/wt_io' + "/src"); sys.path.insert(0, '/verif')
from fractions import Fraction
import harness.C37 as H
try:
    r = H.replay_approx({'rtol': '1', 'x': '1', 'atol': '0', 's0': '2', 's1': '1/4', 'samenf1': 'True', 'samenf0': 'True'}, **{'n': 2, 'same': [True, True], 'defaults': False})
except Exception:
    import traceback; traceback.print_exc(); sys.exit(2)
print(r)
sys.exit(1 if r else 0)
