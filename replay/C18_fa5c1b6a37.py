#!/verif/.venv/bin/python
# Replay of a counterexample against the real code in /tmp/wt_couplings/src (exit 1 = violation reproduced).
import os, sys
os.environ.setdefault("NUMBA_DISABLE_JIT", "1")
sys.path.insert(0, '/tmp/wt_couplings' + "/src"); sys.path.insert(0, '/verif')
from fractions import Fraction
import harness.cplkit as H
try:
    r = H.replay_multi({'Lq': Fraction(1, 1)}, **{'mod': 'harness.C18', 'fn': 'replay_table', 'extra': [{'alpha0': Fraction(1, 100), 'alpha1': Fraction(3, 250), 'a0': Fraction(27, 1000), 'a1': Fraction(3, 250), 'A': Fraction(3, 250), 'Lq': Fraction(-136, 125), 'Lc': Fraction(-727, 1000), 'Lb': Fraction(939, 1000), 'Lt': Fraction(-203, 250), 'nf': Fraction(5, 1), 'x0': Fraction(431, 100), 'm2_ref': Fraction(1599, 125)}, {'alpha0': Fraction(13, 1000), 'alpha1': Fraction(11, 1000), 'a0': Fraction(11, 500), 'a1': Fraction(17, 1000), 'A': Fraction(17, 1000), 'Lq': Fraction(-483, 500), 'Lc': Fraction(-73, 250), 'Lb': Fraction(-327, 250), 'Lt': Fraction(-769, 1000), 'nf': Fraction(3, 1), 'x0': Fraction(302, 125), 'm2_ref': Fraction(4621, 1000)}, {'alpha0': Fraction(11, 1000), 'alpha1': Fraction(11, 500), 'a0': Fraction(7, 250), 'a1': Fraction(1, 50), 'A': Fraction(3, 125), 'Lq': Fraction(129, 100), 'Lc': Fraction(939, 1000), 'Lb': Fraction(-517, 500), 'Lt': Fraction(11, 10), 'nf': Fraction(3, 1), 'x0': Fraction(577, 250), 'm2_ref': Fraction(13769, 500)}, {'alpha0': Fraction(3, 250), 'alpha1': Fraction(13, 500), 'a0': Fraction(11, 1000), 'a1': Fraction(7, 250), 'A': Fraction(19, 1000), 'Lq': Fraction(-669, 1000), 'Lc': Fraction(-26, 25), 'Lb': Fraction(-26, 125), 'Lt': Fraction(611, 1000), 'nf': Fraction(3, 1), 'x0': Fraction(10471, 1000), 'm2_ref': Fraction(17599, 1000)}], 'kw': {'nfl': 3, 'order': 3}})
except Exception:
    import traceback; traceback.print_exc(); sys.exit(2)
print(r)
sys.exit(1 if r else 0)
