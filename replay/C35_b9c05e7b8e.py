#!/verif/.venv/bin/python
# Replay of a counterexample against the real code in /tmp/wt_interp/src (exit 1 = violation reproduced).
import os, sys
os.environ.setdefault("NUMBA_DISABLE_JIT", "1")
sys.path.insert(0, '/tmp/wt_interp' + "/src"); sys.path.insert(0, '/verif')
from fractions import Fraction
import harness.C35 as H
try:
    r = H.replay_lognx({'nr': Fraction(419, 200), 'ni': Fraction(-17, 500), 'umax': Fraction(-843, 1000), 'umin': Fraction(-197, 100), 'lx': Fraction(-2917, 1000), 'ulow': Fraction(-1897, 500), 'lx2': Fraction(-397, 500), 'xmin': Fraction(361, 1000), 'xmax': Fraction(423, 500), 't': Fraction(611, 1000), 'r': Fraction(1637, 1000), 'o': Fraction(1, 1), 'c0': Fraction(-29, 250), 'd0': Fraction(321, 250), 'c1': Fraction(-263, 1000), 'd1': Fraction(1373, 1000), 'c2': Fraction(-321, 250), 'd2': Fraction(-667, 500), 'c3': Fraction(329, 200), 'd3': Fraction(-33, 500), 'c4': Fraction(13, 250), 'd4': Fraction(359, 200), 'c5': Fraction(-329, 200), 'd5': Fraction(237, 1000)}, **{'deg': 1, 'kind': 'top'})
except Exception:
    import traceback; traceback.print_exc(); sys.exit(2)
print(r)
sys.exit(1 if r else 0)
