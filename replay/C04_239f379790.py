#!/verif/.venv/bin/python
# Replay of a counterexample against the real code in /tmp/wt_sv/src (exit 1 = violation reproduced).
import os, sys
os.environ.setdefault("NUMBA_DISABLE_JIT", "1")
sys.path.insert(0, '/tmp/wt_sv' + "/src"); sys.path.insert(0, '/verif')
from fractions import Fraction
import harness.C04 as H
try:
    r = H.replay_evolution_config({'as0': '1', 'ah0_1': '1', 'ah0_0': '1', 'mu_from': '1', 'mu_to': '1', 'as2': '1', 'ah1_0': '1', 'as1': '1', 'integrand': '-1', 'ah1_1': '1'}, **{'cfg': {'order': (4, 0), 'method': 'ITERATE_EXACT', 'sv': 'expanded', 'thr': False, 'pol': False, 'tl': False, 'running': True, 'fhm': True, 'nf': 4}})
except Exception:
    import traceback; traceback.print_exc(); sys.exit(2)
print(r)
sys.exit(1 if r else 0)
