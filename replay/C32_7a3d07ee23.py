#!/verif/.venv/bin/python
# Replay of a counterexample against the real code in /tmp/wt_flavour/src (exit 1 = violation reproduced).
import os, sys
os.environ.setdefault("NUMBA_DISABLE_JIT", "1")
sys.path.insert(0, '/tmp/wt_flavour' + "/src"); sys.path.insert(0, '/verif')
from fractions import Fraction
import harness.C32 as H
try:
    r = H.replay_map({'m_200_200_10': Fraction(0, 1), 'm_21_21_00': Fraction(0, 1), 'm_100_21_01': Fraction(0, 1), 'm_200_200_11': Fraction(0, 1), 'm_100_100_11': Fraction(0, 1), 'm_90_100_01': Fraction(0, 1), 'm_90_21_01': Fraction(0, 1), 'm_21_21_01': Fraction(0, 1), 'm_91_91_11': Fraction(0, 1), 'm_90_21_10': Fraction(0, 1), 'm_100_90_00': Fraction(0, 1), 'm_91_91_10': Fraction(0, 1), 'm_90_21_11': Fraction(0, 1), 'm_100_21_10': Fraction(0, 1), 'm_100_21_11': Fraction(0, 1), 'm_21_100_11': Fraction(0, 1), 'm_100_100_00': Fraction(0, 1), 'm_100_21_00': Fraction(0, 1), 'm_90_100_10': Fraction(0, 1), 'm_90_90_00': Fraction(0, 1), 'm_100_90_11': Fraction(0, 1), 'm_90_90_10': Fraction(0, 1), 'm_200_200_01': Fraction(0, 1), 'm_21_90_10': Fraction(0, 1), 'm_100_90_10': Fraction(0, 1), 'm_21_100_10': Fraction(0, 1), 'm_200_200_00': Fraction(0, 1), 'm_100_100_01': Fraction(0, 1), 'm_21_90_00': Fraction(0, 1), 'm_91_91_01': Fraction(0, 1), 'm_21_100_00': Fraction(0, 1), 'm_90_100_00': Fraction(0, 1), 'm_90_100_11': Fraction(0, 1), 'm_21_90_11': Fraction(0, 1), 'm_90_21_00': Fraction(0, 1), 'm_21_21_10': Fraction(0, 1), 'm_21_21_11': Fraction(0, 1), 'm_21_100_01': Fraction(0, 1), 'm_90_90_01': Fraction(0, 1), 'm_90_90_11': Fraction(0, 1), 'm_100_90_01': Fraction(0, 1), 'm_91_91_00': Fraction(0, 1), 'm_21_90_01': Fraction(0, 1), 'm_100_100_10': Fraction(0, 1)}, **{'kind': 'matching', 'nf': 3, 'qed': True, 'g': 2, 'o': 0})
except Exception:
    import traceback; traceback.print_exc(); sys.exit(2)
print(r)
sys.exit(1 if r else 0)
