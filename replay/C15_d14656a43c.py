#!/verif/.venv/bin/python
# Replay of a counterexample against the real code in /tmp/wt_couplings/src (exit 1 = violation reproduced).
import os, sys
os.environ.setdefault("NUMBA_DISABLE_JIT", "1")
sys.path.insert(0, '/tmp/wt_couplings' + "/src"); sys.path.insert(0, '/verif')
from fractions import Fraction
import harness.cplkit as H
try:
    r = H.replay_multi({'a_em': Fraction(1, 1), 'beta3': Fraction(1, 1), 'u': Fraction(-1, 1), 'betaqed0': Fraction(-1, 1), 'beta2': Fraction(0, 1), 'beta0': Fraction(1, 1), 'a_s': Fraction(1, 1)}, **{'mod': 'harness.C15', 'fn': 'replay_compute', 'extra': [{'alpha': Fraction(11, 1000), 'alphaem': Fraction(11, 20000), 'aem': Fraction(31, 100000), 'X': Fraction(-637, 1000), 'lmu': Fraction(1053, 500), 'a_s': Fraction(1, 100), 'a_em': Fraction(3, 12500), 'u': Fraction(5133, 1000), 'nf': Fraction(4, 1)}, {'alpha': Fraction(1, 50), 'alphaem': Fraction(7, 25000), 'aem': Fraction(33, 50000), 'X': Fraction(703, 250), 'lmu': Fraction(1011, 200), 'a_s': Fraction(11, 1000), 'a_em': Fraction(17, 50000), 'u': Fraction(5791, 1000), 'nf': Fraction(6, 1)}, {'alpha': Fraction(9, 1000), 'alphaem': Fraction(17, 25000), 'aem': Fraction(67, 100000), 'X': Fraction(-56, 125), 'lmu': Fraction(4139, 1000), 'a_s': Fraction(13, 500), 'a_em': Fraction(7, 20000), 'u': Fraction(313, 100), 'nf': Fraction(3, 1)}, {'alpha': Fraction(1, 40), 'alphaem': Fraction(39, 50000), 'aem': Fraction(19, 25000), 'X': Fraction(-203, 125), 'lmu': Fraction(-12, 125), 'a_s': Fraction(9, 500), 'a_em': Fraction(17, 50000), 'u': Fraction(2019, 1000), 'nf': Fraction(3, 1)}], 'kw': {'order': [3, 0], 'em_running': True, 'method': 'exact'}})
except Exception:
    import traceback; traceback.print_exc(); sys.exit(2)
print(r)
sys.exit(1 if r else 0)
