#!/verif/.venv/bin/python
# Replay of a counterexample against the real code in /tmp/wt_sv/src (exit 1 = violation reproduced).
import os, sys
os.environ.setdefault("NUMBA_DISABLE_JIT", "1")
sys.path.insert(0, '/tmp/wt_sv' + "/src"); sys.path.insert(0, '/verif')
from fractions import Fraction
import harness.C55 as H
try:
    r = H.replay_matching({'xif2': '1', 'q': '1'}, **{'k': 1, 'sv': None})
except Exception:
    import traceback; traceback.print_exc(); sys.exit(2)
print(r)
sys.exit(1 if r else 0)
