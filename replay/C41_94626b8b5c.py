#!/verif/.venv/bin/python
# Replay of a counterexample against the real code in /tmp/wt_cards/src (exit 1 = violation reproduced).
import os, sys
os.environ.setdefault("NUMBA_DISABLE_JIT", "1")
sys.path.insert(0, '/tmp/wt_cards' + "/src"); sys.path.insert(0, '/verif')
from fractions import Fraction
import harness.C41 as H
try:
    r = H.replay_legacy_operator({'x0': '1', 'Qmt': '1', 'iters': '1', 'cores': '1', 'kcThr': '1981/1024', 'XIF': '1', 'Qmc': '1', 'Qmb': '1', 'ktThr': '3', 'Q0': '1', 'mc': '463/256', 'QED': '0', 'Qref': '1', 'nfref': '3', 'x1': '2', 'x2': '3', 'kbThr': '3583/1024', 'alphas': '1', 'nf0': '3', 'sqrt!1': '5', 'mb': '1', 'aem': '1', 'PTO': '0', 'mt': '19/16', 'maxo': '1', 'deg': '1', 'g0': '25'}, **{'var': {'modev': 1, 'modsv': 1, 'inv': 1, 'grid': 'Q2grid', 'nmu': 1, 'HQ': 'MSBAR'}, 'name': 'method'})
except Exception:
    import traceback; traceback.print_exc(); sys.exit(2)
print(r)
sys.exit(1 if r else 0)
