#!/verif/.venv/bin/python
# Replay of a counterexample against the real code in /tmp/wt_runner/src (exit 1 = violation reproduced).
import os, sys
os.environ.setdefault("NUMBA_DISABLE_JIT", "1")
sys.path.insert(0, '/tmp/wt_runner' + "/src"); sys.path.insert(0, '/verif')
from fractions import Fraction
import harness.C19 as H
try:
    r = H.replay_multi({'t': Fraction(524293, 131072), 'X2': Fraction(3, 1), 'INF': Fraction(6, 1), 'eps': Fraction(1, 1048576), 'M5': Fraction(1, 1), 'M6': Fraction(17, 1), 'mu0': Fraction(1, 1), 'M4': Fraction(1, 1)}, **{'mod': 'harness.C53', 'fn': 'replay_cont', 'extra': [{'M4': Fraction(9, 1), 'M5': Fraction(74, 1), 'M6': Fraction(11700, 1), 'mu0': Fraction(5, 4), 't': Fraction(296, 1), 'eps': Fraction(1, 10000000), 'X2': Fraction(4, 1)}, {'M4': Fraction(6, 1), 'M5': Fraction(54, 1), 'M6': Fraction(8700, 1), 'mu0': Fraction(6, 1), 't': Fraction(2175, 1), 'eps': Fraction(1, 10000000), 'X2': Fraction(4, 1)}, {'M4': Fraction(11, 1), 'M5': Fraction(46, 1), 'M6': Fraction(9900, 1), 'mu0': Fraction(11, 1), 't': Fraction(11, 1), 'eps': Fraction(1, 1000000), 'X2': Fraction(2, 1)}, {'M4': Fraction(7, 1), 'M5': Fraction(46, 1), 'M6': Fraction(8700, 1), 'mu0': Fraction(184, 1), 't': Fraction(7, 1), 'eps': Fraction(1, 1000000), 'X2': Fraction(2, 1)}], 'kw': {'nf0': 3, 'nff': None, 'sv': 'expanded', 'order': [1, 0]}})
except Exception:
    import traceback; traceback.print_exc(); sys.exit(2)
print(r)
sys.exit(1 if r else 0)
