#!/verif/.venv/bin/python
# Replay of a counterexample against the real code in /tmp/wt_interp/src (exit 1 = violation reproduced).
import os, sys
os.environ.setdefault("NUMBA_DISABLE_JIT", "1")
sys.path.insert(0, '/tmp/wt_interp' + "/src"); sys.path.insert(0, '/verif')
from fractions import Fraction
import harness.C42 as H
try:
    r = H.replay_flavor({'Ri_1_0': Fraction(0, 1), 'f_1_1': Fraction(-1, 1), 'O_0_0_1_1': Fraction(-1, 1), 'f_1_0': Fraction(0, 1), 'Ri_1_1': Fraction(3, 1), 'Ri_0_0': Fraction(131073, 131072), 'f_0_0': Fraction(0, 1), 'Ri_0_1': Fraction(0, 1), 'O_0_0_0_0': Fraction(0, 1), 'f_0_1': Fraction(0, 1), 'O_0_0_1_0': Fraction(0, 1), 'O_0_0_0_1': Fraction(0, 1)}, **{'F': 2, 'X': 2, 'sides': 'input'})
except Exception:
    import traceback; traceback.print_exc(); sys.exit(2)
print(r)
sys.exit(1 if r else 0)
