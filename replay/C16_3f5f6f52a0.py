#!/verif/.venv/bin/python
# Replay of a counterexample against the real code in /tmp/wt_couplings/src (exit 1 = violation reproduced).
import os, sys
os.environ.setdefault("NUMBA_DISABLE_JIT", "1")
sys.path.insert(0, '/tmp/wt_couplings' + "/src"); sys.path.insert(0, '/verif')
from fractions import Fraction
import harness.cplkit as H
try:
    r = H.replay_multi({'Lq': Fraction(-3, 2000), 'zeta3': Fraction(2403, 2000)}, **{'mod': 'harness.C16', 'fn': 'replay_rg', 'extra': [{'a': Fraction(23, 1000), 'alpha': Fraction(2, 125), 'aem': Fraction(63, 100000), 'nf': Fraction(5, 1), 'Lc': Fraction(-121, 100), 'Lb': Fraction(143, 1000), 'Lt': Fraction(-1163, 1000), 'Lq': Fraction(-187, 200)}, {'a': Fraction(13, 1000), 'alpha': Fraction(3, 125), 'aem': Fraction(13, 20000), 'nf': Fraction(3, 1), 'Lc': Fraction(-39, 1000), 'Lb': Fraction(-73, 200), 'Lt': Fraction(467, 1000), 'Lq': Fraction(11, 500)}, {'a': Fraction(3, 200), 'alpha': Fraction(7, 250), 'aem': Fraction(13, 25000), 'nf': Fraction(4, 1), 'Lc': Fraction(-74, 125), 'Lb': Fraction(-163, 200), 'Lt': Fraction(341, 250), 'Lq': Fraction(1321, 1000)}, {'a': Fraction(23, 1000), 'alpha': Fraction(2, 125), 'aem': Fraction(39, 50000), 'nf': Fraction(3, 1), 'Lc': Fraction(-129, 125), 'Lb': Fraction(-61, 200), 'Lt': Fraction(46, 125), 'Lq': Fraction(-223, 1000)}], 'kw': {'scheme': 'MSBAR', 'order': 4, 'nfl': 3}})
except Exception:
    import traceback; traceback.print_exc(); sys.exit(2)
print(r)
sys.exit(1 if r else 0)
