#!/verif/.venv/bin/python
# Replay of a counterexample against the real code in /tmp/wt_interp/src (exit 1 = violation reproduced).
import os, sys
os.environ.setdefault("NUMBA_DISABLE_JIT", "1")
sys.path.insert(0, '/tmp/wt_interp' + "/src"); sys.path.insert(0, '/verif')
from fractions import Fraction
import harness.C34 as H
try:
    r = H.replay_basis({'x0': Fraction(1, 1), 'log!4': Fraction(1, 1), 'xe0': Fraction(2, 1), 'log!1': Fraction(0, 1), 'log!2': Fraction(2, 1), 'log!3': Fraction(4, 1), 'x1': Fraction(5, 2), 'x2': Fraction(3, 1)}, **{'mode': True, 'n': 3, 'deg': 1, 'mode_N': False, 'k': 0, 'm': 1})
except Exception:
    import traceback; traceback.print_exc(); sys.exit(2)
print(r)
sys.exit(1 if r else 0)
