#!/verif/.venv/bin/python
# Replay of a counterexample against the real code in /repo/src (exit 1 = violation reproduced).
import os, sys
os.environ.setdefault("NUMBA_DISABLE_JIT", "1")
sys.path.insert(0, '/repo' + "/src"); sys.path.insert(0, '/verif')
from fractions import Fraction
import harness.C45 as H
try:
    r = H.replay_evolve({'mu1': '3/2', 'mu0': '2', 't0': '1', 'x1': '2', 't1': '2', 'x0': '1'}, **{'nfs': [5, 4], 'target': 2, 'members': 1, 'what': 'run'})
except Exception:
    import traceback; traceback.print_exc(); sys.exit(2)
print(r)
sys.exit(1 if r else 0)
