#!/verif/.venv/bin/python
# Replay of a counterexample against the real code in /tmp/wt_mut_SyIaeW/src (exit 1 = violation reproduced).
import os, sys
os.environ.setdefault("NUMBA_DISABLE_JIT", "1")
sys.path.insert(0, '/tmp/wt_mut_SyIaeW' + "/src"); sys.path.insert(0, '/verif')
from fractions import Fraction
import harness.C08 as H
try:
    r = H.replay_ns({'alpha0': Fraction(29, 1000), 'alpha1': Fraction(7, 250), 'beta0': Fraction(7697, 1000), 'b1': Fraction(5499, 1000), 'b2': Fraction(13853, 1000), 'b3': Fraction(1289, 10), 'g0': Fraction(1079, 500), 'g0_00': Fraction(-342, 125), 'g0_01': Fraction(-1071, 1000), 'g0_10': Fraction(-231, 125), 'g0_11': Fraction(179, 200), 'g1': Fraction(583, 125), 'g1_00': Fraction(2031, 250), 'g1_01': Fraction(1029, 250), 'g1_10': Fraction(323, 250), 'g1_11': Fraction(-2543, 250), 'g2': Fraction(-5156, 125), 'g2_00': Fraction(-962, 25), 'g2_01': Fraction(5398, 125), 'g2_10': Fraction(-1424, 125), 'g2_11': Fraction(654, 25), 'g3': Fraction(7416, 125), 'g3_00': Fraction(1416, 25), 'g3_01': Fraction(-8688, 125), 'g3_10': Fraction(-4312, 125), 'g3_11': Fraction(18816, 125)}, **{'method': 'truncated', 'order': 3})
except Exception:
    import traceback; traceback.print_exc(); sys.exit(2)
print(r)
sys.exit(1 if r else 0)
