#!/verif/.venv/bin/python
# Replay of a counterexample against the real code in /repo/src (exit 1 = violation reproduced).
import os, sys
os.environ.setdefault("NUMBA_DISABLE_JIT", "1")
sys.path.insert(0, '/repo' + "/src"); sys.path.insert(0, '/verif')
from fractions import Fraction
import harness.C09 as H
try:
    r = H.replay({'g0_00': Fraction(0, 1), 'g1_00': Fraction(0, 1), 'a0': Fraction(1, 16), 'g3_00': Fraction(0, 1), 'a1': Fraction(1, 32), 'log!3': Fraction(-1, 1), 'g0_11': Fraction(-26, 1), 'g2_00': Fraction(-1, 1), 'exp!4': Fraction(1, 1)}, **{'order': 4, 'nf': 4, 'method': 'TRUNCATED'})
except Exception:
    import traceback; traceback.print_exc(); sys.exit(2)
print(r)
sys.exit(1 if r else 0)
