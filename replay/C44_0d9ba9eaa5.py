#!/verif/.venv/bin/python
# Replay of a counterexample against the real code in /tmp/wt_ekobox2/src (exit 1 = violation reproduced).
import os, sys
os.environ.setdefault("NUMBA_DISABLE_JIT", "1")
sys.path.insert(0, '/tmp/wt_ekobox2' + "/src"); sys.path.insert(0, '/verif')
from fractions import Fraction
import harness.C44 as H
try:
    r = H.replay_product({'A_0_1_0_0': Fraction(0, 1), 'A_1_1_0_0': Fraction(0, 1), 'A_1_1_0_1': Fraction(0, 1), 'A_0_1_1_0': Fraction(0, 1), 'A_0_0_1_1': Fraction(0, 1), 'A_1_1_1_0': Fraction(0, 1), 'A_1_0_1_1': Fraction(0, 1), 'A_0_0_0_1': Fraction(-1, 1), 'A_0_1_1_1': Fraction(0, 1), 'A_0_0_1_0': Fraction(0, 1), 'A_1_0_0_0': Fraction(0, 1), 'A_1_0_0_1': Fraction(0, 1), 'B0_1_0_1_1': Fraction(1, 1), 'B0_1_1_1_0': Fraction(1, 1), 'B0_0_1_1_1': Fraction(1, 1), 'B0_0_1_1_0': Fraction(1, 1), 'B0_1_1_0_1': Fraction(1, 1), 'B0_1_0_0_1': Fraction(1, 1), 'B0_0_0_1_1': Fraction(1, 1), 'B0_0_0_1_0': Fraction(1, 1), 'B0_0_0_0_1': Fraction(1, 1), 'B0_1_1_0_0': Fraction(1, 1), 'B0_1_0_0_0': Fraction(1, 1), 'B0_0_1_0_0': Fraction(1, 1)}, **{'d': [2, 2], 'err1': False, 'err2': False})
except Exception:
    import traceback; traceback.print_exc(); sys.exit(2)
print(r)
sys.exit(1 if r else 0)
