#!/verif/.venv/bin/python
# Replay of a counterexample against the real code in /tmp/wt_interp/src (exit 1 = violation reproduced).
import os, sys
os.environ.setdefault("NUMBA_DISABLE_JIT", "1")
sys.path.insert(0, '/tmp/wt_interp' + "/src"); sys.path.insert(0, '/verif')
from fractions import Fraction
import harness.C35 as H
try:
    r = H.replay_lognx({'cos!8': Fraction(-1, 1), 'exp!7': Fraction(1, 1), 'nr': Fraction(1, 2), 'sin!3': Fraction(0, 1), 'umin': Fraction(-1, 281474976710656), 'sin!9': Fraction(0, 1), 'c1': Fraction(0, 1), 'sqrt!10': Fraction(1, 562949953421312), 'ulow': Fraction(-2, 1), 'cos!2': Fraction(-1, 1), 'c0': Fraction(-1, 1), 'cos!5': Fraction(0, 1), 'ni': Fraction(0, 1), 'sin!6': Fraction(-1, 1), 'lx': Fraction(-1, 1)}, **{'deg': 1, 'kind': 'top'})
except Exception:
    import traceback; traceback.print_exc(); sys.exit(2)
print(r)
sys.exit(1 if r else 0)
