#!/verif/.venv/bin/python
# Replay of a counterexample against the real code in /tmp/wt_sv/src (exit 1 = violation reproduced).
import os, sys
os.environ.setdefault("NUMBA_DISABLE_JIT", "1")
sys.path.insert(0, '/tmp/wt_sv' + "/src"); sys.path.insert(0, '/verif')
from fractions import Fraction
import harness.C55 as H
try:
    r = H.replay_AB({'as0': Fraction(1, 1), 'u0486644db0a7_0r': Fraction(1, 1), 'as1': Fraction(1, 1), 'integrand': Fraction(1, 1), 'as2': Fraction(2, 1), 'u658e2787cc95_0r': Fraction(0, 1)}, **{'cfg': {'order': (4, 0), 'method': 'DECOMPOSE_EXACT', 'sv': 'exponentiated', 'thr': False, 'nf': 4}, 'label': [100, 100], 'setting': 'it'})
except Exception:
    import traceback; traceback.print_exc(); sys.exit(2)
print(r)
sys.exit(1 if r else 0)
