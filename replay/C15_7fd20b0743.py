#!/verif/.venv/bin/python
# Replay of a counterexample against the real code in /tmp/wt_couplings/src (exit 1 = violation reproduced).
import os, sys
os.environ.setdefault("NUMBA_DISABLE_JIT", "1")
sys.path.insert(0, '/tmp/wt_couplings' + "/src"); sys.path.insert(0, '/verif')
from fractions import Fraction
import harness.cplkit as H
try:
    r = H.replay_multi({'a_em': Fraction(1, 2048), 'u': Fraction(1, 1), 'a_s': Fraction(1, 64)}, **{'mod': 'harness.C15', 'fn': 'replay_compute', 'extra': [{'a_s': Fraction(1, 50), 'a_em': Fraction(3, 5000), 'u': Fraction(1, 1)}, {'alpha': Fraction(11, 500), 'alphaem': Fraction(11, 20000), 'aem': Fraction(3, 10000), 'X': Fraction(2777, 500), 'lmu': Fraction(5983, 1000), 'a_s': Fraction(19, 1000), 'a_em': Fraction(51, 100000), 'u': Fraction(-343, 500), 'nf': Fraction(6, 1)}, {'alpha': Fraction(9, 1000), 'alphaem': Fraction(23, 100000), 'aem': Fraction(31, 100000), 'X': Fraction(-1031, 1000), 'lmu': Fraction(1431, 1000), 'a_s': Fraction(1, 125), 'a_em': Fraction(3, 10000), 'u': Fraction(-669, 1000), 'nf': Fraction(4, 1)}, {'alpha': Fraction(13, 500), 'alphaem': Fraction(29, 100000), 'aem': Fraction(3, 5000), 'X': Fraction(-409, 500), 'lmu': Fraction(21, 125), 'a_s': Fraction(9, 500), 'a_em': Fraction(13, 50000), 'u': Fraction(1317, 250), 'nf': Fraction(3, 1)}, {'alpha': Fraction(1, 50), 'alphaem': Fraction(31, 50000), 'aem': Fraction(27, 100000), 'X': Fraction(127, 500), 'lmu': Fraction(-207, 500), 'a_s': Fraction(17, 1000), 'a_em': Fraction(77, 100000), 'u': Fraction(1083, 1000), 'nf': Fraction(3, 1)}], 'kw': {'order': [3, 0], 'em_running': False, 'method': 'exact'}})
except Exception:
    import traceback; traceback.print_exc(); sys.exit(2)
print(r)
sys.exit(1 if r else 0)
