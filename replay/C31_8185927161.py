#!/verif/.venv/bin/python
# Replay of a counterexample against the real code in /tmp/wt_flavour/src (exit 1 = violation reproduced).
import os, sys
os.environ.setdefault("NUMBA_DISABLE_JIT", "1")
sys.path.insert(0, '/tmp/wt_flavour' + "/src"); sys.path.insert(0, '/verif')
from fractions import Fraction
import harness.C31 as H
try:
    r = H.replay_available({}, **{'qed': True, 'pairs': [(3, (22, 21)), (3, (22, 22)), (3, (22, 100)), (3, (22, 101)), (4, (22, 21)), (4, (22, 22)), (4, (22, 100)), (4, (22, 101)), (5, (22, 21)), (5, (22, 22)), (5, (22, 100)), (5, (22, 101)), (6, (22, 21)), (6, (22, 22)), (6, (22, 100)), (6, (22, 101))]})
except Exception:
    import traceback; traceback.print_exc(); sys.exit(2)
print(r)
sys.exit(1 if r else 0)
