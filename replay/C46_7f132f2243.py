#!/verif/.venv/bin/python
# Replay of a counterexample against the real code in /tmp/wt_ekobox/src (exit 1 = violation reproduced).
import os, sys
os.environ.setdefault("NUMBA_DISABLE_JIT", "1")
sys.path.insert(0, '/tmp/wt_ekobox' + "/src"); sys.path.insert(0, '/verif')
from fractions import Fraction
import harness.C46 as H
try:
    r = H.replay_project({'abs!2': Fraction(1, 1), 'a': Fraction(-1, 1), 'abs!4': Fraction(1, 1), 'abs!3': Fraction(1, 1), 'b': Fraction(-1, 1), 's': Fraction(-1, 1), 'd0_1_1': Fraction(1, 1), 'abs!6': Fraction(1, 1), 'd0_0_1': Fraction(1, 1), 'abs!1': Fraction(1, 1), 'abs!5': Fraction(1, 1)}, **{'basis': 'custom', 'kind': 'rot2'})
except Exception:
    import traceback; traceback.print_exc(); sys.exit(2)
print(r)
sys.exit(1 if r else 0)
