#!/verif/.venv/bin/python
# Replay of a counterexample against the real code in /tmp/wt_cards/src (exit 1 = violation reproduced).
import os, sys
os.environ.setdefault("NUMBA_DISABLE_JIT", "1")
sys.path.insert(0, '/tmp/wt_cards' + "/src"); sys.path.insert(0, '/verif')
from fractions import Fraction
import harness.C41 as H
try:
    r = H.replay_legacy_theory({'alphas': '1', 'Q0': '1', 'Qmb': '1/4', 'Qref': '1', 'x0': '1/4', 'g0': '1', 'iters': '1', 'cores': '1', 'Qmt': '1', 'PTO': '0', 'QED': '0', 'nf0': '3', 'nfref': '3', 'ktThr': '1', 'kbThr': '1', 'mt': '1', 'kcThr': '1', 'x1': '1/2', 'XIF': '1', 'mb': '1/2', 'mc': '1', 'aem': '1', 'Qmc': '1', 'maxo': '1', 'deg': '1'}, **{'var': {'HQ': 'MSBAR', 'aem': 'alphaqed', 'extras': False, 'qedref': False}, 'name': 'mass.b.scale'})
except Exception:
    import traceback; traceback.print_exc(); sys.exit(2)
print(r)
sys.exit(1 if r else 0)
