#!/verif/.venv/bin/python
# Replay of a counterexample against the real code in /tmp/wt_sv/src (exit 1 = violation reproduced).
import os, sys
os.environ.setdefault("NUMBA_DISABLE_JIT", "1")
sys.path.insert(0, '/tmp/wt_sv' + "/src"); sys.path.insert(0, '/verif')
from fractions import Fraction
import harness.C21 as H
try:
    r = H.replay_exponentiated({'bqcd_3_0': Fraction(1, 1), 'g0': Fraction(1, 1), 'L': Fraction(1, 1), 'bqcd_2_0': Fraction(1, 1)}, **{'kind': 'ns', 'order': 4, 'nf': None})
except Exception:
    import traceback; traceback.print_exc(); sys.exit(2)
print(r)
sys.exit(1 if r else 0)
