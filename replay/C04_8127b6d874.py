#!/verif/.venv/bin/python
# Replay of a counterexample against the real code in /tmp/wt_sv/src (exit 1 = violation reproduced).
import os, sys
os.environ.setdefault("NUMBA_DISABLE_JIT", "1")
sys.path.insert(0, '/tmp/wt_sv' + "/src"); sys.path.insert(0, '/verif')
from fractions import Fraction
import harness.C04 as H
try:
    r = H.replay_matching({'g3': '0', 'g2': '0', 'g1': '0', 'a_s': '1', 'g4': '0', 'integrand': '1'}, **{'cfg': {'order': (1, 0), 'backward': 'BACKWARD_EXACT', 'sv': 'expanded', 'msbar': False, 'pol': False, 'tl': False, 'nf': 5}, 'label': [91, 91]})
except Exception:
    import traceback; traceback.print_exc(); sys.exit(2)
print(r)
sys.exit(1 if r else 0)
