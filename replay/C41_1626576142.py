#!/verif/.venv/bin/python
# Replay of a counterexample against the real code in /tmp/wt_cards/src (exit 1 = violation reproduced).
import os, sys
os.environ.setdefault("NUMBA_DISABLE_JIT", "1")
sys.path.insert(0, '/tmp/wt_cards' + "/src"); sys.path.insert(0, '/verif')
from fractions import Fraction
import harness.C41 as H
try:
    r = H.replay_legacy_operator({'x0': '1', 'cores': '1', 'iters': '1', 'maxo': '1', 'kcThr': '1', 'Qmb': '1', 'ktThr': '7167/2048', 'Qmt': '1', 'mt': '2249/4096', 'mc': '1', 'alphas': '1', 'QED': '0', 'nf0': '3', 'nfref': '3', 'x1': '2', 'x2': '3', 'g0': '1', 'kbThr': '3935/2048', 'aem': '1', 'mb': '1', 'Qmc': '1', 'PTO': '0', 'XIF': '1', 'Q0': '1', 'Qref': '1', 'deg': '1'}, **{'var': {'modev': 0, 'modsv': 0, 'inv': 0, 'grid': 'mugrid', 'nmu': 1, 'HQ': 'POLE'}, 'name': None})
except Exception:
    import traceback; traceback.print_exc(); sys.exit(2)
print(r)
sys.exit(1 if r else 0)
