#!/verif/.venv/bin/python
# Replay of a counterexample against the real code in /tmp/wt_couplings/src (exit 1 = violation reproduced).
import os, sys
os.environ.setdefault("NUMBA_DISABLE_JIT", "1")
sys.path.insert(0, '/tmp/wt_couplings' + "/src"); sys.path.insert(0, '/verif')
from fractions import Fraction
import harness.cplkit as H
try:
    r = H.replay_multi({'zeta3': Fraction(2403, 2000)}, **{'mod': 'harness.C16', 'fn': 'replay_rg', 'extra': [{'a': Fraction(1, 100), 'alpha': Fraction(23, 1000), 'aem': Fraction(1, 2500), 'nf': Fraction(5, 1), 'Lc': Fraction(-747, 1000), 'Lb': Fraction(297, 1000), 'Lt': Fraction(-13, 1000), 'Lq': Fraction(687, 1000)}, {'a': Fraction(3, 200), 'alpha': Fraction(19, 1000), 'aem': Fraction(3, 5000), 'nf': Fraction(5, 1), 'Lc': Fraction(-81, 200), 'Lb': Fraction(1261, 1000), 'Lt': Fraction(-17, 40), 'Lq': Fraction(-1133, 1000)}, {'a': Fraction(1, 40), 'alpha': Fraction(19, 1000), 'aem': Fraction(9, 12500), 'nf': Fraction(4, 1), 'Lc': Fraction(41, 50), 'Lb': Fraction(-27, 20), 'Lt': Fraction(139, 250), 'Lq': Fraction(153, 500)}, {'a': Fraction(17, 1000), 'alpha': Fraction(23, 1000), 'aem': Fraction(61, 100000), 'nf': Fraction(5, 1), 'Lc': Fraction(161, 200), 'Lb': Fraction(-1251, 1000), 'Lt': Fraction(301, 250), 'Lq': Fraction(33, 200)}], 'kw': {'scheme': 'POLE', 'order': 3, 'nfl': 3}})
except Exception:
    import traceback; traceback.print_exc(); sys.exit(2)
print(r)
sys.exit(1 if r else 0)
