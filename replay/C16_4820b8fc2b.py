#!/verif/.venv/bin/python
# Replay of a counterexample against the real code in /tmp/wt_couplings/src (exit 1 = violation reproduced).
import os, sys
os.environ.setdefault("NUMBA_DISABLE_JIT", "1")
sys.path.insert(0, '/tmp/wt_couplings' + "/src"); sys.path.insert(0, '/verif')
from fractions import Fraction
import harness.cplkit as H
try:
    r = H.replay_multi({'nf': Fraction(3, 1)}, **{'mod': 'harness.C16', 'fn': 'replay_table', 'extra': [{'nf': Fraction(3, 1)}, {'nf': Fraction(4, 1)}, {'nf': Fraction(5, 1)}, {'a': Fraction(1, 125), 'alpha': Fraction(9, 1000), 'aem': Fraction(49, 100000), 'nf': Fraction(4, 1), 'Lc': Fraction(-397, 1000), 'Lb': Fraction(-179, 250), 'Lt': Fraction(111, 125), 'Lq': Fraction(27, 20)}, {'a': Fraction(1, 100), 'alpha': Fraction(13, 1000), 'aem': Fraction(27, 50000), 'nf': Fraction(4, 1), 'Lc': Fraction(-223, 200), 'Lb': Fraction(163, 500), 'Lt': Fraction(659, 500), 'Lq': Fraction(-63, 200)}, {'a': Fraction(3, 125), 'alpha': Fraction(1, 40), 'aem': Fraction(19, 25000), 'nf': Fraction(5, 1), 'Lc': Fraction(-267, 250), 'Lb': Fraction(-247, 500), 'Lt': Fraction(-111, 200), 'Lq': Fraction(-801, 1000)}, {'a': Fraction(7, 250), 'alpha': Fraction(3, 250), 'aem': Fraction(1, 2500), 'nf': Fraction(5, 1), 'Lc': Fraction(221, 250), 'Lb': Fraction(1149, 1000), 'Lt': Fraction(1021, 1000), 'Lq': Fraction(-241, 250)}], 'kw': {'scheme': 'POLE', 'which': 'down', 'n': 2, 'l': 1}})
except Exception:
    import traceback; traceback.print_exc(); sys.exit(2)
print(r)
sys.exit(1 if r else 0)
