#!/verif/.venv/bin/python
# Replay of a counterexample against the real code in /tmp/wt_mut_tD4xT6/src (exit 1 = violation reproduced).
import os, sys
os.environ.setdefault("NUMBA_DISABLE_JIT", "1")
sys.path.insert(0, '/tmp/wt_mut_tD4xT6' + "/src"); sys.path.insert(0, '/verif')
from fractions import Fraction
import harness.C07 as H
try:
    r = H.replay_qed({'a0': Fraction(3, 125), 'a1': Fraction(33, 1000), 'beta0': Fraction(6191, 1000), 'b1': Fraction(197, 500), 'b2': Fraction(6449, 250), 'r1': Fraction(-479, 500), 'u': Fraction(-827, 1000), 'v': Fraction(467, 200), 'r2': Fraction(-4091, 1000), 'r3': Fraction(1047, 500), 'aem': Fraction(19, 10000), 'mu2_from': Fraction(7139, 200), 'mu2_to': Fraction(34551, 25), 'g0': Fraction(-1219, 1000), 'g1': Fraction(-2699, 100), 'g2': Fraction(819, 10), 'g3': Fraction(-2274, 1), 'g00': Fraction(1487, 1000), 'g01': Fraction(131, 100), 'g02': Fraction(-4, 5), 'g10': Fraction(-1103, 250), 'g11': Fraction(2431, 250), 'g12': Fraction(-1127, 250), 'g20': Fraction(-2036, 125), 'g21': Fraction(-2276, 125), 'g22': Fraction(-28, 25), 'g30': Fraction(17928, 125), 'g31': Fraction(23232, 125), 'g32': Fraction(-13448, 125), 'g40': Fraction(44576, 125), 'g41': Fraction(-864, 25), 'g42': Fraction(38336, 125)}, **{'order': [1, 1], 'nf': 5})
except Exception:
    import traceback; traceback.print_exc(); sys.exit(2)
print(r)
sys.exit(1 if r else 0)
