#!/verif/.venv/bin/python
# Replay of a counterexample against the real code in /tmp/wt_ekore/src (exit 1 = violation reproduced).
import os, sys
os.environ.setdefault("NUMBA_DISABLE_JIT", "1")
sys.path.insert(0, '/tmp/wt_ekore' + "/src"); sys.path.insert(0, '/verif')
from fractions import Fraction
import harness.C25 as H
try:
    r = H.replay_sumrule({'nf': Fraction(3, 1)}, **{'sector': 'pol', 'order': 1, 'combo': 'gg'})
except Exception:
    import traceback; traceback.print_exc(); sys.exit(2)
print(r)
sys.exit(1 if r else 0)
