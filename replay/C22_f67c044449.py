#!/verif/.venv/bin/python
# Replay of a counterexample against the real code in /tmp/wt_couplings/src (exit 1 = violation reproduced).
import os, sys
os.environ.setdefault("NUMBA_DISABLE_JIT", "1")
sys.path.insert(0, '/tmp/wt_couplings' + "/src"); sys.path.insert(0, '/verif')
from fractions import Fraction
import harness.C22 as H
try:
    r = H.replay_ome({'alpha': Fraction(1, 100), 'L': Fraction(-1389, 1000), 'nf': Fraction(4, 1), 'A0_00': Fraction(-513, 200), 'A0_01': Fraction(-59, 125), 'A0_02': Fraction(-3, 1), 'A0_10': Fraction(-467, 250), 'A0_11': Fraction(239, 250), 'A0_12': Fraction(671, 250), 'A0_20': Fraction(873, 500), 'A0_21': Fraction(431, 250), 'A0_22': Fraction(2413, 1000), 'A1_00': Fraction(-213, 40), 'A1_01': Fraction(1479, 250), 'A1_02': Fraction(279, 100), 'A1_10': Fraction(6207, 1000), 'A1_11': Fraction(771, 200), 'A1_12': Fraction(309, 125), 'A1_20': Fraction(-261, 50), 'A1_21': Fraction(-1611, 250), 'A1_22': Fraction(-1299, 1000), 'A2_00': Fraction(-4041, 1000), 'A2_01': Fraction(-5013, 500), 'A2_02': Fraction(531, 25), 'A2_10': Fraction(-1809, 250), 'A2_11': Fraction(-171, 40), 'A2_12': Fraction(3141, 1000), 'A2_20': Fraction(-15921, 1000), 'A2_21': Fraction(8703, 1000), 'A2_22': Fraction(1467, 125), 'c10': Fraction(329, 250), 'c11': Fraction(-4323, 1000), 'c20': Fraction(-137, 250), 'c21': Fraction(-3889, 250), 'c22': Fraction(-93, 50), 'c30': Fraction(3362, 125), 'c31': Fraction(-576, 125), 'c32': Fraction(-6442, 125), 'c33': Fraction(228, 125)}, **{'n': 2, 'm': 3, 'exact': True})
except Exception:
    import traceback; traceback.print_exc(); sys.exit(2)
print(r)
sys.exit(1 if r else 0)
