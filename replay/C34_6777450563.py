#!/verif/.venv/bin/python
# Replay of a counterexample against the real code in /tmp/wt_interp/src (exit 1 = violation reproduced).
import os, sys
os.environ.setdefault("NUMBA_DISABLE_JIT", "1")
sys.path.insert(0, '/tmp/wt_interp' + "/src"); sys.path.insert(0, '/verif')
from fractions import Fraction
import harness.C34 as H
try:
    r = H.replay_reject_degree({'deg': '2'}, **{'mode': True, 'n': 2})
except Exception:
    import traceback; traceback.print_exc(); sys.exit(2)
print(r)
sys.exit(1 if r else 0)
