#!/verif/.venv/bin/python
# Replay of a counterexample against the real code in /tmp/wt_couplings/src (exit 1 = violation reproduced).
import os, sys
os.environ.setdefault("NUMBA_DISABLE_JIT", "1")
sys.path.insert(0, '/tmp/wt_couplings' + "/src"); sys.path.insert(0, '/verif')
from fractions import Fraction
import harness.cplkit as H
try:
    r = H.replay_multi({'x0': Fraction(4157729, 1000000), 'log!1': Fraction(0, 1), 'log!2': Fraction(0, 1), 'm2_ref': Fraction(2, 1)}, **{'mod': 'harness.C18', 'fn': 'replay_solve', 'extra': [{'alpha0': Fraction(1, 100), 'alpha1': Fraction(3, 200), 'a0': Fraction(1, 50), 'a1': Fraction(2, 125), 'A': Fraction(3, 200), 'Lq': Fraction(-1091, 1000), 'Lc': Fraction(11, 250), 'Lb': Fraction(-221, 200), 'Lt': Fraction(113, 250), 'nf': Fraction(4, 1), 'x0': Fraction(3433, 500), 'm2_ref': Fraction(19539, 1000)}, {'alpha0': Fraction(23, 1000), 'alpha1': Fraction(3, 125), 'a0': Fraction(7, 500), 'a1': Fraction(13, 1000), 'A': Fraction(1, 40), 'Lq': Fraction(223, 200), 'Lc': Fraction(-481, 1000), 'Lb': Fraction(79, 100), 'Lt': Fraction(-449, 1000), 'nf': Fraction(5, 1), 'x0': Fraction(159, 40), 'm2_ref': Fraction(1981, 125)}, {'alpha0': Fraction(11, 500), 'alpha1': Fraction(1, 100), 'a0': Fraction(7, 500), 'a1': Fraction(3, 125), 'A': Fraction(1, 40), 'Lq': Fraction(11, 50), 'Lc': Fraction(553, 500), 'Lb': Fraction(-113, 125), 'Lt': Fraction(-979, 1000), 'nf': Fraction(4, 1), 'x0': Fraction(5231, 500), 'm2_ref': Fraction(917, 250)}, {'alpha0': Fraction(3, 200), 'alpha1': Fraction(3, 125), 'a0': Fraction(13, 1000), 'a1': Fraction(13, 500), 'A': Fraction(17, 1000), 'Lq': Fraction(-1209, 1000), 'Lc': Fraction(3, 1000), 'Lb': Fraction(-777, 1000), 'Lt': Fraction(-183, 250), 'nf': Fraction(5, 1), 'x0': Fraction(19743, 1000), 'm2_ref': Fraction(4137, 200)}], 'kw': {'order': 3, 'method': 'expanded'}})
except Exception:
    import traceback; traceback.print_exc(); sys.exit(2)
print(r)
sys.exit(1 if r else 0)
