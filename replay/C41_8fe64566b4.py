#!/verif/.venv/bin/python
# Replay of a counterexample against the real code in /tmp/wt_cards/src (exit 1 = violation reproduced).
import os, sys
os.environ.setdefault("NUMBA_DISABLE_JIT", "1")
sys.path.insert(0, '/tmp/wt_cards' + "/src"); sys.path.insert(0, '/verif')
from fractions import Fraction
import harness.C41 as H
try:
    r = H.replay_legacy_operator({'x0': '1/2', 'kcThr': '653/1024', 'iters': '1', 'Q0': '2', 'cores': '1', 'g0': '3/4', 'ktThr': '2', 'mc': '1003/1024', 'Qmb': '1', 'alphas': '1', 'QED': '0', 'Qref': '1', 'kbThr': '2559/2048', 'Qmt': '1', 'x1': '1', 'x2': '3/2', 'nfref': '3', 'XIF': '1', 'mb': '1/2', 'Qmc': '1', 'aem': '1', 'PTO': '0', 'mt': '5/16', 'maxo': '1', 'deg': '1'}, **{'var': {'modev': 0, 'grid': 'Q2grid', 'nmu': 1, 'nf0': 'none'}, 'name': 'mu.0'})
except Exception:
    import traceback; traceback.print_exc(); sys.exit(2)
print(r)
sys.exit(1 if r else 0)
