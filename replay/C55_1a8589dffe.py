#!/verif/.venv/bin/python
# Replay of a counterexample against the real code in /tmp/wt_sv/src (exit 1 = violation reproduced).
import os, sys
os.environ.setdefault("NUMBA_DISABLE_JIT", "1")
sys.path.insert(0, '/tmp/wt_sv' + "/src"); sys.path.insert(0, '/verif')
from fractions import Fraction
import harness.C55 as H
try:
    r = H.replay_AB({'uc43cd972afb5_3': Fraction(0, 1), 'as0': Fraction(4095, 4096), 'integrand': Fraction(1, 1), 'uc43cd972afb5_2': Fraction(1, 1), 'Lsv': Fraction(-1, 2), 'uec80709cac7f_2': Fraction(0, 1), 'uec80709cac7f_0': Fraction(-2, 1), 'uc43cd972afb5_0': Fraction(2, 1), 'as1': Fraction(1, 1), 'uc43cd972afb5_1': Fraction(0, 1), 'uec80709cac7f_1': Fraction(0, 1), 'u1421d50e9084_0': Fraction(0, 1), 'as2': Fraction(4095, 4096)}, **{'cfg': {'order': (4, 0), 'method': 'TRUNCATED', 'sv': 'expanded', 'thr': True, 'nf': 4}, 'label': [100, 100], 'setting': 'it'})
except Exception:
    import traceback; traceback.print_exc(); sys.exit(2)
print(r)
sys.exit(1 if r else 0)
