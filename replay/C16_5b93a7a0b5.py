#!/verif/.venv/bin/python
# Replay of a counterexample against the real code in /tmp/wt_couplings/src (exit 1 = violation reproduced).
import os, sys
os.environ.setdefault("NUMBA_DISABLE_JIT", "1")
sys.path.insert(0, '/tmp/wt_couplings' + "/src"); sys.path.insert(0, '/verif')
from fractions import Fraction
import harness.cplkit as H
try:
    r = H.replay_multi({'a': Fraction(1, 1), 'Lc': Fraction(1, 1)}, **{'mod': 'harness.C16', 'fn': 'replay_loop', 'extra': [{'a': Fraction(21, 1000), 'alpha': Fraction(9, 1000), 'aem': Fraction(1, 1250), 'nf': Fraction(4, 1), 'Lc': Fraction(9, 1000), 'Lb': Fraction(-201, 250), 'Lt': Fraction(93, 500), 'Lq': Fraction(1337, 1000)}, {'a': Fraction(9, 1000), 'alpha': Fraction(9, 500), 'aem': Fraction(39, 50000), 'nf': Fraction(3, 1), 'Lc': Fraction(279, 500), 'Lb': Fraction(-47, 1000), 'Lt': Fraction(329, 250), 'Lq': Fraction(-201, 1000)}, {'a': Fraction(3, 250), 'alpha': Fraction(27, 1000), 'aem': Fraction(79, 100000), 'nf': Fraction(3, 1), 'Lc': Fraction(-17, 250), 'Lb': Fraction(-19, 40), 'Lt': Fraction(-77, 500), 'Lq': Fraction(-81, 125)}, {'a': Fraction(11, 1000), 'alpha': Fraction(9, 500), 'aem': Fraction(11, 20000), 'nf': Fraction(5, 1), 'Lc': Fraction(-1151, 1000), 'Lb': Fraction(-217, 1000), 'Lt': Fraction(27, 125), 'Lq': Fraction(-291, 500)}], 'kw': {'scheme': 'POLE', 'order': 1, 'nf_from': 3, 'nf_to': 4}})
except Exception:
    import traceback; traceback.print_exc(); sys.exit(2)
print(r)
sys.exit(1 if r else 0)
