#!/verif/.venv/bin/python
# Replay of a counterexample against the real code in /tmp/wt_ekobox/src (exit 1 = violation reproduced).
import os, sys
os.environ.setdefault("NUMBA_DISABLE_JIT", "1")
sys.path.insert(0, '/tmp/wt_ekobox' + "/src"); sys.path.insert(0, '/verif')
from fractions import Fraction
import harness.C46 as H
try:
    r = H.replay_project({'d0_0_2': Fraction(1, 1), 'a2': Fraction(-1, 1), 'd0_0_4': Fraction(1, 1), 'a0': Fraction(-2, 1), 'b4': Fraction(0, 1), 'b6': Fraction(-1, 1), 'b0': Fraction(0, 1), 'a6': Fraction(0, 1), 'a4': Fraction(-1, 1), 'b1': Fraction(-1, 1), 'b3': Fraction(-1, 1), 'd0_0_6': Fraction(1, 1), 'b2': Fraction(0, 1), 'b5': Fraction(-1, 1), 'a5': Fraction(0, 1), 'a1': Fraction(0, 1), 'a3': Fraction(0, 1), 'd0_0_3': Fraction(1, 1)}, **{'basis': 'custom', 'kind': 'complete'})
except Exception:
    import traceback; traceback.print_exc(); sys.exit(2)
print(r)
sys.exit(1 if r else 0)
