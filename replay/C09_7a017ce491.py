#!/verif/.venv/bin/python
# Replay of a counterexample against the real code in /repo/src (exit 1 = violation reproduced).
import os, sys
os.environ.setdefault("NUMBA_DISABLE_JIT", "1")
sys.path.insert(0, '/repo' + "/src"); sys.path.insert(0, '/verif')
from fractions import Fraction
import harness.C09 as H
try:
    r = H.replay({'g0_00': Fraction(0, 1), 'a0': Fraction(1, 16), 'log!1': Fraction(0, 1), 'g0_11': Fraction(0, 1), 'g2_00': Fraction(0, 1), 'g1_11': Fraction(0, 1), 'g2_11': Fraction(0, 1), 'exp!3': Fraction(0, 1), 'g1_00': Fraction(-2434620042249698541568, 6126497790855921615), 'sqrt!2': Fraction(1, 1), 'g3_11': Fraction(0, 1), 'g3_00': Fraction(0, 1), 'a1': Fraction(3, 32), 'exp!4': Fraction(0, 1), 'exp!5': Fraction(-1, 1)}, **{'order': 4, 'nf': 5, 'method': 'DECOMPOSE_EXPANDED'})
except Exception:
    import traceback; traceback.print_exc(); sys.exit(2)
print(r)
sys.exit(1 if r else 0)
