#!/verif/.venv/bin/python
# Replay of a counterexample against the real code in /tmp/wt_cards/src (exit 1 = violation reproduced).
import os, sys
os.environ.setdefault("NUMBA_DISABLE_JIT", "1")
sys.path.insert(0, '/tmp/wt_cards' + "/src"); sys.path.insert(0, '/verif')
from fractions import Fraction
import harness.C41 as H
try:
    r = H.replay_legacy_operator({'Qmb': '1', 'XIF': '1', 'x0': '1', 'iters': '1', 'cores': '1', 'g0': '33/64', 'Qmc': '1', 'ktThr': '1009/512', 'kcThr': '2', 'Q0': '1', 'Qmt': '1', 'mc': '1/4', 'QED': '0', 'nfref': '3', 'x2': '3', 'kbThr': '17/16', 'x1': '2', 'nf0': '3', 'alphas': '1', 'aem': '1', 'mb': '1/2', 'Qref': '1', 'PTO': '0', 'mt': '47/128', 'maxo': '1', 'deg': '1'}, **{'var': {'modev': 0, 'modsv': 0, 'inv': 0, 'grid': 'mugrid', 'nmu': 1, 'HQ': 'POLE'}, 'name': 'nf.0'})
except Exception:
    import traceback; traceback.print_exc(); sys.exit(2)
print(r)
sys.exit(1 if r else 0)
