#!/verif/.venv/bin/python
# Replay of a counterexample against the real code in /tmp/wt_interp/src (exit 1 = violation reproduced).
import os, sys
os.environ.setdefault("NUMBA_DISABLE_JIT", "1")
sys.path.insert(0, '/tmp/wt_interp' + "/src"); sys.path.insert(0, '/verif')
from fractions import Fraction
import harness.C42 as H
try:
    r = H.replay_flavor({'Rt_0_0': Fraction(147, 40), 'Rt_0_1': Fraction(1843, 1000), 'Rt_1_0': Fraction(-401, 500), 'Rt_1_1': Fraction(4339, 1000), 'Ri_0_0': Fraction(1789, 500), 'Ri_0_1': Fraction(-411, 250), 'Ri_1_0': Fraction(-43, 250), 'Ri_1_1': Fraction(797, 250)}, **{'F': 2, 'X': 2, 'sides': 'input', 'err': True})
except Exception:
    import traceback; traceback.print_exc(); sys.exit(2)
print(r)
sys.exit(1 if r else 0)
