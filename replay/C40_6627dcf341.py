#!/verif/.venv/bin/python
# Replay of a counterexample against the real code in /tmp/wt_cards/src (exit 1 = violation reproduced).
import os, sys
os.environ.setdefault("NUMBA_DISABLE_JIT", "1")
sys.path.insert(0, '/tmp/wt_cards' + "/src"); sys.path.insert(0, '/verif')
from fractions import Fraction
import harness.C40 as H
try:
    r = H.replay_interpolator({'x0': '1/8', 'deg': '1', 'cores': '1', 'nf_0': '3', 'maxo_qcd': '1', 'mu_0': '1', 'mu0': '1', 'iters': '2', 'maxo_qed': '0', 'nf0': '3', 'x3': '1/2', 'x1': '1/4', 'x2': '3/8', 'is_log': 'False', 'xlog': 'True'}, **{'var': {'source': 'object', 'n': 4, 'k': 0, 'nmu': 1}, 'aspect': 'degree'})
except Exception:
    import traceback; traceback.print_exc(); sys.exit(2)
print(r)
sys.exit(1 if r else 0)
