#!/verif/.venv/bin/python
# Replay of a counterexample against the real code in /tmp/wt_mut_EJXWni/src (exit 1 = violation reproduced).
import os, sys
os.environ.setdefault("NUMBA_DISABLE_JIT", "1")
sys.path.insert(0, '/tmp/wt_mut_EJXWni' + "/src"); sys.path.insert(0, '/verif')
from fractions import Fraction
import harness.C09 as H
try:
    r = H.replay({'g0_00': Fraction(0, 1), 'a0': Fraction(1, 16), 'log!1': Fraction(0, 1), 'exp!2': Fraction(-1, 1), 'g2_00': Fraction(0, 1), 'g0_11': Fraction(0, 1), 'b1': Fraction(0, 1), 'g1_11': Fraction(-1, 1), 'g2_11': Fraction(0, 1), 'b2': Fraction(0, 1), 'g1_00': Fraction(0, 1), 'a1': Fraction(3, 32), 'exp!4': Fraction(0, 1), 'beta0': Fraction(1, 1)}, **{'order': 3, 'nf': None, 'method': 'DECOMPOSE_EXPANDED'})
except Exception:
    import traceback; traceback.print_exc(); sys.exit(2)
print(r)
sys.exit(1 if r else 0)
