#!/verif/.venv/bin/python
# Replay of a counterexample against the real code in /tmp/wt_ekobox2/src (exit 1 = violation reproduced).
import os, sys
os.environ.setdefault("NUMBA_DISABLE_JIT", "1")
sys.path.insert(0, '/tmp/wt_ekobox2' + "/src"); sys.path.insert(0, '/verif')
from fractions import Fraction
import harness.C45 as H
try:
    r = H.replay_build({'x0': '1', 'mu0': '2', 't0': '1', 't1': '2', 'x1': '2'}, **{'nfs': [4]})
except Exception:
    import traceback; traceback.print_exc(); sys.exit(2)
print(r)
sys.exit(1 if r else 0)
