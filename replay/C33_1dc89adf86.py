#!/verif/.venv/bin/python
# Replay of a counterexample against the real code in /tmp/wt_flavour/src (exit 1 = violation reproduced).
import os, sys
os.environ.setdefault("NUMBA_DISABLE_JIT", "1")
sys.path.insert(0, '/tmp/wt_flavour' + "/src"); sys.path.insert(0, '/verif')
from fractions import Fraction
import harness.C33 as H
try:
    r = H.replay({'x_ph': Fraction(0, 1), 'y_bm': Fraction(0, 1), 'x_g': Fraction(0, 1), 'f_5': Fraction(1000000000001, 2000000000000), 'x_V8': Fraction(0, 1), 'x_T8': Fraction(0, 1), 'f_m1': Fraction(0, 1), 'y_V': Fraction(0, 1), 'x_tp': Fraction(0, 1), 'x_tm': Fraction(0, 1), 'y_tp': Fraction(0, 1), 'y_ph': Fraction(0, 1), 'y_T8': Fraction(0, 1), 'y_tm': Fraction(0, 1), 'f_1': Fraction(0, 1), 'x_V3': Fraction(0, 1), 'y_cp': Fraction(0, 1), 'f_m2': Fraction(0, 1), 'x_bm': Fraction(0, 1), 'f_m6': Fraction(0, 1), 'f_2': Fraction(0, 1), 'y_V3': Fraction(0, 1), 'y_bp': Fraction(0, 1), 'y_T3': Fraction(0, 1), 'x_S': Fraction(0, 1), 'f_4': Fraction(0, 1), 'f_21': Fraction(0, 1), 'x_V': Fraction(0, 1), 'x_T15': Fraction(0, 1), 'x_bp': Fraction(0, 1), 'f_m4': Fraction(0, 1), 'f_m3': Fraction(0, 1), 'y_S': Fraction(0, 1), 'y_cm': Fraction(0, 1), 'y_V8': Fraction(0, 1), 'x_V15': Fraction(0, 1), 'f_m5': Fraction(0, 1), 'f_3': Fraction(0, 1), 'y_g': Fraction(0, 1), 'f_6': Fraction(0, 1), 'f_22': Fraction(0, 1), 'x_T3': Fraction(0, 1)}, **{'nf': 4, 'qed': False, 'what': 'content', 'X': 'b-', 'inverse': True})
except Exception:
    import traceback; traceback.print_exc(); sys.exit(2)
print(r)
sys.exit(1 if r else 0)
