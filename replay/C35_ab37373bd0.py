#!/verif/.venv/bin/python
# Replay of a counterexample against the real code in /tmp/wt_interp/src (exit 1 = violation reproduced).
import os, sys
os.environ.setdefault("NUMBA_DISABLE_JIT", "1")
sys.path.insert(0, '/tmp/wt_interp' + "/src"); sys.path.insert(0, '/verif')
from fractions import Fraction
import harness.C35 as H
try:
    r = H.replay_integrand({'nr': Fraction(2351, 1000), 'ni': Fraction(-114, 125), 'umax': Fraction(-401, 1000), 'umin': Fraction(-993, 1000), 'lx': Fraction(-1547, 1000), 'ulow': Fraction(-2473, 1000), 'lx2': Fraction(-391, 1000), 'xmin': Fraction(239, 1000), 'xmax': Fraction(709, 1000), 't': Fraction(707, 1000), 'r': Fraction(1599, 1000), 'o': Fraction(0, 1), 'c0': Fraction(217, 500), 'd0': Fraction(-1, 25), 'c1': Fraction(1449, 1000), 'd1': Fraction(-453, 1000), 'c2': Fraction(-713, 1000), 'd2': Fraction(-1617, 1000), 'c3': Fraction(447, 1000), 'd3': Fraction(-351, 1000), 'c4': Fraction(61, 125), 'd4': Fraction(-523, 500), 'c5': Fraction(-1403, 1000), 'd5': Fraction(-521, 500)}, **{'is_log': True, 'mode0': 100})
except Exception:
    import traceback; traceback.print_exc(); sys.exit(2)
print(r)
sys.exit(1 if r else 0)
