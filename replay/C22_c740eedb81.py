#!/verif/.venv/bin/python
# Replay of a counterexample against the real code in /tmp/wt_couplings/src (exit 1 = violation reproduced).
import os, sys
os.environ.setdefault("NUMBA_DISABLE_JIT", "1")
sys.path.insert(0, '/tmp/wt_couplings' + "/src"); sys.path.insert(0, '/verif')
from fractions import Fraction
import harness.C22 as H
try:
    r = H.replay_coupling({'alpha': Fraction(1, 1), 'nf': Fraction(4, 1), 'c21': Fraction(1, 1), 'L': Fraction(1, 1), 'c11': Fraction(1, 1)}, **{'scheme': 'POLE', 'generalised': True})
except Exception:
    import traceback; traceback.print_exc(); sys.exit(2)
print(r)
sys.exit(1 if r else 0)
