#!/verif/.venv/bin/python
# Replay of a counterexample against the real code in /tmp/wt_ekobox/src (exit 1 = violation reproduced).
import os, sys
os.environ.setdefault("NUMBA_DISABLE_JIT", "1")
sys.path.insert(0, '/tmp/wt_ekobox' + "/src"); sys.path.insert(0, '/verif')
from fractions import Fraction
import harness.C43 as H
try:
    r = H.replay_apply({'R_0_5': Fraction(0, 1), 'R_0_2': Fraction(0, 1), 'R_1_4': Fraction(0, 1), 'R_0_7': Fraction(0, 1), 'R_1_7': Fraction(0, 1), 'R_0_0': Fraction(0, 1), 'R_1_11': Fraction(0, 1), 'g0_0_7_1': Fraction(0, 1), 'R_0_8': Fraction(0, 1), 'R_1_0': Fraction(0, 1), 'g0_0_9_0': Fraction(0, 1), 'g0_0_1_0': Fraction(0, 1), 'g0_0_5_0': Fraction(0, 1), 'X_1_0': Fraction(0, 1), 'R_1_10': Fraction(0, 1), 'R_0_12': Fraction(0, 1), 'g0_0_8_0': Fraction(-1, 1), 'g0_0_2_0': Fraction(0, 1), 'g0_0_3_1': Fraction(0, 1), 'R_1_2': Fraction(0, 1), 'R_1_12': Fraction(0, 1), 'g0_0_12_1': Fraction(0, 1), 'R_1_13': Fraction(0, 1), 'R_0_6': Fraction(0, 1), 'R_1_3': Fraction(0, 1), 'g0_0_1_1': Fraction(0, 1), 'g0_0_2_1': Fraction(0, 1), 'g0_0_3_0': Fraction(0, 1), 'R_0_13': Fraction(0, 1), 'R_0_10': Fraction(0, 1), 'g0_0_7_0': Fraction(0, 1), 'g0_0_9_1': Fraction(0, 1), 'g0_0_6_1': Fraction(0, 1), 'R_1_8': Fraction(-1, 1), 'g0_0_5_1': Fraction(0, 1), 'R_1_6': Fraction(0, 1), 'R_0_3': Fraction(0, 1), 'g0_0_8_1': Fraction(0, 1), 'g0_0_10_1': Fraction(0, 1), 'g0_0_11_0': Fraction(0, 1), 'g0_0_4_1': Fraction(0, 1), 'R_1_9': Fraction(0, 1), 'g0_0_13_0': Fraction(0, 1), 'g0_0_11_1': Fraction(0, 1), 'g0_0_0_1': Fraction(0, 1), 'R_0_1': Fraction(0, 1), 'g0_0_13_1': Fraction(0, 1), 'X_0_1': Fraction(-1, 1), 'R_0_4': Fraction(0, 1), 'R_0_11': Fraction(0, 1), 'g0_0_6_0': Fraction(0, 1), 'g0_0_0_0': Fraction(0, 1), 'R_0_9': Fraction(0, 1), 'g0_0_4_0': Fraction(0, 1), 'R_1_5': Fraction(0, 1), 'g0_0_12_0': Fraction(0, 1), 'g0_0_10_0': Fraction(0, 1), 'R_1_1': Fraction(0, 1), 'x0': Fraction(1, 1), 'x1': Fraction(1, 1)}, **{'n': 2, 'what': 'pdf', 'rotate': True, 'target': True})
except Exception:
    import traceback; traceback.print_exc(); sys.exit(2)
print(r)
sys.exit(1 if r else 0)
