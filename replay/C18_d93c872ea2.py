#!/verif/.venv/bin/python
# Replay of a counterexample against the real code in /tmp/wt_couplings/src (exit 1 = violation reproduced).
import os, sys
os.environ.setdefault("NUMBA_DISABLE_JIT", "1")
sys.path.insert(0, '/tmp/wt_couplings' + "/src"); sys.path.insert(0, '/verif')
from fractions import Fraction
import harness.cplkit as H
try:
    r = H.replay_multi({'q2_b': Fraction(1, 99999000), 'INF': Fraction(33333001, 33333000), 'EV_t': Fraction(1, 99999000), 'm2_b': Fraction(1, 99999000), 'EV_b': Fraction(1, 99999000), 'SOL_c': Fraction(1, 49999500), 'EV_c': Fraction(1, 99999000), 'q2_c': Fraction(1, 49999500), 'q2_t': Fraction(1, 99999000), 'SOL_t': Fraction(1, 99999000), 'm2_t': Fraction(1, 99999000), 'm2_c': Fraction(1, 99999000), 'SOL_b': Fraction(1, 99999000), 'mu2_ref': Fraction(1, 99999000)}, **{'mod': 'harness.C18', 'fn': 'replay_compute', 'extra': [{'m2_c': Fraction(2887, 1000), 'q2_c': Fraction(283099, 125), 'm2_b': Fraction(10143, 500), 'q2_b': Fraction(7870179, 1000), 'm2_t': Fraction(28681859, 1000), 'q2_t': Fraction(13755283, 1000), 'mu2_ref': Fraction(8956237, 250)}, {'m2_c': Fraction(2253, 1000), 'q2_c': Fraction(516897, 1000), 'm2_b': Fraction(5869, 250), 'q2_b': Fraction(514677, 1000), 'm2_t': Fraction(7532237, 250), 'q2_t': Fraction(1763174, 125), 'mu2_ref': Fraction(14251193, 1000)}, {'m2_c': Fraction(991, 250), 'q2_c': Fraction(1477479, 200), 'm2_b': Fraction(2267, 100), 'q2_b': Fraction(2278889, 1000), 'm2_t': Fraction(30534961, 1000), 'q2_t': Fraction(744007, 25), 'mu2_ref': Fraction(31862057, 1000)}, {'m2_c': Fraction(1491, 500), 'q2_c': Fraction(1426007, 500), 'm2_b': Fraction(10319, 500), 'q2_b': Fraction(89709, 50), 'm2_t': Fraction(28654397, 1000), 'q2_t': Fraction(23697191, 1000), 'mu2_ref': Fraction(7502583, 500)}], 'kw': {'nf_ref': 5}})
except Exception:
    import traceback; traceback.print_exc(); sys.exit(2)
print(r)
sys.exit(1 if r else 0)
