#!/verif/.venv/bin/python
# Replay of a counterexample against the real code in /tmp/wt_couplings/src (exit 1 = violation reproduced).
import os, sys
os.environ.setdefault("NUMBA_DISABLE_JIT", "1")
sys.path.insert(0, '/tmp/wt_couplings' + "/src"); sys.path.insert(0, '/verif')
from fractions import Fraction
import harness.cplkit as H
try:
    r = H.replay_multi({'alpha1': Fraction(1, 1), 'beta0': Fraction(1, 1), 'alpha0': Fraction(1, 1), 'gamma0': Fraction(1, 1), 'beta1': Fraction(1, 1), 'exp!3': Fraction(1, 1)}, **{'mod': 'harness.C18', 'fn': 'replay_ker', 'extra': [{'alpha0': Fraction(23, 1000), 'alpha1': Fraction(23, 1000), 'a0': Fraction(13, 1000), 'a1': Fraction(17, 1000), 'A': Fraction(13, 1000), 'Lq': Fraction(-709, 1000), 'Lc': Fraction(39, 100), 'Lb': Fraction(-259, 200), 'Lt': Fraction(-131, 125), 'nf': Fraction(3, 1), 'x0': Fraction(6697, 250), 'm2_ref': Fraction(3129, 125)}, {'alpha0': Fraction(23, 1000), 'alpha1': Fraction(11, 1000), 'a0': Fraction(11, 1000), 'a1': Fraction(1, 40), 'A': Fraction(3, 200), 'Lq': Fraction(403, 1000), 'Lc': Fraction(547, 500), 'Lb': Fraction(21, 1000), 'Lt': Fraction(597, 1000), 'nf': Fraction(4, 1), 'x0': Fraction(1681, 200), 'm2_ref': Fraction(6723, 250)}, {'alpha0': Fraction(19, 1000), 'alpha1': Fraction(19, 1000), 'a0': Fraction(13, 500), 'a1': Fraction(11, 1000), 'A': Fraction(1, 100), 'Lq': Fraction(-807, 1000), 'Lc': Fraction(9, 1000), 'Lb': Fraction(-549, 1000), 'Lt': Fraction(-453, 500), 'nf': Fraction(5, 1), 'x0': Fraction(19607, 1000), 'm2_ref': Fraction(301, 25)}, {'alpha0': Fraction(9, 500), 'alpha1': Fraction(7, 500), 'a0': Fraction(1, 100), 'a1': Fraction(11, 500), 'A': Fraction(11, 500), 'Lq': Fraction(-1257, 1000), 'Lc': Fraction(241, 500), 'Lb': Fraction(-643, 500), 'Lt': Fraction(-1209, 1000), 'nf': Fraction(3, 1), 'x0': Fraction(23747, 1000), 'm2_ref': Fraction(7259, 1000)}], 'kw': {'order': 2, 'method': 'expanded'}})
except Exception:
    import traceback; traceback.print_exc(); sys.exit(2)
print(r)
sys.exit(1 if r else 0)
