#!/verif/.venv/bin/python
# Replay of a counterexample against the real code in /tmp/wt_ekore/src (exit 1 = violation reproduced).
import os, sys
os.environ.setdefault("NUMBA_DISABLE_JIT", "1")
sys.path.insert(0, '/tmp/wt_ekore' + "/src"); sys.path.insert(0, '/verif')
from fractions import Fraction
import harness.C30 as H
try:
    r = H.replay_grid({'psi0!1': Fraction(0, 1), 'psi0!7': Fraction(0, 1), 'psi1!8': Fraction(0, 1), 'psi0!4': Fraction(0, 1), 'N': Fraction(3, 1), 'psi1!5': Fraction(0, 1), 'psi2!9': Fraction(0, 1), 'psi2!6': Fraction(0, 1)}, **{'nf': 4, 'order': [2, 2], 'fh': True, 'variation': [0, 0, 0, 0, 0, 0, 0], 'what': 'valence_qed:vdelta'})
except Exception:
    import traceback; traceback.print_exc(); sys.exit(2)
print(r)
sys.exit(1 if r else 0)
