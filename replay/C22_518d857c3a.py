#!/verif/.venv/bin/python
# Replay of a counterexample against the real code in /tmp/wt_couplings/src (exit 1 = violation reproduced).
import os, sys
os.environ.setdefault("NUMBA_DISABLE_JIT", "1")
sys.path.insert(0, '/tmp/wt_couplings' + "/src"); sys.path.insert(0, '/verif')
from fractions import Fraction
import harness.C22 as H
try:
    r = H.replay_ome({'alpha': Fraction(7, 200), 'L': Fraction(-1267, 1000), 'nf': Fraction(5, 1), 'A0_00': Fraction(1421, 1000), 'A0_01': Fraction(29, 25), 'A0_02': Fraction(911, 500), 'A0_10': Fraction(-129, 200), 'A0_11': Fraction(11, 50), 'A0_12': Fraction(-1209, 500), 'A0_20': Fraction(69, 40), 'A0_21': Fraction(239, 200), 'A0_22': Fraction(4, 5), 'A1_00': Fraction(-5523, 1000), 'A1_01': Fraction(-906, 125), 'A1_02': Fraction(-1803, 1000), 'A1_10': Fraction(42, 5), 'A1_11': Fraction(21, 10), 'A1_12': Fraction(-1527, 500), 'A1_20': Fraction(-3213, 500), 'A1_21': Fraction(-2067, 500), 'A1_22': Fraction(-1293, 1000), 'A2_00': Fraction(-13347, 1000), 'A2_01': Fraction(-207, 25), 'A2_02': Fraction(9801, 500), 'A2_10': Fraction(144, 25), 'A2_11': Fraction(13977, 1000), 'A2_12': Fraction(-3411, 1000), 'A2_20': Fraction(-13167, 500), 'A2_21': Fraction(18909, 1000), 'A2_22': Fraction(-18711, 1000), 'c10': Fraction(-579, 200), 'c11': Fraction(1, 40), 'c20': Fraction(-712, 125), 'c21': Fraction(-1951, 250), 'c22': Fraction(168, 125), 'c30': Fraction(8694, 125), 'c31': Fraction(2202, 125), 'c32': Fraction(6146, 125), 'c33': Fraction(-8318, 125)}, **{'n': 2, 'm': 3, 'exact': False})
except Exception:
    import traceback; traceback.print_exc(); sys.exit(2)
print(r)
sys.exit(1 if r else 0)
