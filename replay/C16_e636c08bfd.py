#!/verif/.venv/bin/python
# Replay of a counterexample against the real code in /tmp/wt_couplings/src (exit 1 = violation reproduced).
import os, sys
os.environ.setdefault("NUMBA_DISABLE_JIT", "1")
sys.path.insert(0, '/tmp/wt_couplings' + "/src"); sys.path.insert(0, '/verif')
from fractions import Fraction
import harness.cplkit as H
try:
    r = H.replay_multi({'nf': Fraction(3, 1)}, **{'mod': 'harness.C16', 'fn': 'replay_table', 'extra': [{'nf': Fraction(3, 1)}, {'nf': Fraction(4, 1)}, {'nf': Fraction(5, 1)}, {'a': Fraction(1, 40), 'alpha': Fraction(13, 1000), 'aem': Fraction(21, 50000), 'nf': Fraction(3, 1), 'Lc': Fraction(-1071, 1000), 'Lb': Fraction(303, 500), 'Lt': Fraction(-579, 1000), 'Lq': Fraction(-7, 8)}, {'a': Fraction(27, 1000), 'alpha': Fraction(1, 50), 'aem': Fraction(73, 100000), 'nf': Fraction(5, 1), 'Lc': Fraction(709, 1000), 'Lb': Fraction(-99, 100), 'Lt': Fraction(507, 1000), 'Lq': Fraction(143, 250)}, {'a': Fraction(1, 50), 'alpha': Fraction(1, 40), 'aem': Fraction(3, 6250), 'nf': Fraction(3, 1), 'Lc': Fraction(91, 1000), 'Lb': Fraction(124, 125), 'Lt': Fraction(-167, 200), 'Lq': Fraction(973, 1000)}, {'a': Fraction(21, 1000), 'alpha': Fraction(23, 1000), 'aem': Fraction(41, 100000), 'nf': Fraction(3, 1), 'Lc': Fraction(-91, 125), 'Lb': Fraction(14, 125), 'Lt': Fraction(-27, 200), 'Lq': Fraction(24, 125)}], 'kw': {'scheme': 'MSBAR', 'which': 'down', 'n': 3, 'l': 2}})
except Exception:
    import traceback; traceback.print_exc(); sys.exit(2)
print(r)
sys.exit(1 if r else 0)
