#!/verif/.venv/bin/python
# Replay of a counterexample against the real code in /repo/src (exit 1 = violation reproduced).
import os, sys
os.environ.setdefault("NUMBA_DISABLE_JIT", "1")
sys.path.insert(0, '/repo' + "/src"); sys.path.insert(0, '/verif')
from fractions import Fraction
import harness.cplkit as H
try:
    r = H.replay_multi({'nf': Fraction(3, 1)}, **{'mod': 'harness.C16', 'fn': 'replay_table', 'extra': [{'nf': Fraction(3, 1)}, {'nf': Fraction(4, 1)}, {'nf': Fraction(5, 1)}, {'a': Fraction(23, 1000), 'alpha': Fraction(17, 1000), 'aem': Fraction(3, 5000), 'nf': Fraction(4, 1), 'Lc': Fraction(-591, 500), 'Lb': Fraction(-563, 500), 'Lt': Fraction(-19, 200), 'Lq': Fraction(-581, 1000)}, {'a': Fraction(27, 1000), 'alpha': Fraction(11, 500), 'aem': Fraction(3, 4000), 'nf': Fraction(4, 1), 'Lc': Fraction(-173, 200), 'Lb': Fraction(-513, 1000), 'Lt': Fraction(11, 1000), 'Lq': Fraction(53, 500)}, {'a': Fraction(23, 1000), 'alpha': Fraction(2, 125), 'aem': Fraction(3, 6250), 'nf': Fraction(5, 1), 'Lc': Fraction(-453, 1000), 'Lb': Fraction(273, 250), 'Lt': Fraction(279, 1000), 'Lq': Fraction(-797, 1000)}, {'a': Fraction(1, 50), 'alpha': Fraction(7, 250), 'aem': Fraction(31, 50000), 'nf': Fraction(4, 1), 'Lc': Fraction(107, 100), 'Lb': Fraction(189, 200), 'Lt': Fraction(-129, 1000), 'Lq': Fraction(-509, 500)}], 'kw': {'scheme': 'MSBAR'}})
except Exception:
    import traceback; traceback.print_exc(); sys.exit(2)
print(r)
sys.exit(1 if r else 0)
