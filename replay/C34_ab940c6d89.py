#!/verif/.venv/bin/python
# Replay of a counterexample against the real code in /tmp/wt_interp/src (exit 1 = violation reproduced).
import os, sys
os.environ.setdefault("NUMBA_DISABLE_JIT", "1")
sys.path.insert(0, '/tmp/wt_interp' + "/src"); sys.path.insert(0, '/verif')
from fractions import Fraction
import harness.C34 as H
try:
    r = H.replay_basis({'x0': Fraction(1, 2), 'log!4': Fraction(4, 1), 'log!5': Fraction(-1, 1), 'log!6': Fraction(1, 1), 'xe0': Fraction(3, 4), 'xe1': Fraction(3, 2), 'log!1': Fraction(-2, 1), 'x3': Fraction(3, 1), 'log!2': Fraction(0, 1), 'log!3': Fraction(2, 1), 'x1': Fraction(1, 1), 'x2': Fraction(2, 1)}, **{'mode': True, 'n': 4, 'deg': 3, 'mode_N': True, 'k': 1, 'm': 0})
except Exception:
    import traceback; traceback.print_exc(); sys.exit(2)
print(r)
sys.exit(1 if r else 0)
