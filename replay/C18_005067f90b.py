#!/verif/.venv/bin/python
# Replay of a counterexample against the real code in /tmp/wt_couplings/src (exit 1 = violation reproduced).
import os, sys
os.environ.setdefault("NUMBA_DISABLE_JIT", "1")
sys.path.insert(0, '/tmp/wt_couplings' + "/src"); sys.path.insert(0, '/verif')
from fractions import Fraction
import harness.cplkit as H
try:
    r = H.replay_multi({'Lc': Fraction(0, 1), 'm2_ref': Fraction(1, 1), 'Lb': Fraction(-1, 1), 'A4': Fraction(-1, 8), 'xif2': Fraction(1, 1)}, **{'mod': 'harness.C18', 'fn': 'replay_evolve', 'extra': [{'alpha0': Fraction(13, 500), 'alpha1': Fraction(2, 125), 'a0': Fraction(3, 250), 'a1': Fraction(23, 1000), 'A': Fraction(19, 1000), 'Lq': Fraction(433, 1000), 'Lc': Fraction(333, 500), 'Lb': Fraction(-11, 50), 'Lt': Fraction(-67, 1000), 'nf': Fraction(3, 1), 'x0': Fraction(793, 500), 'm2_ref': Fraction(719, 125)}, {'alpha0': Fraction(1, 100), 'alpha1': Fraction(3, 125), 'a0': Fraction(13, 500), 'a1': Fraction(23, 1000), 'A': Fraction(17, 1000), 'Lq': Fraction(-909, 1000), 'Lc': Fraction(92, 125), 'Lb': Fraction(-197, 500), 'Lt': Fraction(-169, 125), 'nf': Fraction(3, 1), 'x0': Fraction(29189, 1000), 'm2_ref': Fraction(8199, 500)}, {'alpha0': Fraction(7, 250), 'alpha1': Fraction(21, 1000), 'a0': Fraction(1, 100), 'a1': Fraction(1, 100), 'A': Fraction(23, 1000), 'Lq': Fraction(-889, 1000), 'Lc': Fraction(21, 25), 'Lb': Fraction(-589, 1000), 'Lt': Fraction(-191, 200), 'nf': Fraction(3, 1), 'x0': Fraction(109, 8), 'm2_ref': Fraction(11121, 1000)}, {'alpha0': Fraction(7, 250), 'alpha1': Fraction(3, 125), 'a0': Fraction(9, 500), 'a1': Fraction(7, 500), 'A': Fraction(1, 100), 'Lq': Fraction(-691, 1000), 'Lc': Fraction(-339, 250), 'Lb': Fraction(-313, 1000), 'Lt': Fraction(269, 1000), 'nf': Fraction(3, 1), 'x0': Fraction(4041, 500), 'm2_ref': Fraction(18807, 1000)}], 'kw': {'order': 3, 'nf_from': 4, 'nf_to': 3}})
except Exception:
    import traceback; traceback.print_exc(); sys.exit(2)
print(r)
sys.exit(1 if r else 0)
