#!/verif/.venv/bin/python
# Replay of a counterexample against the real code in /repo/src (exit 1 = violation reproduced).
import os, sys
os.environ.setdefault("NUMBA_DISABLE_JIT", "1")
sys.path.insert(0, '/repo' + "/src"); sys.path.insert(0, '/verif')
from fractions import Fraction
import harness.cplkit as H
try:
    r = H.replay_multi({'Lq': Fraction(0, 1), 'zeta3': Fraction(2403, 2000)}, **{'mod': 'harness.C18', 'fn': 'replay_evolve', 'extra': [{'alpha0': Fraction(2, 125), 'alpha1': Fraction(3, 200), 'a0': Fraction(3, 125), 'a1': Fraction(13, 500), 'A': Fraction(7, 500), 'Lq': Fraction(-7, 250), 'Lc': Fraction(963, 1000), 'Lb': Fraction(-377, 500), 'Lt': Fraction(-39, 50), 'nf': Fraction(5, 1), 'x0': Fraction(17017, 1000), 'm2_ref': Fraction(12433, 500)}, {'alpha0': Fraction(1, 100), 'alpha1': Fraction(21, 1000), 'a0': Fraction(1, 50), 'a1': Fraction(21, 1000), 'A': Fraction(3, 250), 'Lq': Fraction(-1197, 1000), 'Lc': Fraction(-189, 1000), 'Lb': Fraction(13, 200), 'Lt': Fraction(537, 1000), 'nf': Fraction(3, 1), 'x0': Fraction(1079, 125), 'm2_ref': Fraction(14819, 500)}, {'alpha0': Fraction(21, 1000), 'alpha1': Fraction(23, 1000), 'a0': Fraction(19, 1000), 'a1': Fraction(11, 500), 'A': Fraction(1, 40), 'Lq': Fraction(257, 1000), 'Lc': Fraction(1257, 1000), 'Lb': Fraction(-61, 200), 'Lt': Fraction(-403, 500), 'nf': Fraction(3, 1), 'x0': Fraction(2536, 125), 'm2_ref': Fraction(1557, 100)}, {'alpha0': Fraction(11, 500), 'alpha1': Fraction(21, 1000), 'a0': Fraction(21, 1000), 'a1': Fraction(7, 500), 'A': Fraction(1, 50), 'Lq': Fraction(-937, 1000), 'Lc': Fraction(181, 250), 'Lb': Fraction(-907, 1000), 'Lt': Fraction(-61, 1000), 'nf': Fraction(4, 1), 'x0': Fraction(11831, 1000), 'm2_ref': Fraction(20791, 1000)}], 'kw': {'order': 3, 'nf_from': 4, 'nf_to': 3, 'physics': True}})
except Exception:
    import traceback; traceback.print_exc(); sys.exit(2)
print(r)
sys.exit(1 if r else 0)
