#!/verif/.venv/bin/python
# Replay of a counterexample against the real code in /tmp/wt_couplings/src (exit 1 = violation reproduced).
import os, sys
os.environ.setdefault("NUMBA_DISABLE_JIT", "1")
sys.path.insert(0, '/tmp/wt_couplings' + "/src"); sys.path.insert(0, '/verif')
from fractions import Fraction
import harness.cplkit as H
try:
    r = H.replay_multi({'alpha': Fraction(1, 1), 'beta0': Fraction(1, 1), 'X': Fraction(0, 1), 'b1': Fraction(1, 1)}, **{'mod': 'harness.C15', 'fn': 'replay_expanded_fn', 'extra': [{'alpha': Fraction(19, 1000), 'alphaem': Fraction(37, 50000), 'aem': Fraction(17, 25000), 'X': Fraction(-1307, 1000), 'lmu': Fraction(4861, 1000), 'a_s': Fraction(13, 500), 'a_em': Fraction(1, 3125), 'u': Fraction(-1697, 1000), 'nf': Fraction(5, 1)}, {'alpha': Fraction(3, 125), 'alphaem': Fraction(33, 50000), 'aem': Fraction(7, 10000), 'X': Fraction(1773, 500), 'lmu': Fraction(-193, 1000), 'a_s': Fraction(3, 200), 'a_em': Fraction(67, 100000), 'u': Fraction(2527, 500), 'nf': Fraction(6, 1)}, {'alpha': Fraction(1, 40), 'alphaem': Fraction(31, 100000), 'aem': Fraction(69, 100000), 'X': Fraction(743, 250), 'lmu': Fraction(-137, 1000), 'a_s': Fraction(3, 250), 'a_em': Fraction(7, 10000), 'u': Fraction(286, 125), 'nf': Fraction(5, 1)}, {'alpha': Fraction(3, 125), 'alphaem': Fraction(21, 100000), 'aem': Fraction(29, 50000), 'X': Fraction(1493, 500), 'lmu': Fraction(1659, 500), 'a_s': Fraction(13, 1000), 'a_em': Fraction(47, 100000), 'u': Fraction(391, 100), 'nf': Fraction(6, 1)}], 'kw': {'n': 2, 'via': 'expanded_qed', 'counting': 'A'}})
except Exception:
    import traceback; traceback.print_exc(); sys.exit(2)
print(r)
sys.exit(1 if r else 0)
