#!/verif/.venv/bin/python
# Replay of a counterexample against the real code in /tmp/wt_flavour/src (exit 1 = violation reproduced).
import os, sys
os.environ.setdefault("NUMBA_DISABLE_JIT", "1")
sys.path.insert(0, '/tmp/wt_flavour' + "/src"); sys.path.insert(0, '/verif')
from fractions import Fraction
import harness.C52 as H
try:
    r = H.replay_base({'m_101_100_00': Fraction(-6, 1), 'm_10204_10200_00': Fraction(-6, 1), 'm_21_100_00': Fraction(-1, 2), 'm_22_100_00': Fraction(1, 2), 'm_10200_10200_00': Fraction(0, 1), 'm_100_100_00': Fraction(-4, 1)}, **{'kind': 'physical', 'nf': 3, 'qed': True, 'g': 1, 'pid': 6})
except Exception:
    import traceback; traceback.print_exc(); sys.exit(2)
print(r)
sys.exit(1 if r else 0)
