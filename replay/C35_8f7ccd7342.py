#!/verif/.venv/bin/python
# Replay of a counterexample against the real code in /tmp/wt_interp/src (exit 1 = violation reproduced).
import os, sys
os.environ.setdefault("NUMBA_DISABLE_JIT", "1")
sys.path.insert(0, '/tmp/wt_interp' + "/src"); sys.path.insert(0, '/verif')
from fractions import Fraction
import harness.C35 as H
try:
    r = H.replay_talbot({'nr': Fraction(2471, 1000), 'ni': Fraction(-68, 25), 'umax': Fraction(-7229, 1000), 'umin': Fraction(-1009, 125), 'lx': Fraction(-8719, 1000), 'ulow': Fraction(-2383, 250), 'lx2': Fraction(-7211, 1000), 'xmin': Fraction(61, 200), 'xmax': Fraction(667, 1000), 't': Fraction(111, 200), 'r': Fraction(188, 125), 'o': Fraction(1, 1), 'c0': Fraction(3, 20), 'd0': Fraction(87, 500), 'c1': Fraction(83, 100), 'd1': Fraction(49, 40), 'c2': Fraction(-377, 200), 'd2': Fraction(-1, 250), 'c3': Fraction(321, 250), 'd3': Fraction(-1163, 1000), 'c4': Fraction(-447, 250), 'd4': Fraction(-14, 25), 'c5': Fraction(-159, 100), 'd5': Fraction(49, 125)}, **{'half': True})
except Exception:
    import traceback; traceback.print_exc(); sys.exit(2)
print(r)
sys.exit(1 if r else 0)
