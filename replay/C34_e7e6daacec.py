#!/verif/.venv/bin/python
# Replay of a counterexample against the real code in /tmp/wt_interp/src (exit 1 = violation reproduced).
import os, sys
os.environ.setdefault("NUMBA_DISABLE_JIT", "1")
sys.path.insert(0, '/tmp/wt_interp' + "/src"); sys.path.insert(0, '/verif')
from fractions import Fraction
import harness.C34 as H
try:
    r = H.replay_reinterp({'x0': Fraction(1007438183012191, 100643074482917878792192), 'log!4': Fraction(-5, 2251799813685248), 't0': Fraction(1007438183012191, 50321537241458939396096), 'log!1': Fraction(-8653830017172351399011287, 864517426946048800132313240305664), 'log!2': Fraction(0, 1), 'log!3': Fraction(8653830017172351399011287, 864517426946048800132313240305664), 'x1': Fraction(3022314549036573, 100643074482917878792192), 'x2': Fraction(1007438183012191, 25160768620729469698048)}, **{'mode': True, 'n': 3, 'deg': 1, 'tnames': ['t0', 'x1', 'x2'], 'm': 1})
except Exception:
    import traceback; traceback.print_exc(); sys.exit(2)
print(r)
sys.exit(1 if r else 0)
