#!/verif/.venv/bin/python
# Replay of a counterexample against the real code in /tmp/wt_couplings/src (exit 1 = violation reproduced).
import os, sys
os.environ.setdefault("NUMBA_DISABLE_JIT", "1")
sys.path.insert(0, '/tmp/wt_couplings' + "/src"); sys.path.insert(0, '/verif')
from fractions import Fraction
import harness.cplkit as H
try:
    r = H.replay_multi({'alpha': Fraction(1, 1), 'beta0': Fraction(1, 1), 'b2': Fraction(0, 1), 'b1': Fraction(-1, 1)}, **{'mod': 'harness.C15', 'fn': 'replay_expanded_fn', 'extra': [{'alpha': Fraction(3, 125), 'alphaem': Fraction(1, 1250), 'aem': Fraction(7, 20000), 'X': Fraction(-157, 100), 'lmu': Fraction(497, 100), 'a_s': Fraction(13, 500), 'a_em': Fraction(47, 100000), 'u': Fraction(4769, 1000), 'nf': Fraction(4, 1)}, {'alpha': Fraction(3, 200), 'alphaem': Fraction(19, 25000), 'aem': Fraction(29, 100000), 'X': Fraction(2851, 500), 'lmu': Fraction(243, 1000), 'a_s': Fraction(11, 500), 'a_em': Fraction(1, 2000), 'u': Fraction(-1319, 1000), 'nf': Fraction(3, 1)}, {'alpha': Fraction(23, 1000), 'alphaem': Fraction(3, 10000), 'aem': Fraction(67, 100000), 'X': Fraction(2509, 1000), 'lmu': Fraction(-147, 1000), 'a_s': Fraction(21, 1000), 'a_em': Fraction(19, 25000), 'u': Fraction(1059, 1000), 'nf': Fraction(6, 1)}, {'alpha': Fraction(13, 500), 'alphaem': Fraction(37, 100000), 'aem': Fraction(23, 50000), 'X': Fraction(-211, 125), 'lmu': Fraction(471, 250), 'a_s': Fraction(1, 40), 'a_em': Fraction(57, 100000), 'u': Fraction(5939, 1000), 'nf': Fraction(4, 1)}], 'kw': {'n': 4, 'via': 'direct', 'counting': 'B'}})
except Exception:
    import traceback; traceback.print_exc(); sys.exit(2)
print(r)
sys.exit(1 if r else 0)
