#!/verif/.venv/bin/python
# Replay of a counterexample against the real code in /tmp/wt_io3/src (exit 1 = violation reproduced).
import os, sys
os.environ.setdefault("NUMBA_DISABLE_JIT", "1")
sys.path.insert(0, '/tmp/wt_io3' + "/src"); sys.path.insert(0, '/verif')
from fractions import Fraction
import harness.C37 as H
try:
    r = H.replay_step({'disk1': 'True', 'cached2': 'True', 'loaded0': 'True', 'disk2': 'True', 'cached0': 'True', 'disk0': 'True', 'cached1': 'True', 'loaded1': 'True', 'loaded2': 'True'}, **{'kind': 'reopen', 'j': None, 'state': [[True, True, True, False], [True, True, True, False], [True, True, True, False]], 'en': False, 'aspect': 'view'})
except Exception:
    import traceback; traceback.print_exc(); sys.exit(2)
print(r)
sys.exit(1 if r else 0)
