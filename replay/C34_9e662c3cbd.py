#!/verif/.venv/bin/python
# Replay of a counterexample against the real code in /tmp/wt_interp/src (exit 1 = violation reproduced).
import os, sys
os.environ.setdefault("NUMBA_DISABLE_JIT", "1")
sys.path.insert(0, '/tmp/wt_interp' + "/src"); sys.path.insert(0, '/verif')
from fractions import Fraction
import harness.C34 as H
try:
    r = H.replay_basis({'x0': Fraction(1, 4), 'log!4': Fraction(2, 1), 'log!5': Fraction(-3, 1), 'log!6': Fraction(-1, 1), 'xe1': Fraction(3, 4), 'log!1': Fraction(-4, 1), 'log!3': Fraction(0, 1), 'log!7': Fraction(1, 1), 'x1': Fraction(1, 2), 'x2': Fraction(1, 1), 'xe0': Fraction(3, 8), 'x3': Fraction(2, 1), 'log!2': Fraction(-2, 1), 'xe2': Fraction(3, 2)}, **{'mode': True, 'n': 4, 'deg': 2, 'mode_N': False, 'k': 2, 'm': 1})
except Exception:
    import traceback; traceback.print_exc(); sys.exit(2)
print(r)
sys.exit(1 if r else 0)
