#!/verif/.venv/bin/python
# Replay of a counterexample against the real code in /tmp/wt_ekobox2/src (exit 1 = violation reproduced).
import os, sys
os.environ.setdefault("NUMBA_DISABLE_JIT", "1")
sys.path.insert(0, '/tmp/wt_ekobox2' + "/src"); sys.path.insert(0, '/verif')
from fractions import Fraction
import harness.C45 as H
try:
    r = H.replay_evolve({'mu0': '2', 'mu2': '3/2', 'mu1': '2', 'x0': '1', 'x1': '2'}, **{'nfs': [5, 4, 4], 'target': None, 'members': 2, 'what': 'overlap'})
except Exception:
    import traceback; traceback.print_exc(); sys.exit(2)
print(r)
sys.exit(1 if r else 0)
