#!/verif/.venv/bin/python
# Replay of a counterexample against the real code in /tmp/wt_flavour/src (exit 1 = violation reproduced).
import os, sys
os.environ.setdefault("NUMBA_DISABLE_JIT", "1")
sys.path.insert(0, '/tmp/wt_flavour' + "/src"); sys.path.insert(0, '/verif')
from fractions import Fraction
import harness.C31 as H
try:
    r = H.replay_tables({'f_m6': '0', 'f_2': '0', 'f_4': '0', 'f_21': '0', 'f_5': '0', 'f_m1': '0', 'f_m4': '0', 'f_m3': '0', 'f_m5': '0', 'f_3': '0', 'f_6': '0', 'f_22': '0', 'f_1': '0', 'f_m2': '0'}, **{'qed': True, 'fact': 'unified_evol_basis_pids: follow the documented numbering'})
except Exception:
    import traceback; traceback.print_exc(); sys.exit(2)
print(r)
sys.exit(1 if r else 0)
