#!/verif/.venv/bin/python
# Replay of a counterexample against the real code in /repo/src (exit 1 = violation reproduced).
import os, sys
os.environ.setdefault("NUMBA_DISABLE_JIT", "1")
sys.path.insert(0, '/repo' + "/src"); sys.path.insert(0, '/verif')
from fractions import Fraction
import harness.C45 as H
try:
    r = H.replay_build({'x0': Fraction(2, 1), 'mu0': Fraction(2, 1), 't0': Fraction(1, 1), 't1': Fraction(4, 1), 'x1': Fraction(3, 1)}, **{'nfs': [4], 'what': 'x'})
except Exception:
    import traceback; traceback.print_exc(); sys.exit(2)
print(r)
sys.exit(1 if r else 0)
