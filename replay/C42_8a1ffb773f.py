#!/verif/.venv/bin/python
# Replay of a counterexample against the real code in /tmp/wt_interp/src (exit 1 = violation reproduced).
import os, sys
os.environ.setdefault("NUMBA_DISABLE_JIT", "1")
sys.path.insert(0, '/tmp/wt_interp' + "/src"); sys.path.insert(0, '/verif')
from fractions import Fraction
import harness.C42 as H
try:
    r = H.replay_flavor_const({'O_0_0_6_0': Fraction(0, 1), 'f_6_0': Fraction(0, 1), 'O_0_0_7_0': Fraction(0, 1), 'O_0_0_3_0': Fraction(0, 1), 'O_0_0_5_0': Fraction(0, 1), 'f_10_0': Fraction(0, 1), 'O_0_0_9_0': Fraction(0, 1), 'O_0_0_2_0': Fraction(0, 1), 'f_11_0': Fraction(0, 1), 'f_4_0': Fraction(0, 1), 'f_5_0': Fraction(0, 1), 'O_0_0_8_0': Fraction(0, 1), 'f_2_0': Fraction(-1, 1), 'O_0_0_12_0': Fraction(0, 1), 'f_7_0': Fraction(0, 1), 'f_1_0': Fraction(0, 1), 'O_0_0_11_0': Fraction(0, 1), 'O_0_0_4_0': Fraction(0, 1), 'f_13_0': Fraction(0, 1), 'f_8_0': Fraction(0, 1), 'f_9_0': Fraction(0, 1), 'O_0_0_10_0': Fraction(0, 1), 'f_3_0': Fraction(0, 1), 'O_0_0_13_0': Fraction(-1, 1), 'O_0_0_1_0': Fraction(0, 1), 'f_12_0': Fraction(0, 1)}, **{'fn': 'to_evol', 'source': True, 'target': False, 'X': 1})
except Exception:
    import traceback; traceback.print_exc(); sys.exit(2)
print(r)
sys.exit(1 if r else 0)
