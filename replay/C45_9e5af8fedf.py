#!/verif/.venv/bin/python
# Replay of a counterexample against the real code in /repo/src (exit 1 = violation reproduced).
import os, sys
os.environ.setdefault("NUMBA_DISABLE_JIT", "1")
sys.path.insert(0, '/repo' + "/src"); sys.path.insert(0, '/verif')
from fractions import Fraction
import harness.C45 as H
try:
    r = H.replay_build({'mu0': Fraction(88593, 1000), 'mu1': Fraction(2208, 25), 'mu2': Fraction(11307, 1000), 't0': Fraction(1, 5), 't1': Fraction(4, 5), 't2': Fraction(9, 10)}, **{'nfs': [5, 5]})
except Exception:
    import traceback; traceback.print_exc(); sys.exit(2)
print(r)
sys.exit(1 if r else 0)
