#!/verif/.venv/bin/python
# Replay of a counterexample against the real code in /tmp/wt_ekobox/src (exit 1 = violation reproduced).
import os, sys
os.environ.setdefault("NUMBA_DISABLE_JIT", "1")
sys.path.insert(0, '/tmp/wt_ekobox' + "/src"); sys.path.insert(0, '/verif')
from fractions import Fraction
import harness.C46 as H
try:
    r = H.replay_project({'d0_0_1': Fraction(1, 2), 'd1_1_13': Fraction(0, 1), 'd1_0_8': Fraction(0, 1), 'd0_1_1': Fraction(0, 1), 'd0_1_2': Fraction(0, 1), 'd1_1_4': Fraction(0, 1), 'd1_1_11': Fraction(0, 1), 'd1_1_0': Fraction(0, 1), 'd1_0_10': Fraction(0, 1), 'd1_0_0': Fraction(0, 1), 'd1_1_10': Fraction(0, 1), 'd1_1_9': Fraction(0, 1), 'd1_0_2': Fraction(0, 1), 'd1_1_2': Fraction(-1, 2), 'd0_0_5': Fraction(0, 1), 'd1_1_6': Fraction(0, 1), 'd1_0_1': Fraction(0, 1), 'd1_0_6': Fraction(0, 1), 'd1_0_13': Fraction(0, 1), 'd0_1_0': Fraction(0, 1), 'd1_1_5': Fraction(0, 1), 'd0_1_6': Fraction(-1, 2), 'd1_1_3': Fraction(0, 1), 'd0_0_2': Fraction(0, 1), 'd1_1_8': Fraction(0, 1), 'd1_0_3': Fraction(0, 1), 'd0_0_6': Fraction(0, 1), 'd1_0_9': Fraction(0, 1), 'd1_0_4': Fraction(1, 2), 'd1_1_1': Fraction(0, 1), 'd1_0_5': Fraction(0, 1), 'd1_0_11': Fraction(0, 1), 'd0_1_5': Fraction(0, 1), 'd0_0_0': Fraction(0, 1)}, **{'basis': 'evol', 'sel': [3]})
except Exception:
    import traceback; traceback.print_exc(); sys.exit(2)
print(r)
sys.exit(1 if r else 0)
