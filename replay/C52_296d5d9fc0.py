#!/verif/.venv/bin/python
# Replay of a counterexample against the real code in /tmp/wt_flavour/src (exit 1 = violation reproduced).
import os, sys
os.environ.setdefault("NUMBA_DISABLE_JIT", "1")
sys.path.insert(0, '/tmp/wt_flavour' + "/src"); sys.path.insert(0, '/verif')
from fractions import Fraction
import harness.C52 as H
try:
    r = H.replay_base({'m_200_200_00': Fraction(0, 1)}, **{'kind': 'matching', 'nf': 3, 'qed': False, 'g': 1, 'pid': 5})
except Exception:
    import traceback; traceback.print_exc(); sys.exit(2)
print(r)
sys.exit(1 if r else 0)
