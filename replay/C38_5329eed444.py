#!/verif/.venv/bin/python
# Replay of a counterexample against the real code in /repo/src (exit 1 = violation reproduced).
import os, sys
os.environ.setdefault("NUMBA_DISABLE_JIT", "1")
sys.path.insert(0, '/repo' + "/src"); sys.path.insert(0, '/verif')
from fractions import Fraction
import harness.C38 as H
try:
    r = H.replay_session({'k1': '55'}, **{'scenario': 'edit', 'faults': [{'step': 55, 'kind': 'tar-add', 'rel': '.', 'nth': 1, 'session': 2}]})
except Exception:
    import traceback; traceback.print_exc(); sys.exit(2)
print(r)
sys.exit(1 if r else 0)
