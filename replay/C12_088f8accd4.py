#!/verif/.venv/bin/python
# Replay of a counterexample against the real code in /tmp/wt_mut_9y0OK0/src (exit 1 = violation reproduced).
import os, sys
os.environ.setdefault("NUMBA_DISABLE_JIT", "1")
sys.path.insert(0, '/tmp/wt_mut_9y0OK0' + "/src"); sys.path.insert(0, '/verif')
from fractions import Fraction
import harness.C12 as H
try:
    r = H.replay_iterate({'a0': Fraction(3, 125), 'beta0': Fraction(723, 100), 'b1': Fraction(3451, 1000), 'b2': Fraction(8749, 500), 'b3': Fraction(39347, 250), 'g0_00': Fraction(-51, 500), 'g0_01': Fraction(-2233, 1000), 'g0_10': Fraction(-37, 250), 'g0_11': Fraction(149, 200), 'g1_00': Fraction(1451, 125), 'g1_01': Fraction(-1362, 125), 'g1_10': Fraction(309, 125), 'g1_11': Fraction(2541, 250), 'g2_00': Fraction(-2952, 125), 'g2_01': Fraction(5262, 125), 'g2_10': Fraction(5454, 125), 'g2_11': Fraction(-642, 125), 'g3_00': Fraction(-20952, 125), 'g3_01': Fraction(-22896, 125), 'g3_10': Fraction(10064, 125), 'g3_11': Fraction(-21648, 125)}, **{'order': 2})
except Exception:
    import traceback; traceback.print_exc(); sys.exit(2)
print(r)
sys.exit(1 if r else 0)
