#!/verif/.venv/bin/python
# Replay of a counterexample against the real code in /repo/src (exit 1 = violation reproduced).
import os, sys
os.environ.setdefault("NUMBA_DISABLE_JIT", "1")
sys.path.insert(0, '/repo' + "/src"); sys.path.insert(0, '/verif')
from fractions import Fraction
import harness.C44 as H
try:
    r = H.replay_match({'B_0_0_0_0': Fraction(0, 1), 'B_0_1_0_0': Fraction(-1, 1), 'A1_0_1_0_0': Fraction(0, 1), 'B_0_0_0_1': Fraction(0, 1), 'A0_0_1_0_1': Fraction(0, 1), 'A1_0_0_0_0': Fraction(0, 1), 'A1_0_0_0_1': Fraction(0, 1), 'A0_0_0_0_0': Fraction(-1, 1), 'A1_0_1_0_1': Fraction(0, 1), 'A0_0_1_0_0': Fraction(0, 1), 'A0_0_0_0_1': Fraction(0, 1), 'm': Fraction(321, 32), 'B_0_1_0_1': Fraction(0, 1)}, **{'stored': [100.0, 100.4]})
except Exception:
    import traceback; traceback.print_exc(); sys.exit(2)
print(r)
sys.exit(1 if r else 0)
