#!/verif/.venv/bin/python
# Replay of a counterexample against the real code in /repo/src (exit 1 = violation reproduced).
import os, sys
os.environ.setdefault("NUMBA_DISABLE_JIT", "1")
sys.path.insert(0, '/repo' + "/src"); sys.path.insert(0, '/verif')
from fractions import Fraction
import harness.cplkit as H
try:
    r = H.replay_multi({'beta2': Fraction(0, 1), 'betaqed0': Fraction(-1, 1), 'X': Fraction(0, 1), 'alphaem': Fraction(1, 1), 'beta1': Fraction(-1, 1), 'alpha': Fraction(1, 1), 'log!2': Fraction(2, 1), 'beta0': Fraction(1, 1), 'beta3': Fraction(0, 1)}, **{'mod': 'harness.C15', 'fn': 'replay_compute', 'extra': [{'alpha': Fraction(1, 50), 'alphaem': Fraction(63, 100000), 'aem': Fraction(1, 5000), 'X': Fraction(-861, 500), 'lmu': Fraction(519, 100), 'a_s': Fraction(11, 500), 'a_em': Fraction(33, 50000), 'u': Fraction(301, 125), 'nf': Fraction(6, 1)}, {'alpha': Fraction(1, 125), 'alphaem': Fraction(7, 12500), 'aem': Fraction(51, 100000), 'X': Fraction(2979, 1000), 'lmu': Fraction(32, 25), 'a_s': Fraction(3, 200), 'a_em': Fraction(19, 25000), 'u': Fraction(128, 25), 'nf': Fraction(6, 1)}, {'alpha': Fraction(19, 1000), 'alphaem': Fraction(27, 100000), 'aem': Fraction(7, 10000), 'X': Fraction(31, 200), 'lmu': Fraction(27, 40), 'a_s': Fraction(1, 100), 'a_em': Fraction(7, 25000), 'u': Fraction(-219, 250), 'nf': Fraction(3, 1)}, {'alpha': Fraction(1, 125), 'alphaem': Fraction(1, 4000), 'aem': Fraction(1, 1250), 'X': Fraction(3643, 1000), 'lmu': Fraction(3923, 1000), 'a_s': Fraction(23, 1000), 'a_em': Fraction(21, 50000), 'u': Fraction(1203, 500), 'nf': Fraction(5, 1)}], 'kw': {'order': [4, 0], 'em_running': True, 'method': 'expanded', 'counting': 'A'}})
except Exception:
    import traceback; traceback.print_exc(); sys.exit(2)
print(r)
sys.exit(1 if r else 0)
