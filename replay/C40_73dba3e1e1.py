#!/verif/.venv/bin/python
# Replay of a counterexample against the real code in /repo/src (exit 1 = violation reproduced).
import os, sys
os.environ.setdefault("NUMBA_DISABLE_JIT", "1")
sys.path.insert(0, '/repo' + "/src"); sys.path.insert(0, '/verif')
from fractions import Fraction
import harness.C40 as H
try:
    r = H.replay_roundtrip({'x0': '1/4', 'deg': '1', 'iters': '1', 'cores': '1', 'maxo_qcd': '1', 'mu_1': '1', 'mu0': '1', 'nf0': '3', 'nf_1': '3', 'x2': '3/4', 'x1': '1/2', 'nf_0': '3', 'mu_0': '1', 'maxo_qed': '0', 'xlog': 'False'}, **{'subject': 'OperatorCard', 'var': {'flavour': 'np', 'k': 1, 'nmu': 2}, 'aspect': 'equal-log', 'field': 'xgrid'})
except Exception:
    import traceback; traceback.print_exc(); sys.exit(2)
print(r)
sys.exit(1 if r else 0)
