#!/verif/.venv/bin/python
# Replay of a counterexample against the real code in /tmp/wt_flavour/src (exit 1 = violation reproduced).
import os, sys
os.environ.setdefault("NUMBA_DISABLE_JIT", "1")
sys.path.insert(0, '/tmp/wt_flavour' + "/src"); sys.path.insert(0, '/verif')
from fractions import Fraction
import harness.C01 as H
try:
    r = H.replay({'f_p_2_1': Fraction(0, 1), 'f_p_3_1': Fraction(0, 1), 'f_p_m6_1': Fraction(-1, 1), 'f_p_22_0': Fraction(0, 1), 'f_p_m5_0': Fraction(-1, 1), 'f_p_6_0': Fraction(-1, 1), 'f_p_3_0': Fraction(0, 1), 'f_p_21_1': Fraction(0, 1), 'f_p_m4_1': Fraction(-1, 1), 'f_p_m5_1': Fraction(-1, 1), 'f_p_4_0': Fraction(-1, 1), 'f_p_m3_0': Fraction(0, 1), 'f_p_m2_1': Fraction(0, 1), 'f_p_m2_0': Fraction(0, 1), 'f_p_1_0': Fraction(0, 1), 'f_p_1_1': Fraction(0, 1), 'f_p_m1_1': Fraction(0, 1), 'f_p_21_0': Fraction(0, 1), 'f_p_m3_1': Fraction(0, 1), 'f_p_4_1': Fraction(-1, 1), 'xif2': Fraction(999999999999, 1000000000000), 'f_p_6_1': Fraction(-1, 1), 'f_p_5_0': Fraction(-1, 1), 'f_p_m4_0': Fraction(-1, 1), 'f_p_5_1': Fraction(-1, 1), 'f_p_2_0': Fraction(0, 1), 'f_p_22_1': Fraction(0, 1), 'f_p_m6_0': Fraction(-1, 1), 'f_p_m1_0': Fraction(0, 1), 'mu2': Fraction(999999999999, 1000000000000)}, **{'nf': 3, 'g': 2, 'order': [1, 1], 'scheme': None, 'thr': False})
except Exception:
    import traceback; traceback.print_exc(); sys.exit(2)
print(r)
sys.exit(1 if r else 0)
