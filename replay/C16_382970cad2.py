#!/verif/.venv/bin/python
# Replay of a counterexample against the real code in /tmp/wt_couplings/src (exit 1 = violation reproduced).
import os, sys
os.environ.setdefault("NUMBA_DISABLE_JIT", "1")
sys.path.insert(0, '/tmp/wt_couplings' + "/src"); sys.path.insert(0, '/verif')
from fractions import Fraction
import harness.cplkit as H
try:
    r = H.replay_multi({'nf': Fraction(3, 1)}, **{'mod': 'harness.C16', 'fn': 'replay_table', 'extra': [{'nf': Fraction(3, 1)}, {'nf': Fraction(4, 1)}, {'nf': Fraction(5, 1)}, {'a': Fraction(3, 125), 'alpha': Fraction(11, 500), 'aem': Fraction(13, 25000), 'nf': Fraction(3, 1), 'Lc': Fraction(477, 1000), 'Lb': Fraction(-547, 1000), 'Lt': Fraction(-301, 1000), 'Lq': Fraction(953, 1000)}, {'a': Fraction(3, 200), 'alpha': Fraction(3, 250), 'aem': Fraction(31, 50000), 'nf': Fraction(3, 1), 'Lc': Fraction(91, 125), 'Lb': Fraction(591, 1000), 'Lt': Fraction(911, 1000), 'Lq': Fraction(-18, 25)}, {'a': Fraction(3, 250), 'alpha': Fraction(7, 250), 'aem': Fraction(59, 100000), 'nf': Fraction(3, 1), 'Lc': Fraction(-87, 250), 'Lb': Fraction(-191, 500), 'Lt': Fraction(149, 500), 'Lq': Fraction(397, 1000)}, {'a': Fraction(19, 1000), 'alpha': Fraction(3, 200), 'aem': Fraction(67, 100000), 'nf': Fraction(5, 1), 'Lc': Fraction(-6, 25), 'Lb': Fraction(-1113, 1000), 'Lt': Fraction(293, 250), 'Lq': Fraction(53, 100)}], 'kw': {'scheme': 'POLE', 'which': 'down', 'n': 3, 'l': 2}})
except Exception:
    import traceback; traceback.print_exc(); sys.exit(2)
print(r)
sys.exit(1 if r else 0)
