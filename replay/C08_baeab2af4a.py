#!/verif/.venv/bin/python
# Replay of a counterexample against the real code in /tmp/wt_mut_SyIaeW/src (exit 1 = violation reproduced).
import os, sys
os.environ.setdefault("NUMBA_DISABLE_JIT", "1")
sys.path.insert(0, '/tmp/wt_mut_SyIaeW' + "/src"); sys.path.insert(0, '/verif')
from fractions import Fraction
import harness.C08 as H
try:
    r = H.replay_ns({'alpha0': Fraction(23, 500), 'alpha1': Fraction(6, 125), 'beta0': Fraction(946, 125), 'b1': Fraction(4179, 1000), 'b2': Fraction(21797, 1000), 'b3': Fraction(135587, 1000), 'g0': Fraction(631, 1000), 'g0_00': Fraction(-1153, 500), 'g0_01': Fraction(-529, 500), 'g0_10': Fraction(-2529, 1000), 'g0_11': Fraction(123, 100), 'g1': Fraction(407, 250), 'g1_00': Fraction(-931, 125), 'g1_01': Fraction(-1212, 125), 'g1_10': Fraction(-953, 250), 'g1_11': Fraction(-1579, 250), 'g2': Fraction(5548, 125), 'g2_00': Fraction(1022, 25), 'g2_01': Fraction(-4742, 125), 'g2_10': Fraction(482, 125), 'g2_11': Fraction(414, 125), 'g3': Fraction(4464, 125), 'g3_00': Fraction(14752, 125), 'g3_01': Fraction(-12616, 125), 'g3_10': Fraction(-11488, 125), 'g3_11': Fraction(-4072, 125)}, **{'method': 'truncated', 'order': 3})
except Exception:
    import traceback; traceback.print_exc(); sys.exit(2)
print(r)
sys.exit(1 if r else 0)
