#!/verif/.venv/bin/python
# Replay of a counterexample against the real code in /tmp/wt_interp/src (exit 1 = violation reproduced).
import os, sys
os.environ.setdefault("NUMBA_DISABLE_JIT", "1")
sys.path.insert(0, '/tmp/wt_interp' + "/src"); sys.path.insert(0, '/verif')
from fractions import Fraction
import harness.C42 as H
try:
    r = H.replay_flavor({'Rt_0_0': Fraction(406, 125), 'Rt_0_1': Fraction(-101, 500), 'Rt_1_0': Fraction(126, 125), 'Rt_1_1': Fraction(3617, 1000), 'Ri_0_0': Fraction(1317, 500), 'Ri_0_1': Fraction(-933, 1000), 'Ri_1_0': Fraction(619, 500), 'Ri_1_1': Fraction(1653, 1000)}, **{'F': 2, 'X': 2, 'sides': 'input'})
except Exception:
    import traceback; traceback.print_exc(); sys.exit(2)
print(r)
sys.exit(1 if r else 0)
