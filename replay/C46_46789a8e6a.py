#!/verif/.venv/bin/python
# Replay of a counterexample against the real code in /tmp/wt_ekobox/src (exit 1 = violation reproduced).
import os, sys
os.environ.setdefault("NUMBA_DISABLE_JIT", "1")
sys.path.insert(0, '/tmp/wt_ekobox' + "/src"); sys.path.insert(0, '/verif')
from fractions import Fraction
import harness.C46 as H
try:
    r = H.replay_project({'d0_0_1': Fraction(0, 1), 'd0_0_7': Fraction(-93, 40), 'd0_0_4': Fraction(0, 1), 'd0_0_8': Fraction(-3, 10), 'd0_0_2': Fraction(23, 10), 'd0_0_3': Fraction(0, 1), 'd0_0_0': Fraction(0, 1), 'd0_0_5': Fraction(0, 1), 'd0_0_6': Fraction(61, 40)}, **{'basis': 'evol', 'sel': [0, 1, 2, 3, 4, 5, 6, 7, 8, 9, 10, 11, 12, 13]})
except Exception:
    import traceback; traceback.print_exc(); sys.exit(2)
print(r)
sys.exit(1 if r else 0)
