#!/verif/.venv/bin/python
# Replay of a counterexample against the real code in /tmp/wt_couplings/src (exit 1 = violation reproduced).
import os, sys
os.environ.setdefault("NUMBA_DISABLE_JIT", "1")
sys.path.insert(0, '/tmp/wt_couplings' + "/src"); sys.path.insert(0, '/verif')
from fractions import Fraction
import harness.cplkit as H
try:
    r = H.replay_multi({'alpha': Fraction(1, 1), 'beta21': Fraction(-1, 2), 'beta0': Fraction(1, 1), 'X': Fraction(0, 1), 'aem': Fraction(1, 1), 'betaqed0': Fraction(-1, 1)}, **{'mod': 'harness.C15', 'fn': 'replay_compute', 'extra': [{'alpha': Fraction(7, 500), 'alphaem': Fraction(1, 3125), 'aem': Fraction(33, 50000), 'X': Fraction(2519, 500), 'lmu': Fraction(2917, 1000), 'a_s': Fraction(1, 125), 'a_em': Fraction(61, 100000), 'u': Fraction(89, 100), 'nf': Fraction(3, 1)}, {'alpha': Fraction(19, 1000), 'alphaem': Fraction(13, 50000), 'aem': Fraction(61, 100000), 'X': Fraction(2381, 500), 'lmu': Fraction(3909, 1000), 'a_s': Fraction(3, 200), 'a_em': Fraction(37, 50000), 'u': Fraction(2501, 1000), 'nf': Fraction(6, 1)}, {'alpha': Fraction(1, 100), 'alphaem': Fraction(7, 10000), 'aem': Fraction(27, 50000), 'X': Fraction(5133, 1000), 'lmu': Fraction(-327, 250), 'a_s': Fraction(3, 250), 'a_em': Fraction(51, 100000), 'u': Fraction(-659, 1000), 'nf': Fraction(5, 1)}, {'alpha': Fraction(3, 125), 'alphaem': Fraction(47, 100000), 'aem': Fraction(19, 25000), 'X': Fraction(2843, 500), 'lmu': Fraction(-351, 500), 'a_s': Fraction(19, 1000), 'a_em': Fraction(2, 3125), 'u': Fraction(3411, 1000), 'nf': Fraction(6, 1)}], 'kw': {'order': [1, 1], 'em_running': False, 'method': 'expanded', 'counting': 'A'}})
except Exception:
    import traceback; traceback.print_exc(); sys.exit(2)
print(r)
sys.exit(1 if r else 0)
