#!/verif/.venv/bin/python
# Replay of a counterexample against the real code in /tmp/wt_couplings/src (exit 1 = violation reproduced).
import os, sys
os.environ.setdefault("NUMBA_DISABLE_JIT", "1")
sys.path.insert(0, '/tmp/wt_couplings' + "/src"); sys.path.insert(0, '/verif')
from fractions import Fraction
import harness.cplkit as H
try:
    r = H.replay_multi({'Lb': Fraction(0, 1), 'Lc': Fraction(-1, 1), 'a': Fraction(1, 1)}, **{'mod': 'harness.C16', 'fn': 'replay_loop', 'extra': [{'a': Fraction(3, 250), 'alpha': Fraction(7, 500), 'aem': Fraction(67, 100000), 'nf': Fraction(3, 1), 'Lc': Fraction(499, 1000), 'Lb': Fraction(-101, 100), 'Lt': Fraction(-617, 1000), 'Lq': Fraction(107, 125)}, {'a': Fraction(9, 500), 'alpha': Fraction(1, 100), 'aem': Fraction(27, 50000), 'nf': Fraction(4, 1), 'Lc': Fraction(38, 125), 'Lb': Fraction(239, 1000), 'Lt': Fraction(87, 250), 'Lq': Fraction(-553, 500)}, {'a': Fraction(7, 500), 'alpha': Fraction(19, 1000), 'aem': Fraction(69, 100000), 'nf': Fraction(5, 1), 'Lc': Fraction(251, 250), 'Lb': Fraction(27, 100), 'Lt': Fraction(29, 125), 'Lq': Fraction(919, 1000)}, {'a': Fraction(2, 125), 'alpha': Fraction(11, 500), 'aem': Fraction(71, 100000), 'nf': Fraction(4, 1), 'Lc': Fraction(789, 1000), 'Lb': Fraction(501, 500), 'Lt': Fraction(-1, 4), 'Lq': Fraction(-1131, 1000)}], 'kw': {'scheme': 'POLE', 'order': 3, 'nf_from': 4, 'nf_to': 3}})
except Exception:
    import traceback; traceback.print_exc(); sys.exit(2)
print(r)
sys.exit(1 if r else 0)
