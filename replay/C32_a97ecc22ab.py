#!/verif/.venv/bin/python
# Replay of a counterexample against the real code in /tmp/wt_flavour/src (exit 1 = violation reproduced).
import os, sys
os.environ.setdefault("NUMBA_DISABLE_JIT", "1")
sys.path.insert(0, '/tmp/wt_flavour' + "/src"); sys.path.insert(0, '/verif')
from fractions import Fraction
import harness.C32 as H
try:
    r = H.replay_map({'m_10101_0_10': Fraction(0, 1), 'm_21_21_00': Fraction(0, 1), 'm_100_21_01': Fraction(0, 1), 'm_100_100_11': Fraction(0, 1), 'm_10101_0_11': Fraction(0, 1), 'm_10201_0_01': Fraction(0, 1), 'm_21_21_01': Fraction(0, 1), 'm_10101_0_00': Fraction(0, 1), 'm_10200_0_00': Fraction(0, 1), 'm_10201_0_10': Fraction(0, 1), 'm_10201_0_11': Fraction(0, 1), 'm_100_21_10': Fraction(0, 1), 'm_100_21_11': Fraction(0, 1), 'm_21_100_11': Fraction(0, 1), 'm_100_100_00': Fraction(0, 1), 'm_100_21_00': Fraction(0, 1), 'm_10200_0_01': Fraction(0, 1), 'm_21_100_10': Fraction(0, 1), 'm_10101_0_01': Fraction(0, 1), 'm_100_100_01': Fraction(0, 1), 'm_21_100_00': Fraction(0, 1), 'm_10201_0_00': Fraction(0, 1), 'm_21_21_10': Fraction(0, 1), 'm_21_21_11': Fraction(0, 1), 'm_21_100_01': Fraction(0, 1), 'm_10200_0_11': Fraction(0, 1), 'm_10200_0_10': Fraction(0, 1), 'm_100_100_10': Fraction(0, 1)}, **{'kind': 'physical', 'nf': 3, 'qed': False, 'g': 2, 'o': 1})
except Exception:
    import traceback; traceback.print_exc(); sys.exit(2)
print(r)
sys.exit(1 if r else 0)
