#!/verif/.venv/bin/python
# Replay of a counterexample against the real code in /tmp/wt_ekobox/src (exit 1 = violation reproduced).
import os, sys
os.environ.setdefault("NUMBA_DISABLE_JIT", "1")
sys.path.insert(0, '/tmp/wt_ekobox' + "/src"); sys.path.insert(0, '/verif')
from fractions import Fraction
import harness.C46 as H
try:
    r = H.replay_project({'d0_0_2': Fraction(-6, 1), 'd0_0_0': Fraction(0, 1)}, **{'basis': 'evol', 'sel': [3]})
except Exception:
    import traceback; traceback.print_exc(); sys.exit(2)
print(r)
sys.exit(1 if r else 0)
