#!/verif/.venv/bin/python
# Replay of a counterexample against the real code in /repo/src (exit 1 = violation reproduced).
import os, sys
os.environ.setdefault("NUMBA_DISABLE_JIT", "1")
sys.path.insert(0, '/repo' + "/src"); sys.path.insert(0, '/verif')
from fractions import Fraction
import harness.C40 as H
try:
    r = H.replay_roundtrip({'Qref': '1', 'xif': '1', 'n3lo3': '0', 'mc': '1', 'n3lo4': '0', 'n3lo5': '0', 'Qmc': '1', 'alphas': '1', 'kbThr': '1', 'o_qcd': '1', 'mo_qcd': '0', 'nfref': '3', 'Qmt': '1', 'mt': '1', 'mb': '1', 'Qmb': '1', 'n3lo6': '0', 'ktThr': '1', 'n3lo2': '0', 'mo_qed': '0', 'n3lo1': '0', 'o_qed': '0', 'kcThr': '1', 'n3lo0': '0'}, **{'subject': 'TheoryCard', 'var': {'flavour': 'np', 'k': 0, 'matching': 'given'}, 'aspect': 'plain', 'field': 'order'})
except Exception:
    import traceback; traceback.print_exc(); sys.exit(2)
print(r)
sys.exit(1 if r else 0)
