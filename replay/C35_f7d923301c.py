#!/verif/.venv/bin/python
# Replay of a counterexample against the real code in /tmp/wt_interp/src (exit 1 = violation reproduced).
import os, sys
os.environ.setdefault("NUMBA_DISABLE_JIT", "1")
sys.path.insert(0, '/tmp/wt_interp' + "/src"); sys.path.insert(0, '/verif')
from fractions import Fraction
import harness.C35 as H
try:
    r = H.replay_lognx({'cos!9': Fraction(-1, 1), 'sqrt!11': Fraction(1, 562949953421312), 'umax': Fraction(-1, 281474976710656), 'nr': Fraction(1, 4), 'sin!10': Fraction(0, 1), 'sin!3': Fraction(0, 1), 'umin': Fraction(-1, 140737488355328), 'c1': Fraction(0, 1), 'cos!2': Fraction(-1, 1), 'exp!4': Fraction(1, 1), 'c0': Fraction(-1, 1), 'cos!5': Fraction(0, 1), 'ni': Fraction(0, 1), 'sqrt!7': Fraction(1, 1125899906842624), 'sin!6': Fraction(-1, 1), 'lx': Fraction(-2251799813685269, 2251799813685248), 'ulow': Fraction(-2251799813685261, 1125899906842624)}, **{'kind': 'full', 'deg': 1})
except Exception:
    import traceback; traceback.print_exc(); sys.exit(2)
print(r)
sys.exit(1 if r else 0)
