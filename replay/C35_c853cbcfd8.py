#!/verif/.venv/bin/python
# Replay of a counterexample against the real code in /tmp/wt_interp/src (exit 1 = violation reproduced).
import os, sys
os.environ.setdefault("NUMBA_DISABLE_JIT", "1")
sys.path.insert(0, '/tmp/wt_interp' + "/src"); sys.path.insert(0, '/verif')
from fractions import Fraction
import harness.C35 as H
try:
    r = H.replay_nx({'nr': Fraction(997, 1000), 'ni': Fraction(-481, 250), 'umax': Fraction(-971, 1000), 'umin': Fraction(-1833, 1000), 'lx': Fraction(-529, 250), 'ulow': Fraction(-1377, 500), 'lx2': Fraction(-109, 125), 'xmin': Fraction(67, 250), 'xmax': Fraction(173, 200), 't': Fraction(139, 250), 'r': Fraction(733, 500), 'o': Fraction(0, 1), 'c0': Fraction(-41, 50), 'd0': Fraction(759, 1000), 'c1': Fraction(377, 500), 'd1': Fraction(-21, 250), 'c2': Fraction(-329, 500), 'd2': Fraction(53, 100), 'c3': Fraction(-313, 200), 'd3': Fraction(-797, 500), 'c4': Fraction(-206, 125), 'd4': Fraction(-319, 500), 'c5': Fraction(263, 250), 'd5': Fraction(-1249, 1000)}, **{'kind': 'full', 'deg': 1})
except Exception:
    import traceback; traceback.print_exc(); sys.exit(2)
print(r)
sys.exit(1 if r else 0)
