#!/verif/.venv/bin/python
# Replay of a counterexample against the real code in /tmp/wt_couplings/src (exit 1 = violation reproduced).
import os, sys
os.environ.setdefault("NUMBA_DISABLE_JIT", "1")
sys.path.insert(0, '/tmp/wt_couplings' + "/src"); sys.path.insert(0, '/verif')
from fractions import Fraction
import harness.cplkit as H
try:
    r = H.replay_multi({'nf': Fraction(3, 1)}, **{'mod': 'harness.C16', 'fn': 'replay_table', 'extra': [{'nf': Fraction(3, 1)}, {'nf': Fraction(4, 1)}, {'nf': Fraction(5, 1)}, {'a': Fraction(23, 1000), 'alpha': Fraction(1, 40), 'aem': Fraction(2, 3125), 'nf': Fraction(4, 1), 'Lc': Fraction(57, 500), 'Lb': Fraction(1081, 1000), 'Lt': Fraction(64, 125), 'Lq': Fraction(-253, 1000)}, {'a': Fraction(3, 200), 'alpha': Fraction(11, 1000), 'aem': Fraction(33, 50000), 'nf': Fraction(3, 1), 'Lc': Fraction(-187, 500), 'Lb': Fraction(73, 500), 'Lt': Fraction(-23, 20), 'Lq': Fraction(101, 1000)}, {'a': Fraction(11, 1000), 'alpha': Fraction(3, 250), 'aem': Fraction(59, 100000), 'nf': Fraction(4, 1), 'Lc': Fraction(1269, 1000), 'Lb': Fraction(-407, 1000), 'Lt': Fraction(-199, 250), 'Lq': Fraction(-363, 1000)}, {'a': Fraction(27, 1000), 'alpha': Fraction(13, 500), 'aem': Fraction(31, 50000), 'nf': Fraction(3, 1), 'Lc': Fraction(151, 500), 'Lb': Fraction(93, 100), 'Lt': Fraction(-9, 250), 'Lq': Fraction(-113, 200)}], 'kw': {'scheme': 'POLE', 'which': 'up', 'n': 2, 'l': 1}})
except Exception:
    import traceback; traceback.print_exc(); sys.exit(2)
print(r)
sys.exit(1 if r else 0)
