#!/verif/.venv/bin/python
# Replay of a counterexample against the real code in /tmp/wt_flavour/src (exit 1 = violation reproduced).
import os, sys
os.environ.setdefault("NUMBA_DISABLE_JIT", "1")
sys.path.insert(0, '/tmp/wt_flavour' + "/src"); sys.path.insert(0, '/verif')
from fractions import Fraction
import harness.C31 as H
try:
    r = H.replay_tables({'f_m6': Fraction(0, 1), 'f_2': Fraction(0, 1), 'f_4': Fraction(0, 1), 'f_21': Fraction(0, 1), 'f_5': Fraction(0, 1), 'f_m1': Fraction(0, 1), 'f_m4': Fraction(0, 1), 'f_m3': Fraction(1, 2), 'f_m5': Fraction(0, 1), 'f_3': Fraction(0, 1), 'f_6': Fraction(0, 1), 'f_22': Fraction(0, 1), 'f_1': Fraction(0, 1), 'f_m2': Fraction(0, 1)}, **{'qed': True, 'row': 'Vd8'})
except Exception:
    import traceback; traceback.print_exc(); sys.exit(2)
print(r)
sys.exit(1 if r else 0)
