#!/verif/.venv/bin/python
# Replay of a counterexample against the real code in /tmp/wt_cards/src (exit 1 = violation reproduced).
import os, sys
os.environ.setdefault("NUMBA_DISABLE_JIT", "1")
sys.path.insert(0, '/tmp/wt_cards' + "/src"); sys.path.insert(0, '/verif')
from fractions import Fraction
import harness.C40 as H
try:
    r = H.replay_default({'n3lo4': '0', 'o_qed': '0', 'Qref': '1', 'kcThr': '1', 'n3lo3': '0', 'n3lo5': '0', 'Qmb': '1', 'ktThr': '1', 'o_qcd': '1', 'mb': '1', 'mc': '1', 'nfref': '3', 'Qmt': '1', 'n3lo6': '0', 'Qmc': '1', 'xif': '1', 'n3lo2': '0', 'alphas': '1', 'n3lo1': '0', 'mt': '1', 'kbThr': '1', 'n3lo0': '0'}, **{'var': {'flavour': 'np', 'k': 1, 'matching': 'default'}})
except Exception:
    import traceback; traceback.print_exc(); sys.exit(2)
print(r)
sys.exit(1 if r else 0)
