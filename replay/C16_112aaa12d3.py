#!/verif/.venv/bin/python
# Replay of a counterexample against the real code in /tmp/wt_couplings/src (exit 1 = violation reproduced).
import os, sys
os.environ.setdefault("NUMBA_DISABLE_JIT", "1")
sys.path.insert(0, '/tmp/wt_couplings' + "/src"); sys.path.insert(0, '/verif')
from fractions import Fraction
import harness.cplkit as H
try:
    r = H.replay_multi({'Lc': Fraction(0, 1), 'a': Fraction(1, 1)}, **{'mod': 'harness.C16', 'fn': 'replay_loop', 'extra': [{'a': Fraction(11, 500), 'alpha': Fraction(9, 1000), 'aem': Fraction(1, 2000), 'nf': Fraction(4, 1), 'Lc': Fraction(-81, 500), 'Lb': Fraction(-413, 1000), 'Lt': Fraction(-17, 25), 'Lq': Fraction(-1, 1)}, {'a': Fraction(27, 1000), 'alpha': Fraction(27, 1000), 'aem': Fraction(3, 6250), 'nf': Fraction(3, 1), 'Lc': Fraction(-831, 1000), 'Lb': Fraction(-29, 250), 'Lt': Fraction(157, 200), 'Lq': Fraction(627, 1000)}, {'a': Fraction(1, 50), 'alpha': Fraction(3, 250), 'aem': Fraction(33, 50000), 'nf': Fraction(4, 1), 'Lc': Fraction(-1043, 1000), 'Lb': Fraction(-273, 500), 'Lt': Fraction(573, 500), 'Lq': Fraction(-699, 1000)}, {'a': Fraction(1, 50), 'alpha': Fraction(1, 50), 'aem': Fraction(1, 1250), 'nf': Fraction(5, 1), 'Lc': Fraction(537, 1000), 'Lb': Fraction(57, 50), 'Lt': Fraction(97, 250), 'Lq': Fraction(-1183, 1000)}], 'kw': {'scheme': 'MSBAR', 'order': 4, 'nf_from': 4, 'nf_to': 3}})
except Exception:
    import traceback; traceback.print_exc(); sys.exit(2)
print(r)
sys.exit(1 if r else 0)
