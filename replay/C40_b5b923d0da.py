#!/verif/.venv/bin/python
# Replay of a counterexample against the real code in /repo/src (exit 1 = violation reproduced).
import os, sys
os.environ.setdefault("NUMBA_DISABLE_JIT", "1")
sys.path.insert(0, '/repo' + "/src"); sys.path.insert(0, '/verif')
from fractions import Fraction
import harness.C40 as H
try:
    r = H.replay_roundtrip({'n3lo4': '0', 'Qmt': '1', 'Qref': '1', 'Qmb': '1', 'n3lo3': '0', 'n3lo5': '0', 'xif': '1', 'kcThr': '1', 'o_qcd': '1', 'o_qed': '0', 'mo_qcd': '0', 'mc': '1', 'ktThr': '1', 'nfref': '3', 'n3lo6': '0', 'kbThr': '1', 'mb': '1', 'alphas': '1', 'n3lo2': '0', 'mo_qed': '0', 'n3lo1': '0', 'mt': '1', 'Qmc': '1', 'n3lo0': '0'}, **{'subject': 'TheoryCard', 'var': {'flavour': 'np', 'k': 0, 'fhmruvv': 'none'}, 'aspect': 'equal', 'field': 'use_fhmruvv'})
except Exception:
    import traceback; traceback.print_exc(); sys.exit(2)
print(r)
sys.exit(1 if r else 0)
