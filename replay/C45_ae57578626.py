#!/verif/.venv/bin/python
# Replay of a counterexample against the real code in /repo/src (exit 1 = violation reproduced).
import os, sys
os.environ.setdefault("NUMBA_DISABLE_JIT", "1")
sys.path.insert(0, '/repo' + "/src"); sys.path.insert(0, '/verif')
from fractions import Fraction
import harness.C45 as H
try:
    r = H.replay_alphas({'m_t': Fraction(2, 1), 'm_c': Fraction(1, 2), 'm_b': Fraction(1, 1), 'r_t': Fraction(1, 1), 'r_b': Fraction(1, 1), 'M2_b': Fraction(0, 1), 'xif': Fraction(1, 1), 'r_c': Fraction(1, 1), 'M2_t': Fraction(4, 1), 'M2_c': Fraction(1, 4)}, **{'scheme': 'MSBAR-running', 'scvar': None, 'evm': 'iterate-exact'})
except Exception:
    import traceback; traceback.print_exc(); sys.exit(2)
print(r)
sys.exit(1 if r else 0)
