#!/verif/.venv/bin/python
# Replay of a counterexample against the real code in /repo/src (exit 1 = violation reproduced).
import os, sys
os.environ.setdefault("NUMBA_DISABLE_JIT", "1")
sys.path.insert(0, '/repo' + "/src"); sys.path.insert(0, '/verif')
from fractions import Fraction
import harness.C44 as H
try:
    r = H.replay_product({'abs!2': Fraction(0, 1), 'dB0_0_0_0_0': Fraction(-1, 1), 'dA_0_0_0_0': Fraction(0, 1), 'abs!4': Fraction(1, 1), 'abs!3': Fraction(1, 1), 'B0_0_0_0_0': Fraction(0, 1), 'abs!1': Fraction(0, 1), 'A_0_0_0_0': Fraction(1, 1)}, **{'d': [1, 1], 'err1': True, 'err2': True, 'what': 'error'})
except Exception:
    import traceback; traceback.print_exc(); sys.exit(2)
print(r)
sys.exit(1 if r else 0)
