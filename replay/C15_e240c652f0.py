#!/verif/.venv/bin/python
# Replay of a counterexample against the real code in /tmp/wt_couplings/src (exit 1 = violation reproduced).
import os, sys
os.environ.setdefault("NUMBA_DISABLE_JIT", "1")
sys.path.insert(0, '/tmp/wt_couplings' + "/src"); sys.path.insert(0, '/verif')
from fractions import Fraction
import harness.cplkit as H
try:
    r = H.replay_multi({'alpha': Fraction(1, 1), 'beta21': Fraction(-1, 2), 'beta0': Fraction(1, 1), 'X': Fraction(0, 1), 'aem': Fraction(1, 1), 'betaqed0': Fraction(-1, 1)}, **{'mod': 'harness.C15', 'fn': 'replay_compute', 'extra': [{'alpha': Fraction(3, 125), 'alphaem': Fraction(19, 25000), 'aem': Fraction(23, 100000), 'X': Fraction(3819, 1000), 'lmu': Fraction(633, 200), 'a_s': Fraction(11, 500), 'a_em': Fraction(1, 4000), 'u': Fraction(18, 125), 'nf': Fraction(6, 1)}, {'alpha': Fraction(2, 125), 'alphaem': Fraction(3, 4000), 'aem': Fraction(29, 100000), 'X': Fraction(-21, 40), 'lmu': Fraction(337, 200), 'a_s': Fraction(9, 500), 'a_em': Fraction(33, 100000), 'u': Fraction(1907, 500), 'nf': Fraction(5, 1)}, {'alpha': Fraction(1, 125), 'alphaem': Fraction(13, 50000), 'aem': Fraction(2, 3125), 'X': Fraction(3639, 1000), 'lmu': Fraction(5839, 1000), 'a_s': Fraction(1, 40), 'a_em': Fraction(1, 2000), 'u': Fraction(5249, 1000), 'nf': Fraction(5, 1)}, {'alpha': Fraction(27, 1000), 'alphaem': Fraction(1, 1250), 'aem': Fraction(49, 100000), 'X': Fraction(5131, 1000), 'lmu': Fraction(1381, 1000), 'a_s': Fraction(3, 125), 'a_em': Fraction(1, 3125), 'u': Fraction(67, 500), 'nf': Fraction(5, 1)}], 'kw': {'order': [2, 1], 'em_running': False, 'method': 'expanded', 'counting': 'A'}})
except Exception:
    import traceback; traceback.print_exc(); sys.exit(2)
print(r)
sys.exit(1 if r else 0)
