#!/verif/.venv/bin/python
# Replay of a counterexample against the real code in /tmp/wt_cards/src (exit 1 = violation reproduced).
import os, sys
os.environ.setdefault("NUMBA_DISABLE_JIT", "1")
sys.path.insert(0, '/tmp/wt_cards' + "/src"); sys.path.insert(0, '/verif')
from fractions import Fraction
import harness.C40 as H
try:
    r = H.replay_roundtrip({'x0': '1/8', 'deg': '1', 'iters': '1', 'cores': '1', 'maxo_qcd': '1', 'mu_0': '1', 'log!1': '1/2', 'log!3': '-1/8', 'nf_1': '3', 'mu_1': '1', 'nf0': '3', 'x1': '1/4', 'nf_0': '3', 'x2': '3/8', 'mu0': '1', 'log!2': '0', 'maxo_qed': '0', 'xlog': 'True'}, **{'subject': 'OperatorCard', 'var': {'flavour': 'np32', 'k': 1, 'nmu': 2}, 'aspect': 'equal-raw', 'field': 'xgrid'})
except Exception:
    import traceback; traceback.print_exc(); sys.exit(2)
print(r)
sys.exit(1 if r else 0)
