#!/verif/.venv/bin/python
# Replay of a counterexample against the real code in /tmp/wt_ekobox2/src (exit 1 = violation reproduced).
import os, sys
os.environ.setdefault("NUMBA_DISABLE_JIT", "1")
sys.path.insert(0, '/tmp/wt_ekobox2' + "/src"); sys.path.insert(0, '/verif')
from fractions import Fraction
import harness.C44 as H
try:
    r = H.replay_product({'seed': Fraction(82980, 1)}, **{'d': [2, 2], 'err1': True, 'err2': False})
except Exception:
    import traceback; traceback.print_exc(); sys.exit(2)
print(r)
sys.exit(1 if r else 0)
