#!/verif/.venv/bin/python
# Replay of a counterexample against the real code in /tmp/wt_sv/src (exit 1 = violation reproduced).
import os, sys
os.environ.setdefault("NUMBA_DISABLE_JIT", "1")
sys.path.insert(0, '/tmp/wt_sv' + "/src"); sys.path.insert(0, '/verif')
from fractions import Fraction
import harness.C55 as H
try:
    r = H.replay_couplings({'log!1': Fraction(0, 1), 'mu_from': Fraction(1, 1), 'as_ref': Fraction(1, 1), 'mu_to': Fraction(1, 1), 'aem_ref': Fraction(1, 1), 'log!2': Fraction(1, 1)}, **{'order': 1, 'method': 'expanded', 'nf': 4})
except Exception:
    import traceback; traceback.print_exc(); sys.exit(2)
print(r)
sys.exit(1 if r else 0)
