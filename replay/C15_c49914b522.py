#!/verif/.venv/bin/python
# Replay of a counterexample against the real code in /tmp/wt_couplings/src (exit 1 = violation reproduced).
import os, sys
os.environ.setdefault("NUMBA_DISABLE_JIT", "1")
sys.path.insert(0, '/tmp/wt_couplings' + "/src"); sys.path.insert(0, '/verif')
from fractions import Fraction
import harness.cplkit as H
try:
    r = H.replay_multi({'alpha': Fraction(1, 1), 'log!1': Fraction(0, 1), 'beta0': Fraction(1, 1), 'X': Fraction(0, 1), 'b1': Fraction(1, 1)}, **{'mod': 'harness.C15', 'fn': 'replay_expanded_fn', 'extra': [{'alpha': Fraction(1, 100), 'alphaem': Fraction(3, 4000), 'aem': Fraction(11, 50000), 'X': Fraction(-83, 250), 'lmu': Fraction(-1411, 1000), 'a_s': Fraction(9, 1000), 'a_em': Fraction(9, 20000), 'u': Fraction(717, 125), 'nf': Fraction(3, 1)}, {'alpha': Fraction(27, 1000), 'alphaem': Fraction(29, 100000), 'aem': Fraction(13, 50000), 'X': Fraction(-211, 250), 'lmu': Fraction(977, 250), 'a_s': Fraction(11, 1000), 'a_em': Fraction(1, 4000), 'u': Fraction(-63, 125), 'nf': Fraction(5, 1)}, {'alpha': Fraction(21, 1000), 'alphaem': Fraction(3, 12500), 'aem': Fraction(3, 10000), 'X': Fraction(493, 125), 'lmu': Fraction(1111, 1000), 'a_s': Fraction(7, 500), 'a_em': Fraction(2, 3125), 'u': Fraction(897, 500), 'nf': Fraction(5, 1)}, {'alpha': Fraction(9, 1000), 'alphaem': Fraction(27, 50000), 'aem': Fraction(77, 100000), 'X': Fraction(-691, 500), 'lmu': Fraction(-198, 125), 'a_s': Fraction(9, 1000), 'a_em': Fraction(57, 100000), 'u': Fraction(-153, 200), 'nf': Fraction(6, 1)}], 'kw': {'n': 3, 'via': 'direct', 'counting': 'A'}})
except Exception:
    import traceback; traceback.print_exc(); sys.exit(2)
print(r)
sys.exit(1 if r else 0)
