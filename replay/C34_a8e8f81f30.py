#!/verif/.venv/bin/python
# Replay of a counterexample against the real code in /tmp/wt_interp/src (exit 1 = violation reproduced).
import os, sys
os.environ.setdefault("NUMBA_DISABLE_JIT", "1")
sys.path.insert(0, '/tmp/wt_interp' + "/src"); sys.path.insert(0, '/verif')
from fractions import Fraction
import harness.C34 as H
try:
    r = H.replay_accept({'x0': '1', 'log!1': '-2251799813685253/2251799813685248', 'log!2': '0', 'log!3': '2251799813685253/2251799813685248', 'x1': '2', 'x2': '3'}, **{'mode': True, 'n': 3, 'deg': 1, 'mode_N': False})
except Exception:
    import traceback; traceback.print_exc(); sys.exit(2)
print(r)
sys.exit(1 if r else 0)
