#!/verif/.venv/bin/python
# Replay of a counterexample against the real code in /tmp/wt_mut_oXzkQ8/src (exit 1 = violation reproduced).
import os, sys
os.environ.setdefault("NUMBA_DISABLE_JIT", "1")
sys.path.insert(0, '/tmp/wt_mut_oXzkQ8' + "/src"); sys.path.insert(0, '/verif')
from fractions import Fraction
import harness.C51 as H
try:
    r = H.replay_kernel({'alpha0': Fraction(9, 500), 'alpha1': Fraction(1, 40), 'a0': Fraction(1, 25), 'a1': Fraction(27, 1000), 'L': Fraction(-29, 125)}, **{'sector': 'ns', 'order': 3, 'method': 'ITERATE_EXACT', 'scheme': 'exponentiated', 'diag': False})
except Exception:
    import traceback; traceback.print_exc(); sys.exit(2)
print(r)
sys.exit(1 if r else 0)
