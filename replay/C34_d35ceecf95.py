#!/verif/.venv/bin/python
# Replay of a counterexample against the real code in /repo/src (exit 1 = violation reproduced).
import os, sys
os.environ.setdefault("NUMBA_DISABLE_JIT", "1")
sys.path.insert(0, '/repo' + "/src"); sys.path.insert(0, '/verif')
from fractions import Fraction
import harness.C34 as H
try:
    r = H.replay_reinterp({'x0': Fraction(1, 1000000000), 'x1': Fraction(31255020698, 988370537213857), 'x2': Fraction(1, 1), 't0': Fraction(3, 500000000), 't2': Fraction(199999999, 200000000)}, **{'mode': True, 'n': 3, 'deg': 1, 'tnames': ['t0', 'x1', 't2'], 'm': 1})
except Exception:
    import traceback; traceback.print_exc(); sys.exit(2)
print(r)
sys.exit(1 if r else 0)
