#!/verif/.venv/bin/python
# Replay of a counterexample against the real code in /repo/src (exit 1 = violation reproduced).
import os, sys
os.environ.setdefault("NUMBA_DISABLE_JIT", "1")
sys.path.insert(0, '/repo' + "/src"); sys.path.insert(0, '/verif')
from fractions import Fraction
import harness.C40 as H
try:
    r = H.replay_interpolator({'x0': '1/8', 'cores': '1', 'iters': '1', 'deg': '2', 'maxo_qcd': '1', 'nf_0': '3', 'x1': '1/4', 'x3': '1/2', 'mu_0': '1', 'nf0': '3', 'maxo_qed': '0', 'x2': '3/8', 'mu0': '1', 'is_log': 'False', 'xlog': 'True'}, **{'var': {'source': 'object', 'n': 4, 'k': 0, 'nmu': 1}, 'aspect': 'log'})
except Exception:
    import traceback; traceback.print_exc(); sys.exit(2)
print(r)
sys.exit(1 if r else 0)
