#!/verif/.venv/bin/python
# Replay of a counterexample against the real code in /tmp/wt_mut_TYSTw1/src (exit 1 = violation reproduced).
import os, sys
os.environ.setdefault("NUMBA_DISABLE_JIT", "1")
sys.path.insert(0, '/tmp/wt_mut_TYSTw1' + "/src"); sys.path.insert(0, '/verif')
from fractions import Fraction
import harness.C07 as H
try:
    r = H.replay_qed({'a0': Fraction(17, 1000), 'a1': Fraction(1, 125), 'beta0': Fraction(1599, 250), 'b1': Fraction(5129, 1000), 'b2': Fraction(437, 500), 'r1': Fraction(-2237, 1000), 'u': Fraction(-399, 1000), 'v': Fraction(581, 1000), 'r2': Fraction(-82, 25), 'r3': Fraction(3529, 1000), 'aem': Fraction(11, 1250), 'mu2_from': Fraction(4632, 125), 'mu2_to': Fraction(869099, 200), 'g0': Fraction(663, 250), 'g1': Fraction(-2951, 100), 'g2': Fraction(-1336, 5), 'g3': Fraction(-1615, 1), 'g00': Fraction(1891, 1000), 'g01': Fraction(233, 250), 'g02': Fraction(581, 200), 'g10': Fraction(-203, 125), 'g11': Fraction(-472, 125), 'g12': Fraction(-1067, 125), 'g20': Fraction(1274, 125), 'g21': Fraction(964, 125), 'g22': Fraction(1222, 125), 'g30': Fraction(-14768, 125), 'g31': Fraction(5792, 125), 'g32': Fraction(10672, 125), 'g40': Fraction(38528, 125), 'g41': Fraction(76672, 125), 'g42': Fraction(64928, 125)}, **{'order': [2, 2], 'nf': 5})
except Exception:
    import traceback; traceback.print_exc(); sys.exit(2)
print(r)
sys.exit(1 if r else 0)
