#!/verif/.venv/bin/python
# Replay of a counterexample against the real code in /tmp/wt_mut_lll0PY/src (exit 1 = violation reproduced).
import os, sys
os.environ.setdefault("NUMBA_DISABLE_JIT", "1")
sys.path.insert(0, '/tmp/wt_mut_lll0PY' + "/src"); sys.path.insert(0, '/verif')
from fractions import Fraction
import harness.C23 as H
try:
    r = H.replay_2d({'a': Fraction(0, 1), 't': Fraction(1, 1), 'sqrt!1': Fraction(1, 1), 'd': Fraction(0, 1), 'b': Fraction(-1, 2), 'c': Fraction(-1, 1)}, **{'cplx': False})
except Exception:
    import traceback; traceback.print_exc(); sys.exit(2)
print(r)
sys.exit(1 if r else 0)
