#!/verif/.venv/bin/python
# Replay of a counterexample against the real code in /tmp/wt_cards/src (exit 1 = violation reproduced).
import os, sys
os.environ.setdefault("NUMBA_DISABLE_JIT", "1")
sys.path.insert(0, '/tmp/wt_cards' + "/src"); sys.path.insert(0, '/verif')
from fractions import Fraction
import harness.C40 as H
try:
    r = H.replay_roundtrip({'x0': '1/4', 'nf_0': '3', 'iters': '1', 'deg': '1', 'mu0': '1', 'maxo_qcd': '1', 'cores': '1', 'mu_0': '1', 'maxo_qed': '0', 'nf0': '3', 'x1': '3/4', 'x2': '1/2', 'xlog': 'True'}, **{'subject': 'OperatorCard', 'var': {'flavour': 'py', 'k': 2, 'nmu': 1, 'sorted': False, 'grid_as': 'array'}, 'aspect': 'equal', 'field': 'mugrid'})
except Exception:
    import traceback; traceback.print_exc(); sys.exit(2)
print(r)
sys.exit(1 if r else 0)
