#!/verif/.venv/bin/python
# Replay of a counterexample against the real code in /tmp/wt_mut_bgvxwM/src (exit 1 = violation reproduced).
import os, sys
os.environ.setdefault("NUMBA_DISABLE_JIT", "1")
sys.path.insert(0, '/tmp/wt_mut_bgvxwM' + "/src"); sys.path.insert(0, '/verif')
from fractions import Fraction
import harness.C08 as H
try:
    r = H.replay_singlet({'alpha0': Fraction(3, 100), 'alpha1': Fraction(37, 1000), 'beta0': Fraction(839, 100), 'b1': Fraction(511, 100), 'b2': Fraction(4859, 250), 'b3': Fraction(3791, 40), 'g0': Fraction(-439, 1000), 'g0_00': Fraction(219, 200), 'g0_01': Fraction(-763, 1000), 'g0_10': Fraction(-1483, 1000), 'g0_11': Fraction(-1503, 1000), 'g1': Fraction(-68, 25), 'g1_00': Fraction(-134, 125), 'g1_01': Fraction(-1937, 250), 'g1_10': Fraction(1221, 125), 'g1_11': Fraction(861, 250), 'g2': Fraction(-28, 125), 'g2_00': Fraction(-526, 25), 'g2_01': Fraction(-476, 25), 'g2_10': Fraction(3412, 125), 'g2_11': Fraction(5094, 125), 'g3': Fraction(-4768, 25), 'g3_00': Fraction(-2792, 25), 'g3_01': Fraction(3392, 125), 'g3_10': Fraction(22488, 125), 'g3_11': Fraction(22264, 125)}, **{'method': 'truncated', 'order': 2, 'max_order_extra': 0})
except Exception:
    import traceback; traceback.print_exc(); sys.exit(2)
print(r)
sys.exit(1 if r else 0)
