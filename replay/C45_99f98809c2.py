#!/verif/.venv/bin/python
# Replay of a counterexample against the real code in /tmp/wt_ekobox2/src (exit 1 = violation reproduced).
import os, sys
os.environ.setdefault("NUMBA_DISABLE_JIT", "1")
sys.path.insert(0, '/tmp/wt_ekobox2' + "/src"); sys.path.insert(0, '/verif')
from fractions import Fraction
import harness.C45 as H
try:
    r = H.replay_evolve({'x0': Fraction(1, 1), 'vp0_2_m5_1': Fraction(-1, 1), 'vp0_2_22_1': Fraction(0, 1), 'vp0_0_22_0': Fraction(0, 1), 'vp0_0_m4_0': Fraction(0, 1), 'vp0_2_m6_1': Fraction(0, 1), 'mu2': Fraction(3, 2), 'vp0_0_m6_0': Fraction(0, 1), 'vp0_0_m5_0': Fraction(0, 1), 'x1': Fraction(2, 1), 'vp0_2_m4_1': Fraction(0, 1), 'mu0': Fraction(3, 1), 'mu1': Fraction(2, 1)}, **{'nfs': [5, 4, 4], 'target': None, 'members': 2, 'what': 'run'})
except Exception:
    import traceback; traceback.print_exc(); sys.exit(2)
print(r)
sys.exit(1 if r else 0)
