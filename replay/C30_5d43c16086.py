#!/verif/.venv/bin/python
# Replay of a counterexample against the real code in /tmp/wt_ekore/src (exit 1 = violation reproduced).
import os, sys
os.environ.setdefault("NUMBA_DISABLE_JIT", "1")
sys.path.insert(0, '/tmp/wt_ekore' + "/src"); sys.path.insert(0, '/verif')
from fractions import Fraction
import harness.C30 as H
try:
    r = H.replay_grid({'N': Fraction(3, 1)}, **{'nf': 4, 'order': [2, 2], 'fh': True, 'variation': [0, 0, 0, 0, 0, 0, 0], 'what': 'singlet_qed:sdelta'})
except Exception:
    import traceback; traceback.print_exc(); sys.exit(2)
print(r)
sys.exit(1 if r else 0)
