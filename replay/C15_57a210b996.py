#!/verif/.venv/bin/python
# Replay of a counterexample against the real code in /tmp/wt_couplings/src (exit 1 = violation reproduced).
import os, sys
os.environ.setdefault("NUMBA_DISABLE_JIT", "1")
sys.path.insert(0, '/tmp/wt_couplings' + "/src"); sys.path.insert(0, '/verif')
from fractions import Fraction
import harness.cplkit as H
try:
    r = H.replay_multi({'a_em': Fraction(1, 2048), 'u': Fraction(1, 1), 'a_s': Fraction(1, 64)}, **{'mod': 'harness.C15', 'fn': 'replay_compute', 'extra': [{'a_s': Fraction(1, 50), 'a_em': Fraction(3, 5000), 'u': Fraction(1, 1)}, {'alpha': Fraction(13, 1000), 'alphaem': Fraction(57, 100000), 'aem': Fraction(33, 100000), 'X': Fraction(1291, 250), 'lmu': Fraction(2187, 1000), 'a_s': Fraction(1, 50), 'a_em': Fraction(1, 4000), 'u': Fraction(5177, 1000), 'nf': Fraction(4, 1)}, {'alpha': Fraction(17, 1000), 'alphaem': Fraction(41, 100000), 'aem': Fraction(31, 100000), 'X': Fraction(-1493, 1000), 'lmu': Fraction(-121, 100), 'a_s': Fraction(7, 500), 'a_em': Fraction(1, 5000), 'u': Fraction(343, 250), 'nf': Fraction(6, 1)}, {'alpha': Fraction(11, 500), 'alphaem': Fraction(23, 100000), 'aem': Fraction(13, 25000), 'X': Fraction(2133, 500), 'lmu': Fraction(2733, 1000), 'a_s': Fraction(27, 1000), 'a_em': Fraction(9, 20000), 'u': Fraction(971, 250), 'nf': Fraction(5, 1)}, {'alpha': Fraction(9, 500), 'alphaem': Fraction(29, 100000), 'aem': Fraction(1, 3125), 'X': Fraction(-751, 500), 'lmu': Fraction(1359, 250), 'a_s': Fraction(1, 100), 'a_em': Fraction(57, 100000), 'u': Fraction(-181, 200), 'nf': Fraction(4, 1)}], 'kw': {'order': [3, 0], 'em_running': True, 'method': 'exact'}})
except Exception:
    import traceback; traceback.print_exc(); sys.exit(2)
print(r)
sys.exit(1 if r else 0)
