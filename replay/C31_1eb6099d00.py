#!/verif/.venv/bin/python
# Replay of a counterexample against the real code in /tmp/wt_flavour/src (exit 1 = violation reproduced).
import os, sys
os.environ.setdefault("NUMBA_DISABLE_JIT", "1")
sys.path.insert(0, '/tmp/wt_flavour' + "/src"); sys.path.insert(0, '/verif')
from fractions import Fraction
import harness.C31 as H
try:
    r = H.replay_sector({'c_Vdelta': Fraction(0, 1), 'c_Vd3': Fraction(0, 1), 'c_S': Fraction(1466015503703532275208677, 2932031007402666503906250), 'c_Sdelta': Fraction(0, 1), 'c_Td3': Fraction(0, 1), 'c_ph': Fraction(0, 1), 'c_V': Fraction(0, 1), 'c_Td8': Fraction(0, 1), 'c_Tu8': Fraction(0, 1), 'c_Vu3': Fraction(0, 1), 'c_Vu8': Fraction(0, 1), 'c_Vd8': Fraction(0, 1), 'c_g': Fraction(0, 1), 'c_Tu3': Fraction(0, 1)}, **{'nf': 6, 'qed': True, 'lab': (10102, 0)})
except Exception:
    import traceback; traceback.print_exc(); sys.exit(2)
print(r)
sys.exit(1 if r else 0)
