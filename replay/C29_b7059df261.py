#!/verif/.venv/bin/python
# Replay of a counterexample against the real code in /repo/src (exit 1 = violation reproduced).
import os, sys
os.environ.setdefault("NUMBA_DISABLE_JIT", "1")
sys.path.insert(0, '/repo' + "/src"); sys.path.insert(0, '/verif')
from fractions import Fraction
import harness.C29 as H
try:
    r = H.replay_rg({'N': Fraction(3, 1), 'L': Fraction(0, 1), 'psi1!8': Fraction(0, 1), 'psi0!1': Fraction(0, 1), 'nf': Fraction(4, 1), 'psi1!2': Fraction(0, 1)}, **{'kind': 'pol', 'msbar': False, 'order': 2, 'entry': [2, 0]})
except Exception:
    import traceback; traceback.print_exc(); sys.exit(2)
print(r)
sys.exit(1 if r else 0)
