#!/verif/.venv/bin/python
# Replay of a counterexample against the real code in /tmp/wt_mut_bgvxwM/src (exit 1 = violation reproduced).
import os, sys
os.environ.setdefault("NUMBA_DISABLE_JIT", "1")
sys.path.insert(0, '/tmp/wt_mut_bgvxwM' + "/src"); sys.path.insert(0, '/verif')
from fractions import Fraction
import harness.C08 as H
try:
    r = H.replay_singlet({'alpha0': Fraction(9, 200), 'alpha1': Fraction(7, 200), 'beta0': Fraction(4407, 500), 'b1': Fraction(1507, 500), 'b2': Fraction(16859, 1000), 'b3': Fraction(15021, 100), 'g0': Fraction(-1607, 1000), 'g0_00': Fraction(13, 250), 'g0_01': Fraction(1523, 1000), 'g0_10': Fraction(-11, 25), 'g0_11': Fraction(-623, 500), 'g1': Fraction(-1739, 250), 'g1_00': Fraction(584, 125), 'g1_01': Fraction(-2779, 250), 'g1_10': Fraction(842, 125), 'g1_11': Fraction(-2247, 250), 'g2': Fraction(72, 25), 'g2_00': Fraction(-2204, 125), 'g2_01': Fraction(4046, 125), 'g2_10': Fraction(2706, 125), 'g2_11': Fraction(-3432, 125), 'g3': Fraction(-19808, 125), 'g3_00': Fraction(19512, 125), 'g3_01': Fraction(-11016, 125), 'g3_10': Fraction(7488, 125), 'g3_11': Fraction(6208, 125)}, **{'method': 'perturbative-exact', 'order': 2, 'max_order_extra': 0})
except Exception:
    import traceback; traceback.print_exc(); sys.exit(2)
print(r)
sys.exit(1 if r else 0)
