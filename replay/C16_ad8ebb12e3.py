#!/verif/.venv/bin/python
# Replay of a counterexample against the real code in /repo/src (exit 1 = violation reproduced).
import os, sys
os.environ.setdefault("NUMBA_DISABLE_JIT", "1")
sys.path.insert(0, '/repo' + "/src"); sys.path.insert(0, '/verif')
from fractions import Fraction
import harness.cplkit as H
try:
    r = H.replay_multi({'nf': Fraction(3, 1)}, **{'mod': 'harness.C16', 'fn': 'replay_table', 'extra': [{'nf': Fraction(3, 1)}, {'nf': Fraction(4, 1)}, {'nf': Fraction(5, 1)}, {'a': Fraction(27, 1000), 'alpha': Fraction(13, 1000), 'aem': Fraction(29, 50000), 'nf': Fraction(5, 1), 'Lc': Fraction(-1033, 1000), 'Lb': Fraction(-499, 500), 'Lt': Fraction(703, 1000), 'Lq': Fraction(-93, 100)}, {'a': Fraction(17, 1000), 'alpha': Fraction(27, 1000), 'aem': Fraction(9, 12500), 'nf': Fraction(3, 1), 'Lc': Fraction(123, 125), 'Lb': Fraction(-997, 1000), 'Lt': Fraction(811, 1000), 'Lq': Fraction(-1117, 1000)}, {'a': Fraction(13, 500), 'alpha': Fraction(1, 125), 'aem': Fraction(37, 50000), 'nf': Fraction(5, 1), 'Lc': Fraction(343, 250), 'Lb': Fraction(3, 1000), 'Lt': Fraction(113, 1000), 'Lq': Fraction(-1279, 1000)}, {'a': Fraction(27, 1000), 'alpha': Fraction(9, 1000), 'aem': Fraction(3, 4000), 'nf': Fraction(5, 1), 'Lc': Fraction(-67, 200), 'Lb': Fraction(-197, 500), 'Lt': Fraction(209, 200), 'Lq': Fraction(-17, 25)}], 'kw': {'scheme': 'MSBAR'}})
except Exception:
    import traceback; traceback.print_exc(); sys.exit(2)
print(r)
sys.exit(1 if r else 0)
