#!/verif/.venv/bin/python
# Replay of a counterexample against the real code in /tmp/wt_couplings/src (exit 1 = violation reproduced).
import os, sys
os.environ.setdefault("NUMBA_DISABLE_JIT", "1")
sys.path.insert(0, '/tmp/wt_couplings' + "/src"); sys.path.insert(0, '/verif')
from fractions import Fraction
import harness.cplkit as H
try:
    r = H.replay_multi({'nf': Fraction(3, 1)}, **{'mod': 'harness.C16', 'fn': 'replay_table', 'extra': [{'nf': Fraction(3, 1)}, {'nf': Fraction(4, 1)}, {'nf': Fraction(5, 1)}, {'a': Fraction(11, 500), 'alpha': Fraction(9, 1000), 'aem': Fraction(33, 50000), 'nf': Fraction(5, 1), 'Lc': Fraction(67, 200), 'Lb': Fraction(-703, 1000), 'Lt': Fraction(-843, 1000), 'Lq': Fraction(37, 1000)}, {'a': Fraction(2, 125), 'alpha': Fraction(2, 125), 'aem': Fraction(13, 20000), 'nf': Fraction(4, 1), 'Lc': Fraction(427, 500), 'Lb': Fraction(-101, 200), 'Lt': Fraction(1169, 1000), 'Lq': Fraction(29, 200)}, {'a': Fraction(2, 125), 'alpha': Fraction(1, 125), 'aem': Fraction(21, 50000), 'nf': Fraction(3, 1), 'Lc': Fraction(1199, 1000), 'Lb': Fraction(-67, 50), 'Lt': Fraction(657, 500), 'Lq': Fraction(-853, 1000)}, {'a': Fraction(7, 250), 'alpha': Fraction(11, 500), 'aem': Fraction(11, 20000), 'nf': Fraction(3, 1), 'Lc': Fraction(153, 500), 'Lb': Fraction(-48, 125), 'Lt': Fraction(17, 50), 'Lq': Fraction(-499, 1000)}], 'kw': {'scheme': 'MSBAR', 'which': 'up', 'n': 3, 'l': 2}})
except Exception:
    import traceback; traceback.print_exc(); sys.exit(2)
print(r)
sys.exit(1 if r else 0)
