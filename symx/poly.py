"""Sparse multivariate polynomials over Q in canonical form.

Monomials are packed into one Python int (BITS bits of exponent per variable),
so that a product of monomials is an integer addition and the integer order is
an admissible monomial order (used by exact division).

Algebraic atoms (sqrt, cube roots) are ordinary variables together with a
relation  v**k = radicand  registered in ALG; products are reduced eagerly so
that polynomials live in the quotient ring.
"""
from fractions import Fraction

BITS = 12
MASK = (1 << BITS) - 1

NAMES = []  # index -> name
INDEX = {}  # name -> index
ALG = {}  # var index -> (k, radicand Poly)   meaning var**k == radicand
_ALG_HIGH = 0  # mask: bit set in every position that, if set, means exponent >= 2 for an algebraic var


def reset():
    """Forget all variables and relations (used between independent cases)."""
    global _ALG_HIGH
    NAMES.clear()
    INDEX.clear()
    ALG.clear()
    _ALG_HIGH = 0


def var_index(name):
    i = INDEX.get(name)
    if i is None:
        i = len(NAMES)
        INDEX[name] = i
        NAMES.append(name)
    return i


def _c(v):
    """Normalise a coefficient: ints stay ints, integral Fractions become ints."""
    if type(v) is Fraction and v.denominator == 1:
        return v.numerator
    return v


_FLOAT_CACHE = {}


def _simplest_between(lo, hi):
    """simplest fraction (smallest denominator) strictly inside the open interval (lo, hi), 0 <= lo < hi."""
    fl = lo.numerator // lo.denominator
    if fl + 1 < hi:
        return Fraction(fl + 1)
    if lo == fl:
        # lo integer, hi <= fl+1: need fl + 1/k with 1/k < hi-fl
        rest = _simplest_between(Fraction(0), hi - fl) if hi - fl < 1 else Fraction(1, 2)
        if hi - fl >= 1:
            return Fraction(fl) + Fraction(1, 2)
        # smallest denominator k with 1/k < hi-fl
        k = (hi - fl).denominator // (hi - fl).numerator + 1
        return Fraction(fl) + Fraction(1, k)
    # same integer part: recurse on reciprocals of fractional parts
    r = _simplest_between(1 / (hi - fl), 1 / (lo - fl))
    return fl + 1 / r


def float_to_fraction(x):
    """The simplest rational that rounds to the float x (x itself if it is an integer or a small dyadic).
    Float literals such as 1/3 or 11.0/3.0 are thereby read as the rationals they were written as."""
    r = _FLOAT_CACHE.get(x)
    if r is not None:
        return r
    import math

    ex = Fraction(x)
    if ex.denominator <= 1 << 20:
        r = ex
    else:
        ax = abs(x)
        lo = (Fraction(math.nextafter(ax, 0.0)) + Fraction(ax)) / 2
        hi = (Fraction(math.nextafter(ax, math.inf)) + Fraction(ax)) / 2
        r = _simplest_between(lo, hi)
        if float(r) != ax:  # safety: must round back to the same float
            r = Fraction(ax)
        if x < 0:
            r = -r
    _FLOAT_CACHE[x] = r
    return r


def tofrac(x):
    if isinstance(x, bool):
        raise TypeError("bool is not a number here")
    if isinstance(x, int):
        return x
    if isinstance(x, Fraction):
        return _c(x)
    if isinstance(x, float):
        if x != x or x in (float("inf"), float("-inf")):
            raise ValueError("non-finite float in symbolic arithmetic")
        return _c(float_to_fraction(x))
    raise TypeError(type(x))


class Poly:
    __slots__ = ("t", "_h")

    def __init__(self, t=None):
        self.t = t if t is not None else {}
        self._h = None

    # ---- construction -------------------------------------------------
    @staticmethod
    def var(name):
        i = var_index(name)
        return Poly({1 << (BITS * i): 1})

    @staticmethod
    def const(c):
        c = tofrac(c)
        return Poly({0: c} if c != 0 else {})

    # ---- queries --------------------------------------------------------
    def is_zero(self):
        return not self.t

    def is_const(self):
        t = self.t
        return not t or (len(t) == 1 and 0 in t)

    def cval(self):
        return self.t.get(0, 0)

    def key(self):
        h = self._h
        if h is None:
            h = self._h = frozenset(self.t.items())
        return h

    def __len__(self):
        return len(self.t)

    def lead(self):
        m = max(self.t)
        return m, self.t[m]

    def vars(self):
        acc = 0
        for m in self.t:
            acc |= m
        out = []
        i = 0
        while acc:
            if acc & MASK:
                out.append(i)
            acc >>= BITS
            i += 1
        return out

    def degree(self, i):
        sh = BITS * i
        return max(((m >> sh) & MASK for m in self.t), default=0)

    def total_degree(self):
        best = 0
        for m in self.t:
            d = 0
            while m:
                d += m & MASK
                m >>= BITS
            best = max(best, d)
        return best

    # ---- ring operations ----------------------------------------------
    def __add__(self, o):
        if not o.t:
            return self
        if not self.t:
            return o
        a, b = (self.t, o.t) if len(self.t) >= len(o.t) else (o.t, self.t)
        r = dict(a)
        for m, c in b.items():
            v = r.get(m)
            if v is None:
                r[m] = c
            else:
                v = v + c
                if v == 0:
                    del r[m]
                else:
                    r[m] = _c(v)
        return Poly(r)

    def __neg__(self):
        return Poly({m: -c for m, c in self.t.items()})

    def __sub__(self, o):
        if not o.t:
            return self
        r = dict(self.t)
        for m, c in o.t.items():
            v = r.get(m)
            if v is None:
                r[m] = -c
            else:
                v = v - c
                if v == 0:
                    del r[m]
                else:
                    r[m] = _c(v)
        return Poly(r)

    def scale(self, c):
        c = tofrac(c)
        if c == 0:
            return Poly()
        if c == 1:
            return self
        return Poly({m: _c(v * c) for m, v in self.t.items()})

    def __mul__(self, o):
        a, b = self.t, o.t
        if not a or not b:
            return Poly()
        if len(a) > len(b):
            a, b = b, a
        if len(a) == 1:
            ((m1, c1),) = a.items()
            if m1 == 0:
                r = Poly({m: _c(v * c1) for m, v in b.items()}) if c1 != 1 else Poly(dict(b))
                return r
            r = {m1 + m2: _c(c1 * c2) for m2, c2 in b.items()}
        else:
            r = {}
            get = r.get
            for m1, c1 in a.items():
                for m2, c2 in b.items():
                    m = m1 + m2
                    v = get(m)
                    if v is None:
                        r[m] = c1 * c2
                    else:
                        v = v + c1 * c2
                        if v == 0:
                            del r[m]
                        else:
                            r[m] = v
            for m, v in r.items():
                if type(v) is Fraction and v.denominator == 1:
                    r[m] = v.numerator
        p = Poly(r)
        if _ALG_HIGH:
            p = p.reduce()
        return p

    def __pow__(self, k):
        assert isinstance(k, int) and k >= 0
        if k == 0:
            return ONE
        r = None
        base = self
        while k:
            if k & 1:
                r = base if r is None else r * base
            k >>= 1
            if k:
                base = base * base
        return r

    # ---- algebraic reduction ---------------------------------------------
    def reduce(self):
        """Normal form modulo the relations in ALG."""
        if not _ALG_HIGH:
            return self
        p = self
        while True:
            hit = False
            for m in p.t:
                if m & _ALG_HIGH:
                    hit = True
                    break
            if not hit:
                return p
            out = Poly()
            changed = False
            keep = {}
            for m, c in p.t.items():
                if not (m & _ALG_HIGH):
                    keep[m] = c
                    continue
                done = False
                for i, (k, rad) in ALG.items():
                    sh = BITS * i
                    e = (m >> sh) & MASK
                    if e >= k:
                        q, rem = divmod(e, k)
                        rest = m - (e << sh) + (rem << sh)
                        saved = _suspend()
                        try:
                            term = Poly({rest: c}) * (rad ** q)
                        finally:
                            _resume(saved)
                        out = out + term
                        changed = True
                        done = True
                        break
                if not done:
                    keep[m] = c
            p = Poly(keep) + out
            if not changed:
                return p

    # ---- misc -------------------------------------------------------------
    def diff(self, i):
        sh = BITS * i
        r = {}
        for m, c in self.t.items():
            e = (m >> sh) & MASK
            if e:
                r[m - (1 << sh)] = _c(c * e)
        return Poly(r)

    def subs(self, i, q):
        """Substitute polynomial q for variable i."""
        sh = BITS * i
        buckets = {}
        for m, c in self.t.items():
            e = (m >> sh) & MASK
            buckets.setdefault(e, {})[m - (e << sh)] = c
        out = Poly()
        if not buckets:
            return out
        emax = max(buckets)
        pw = ONE
        for e in range(emax + 1):
            if e in buckets:
                out = out + Poly(buckets[e]) * pw
            if e < emax:
                pw = pw * q
        return out

    def coeffs_in(self, i):
        """dict exponent -> Poly coefficient, viewing self as univariate in var i."""
        sh = BITS * i
        buckets = {}
        for m, c in self.t.items():
            e = (m >> sh) & MASK
            buckets.setdefault(e, {})[m - (e << sh)] = c
        return {e: Poly(t) for e, t in buckets.items()}

    def eval(self, vals):
        """Exact evaluation; vals: var index -> Fraction/int. All vars must be given."""
        tot = 0
        cache = {}
        for m, c in self.t.items():
            term = c
            i = 0
            mm = m
            while mm:
                e = mm & MASK
                if e:
                    k = (i, e)
                    pv = cache.get(k)
                    if pv is None:
                        pv = cache[k] = vals[i] ** e
                    term = term * pv
                mm >>= BITS
                i += 1
            tot = tot + term
        return tot

    def evalf(self, vals):
        """Numeric evaluation with arbitrary number type (mpmath / float / complex)."""
        tot = 0
        for m, c in self.t.items():
            term = c if isinstance(c, int) else (c.numerator / c.denominator if not _HAVE_MP else _mpq(c))
            i = 0
            mm = m
            while mm:
                e = mm & MASK
                if e:
                    term = term * vals[i] ** e
                mm >>= BITS
                i += 1
            tot = tot + term
        return tot

    def content_lead_normalised(self):
        """Return (c, p) with self == c*p, p primitive-ish: leading coefficient 1... we use
        leading coefficient normalisation (monic w.r.t. the packed order)."""
        if not self.t:
            return 0, self
        m, c = self.lead()
        if c == 1:
            return 1, self
        inv = Fraction(1) / c
        return c, self.scale(inv)

    def divexact(self, f):
        """Return q with self == q*f, or None if f does not divide self. (no ALG reduction)"""
        if not f.t:
            return None
        if f.is_const():
            return self.scale(Fraction(1) / f.cval())
        lm, lc = f.lead()
        ft = f.t
        rem = dict(self.t)
        q = {}
        # leading-term division; fails as soon as the leading term is not divisible
        while rem:
            m = max(rem)
            c = rem[m]
            d = m - lm
            if d < 0 or not _mon_divides(lm, m):
                return None
            qc = _c(Fraction(c) / lc) if not (isinstance(c, int) and isinstance(lc, int) and c % lc == 0) else c // lc
            q[d] = qc
            for m2, c2 in ft.items():
                mm = m2 + d
                v = rem.get(mm, 0) - qc * c2
                if v == 0:
                    rem.pop(mm, None)
                else:
                    rem[mm] = _c(v)
            if len(q) > 200000:
                return None
        return Poly(q)

    def to_str(self, maxterms=40):
        if not self.t:
            return "0"
        parts = []
        for n, (m, c) in enumerate(sorted(self.t.items(), reverse=True)):
            if n >= maxterms:
                parts.append("... (%d terms)" % len(self.t))
                break
            mon = []
            i = 0
            mm = m
            while mm:
                e = mm & MASK
                if e:
                    mon.append(NAMES[i] + ("^%d" % e if e > 1 else ""))
                mm >>= BITS
                i += 1
            parts.append(str(c) + ("*" + "*".join(mon) if mon else ""))
        return " + ".join(parts)

    __repr__ = to_str


def _mon_divides(a, b):
    """monomial a divides monomial b (packed)."""
    while a:
        if (a & MASK) > (b & MASK):
            return False
        a >>= BITS
        b >>= BITS
    return True


def _suspend():
    global _ALG_HIGH
    s = _ALG_HIGH
    _ALG_HIGH = 0
    return s


def _resume(s):
    global _ALG_HIGH
    _ALG_HIGH = s


def add_relation(i, k, radicand):
    """Register var_i ** k == radicand."""
    global _ALG_HIGH
    ALG[i] = (k, radicand)
    _rebuild_mask()


def _rebuild_mask():
    global _ALG_HIGH
    h = 0
    for i, (k, _r) in ALG.items():
        # any exponent >= 2 has a bit above bit 0 set; k>=2 always. For k=3 we over-approximate
        # (exponent 2 triggers the slow path which then finds nothing to do).
        h |= (MASK & ~1) << (BITS * i)
    _ALG_HIGH = h


try:
    import mpmath as _mp

    _HAVE_MP = True

    def _mpq(c):
        return _mp.mpf(c.numerator) / c.denominator

except Exception:  # pragma: no cover
    _HAVE_MP = False

ONE = Poly({0: 1})
ZERO = Poly()
