"""Truncated Laurent series in one formal parameter lam with tracked precision.

Jet(v, c, prec) = sum_{i=v}^{prec-1} c[i-v] lam^i + O(lam^prec).  prec is an absolute
order; INF marks an exact (finite) series.  Reading a coefficient at or beyond prec is an
EngineError, never a number."""
from fractions import Fraction
import numpy as _np

from .val import SR, Cx, Q, QZERO, QONE, EngineError, SymbolicEscape, _RANK
from .poly import Poly

INF = 10**9
CAP = [8]  # global cap on the absolute order kept


def set_cap(k):
    CAP[0] = k


def _iszero(c):
    return c.is_zero()


def _lift_coef(x):
    if isinstance(x, (SR, Cx)):
        return x
    c = Cx.lift(x) if isinstance(x, (complex, _np.complexfloating)) else None
    if c is not None:
        return c
    if isinstance(x, (int, float, Fraction, _np.floating, _np.integer)) and not isinstance(x, bool):
        if isinstance(x, (_np.floating, _np.integer)):
            x = x.item()
        return SR(Q(Poly.const(x)))
    return None


class Jet:
    __slots__ = ("v", "c", "prec")

    def __init__(self, v, cs, prec=INF):
        cs = list(cs)
        if prec >= INF:
            prec = INF
        else:
            prec = min(prec, CAP[0])
        # strip leading exact zeros
        while cs and _iszero(cs[0]):
            cs.pop(0)
            v += 1
        if prec >= INF and v + len(cs) > CAP[0]:
            prec = CAP[0]  # an exact series with terms beyond the cap is no longer exact
        n = max(0, prec - v) if prec < INF else len(cs)
        if len(cs) > n:
            cs = cs[:n]
        # strip trailing zeros (cosmetic)
        while cs and _iszero(cs[-1]):
            cs.pop()
        self.v = v if cs else 0
        self.c = cs
        self.prec = prec

    @staticmethod
    def lam(scale=1):
        return Jet(1, [_lift_coef(scale)], INF)

    @staticmethod
    def lift(x):
        if isinstance(x, Jet):
            return x
        c = _lift_coef(x)
        if c is None:
            return None
        return Jet(0, [c], INF)

    def coef(self, i):
        if i >= self.prec:
            raise EngineError("jet coefficient %d read at/beyond precision %d" % (i, self.prec))
        j = i - self.v
        if 0 <= j < len(self.c):
            return self.c[j]
        return SR(QZERO)

    def _known(self, i):
        j = i - self.v
        if 0 <= j < len(self.c):
            return self.c[j]
        return SR(QZERO)

    def is_zero(self):
        return not self.c

    def zero_through(self, n):
        """True iff all coefficients below order n are known and identically zero."""
        if self.prec < n:
            raise EngineError("jet known only to O(lam^%d), asked through %d" % (self.prec, n))
        return all(self._known(i).is_zero() for i in range(min(self.v, 0), n)) if self.c else True

    def valuation(self):
        return self.v if self.c else None

    # ---- arithmetic -------------------------------------------------
    def __add__(self, o):
        o = Jet.lift(o)
        if o is None:
            return NotImplemented
        prec = min(self.prec, o.prec)
        cand = [x.v for x in (self, o) if x.c]
        if not cand:
            return Jet(0, [], prec)
        v = min(cand)
        top = min(prec, max(x.v + len(x.c) for x in (self, o) if x.c))
        return Jet(v, [self._known(i) + o._known(i) for i in range(v, top)], prec)

    __radd__ = __add__

    def __neg__(self):
        return Jet(self.v, [-c for c in self.c], self.prec)

    def __pos__(self):
        return self

    def __sub__(self, o):
        o = Jet.lift(o)
        if o is None:
            return NotImplemented
        return self + (-o)

    def __rsub__(self, o):
        o = Jet.lift(o)
        if o is None:
            return NotImplemented
        return o + (-self)

    def __mul__(self, o):
        o = Jet.lift(o)
        if o is None:
            return NotImplemented
        # precision of product
        sv = self.v if self.c else (self.prec if self.prec < INF else None)
        ov = o.v if o.c else (o.prec if o.prec < INF else None)
        if (not self.c and self.prec >= INF) or (not o.c and o.prec >= INF):
            return Jet(0, [], INF)  # exact zero
        p1 = (sv + o.prec) if o.prec < INF else INF
        p2 = (ov + self.prec) if self.prec < INF else INF
        prec = min(p1, p2)
        if prec < INF:
            prec = min(prec, CAP[0])
        if not self.c or not o.c:
            return Jet(0, [], prec)
        v = self.v + o.v
        n = max(0, min(min(prec, CAP[0]) - v, len(self.c) + len(o.c) - 1))
        out = []
        for k in range(n):
            acc = None
            for i in range(max(0, k - len(o.c) + 1), min(k + 1, len(self.c))):
                t = self.c[i] * o.c[k - i]
                acc = t if acc is None else acc + t
            out.append(acc if acc is not None else SR(QZERO))
        return Jet(v, out, prec)

    __rmul__ = __mul__

    def inv(self):
        if not self.c:
            raise ZeroDivisionError("division by zero jet (valuation unknown)")
        c0 = self.c[0]
        relp = (self.prec - self.v) if self.prec < INF else (CAP[0] + abs(self.v) + 1)
        prec = min(-self.v + relp, CAP[0]) if self.prec < INF else CAP[0]
        n = max(0, prec + self.v)
        if self.prec >= INF and len(self.c) == 1:
            return Jet(-self.v, [1 / c0], INF)
        ic0 = 1 / c0
        out = [ic0]
        for k in range(1, n):
            acc = None
            for i in range(1, min(k, len(self.c) - 1) + 1):
                t = self.c[i] * out[k - i]
                acc = t if acc is None else acc + t
            out.append(-(acc * ic0) if acc is not None else SR(QZERO))
        return Jet(-self.v, out, prec)

    def __truediv__(self, o):
        o = Jet.lift(o)
        if o is None:
            return NotImplemented
        if o.prec >= INF and len(o.c) == 1 and o.v == 0:
            ic = 1 / o.c[0]
            return Jet(self.v, [c * ic for c in self.c], self.prec)
        return self * o.inv()

    def __rtruediv__(self, o):
        o = Jet.lift(o)
        if o is None:
            return NotImplemented
        return o * self.inv()

    def __pow__(self, k):
        if isinstance(k, (float, _np.floating)) and float(k) == int(k):
            k = int(k)
        if isinstance(k, SR) and k.is_const() and Fraction(k.const_value()).denominator == 1:
            k = int(k.const_value())
        if isinstance(k, (float, Fraction)) and Fraction(k) == Fraction(1, 2):
            return self.sqrt()
        if not isinstance(k, (int, _np.integer)):
            raise SymbolicEscape("unsupported jet power %r" % (k,))
        k = int(k)
        if k == 0:
            return Jet(0, [SR(QONE)], INF)
        if k < 0:
            return (self ** (-k)).inv()
        r = None
        base = self
        while k:
            if k & 1:
                r = base if r is None else r * base
            k >>= 1
            if k:
                base = base * base
        return r

    # ---- comparison ----------------------------------------------------
    def __eq__(self, o):
        o = Jet.lift(o)
        if o is None:
            return False
        d = self - o
        if d.c:
            # some coefficient is not identically zero: treat as different (generic point)
            return False
        if d.prec < CAP[0]:
            raise EngineError("jet equality undecidable at precision %d" % d.prec)
        return True

    def __ne__(self, o):
        return not (self == o)

    __hash__ = object.__hash__

    def __float__(self):
        if self.prec >= INF and len(self.c) <= 1 and self.v == 0:
            return float(self.c[0]) if self.c else 0.0
        raise SymbolicEscape("float() of jet")

    # ---- functions --------------------------------------------------------
    def _split(self):
        if self.c and self.v < 0:
            raise EngineError("function of a jet with a pole")
        c0 = self._known(0)
        rest = Jet(1, [self._known(i) for i in range(1, self.v + len(self.c))], self.prec) if self.c else Jet(0, [], self.prec)
        return c0, rest

    def _series(self, rest, coeffs):
        """sum_k coeffs(k) * rest^k, k>=0, rest has valuation >=1."""
        out = Jet(0, [_lift_coef(coeffs(0))], INF)
        p = Jet(0, [SR(QONE)], INF)
        if not rest.c and rest.prec >= INF:
            return out
        k = 0
        while True:
            k += 1
            p = p * rest
            ck = coeffs(k)
            out = out + p * ck
            if not p.c or k > CAP[0] + 1:
                break
        return out

    def log(self):
        if self.c and self.v != 0:
            raise EngineError("log of jet with non-zero valuation")
        c0, rest = self._split()
        u = rest / c0
        s = self._series(u, lambda k: 0 if k == 0 else Fraction((-1) ** (k + 1), k))
        return s + c0.log()

    def exp(self):
        c0, rest = self._split()
        f = [1]

        def ck(k):
            while len(f) <= k:
                f.append(f[-1] * len(f))
            return Fraction(1, f[k])

        s = self._series(rest, ck)
        e0 = c0.exp()
        return s * e0

    def sqrt(self):
        if not self.c:
            return Jet(0, [], self.prec)
        if self.v % 2:
            raise EngineError("sqrt of odd-valuation jet")
        h = self.v // 2
        base = Jet(0, self.c, self.prec - self.v if self.prec < INF else INF)
        c0, rest = base._split()
        u = rest / c0
        cf = [Fraction(1)]

        def ck(k):
            while len(cf) <= k:
                n = len(cf)
                cf.append(cf[-1] * (Fraction(1, 2) - (n - 1)) / n)
            return cf[k]

        s = base._series(u, ck) * c0.sqrt()
        return Jet(s.v + h, s.c, s.prec + h if s.prec < INF else INF)

    def arctan(self):
        c0, rest = self._split()
        # atan(c0 + r) = atan(c0) + atan(t),  t = r / (1 + c0*(c0 + r))
        t = rest / (1 + (rest + c0) * c0)
        s = self._series(t * t, lambda k: Fraction((-1) ** k, 2 * k + 1)) * t
        return s + c0.arctan()

    @property
    def real(self):
        return Jet(self.v, [c.real for c in self.c], self.prec)

    @property
    def imag(self):
        return Jet(self.v, [c.imag for c in self.c], self.prec)

    def conjugate(self):
        return Jet(self.v, [c.conjugate() for c in self.c], self.prec)

    conj = conjugate

    def __repr__(self):
        return "Jet(v=%d, n=%d, prec=%s)" % (self.v, len(self.c), "inf" if self.prec >= INF else self.prec)


_RANK[Jet] = 3
