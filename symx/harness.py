"""Check framework: cases in worker processes, obligations, replay, known findings,
evidence files, exit codes (0 pass / 1 violation / 3 inconclusive-or-harness-error)."""
import hashlib
import inspect
import json
import multiprocessing as mpc
import os
import random
import subprocess
import sys
import time
import traceback

os.environ.setdefault("NUMBA_DISABLE_JIT", "1")
VERIF = os.path.dirname(os.path.dirname(os.path.abspath(__file__)))
REPO = os.environ.get("EKO_REPO", "/repo")
if os.path.join(REPO, "src") not in sys.path:
    sys.path.insert(0, os.path.join(REPO, "src"))
if VERIF not in sys.path:
    sys.path.insert(0, VERIF)

from . import solver as S  # noqa: E402
from .val import ctx, SymbolicEscape, EngineError  # noqa: E402

PY = os.path.join(VERIF, ".venv", "bin", "python")
FINDINGS_FILE = os.path.join(VERIF, "known_findings.txt")


def tier():
    t = os.environ.get("VERIF_TIER", "quick")
    return t if t in ("quick", "thorough") else "quick"


def seed():
    try:
        return int(os.environ.get("VERIF_SEED", "0"))
    except ValueError:
        return 0


def src_hash(obj):
    try:
        src = inspect.getsource(obj)
    except Exception:
        return "?"
    return hashlib.sha1(src.encode()).hexdigest()[:12]


def qualname(obj):
    return "%s:%s" % (getattr(obj, "__module__", "?"), getattr(obj, "__qualname__", getattr(obj, "__name__", "?")))


# ---------------------------------------------------------------------------
# known findings
# ---------------------------------------------------------------------------
def load_findings():
    known, fixed = [], []
    if os.path.exists(FINDINGS_FILE):
        for line in open(FINDINGS_FILE):
            line = line.strip()
            if line.startswith("known:"):
                rest = line[len("known:"):].strip()
                parts = rest.split(None, 2)
                d = {"property": parts[0].split("=", 1)[1], "key": parts[1].split("=", 1)[1], "what": parts[2] if len(parts) > 2 else ""}
                known.append(d)
            elif line.startswith("fixed:"):
                fixed.append(line)
    return known, fixed


# ---------------------------------------------------------------------------
# per-case log (lives in the worker, returned pickled)
# ---------------------------------------------------------------------------
class CaseLog:
    def __init__(self, case, pid, rng):
        self.case = case
        self.pid = pid
        self.rng = rng
        self.obligations = []  # dict(what,status,time,nterms)
        self.violations = []  # dict(key, what, detail, replay)
        self.inconclusive = []  # str
        self.samples = []
        self.encoded = {}
        self.assumptions = set()
        self.paths = 0
        self.forks = 0
        self.validated = 0
        self.twins = []
        self.notes = []
        self._replays = []  # (key, replay spec, sampler): used as a numeric fall-back if the symbolic run cannot complete

    # -- bookkeeping --
    def encode(self, *funcs):
        for f in funcs:
            self.encoded[qualname(f)] = src_hash(f)

    def assume(self, text):
        self.assumptions.add(text)

    def collect_ctx(self):
        """Record assumptions the engine made on the current path."""
        for f in ctx.nonzero.values():
            self.assumptions.add("denominator %s != 0" % f.to_str(8))
        for p, r in ctx.domain:
            self.assumptions.add("domain: %s %s" % (p.to_str(8), r))
        for n in ctx.notes:
            self.assumptions.add(n)

    def ok(self, v, extra=None):
        rec = {"case": self.case, "what": v.what, "status": v.status, "time_s": round(v.time, 4), "residual_terms": v.nterms}
        if extra:
            rec.update(extra)
        self.obligations.append(rec)
        if len(self.samples) < 3:
            self.samples.append(rec)

    def twin(self, name=""):
        rs, _m = S.reachable(timeout_ms=90000)
        self.twins.append((name, rs))
        if rs != "sat":
            self.inconclusive.append("vacuity twin '%s' of case %s is %s (assumptions contradictory or undecided)" % (name, self.case, rs))
        return rs == "sat"

    def path_stats(self, pm):
        self.paths += pm.paths
        self.forks += pm.forks

    # -- deciding --
    def decide(self, verdict, key, candidates=(), replay=None, sampler=None, nrandom=6):
        """Record a verdict. If it is not `unsat`, look for a counterexample that replays
        against the real code. replay(point) -> None | dict(detail=..., script=...)"""
        if verdict.holds:
            self.ok(verdict)
            return True
        rec = {"case": self.case, "what": verdict.what, "status": verdict.status, "time_s": round(verdict.time, 4),
               "residual_terms": verdict.nterms}
        self.obligations.append(rec)
        self.register_replay(key, replay, sampler)
        pts = []
        if verdict.model:
            pts.append(dict(verdict.model))
        pts.extend(candidates)
        if sampler is not None:
            rnd_pts = [sampler(self.rng) for _ in range(nrandom)]
            # the solver's model often lies outside the range a replay accepts, while what makes it a counterexample is a
            # degenerate value (an input that is exactly zero, two inputs that coincide): transfer that pattern onto sampled points
            if verdict.model:
                zeros = {k: v for k, v in verdict.model.items() if v == 0}
                eqs = []
                keys = sorted(k for k in verdict.model if not k.startswith(("sqrt", "exp", "cos", "sin", "log", "atan", "cbrt")))
                for i, k1 in enumerate(keys):
                    for k2 in keys[i + 1:]:
                        if verdict.model[k1] == verdict.model[k2] and verdict.model[k1] != 0:
                            eqs.append((k1, k2))
                variants = []
                for n, k in enumerate(sorted(zeros)):
                    p = rnd_pts[n % len(rnd_pts)]
                    if k in p and p[k] != 0:
                        q = dict(p)
                        q[k] = zeros[k]
                        variants.append(q)  # one degenerate input at a time ...
                for n, (k1, k2) in enumerate(eqs):
                    p = rnd_pts[n % len(rnd_pts)]
                    if k1 in p and k2 in p and p[k1] != p[k2]:
                        q = dict(p)
                        q[k2] = q[k1]
                        variants.append(q)
                if len(zeros) > 1:
                    q = dict(rnd_pts[0])
                    q.update({k: v for k, v in zeros.items() if k in q})
                    variants.append(q)  # ... and all vanishing inputs together
                pts.extend(variants[:8])
            pts.extend(rnd_pts)
        if replay is not None:
            for p in pts:
                script = replay_script(replay[0], replay[1], p, **(replay[2] if len(replay) > 2 else {}))
                rc, out = run_script(script)
                if rc == 1:
                    self.violations.append({"key": key, "what": verdict.what, "case": self.case, "detail": out.strip()[-600:],
                                            "point": {k: str(v) for k, v in p.items()}, "script": script})
                    return False
                if rc not in (0, 1):
                    self.notes.append("replay script error rc=%s: %s" % (rc, out[-400:]))
        self.inconclusive.append("%s/%s: solver answered %s (residual %d terms) and no candidate reproduced against the real code"
                                 % (self.case, verdict.what, verdict.status, verdict.nterms))
        return False

    def violation(self, key, what, detail, script, point=None):
        self.violations.append({"key": key, "what": what, "case": self.case, "detail": detail,
                                "point": {k: str(v) for k, v in (point or {}).items()}, "script": script})

    def validate(self, n=1):
        self.validated += n

    def register_replay(self, key, replay, sampler):
        """Make a replay available as fall-back: if the symbolic execution of this case cannot be completed (engine escape,
        unexpected exception raised by the code under analysis), the replay is run at sampler points; a reproduced finding
        is then reported as a violation instead of leaving the case merely inconclusive."""
        if replay is not None and sampler is not None and all(r[1] != replay for r in self._replays):
            self._replays.append((key, replay, sampler))

    def run_fallback(self, why, npoints=4):
        for key, replay, sampler in self._replays[:6]:
            for _ in range(npoints):
                try:
                    p = sampler(self.rng)
                    script = replay_script(replay[0], replay[1], p, **(replay[2] if len(replay) > 2 else {}))
                    rc, out = run_script(script)
                except Exception as e:  # a broken sampler must not take the whole check down
                    self.notes.append("fall-back replay for %s could not run: %s: %s" % (key, type(e).__name__, e))
                    break
                if rc == 1:
                    self.violations.append({"key": key, "what": "numeric fall-back after: %s" % why[:200], "case": self.case,
                                            "detail": out.strip()[-600:], "point": {k: str(v) for k, v in p.items()}, "script": script})
                    return True
        return False

    def export(self):
        d = dict(self.__dict__)
        d.pop("rng")
        d.pop("_replays", None)
        d["assumptions"] = sorted(self.assumptions)
        return d


class CaseTimeout(Exception):
    pass


def _alarm(signum, frame):
    raise CaseTimeout()


def _run_case(args):
    import signal

    pid, name, modname, fname, kwargs, sd = args
    t0 = time.time()
    try:
        limit = int(os.environ.get("VERIF_CASE_TIMEOUT", "0")) or (1500 if tier() == "quick" else 5400)
        signal.signal(signal.SIGALRM, _alarm)
        signal.alarm(limit)
    except Exception:
        limit = 0
    rng = random.Random("%s/%s/%d" % (pid, name, sd))
    log = CaseLog(name, pid, rng)
    S.reset_stats()
    try:
        mod = sys.modules.get(modname) or __import__(modname, fromlist=["x"])
        getattr(mod, fname)(log, **kwargs)
    except CaseTimeout:
        why = "%s: case exceeded its time limit of %d s (bound too deep for this tier)" % (name, limit)
        if not log.run_fallback(why):
            log.inconclusive.append(why)
    except (SymbolicEscape, EngineError, S.PathBudgetExceeded) as e:
        why = "%s: %s: %s" % (name, type(e).__name__, e)
        if not log.run_fallback(why):
            log.inconclusive.append(why)
            log.notes.append(traceback.format_exc()[-1500:])
    except Exception as e:
        why = "%s: unexpected %s: %s" % (name, type(e).__name__, e)
        if not log.run_fallback(why):
            log.inconclusive.append(why)
            log.notes.append(traceback.format_exc()[-2500:])
    try:
        signal.alarm(0)
    except Exception:
        pass
    d = log.export()
    d["stats"] = dict(S.STATS)
    d["wall_s"] = time.time() - t0
    sys.stderr.write("[%s] case %s done in %.1fs: %d obligations, %d violations, %d inconclusive\n"
                     % (pid, name, d["wall_s"], len(d["obligations"]), len(d["violations"]), len(d["inconclusive"])))
    sys.stderr.flush()
    return d


def _mem_limit():
    """address-space cap per case (GB): a case that outgrows it gets a MemoryError and is reported inconclusive instead of
    inviting the kernel's OOM killer"""
    try:
        return float(os.environ.get("VERIF_CASE_MEM_GB", "10" if tier() == "quick" else "24"))
    except ValueError:
        return 10.0


def _child(conn, a):
    try:
        import resource

        lim = int(_mem_limit() * 2**30)
        resource.setrlimit(resource.RLIMIT_AS, (lim, lim))
    except Exception:
        pass
    try:
        d = _run_case(a)
    except BaseException as e:  # MemoryError while exporting, KeyboardInterrupt, ...
        d = _dead_case(a, "worker failed with %s: %s" % (type(e).__name__, e))
    try:
        conn.send(d)
    except Exception as e:
        try:
            conn.send(_dead_case(a, "result of the case could not be sent back: %s" % e))
        except Exception:
            pass
    conn.close()


def _dead_case(a, why):
    log = CaseLog(a[1], a[0], random.Random(0))
    log.inconclusive.append("%s: %s" % (a[1], why))
    d = log.export()
    d["stats"] = {}
    d["wall_s"] = 0.0
    return d


def _schedule(args, workers):
    """one forked process per case, at most `workers` at a time; a worker that dies (OOM kill, segfault in a solver) yields an
    inconclusive case instead of a hung or crashed check"""
    cx = mpc.get_context("fork")
    pending = list(enumerate(args))
    running = {}  # index -> (process, conn, args)
    results = {}
    while pending or running:
        while pending and len(running) < workers:
            i, a = pending.pop(0)
            pc, cc = cx.Pipe(duplex=False)
            p = cx.Process(target=_child, args=(cc, a), daemon=True)
            p.start()
            cc.close()
            running[i] = (p, pc, a)
        progressed = False
        for i, (p, pc, a) in list(running.items()):
            got = None
            try:
                if pc.poll(0):
                    got = pc.recv()
            except (EOFError, OSError):
                got = None
            if got is not None:
                results[i] = got
                p.join(5)
                pc.close()
                del running[i]
                progressed = True
            elif not p.is_alive():
                # drained nothing and the process is gone
                try:
                    if pc.poll(0.2):
                        results[i] = pc.recv()
                except (EOFError, OSError):
                    pass
                if i not in results:
                    results[i] = _dead_case(a, "worker process died (exit code %s: memory limit / kill) before finishing" % p.exitcode)
                    sys.stderr.write("[%s] case %s: worker died (exit code %s)\n" % (a[0], a[1], p.exitcode))
                pc.close()
                del running[i]
                progressed = True
        if not progressed:
            time.sleep(0.05)
    return [results[i] for i in range(len(args))]


# ---------------------------------------------------------------------------
# the check
# ---------------------------------------------------------------------------
class Check:
    def __init__(self, pid, level="model_checking"):
        self.pid = pid
        self.level = level
        self.cases = []  # (name, modname, fname, kwargs)
        self.bounds = []
        self.out_of_claim = []
        self.stubs = []
        self.assumptions = []
        self.explanation = ""
        self.exhaustive = False
        self.t0 = time.time()

    def case(self, _case_name, fn, **kwargs):
        self.cases.append((_case_name, fn.__module__, fn.__name__, kwargs))

    def run(self, workers=None):
        sd = seed()
        args = [(self.pid, n, m, f, k, sd) for (n, m, f, k) in self.cases]
        flt = os.environ.get("VERIF_CASES")  # debugging aid: regex filter on case names (never used by registered commands)
        if flt:
            import re

            args = [a for a in args if re.search(flt, a[1])]
        if workers is None:
            try:
                cap = int(os.environ.get("VERIF_WORKERS", "0"))
            except ValueError:
                cap = 0
            if not cap:
                # be a good neighbour on a loaded machine (other checks / agents running)
                load = os.getloadavg()[0]
                cap = 16 if load < 8 else max(3, int(16 - load / 3))
            workers = min(cap, max(1, len(args)))
        results = _schedule(args, workers)
        return self.finish(results)

    # -----------------------------------------------------------------
    def finish(self, results):
        known, fixed = load_findings()
        known_here = [k for k in known if k["property"] == self.pid]
        obligations = sum(len(r["obligations"]) for r in results)
        discharged = sum(1 for r in results for o in r["obligations"] if o["status"] == "unsat")
        inconclusive = [m for r in results for m in r["inconclusive"]]
        viols = [v for r in results for v in r["violations"]]
        new_viol, known_hit = [], {}
        os.makedirs(os.path.join(VERIF, "replay"), exist_ok=True)
        confirmed_keys = set()
        for v in viols:
            hit = [k for k in known_here if k["key"] == v["key"]]
            if hit:
                known_hit[v["key"]] = hit[0]
                continue
            if v["key"] in confirmed_keys:
                continue  # one confirmed replay per key is enough
            h = hashlib.sha1((v["key"] + v["what"] + json.dumps(v["point"], sort_keys=True)).encode()).hexdigest()[:10]
            path = os.path.join(VERIF, "replay", "%s_%s.py" % (self.pid, h))
            with open(path, "w") as f:
                f.write(v["script"] or "# no script\nimport sys; sys.exit(1)\n")
            # confirm in a clean interpreter against the real code
            ok = self._confirm(path)
            if ok:
                v["replay"] = path
                new_viol.append(v)
                confirmed_keys.add(v["key"])
            else:
                os.unlink(path)
                inconclusive.append("counterexample for %s did not reproduce in a clean interpreter" % (v["what"],))
        for k, rec in known_hit.items():
            print("KNOWN-FINDING: property=%s %s (key=%s)" % (self.pid, rec["what"], k))
        seen = set()
        for v in new_viol:
            if v["key"] in seen:
                continue
            seen.add(v["key"])
            print("VIOLATION property=%s replay=%s" % (self.pid, v["replay"]))
            print("  key=%s what=%s case=%s\n  %s" % (v["key"], v["what"], v["case"], v["detail"]))
        for m in inconclusive:
            print("INCONCLUSIVE %s: %s" % (self.pid, m))
        for r in results:
            for n in r["notes"]:
                print("NOTE[%s] %s" % (r["case"], n))
        # ---- evidence ----
        funcs = {}
        for r in results:
            funcs.update(r["encoded"])
        assumptions = sorted(set(self.assumptions) | {a for r in results for a in r["assumptions"]})
        samples = []
        for r in results:
            samples.extend(r["samples"][:2])
        whats = {(o["case"], o["what"]) for r in results for o in r["obligations"]}
        nontrivial = len({(o["case"], o["what"]) for r in results for o in r["obligations"] if o.get("nontrivial", True)})
        st = {}
        for r in results:
            for k, val in r["stats"].items():
                st[k] = st.get(k, 0) + val
        cov = {
            "evaluations": max(1, int(st.get("queries", 0))),
            "distinct_nontrivial": nontrivial,
            "rule": "one evaluation = one SMT query (path feasibility, vacuity twin or proof obligation); distinct_nontrivial counts "
                    "distinct (case, obligation) pairs whose goal mentions at least one symbolic input",
            "samples": samples[:12] or [{"note": "no obligations"}],
            "obligations": obligations,
            "discharged": discharged,
            "functions_encoded": funcs,
            "bounds": self.bounds,
            "outside_claim": self.out_of_claim,
            "stubs_and_axioms": self.stubs,
            "paths_explored": sum(r["paths"] for r in results),
            "forks": sum(r["forks"] for r in results),
            "vacuity_twins": [{"case": r["case"], "twin": t[0], "answer": t[1]} for r in results for t in r["twins"]],
            "translator_validation_points": sum(r["validated"] for r in results),
            "solver": {"name": "z3 " + S.z3.get_version_string(), "queries": int(st.get("queries", 0)), "unsat": int(st.get("unsat", 0)),
                       "sat": int(st.get("sat", 0)), "unknown": int(st.get("unknown", 0)), "closed_by_normal_form": int(st.get("trivial", 0)),
                       "solver_only_route": {k[7:]: int(v) for k, v in st.items() if k.startswith("route2_")},
                       "solver_time_s": round(st.get("time", 0.0), 3)},
            "case_wall_s": {r["case"]: round(r["wall_s"], 2) for r in results},
            "known_findings_hit": sorted(known_hit),
            "inconclusive": inconclusive,
            "exhaustive": self.exhaustive,
            "trusted_base": ["z3", "symx engine (poly/val/jet/shim)", "numpy object-array semantics", "mpmath (replay oracles)"],
            "checker_cmd": "./check %s" % self.pid,
        }
        if self.explanation:
            cov["explanation"] = self.explanation
        ev = {
            "property_id": self.pid,
            "tier": tier(),
            "seed": seed(),
            "level": self.level,
            "coverage": cov,
            "assumptions": assumptions[:400],
            "wall_s": round(time.time() - self.t0, 2),
            "violations": len(seen),
        }
        # runs against a scratch worktree (EKO_REPO, used for seeded regressions) or on a debugging subset of the cases
        # (VERIF_CASES) never overwrite the evidence of the registered check on /repo
        evdir = os.path.join(VERIF, "evidence")
        if os.path.realpath(REPO) != "/repo" or os.environ.get("VERIF_CASES"):
            evdir = os.path.join(VERIF, "evidence", ".scratch")
        os.makedirs(evdir, exist_ok=True)
        with open(os.path.join(evdir, "%s.json" % self.pid), "w") as f:
            json.dump(ev, f, indent=1, default=str)
        print("%s tier=%s obligations=%d discharged=%d violations=%d known=%d inconclusive=%d wall=%.1fs"
              % (self.pid, tier(), obligations, discharged, len(seen), len(known_hit), len(inconclusive), time.time() - self.t0))
        if seen:
            return 1
        if inconclusive or nontrivial < 2:
            return 3
        return 0

    def _confirm(self, path):
        try:
            r = subprocess.run([PY, path], capture_output=True, text=True, timeout=600,
                               env=dict(os.environ, NUMBA_DISABLE_JIT="1", PYTHONPATH=""))
        except Exception:
            return False
        return r.returncode == 1


def run_script(script, timeout=600):
    import tempfile
    fd, path = tempfile.mkstemp(suffix=".py", prefix="symx_replay_")
    try:
        with os.fdopen(fd, "w") as f:
            f.write(script)
        r = subprocess.run([PY, path], capture_output=True, text=True, timeout=timeout,
                           env=dict(os.environ, NUMBA_DISABLE_JIT="1", PYTHONPATH=""))
        return r.returncode, r.stdout + r.stderr
    except subprocess.TimeoutExpired:
        return 2, "timeout"
    finally:
        os.unlink(path)


REPLAY_HEADER = '''#!/verif/.venv/bin/python
# Replay of a counterexample against the real code in {repo}/src (exit 1 = violation reproduced).
import os, sys
os.environ.setdefault("NUMBA_DISABLE_JIT", "1")
sys.path.insert(0, {repo!r} + "/src"); sys.path.insert(0, {verif!r})
'''


def replay_script(module, func, point, **kw):
    """Standard replay script: calls harness `module`.`func`(point, **kw) which must return
    None (not reproduced) or a dict with 'detail'."""
    return REPLAY_HEADER.format(repo=REPO, verif=VERIF) + (
        "from fractions import Fraction\n"
        "import %s as H\n"
        "try:\n"
        "    r = H.%s(%r, **%r)\n"
        "except Exception:\n"
        "    import traceback; traceback.print_exc(); sys.exit(2)\n"
        "print(r)\n"
        "sys.exit(1 if r else 0)\n" % (module, func, point, kw)
    )
