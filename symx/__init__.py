"""symx: symbolic execution of eko's Python by value substitution (see /verif/DESIGN.md)."""
