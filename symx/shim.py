"""Drop-in replacements for the numeric environment of the analysed modules.

`install(module)` rebinds the module *globals* np / math / complex / cmath so that the real,
unmodified function bodies operate on symbolic values.  Nothing in /repo is edited."""
import math as _math
import numpy as realnp

from .val import SR, Cx, Q, QZERO, QONE, SymbolicEscape, sym_complex, SymBool, ctx
from .jet import Jet
from .poly import Poly

SYM = (SR, Cx, Jet)


def has_sym(x):
    if isinstance(x, SYM):
        return True
    if isinstance(x, realnp.ndarray):
        if x.dtype != object:
            return False
        return any(isinstance(e, SYM) for e in x.flat)
    if isinstance(x, (list, tuple)):
        return any(has_sym(e) for e in x)
    return False


def _is_obj(x):
    return isinstance(x, SYM) or (isinstance(x, realnp.ndarray) and x.dtype == object) or (
        isinstance(x, (list, tuple)) and any(_is_obj(e) for e in x)
    )


def emap(f, x):
    if isinstance(x, (list, tuple)):
        x = realnp.array(x, dtype=object)
    if isinstance(x, realnp.ndarray):
        out = realnp.empty(x.shape, dtype=object)
        for idx in realnp.ndindex(x.shape):
            out[idx] = f(x[idx])
        return out
    return f(x)


def _unary(name, realf):
    def one(e):
        if isinstance(e, SYM):
            return getattr(e, name)()
        return realf(e)

    def f(x, *a, **k):
        if _is_obj(x):
            return emap(one, x)
        return realf(x, *a, **k)

    f.__name__ = name
    return f


def _lift(x):
    """python number -> SR / Cx"""
    if isinstance(x, SYM):
        return x
    if isinstance(x, (complex, realnp.complexfloating)):
        return Cx.lift(x)
    return SR(Q(Poly.const(x.item() if isinstance(x, realnp.generic) else x)))


def _sym_sqrt(e):
    if isinstance(e, SYM):
        return e.sqrt()
    return realnp.sqrt(e)


class _Infinitesimal:
    """|J| of a jet J that vanishes at lam = 0 (formal-series ordering, lam -> 0): only comparisons with concrete constants"""

    def _c(self, c):
        if isinstance(c, (int, float)) and c != 0:
            return c
        raise SymbolicEscape("comparison of an infinitesimal with %r" % (c,))

    def __lt__(self, c):
        return self._c(c) > 0

    __le__ = __lt__

    def __gt__(self, c):
        return self._c(c) < 0

    __ge__ = __gt__


def _sym_abs(e):
    if isinstance(e, (SR, Cx)):
        return abs(e)
    if isinstance(e, Jet):
        if not e.c or e.v > 0:
            return _Infinitesimal()  # |series without constant term|: below every positive constant in the formal ordering
        raise SymbolicEscape("abs of jet")
    return realnp.abs(e)


def obj_array(a, fill=None):
    o = realnp.empty(realnp.shape(a), dtype=object)
    for idx in realnp.ndindex(o.shape):
        v = a[idx]
        if isinstance(v, SYM):
            o[idx] = v
        else:
            v = complex(v)
            o[idx] = SR(Q(Poly.const(v.real))) if v.imag == 0 else Cx.lift(v)
    return o


class _Linalg:
    def __init__(self, parent):
        self._p = parent

    def __getattr__(self, name):
        return getattr(realnp.linalg, name)

    def inv(self, m):
        if not _is_obj(m):
            return realnp.linalg.inv(m)
        m = realnp.asarray(m, dtype=object)
        n = m.shape[0]
        assert m.shape == (n, n)
        if n == 1:
            return realnp.array([[1 / m[0, 0]]], dtype=object)
        if n == 2:
            a, b, c, d = m[0, 0], m[0, 1], m[1, 0], m[1, 1]
            det = a * d - b * c
            idet = 1 / det
            return realnp.array([[d * idet, -b * idet], [-c * idet, a * idet]], dtype=object)
        # adjugate by cofactors
        det = _det(m)
        idet = 1 / det
        out = realnp.empty((n, n), dtype=object)
        for i in range(n):
            for j in range(n):
                minor = realnp.delete(realnp.delete(m, i, 0), j, 1)
                cof = _det(minor)
                out[j, i] = (cof if (i + j) % 2 == 0 else -cof) * idet
        return out

    def eig(self, m):
        if _is_obj(m):
            raise SymbolicEscape("numpy.linalg.eig (LAPACK) on symbolic matrix")
        return realnp.linalg.eig(m)


def _det(m):
    n = m.shape[0]
    if n == 1:
        return m[0, 0]
    if n == 2:
        return m[0, 0] * m[1, 1] - m[0, 1] * m[1, 0]
    tot = None
    for j in range(n):
        e = m[0, j]
        if isinstance(e, (int, float)) and e == 0:
            continue
        if isinstance(e, SYM) and e.is_zero():
            continue
        minor = realnp.delete(realnp.delete(m, 0, 0), j, 1)
        t = e * _det(minor)
        if j % 2:
            t = -t
        tot = t if tot is None else tot + t
    return tot if tot is not None else 0


class SymNumpy:
    """numpy facade. With symbolic_alloc=True, allocation routines return object arrays so
    that symbolic values can be stored into them."""

    def __init__(self, symbolic_alloc=True):
        self.symbolic_alloc = symbolic_alloc
        self.linalg = _Linalg(self)
        self.escapes = []

    def __getattr__(self, name):
        return getattr(realnp, name)

    # ---- allocation ----
    def _alloc(self, arr):
        if self.symbolic_alloc:
            o = realnp.empty(arr.shape, dtype=object)
            for idx in realnp.ndindex(arr.shape):
                v = arr[idx]
                o[idx] = int(v.real) if (v.imag == 0 and float(v.real).is_integer()) else complex(v)
            return o
        return arr

    def zeros(self, shape, dtype=float, **k):
        if self.symbolic_alloc:
            return self._alloc(realnp.zeros(shape, dtype=complex))
        return realnp.zeros(shape, dtype=dtype, **k)

    def ones(self, shape, dtype=float, **k):
        if self.symbolic_alloc:
            return self._alloc(realnp.ones(shape, dtype=complex))
        return realnp.ones(shape, dtype=dtype, **k)

    def full(self, shape, fill, dtype=None, **k):
        if self.symbolic_alloc or isinstance(fill, SYM):
            o = realnp.empty(shape, dtype=object)
            for idx in realnp.ndindex(o.shape):
                o[idx] = fill
            return o
        return realnp.full(shape, fill, dtype=dtype, **k)

    def zeros_like(self, a, dtype=None, **k):
        return self.zeros(realnp.shape(a))

    def identity(self, n, dtype=float):
        if self.symbolic_alloc:
            return self._alloc(realnp.identity(n, dtype=complex))
        return realnp.identity(n, dtype=dtype)

    def eye(self, n, m=None, k=0, dtype=float):
        if self.symbolic_alloc:
            return self._alloc(realnp.eye(n, m, k, dtype=complex))
        return realnp.eye(n, m, k, dtype=dtype)

    def array(self, a, dtype=None, **k):
        if _is_obj(a) or (self.symbolic_alloc and dtype is not None and dtype in (complex, float, realnp.complex128, realnp.float64)):
            return realnp.array(a, dtype=object)
        return realnp.array(a, dtype=dtype, **k)

    def asarray(self, a, dtype=None, **k):
        if _is_obj(a):
            return realnp.asarray(a, dtype=object)
        return realnp.asarray(a, dtype=dtype, **k)

    def ascontiguousarray(self, a, dtype=None):
        if _is_obj(a):
            return realnp.asarray(a, dtype=object)
        return realnp.ascontiguousarray(a, dtype=dtype)

    def copy(self, a):
        return realnp.array(a, dtype=object, copy=True) if _is_obj(a) else realnp.copy(a)

    # ---- elementwise ----
    log = staticmethod(_unary("log", realnp.log))
    exp = staticmethod(_unary("exp", realnp.exp))
    arctan = staticmethod(_unary("arctan", realnp.arctan))
    sin = staticmethod(_unary("sin", realnp.sin))
    cos = staticmethod(_unary("cos", realnp.cos))
    conj = staticmethod(_unary("conjugate", realnp.conj))
    conjugate = conj

    def sqrt(self, x):
        if getattr(self, "exact_const_sqrt", False) and isinstance(x, (int, float)) and not isinstance(x, bool) and float(x).is_integer() and x >= 0:
            return SR(Q(Poly.const(int(x)))).sqrt()
        if _is_obj(x):
            return emap(_sym_sqrt, x)
        return realnp.sqrt(x)

    def abs(self, x):
        if _is_obj(x):
            return emap(_sym_abs, x)
        return realnp.abs(x)

    absolute = abs

    def power(self, x, k):
        if _is_obj(x) or _is_obj(k):
            if isinstance(x, (realnp.ndarray, list, tuple)):
                return emap(lambda e: e**k, x)
            return x**k
        return realnp.power(x, k)

    def real(self, x):
        if _is_obj(x):
            return emap(lambda e: e.real, x)
        return realnp.real(x)

    def imag(self, x):
        if _is_obj(x):
            return emap(lambda e: e.imag if isinstance(e, SYM) else realnp.imag(e), x)
        return realnp.imag(x)

    def tan(self, x):
        if isinstance(x, SYM):
            return x.sin() / x.cos()
        return realnp.tan(x)

    def multiply(self, a, b):
        return a * b

    def matmul(self, a, b):
        return a @ b

    def sum(self, a, *args, **k):
        if _is_obj(a) and not args and not k:
            a = realnp.asarray(a, dtype=object)
            tot = 0
            for e in a.flat:
                tot = tot + e
            return tot
        return realnp.sum(a, *args, **k)

    # ---- predicates ----
    def isclose(self, a, b, rtol=1e-05, atol=1e-08, equal_nan=False):
        if not (_is_obj(a) or _is_obj(b)):
            return realnp.isclose(a, b, rtol=rtol, atol=atol, equal_nan=equal_nan)

        def one(x, y):
            x, y = _lift(x), _lift(y)
            d = x - y
            ab = abs(y)
            return abs(d) <= ab * rtol + atol

        if isinstance(a, realnp.ndarray) or isinstance(b, realnp.ndarray):
            a2, b2 = realnp.broadcast_arrays(realnp.asarray(a, dtype=object), realnp.asarray(b, dtype=object))
            out = realnp.empty(a2.shape, dtype=object)
            for idx in realnp.ndindex(a2.shape):
                out[idx] = one(a2[idx], b2[idx])
            return out
        return one(a, b)

    def allclose(self, a, b, rtol=1e-05, atol=1e-08, equal_nan=False):
        if not (_is_obj(a) or _is_obj(b)):
            return realnp.allclose(a, b, rtol=rtol, atol=atol, equal_nan=equal_nan)
        r = self.isclose(a, b, rtol=rtol, atol=atol)
        if isinstance(r, realnp.ndarray):
            for e in r.flat:
                if not bool(e):
                    return False
            return True
        return bool(r)

    def isnan(self, x):
        if _is_obj(x):
            return emap(lambda e: False, x)
        return realnp.isnan(x)

    def isfinite(self, x):
        if _is_obj(x):
            return emap(lambda e: True, x)
        return realnp.isfinite(x)

    def geomspace(self, a, b, num=50, **k):
        if _is_obj(a) or _is_obj(b):
            num = int(num)
            if num == 1:
                return realnp.array([a], dtype=object)
            if num == 2:
                return realnp.array([a, b], dtype=object)
            if getattr(self, "geomspace_roots", False) and num in (3, 4) and not isinstance(a, Jet) and not isinstance(b, Jet) and isinstance(a, SYM + (int, float)) and isinstance(b, SYM + (int, float)):
                # a * (b/a)^(i/(num-1)) with an algebraic root atom: node_i^2 == node_(i-1) * node_(i+1) holds identically
                a_, b_ = _lift(a), _lift(b)
                ratio = b_ / a_
                if not (isinstance(ratio, SR) and ratio.is_const() and ratio.const_value() == 1):
                    r = ratio.sqrt() if num == 3 else ratio.cbrt()
                    out = [a_, a_ * r] + ([a_ * r * r] if num == 4 else []) + [b_]
                    return realnp.array(out, dtype=object)
                return realnp.array([a_] * num, dtype=object)
            # a * (b/a)^(i/(num-1))
            la, lb = self.log(a), self.log(b)
            out = [a]
            for i in range(1, num - 1):
                out.append(self.exp(la + (lb - la) * i / (num - 1)))
            out.append(b)
            return realnp.array(out, dtype=object)
        return realnp.geomspace(a, b, num, **k)

    def linspace(self, a, b, num=50, **k):
        if _is_obj(a) or _is_obj(b):
            num = int(num)
            return realnp.array([a + (b - a) * i / (num - 1) for i in range(num)], dtype=object)
        return realnp.linspace(a, b, num, **k)

    def einsum(self, *a, **k):
        return realnp.einsum(*a, **k)

    def outer(self, a, b):
        if _is_obj(a) or _is_obj(b):
            a = realnp.asarray(a, dtype=object)
            b = realnp.asarray(b, dtype=object)
            out = realnp.empty((len(a), len(b)), dtype=object)
            for i in range(len(a)):
                for j in range(len(b)):
                    out[i, j] = a[i] * b[j]
            return out
        return realnp.outer(a, b)

    def digitize(self, x, bins, right=False):
        if not (_is_obj(x) or _is_obj(bins)):
            return realnp.digitize(x, bins, right=right)
        # bins increasing (asserted by forking on the comparisons); returns i with bins[i-1] <= x < bins[i]
        bins = list(bins)

        def one(v):
            v = _lift(v) if not isinstance(v, SYM) else v
            i = 0
            for b in bins:
                cond = (v > b) if right else (v >= b)
                if cond is True or (cond is not False and bool(cond)):
                    i += 1
                else:
                    break
            return i

        if isinstance(x, (realnp.ndarray, list, tuple)):
            return realnp.array([one(v) for v in x], dtype=int)
        return one(x)


class SymMath:
    def __getattr__(self, name):
        return getattr(_math, name)

    @staticmethod
    def log(x, *a):
        if isinstance(x, SYM):
            r = x.log()
            return r / _math.log(a[0]) if a else r
        return _math.log(x, *a)

    @staticmethod
    def exp(x):
        return x.exp() if isinstance(x, SYM) else _math.exp(x)

    @staticmethod
    def sqrt(x):
        return x.sqrt() if isinstance(x, SYM) else _math.sqrt(x)

    @staticmethod
    def atan(x):
        return x.arctan() if isinstance(x, SYM) else _math.atan(x)

    @staticmethod
    def isclose(a, b, rel_tol=1e-09, abs_tol=0.0):
        if isinstance(a, SYM) or isinstance(b, SYM):
            a, b = _lift(a), _lift(b)
            d = abs(a - b)
            m1 = d <= abs(b) * rel_tol
            if m1 is True or (m1 is not False and bool(m1)):
                return True
            m2 = d <= abs(a) * rel_tol
            if m2 is True or (m2 is not False and bool(m2)):
                return True
            m3 = d <= abs_tol
            return m3 if isinstance(m3, bool) else bool(m3)
        return _math.isclose(a, b, rel_tol=rel_tol, abs_tol=abs_tol)


def install(module, np=None, symbolic_alloc=True):
    """Rebind numeric globals of a (freshly imported) module. Returns the SymNumpy used."""
    np = np or SymNumpy(symbolic_alloc)
    if hasattr(module, "np"):
        module.np = np
    if "math" in vars(module):
        module.math = SymMath()
    module.complex = sym_complex
    return np
