"""z3 back end: path manager (DFS re-execution over symbolic branches), obligations,
model extraction, numeric evaluation of symbolic values (translator validation)."""
import time
from fractions import Fraction

import z3
import mpmath as mp

from . import poly as P
from .poly import Poly
from .val import ctx, SR, Cx, Q, SymBool, EngineError, SymbolicEscape
from .jet import Jet

mp.mp.dps = 40

STATS = {"queries": 0, "unsat": 0, "sat": 0, "unknown": 0, "time": 0.0, "trivial": 0}


def reset_stats():
    for k in list(STATS):
        if k.startswith("route2_"):
            del STATS[k]
        else:
            STATS[k] = 0 if k != "time" else 0.0


def zvar(i):
    return z3.Real(P.NAMES[i])


def poly_to_z3(p):
    if not p.t:
        return z3.RealVal(0)
    terms = []
    cache = {}
    for m, c in p.t.items():
        fac = []
        i = 0
        mm = m
        while mm:
            e = mm & P.MASK
            if e:
                v = cache.get(i)
                if v is None:
                    v = cache[i] = zvar(i)
                fac.extend([v] * e)
            mm >>= P.BITS
            i += 1
        cz = z3.RealVal(str(c)) if not isinstance(c, int) else z3.RealVal(c)
        t = cz
        for f in fac:
            t = t * f
        terms.append(t)
    return z3.Sum(terms) if len(terms) > 1 else terms[0]


_RELS = {
    "<0": lambda e: e < 0,
    "<=0": lambda e: e <= 0,
    ">0": lambda e: e > 0,
    ">=0": lambda e: e >= 0,
    "==0": lambda e: e == 0,
    "!=0": lambda e: e != 0,
}


def rel_to_z3(p, rel):
    return _RELS[rel](poly_to_z3(p))


def symbool_to_z3(b):
    if hasattr(b, "e"):
        return b.e
    return rel_to_z3(b.p, b.rel)


def context_constraints(include_nonzero=True):
    cs = [rel_to_z3(p, r) for p, r in ctx.domain]
    cs += [rel_to_z3(p, r) for p, r in ctx.side]
    # algebraic relations  v^k = rad
    for i, (k, rad) in P.ALG.items():
        v = zvar(i)
        pw = v
        for _ in range(k - 1):
            pw = pw * v
        cs.append(pw == poly_to_z3(rad))
    if include_nonzero:
        for f in ctx.nonzero.values():
            cs.append(poly_to_z3(f) != 0)
    if ctx.path is not None:
        cs += [symbool_to_z3(b) for b in ctx.path.pc]
    cs += list(EXTRA)
    return cs


def check(constraints, timeout_ms=10000):
    s = z3.Solver()
    s.set("timeout", int(timeout_ms))
    for c in constraints:
        s.add(c)
    t0 = time.time()
    r = s.check()
    dt = time.time() - t0
    STATS["queries"] += 1
    STATS["time"] += dt
    rs = str(r)
    STATS[rs] = STATS.get(rs, 0) + 1
    return rs, (s.model() if rs == "sat" else None), dt


def model_point(model):
    """z3 model -> dict var name -> Fraction (algebraic values approximated to 1e-30)."""
    out = {}
    if model is None:
        return out
    for d in model.decls():
        v = model[d]
        try:
            if z3.is_rational_value(v):
                out[d.name()] = Fraction(v.numerator_as_long(), v.denominator_as_long())
            elif z3.is_algebraic_value(v):
                a = v.approx(30)
                out[d.name()] = Fraction(a.numerator_as_long(), a.denominator_as_long())
        except Exception:
            pass
    return out


# ---------------------------------------------------------------------------
# path manager
# ---------------------------------------------------------------------------
class PathBudgetExceeded(Exception):
    pass


class PrunedPath(BaseException):
    """a path entered on an undecided (timed-out) feasibility query that later proved infeasible"""


class PathManager:
    def __init__(self, max_paths=512, timeout_ms=5000):
        self.max_paths = max_paths
        self.timeout_ms = timeout_ms
        self.pc = []
        self.prefix = []
        self.pos = 0
        self.pending = []
        self.paths = 0
        self.forks = 0
        self.unknown_feas = 0

    def decide(self, b):
        if self.pos < len(self.prefix):
            choice = self.prefix[self.pos]
        else:
            zb = symbool_to_z3(b)
            base = context_constraints(include_nonzero=True)
            rt, _m, _ = check(base + [zb], self.timeout_ms)
            rf, _m, _ = check(base + [z3.Not(zb)], self.timeout_ms)
            if rt == "unknown" or rf == "unknown":
                self.unknown_feas += 1
            t_ok = rt != "unsat"
            f_ok = rf != "unsat"
            if t_ok and f_ok:
                self.forks += 1
                self.pending.append(list(self.trace) + [False])
                choice = True
            elif t_ok:
                choice = True
            elif f_ok:
                choice = False
            else:
                if self.unknown_feas:
                    # an earlier feasibility query timed out and was (soundly) treated as feasible; this path has now turned
                    # out to be infeasible: nothing lives on it
                    raise PrunedPath()
                raise EngineError("infeasible path reached (contradictory assumptions)")
        self.trace.append(choice)
        self.pos += 1
        self.pc.append(b if choice else b.negate())
        return choice

    def explore(self, fn):
        """Run fn() once per feasible path. fn must create its symbols itself (the context is
        reset before every run). Yields fn's return value per completed path."""
        self.pending = [[]]
        results = []
        while self.pending:
            if self.paths >= self.max_paths:
                raise PathBudgetExceeded("more than %d paths" % self.max_paths)
            self.prefix = self.pending.pop()
            self.trace = []
            self.pos = 0
            self.pc = []
            ctx.reset()
            ctx.path = self
            try:
                r = fn()
            except PrunedPath:
                self.pruned = getattr(self, "pruned", 0) + 1
                continue
            finally:
                ctx.path = None
            self.paths += 1
            results.append(r)
        if not self.paths:
            raise EngineError("every path was pruned as infeasible (feasibility queries timed out): nothing was decided")
        return results


def explore(fn, max_paths=512, timeout_ms=5000):
    pm = PathManager(max_paths, timeout_ms)
    res = pm.explore(fn)
    return res, pm


# ---------------------------------------------------------------------------
# numeric evaluation (for translator validation and candidate search)
# ---------------------------------------------------------------------------
class NumEnv:
    """Evaluate symbolic values at a concrete point. point: name -> number for input vars."""

    def __init__(self, point):
        self.vals = {}
        self.point = point

    def var(self, i):
        v = self.vals.get(i)
        if v is not None:
            return v
        name = P.NAMES[i]
        if name in self.point:
            x = self.point[name]
            v = mp.mpf(x.numerator) / x.denominator if isinstance(x, Fraction) else mp.mpf(x)
        else:
            info = ctx.atom_info.get(i)
            if info is None:
                raise KeyError("no value for variable %s" % name)
            v = self.atom(info)
        self.vals[i] = v
        return v

    def q(self, q):
        need = q.vars()
        vals = _LazyVals(self, need)
        return q.evalf(vals)

    def atom(self, info):
        fn = info["fn"]
        arg = info["arg"]
        if isinstance(arg, tuple):
            z = mp.mpc(self.q(arg[0]), self.q(arg[1]))
            base, part = fn.rsplit("_", 1)
            w = {"log": mp.log, "atan": mp.atan}[base](z)
            return w.real if part == "re" else w.imag
        a = self.q(arg)
        if fn == "sqrt":
            return mp.sqrt(a)
        if fn == "cbrt":
            return mp.cbrt(a) if a >= 0 else -mp.cbrt(-a)
        return {"log": mp.log, "exp": mp.exp, "atan": mp.atan, "sin": mp.sin, "cos": mp.cos}[fn](a)

    def value(self, x):
        if isinstance(x, SR):
            return self.q(x.v)
        if isinstance(x, Cx):
            return mp.mpc(self.q(x.re.v), self.q(x.im.v))
        if isinstance(x, Q):
            return self.q(x)
        if isinstance(x, Poly):
            return self.q(Q(x))
        return mp.mpmathify(x)

    def tangent(self, x):
        if isinstance(x, SR):
            return self.q(x._dd())
        if isinstance(x, Cx):
            return mp.mpc(self.q(x.re._dd()), self.q(x.im._dd()))
        raise TypeError


class _LazyVals:
    def __init__(self, env, need):
        self.env = env

    def __getitem__(self, i):
        return self.env.var(i)


# ---------------------------------------------------------------------------
# obligations
# ---------------------------------------------------------------------------
class Verdict:
    __slots__ = ("status", "what", "residual", "model", "time", "smt", "nterms")

    def __init__(self, status, what, residual=None, model=None, time=0.0, smt=None, nterms=0):
        self.status = status  # 'unsat' (holds) | 'sat' | 'unknown'
        self.what = what
        self.residual = residual
        self.model = model
        self.time = time
        self.smt = smt
        self.nterms = nterms

    @property
    def holds(self):
        return self.status == "unsat"


def numerators(x):
    """All polynomial numerators that must vanish for x == 0."""
    if isinstance(x, SR):
        return [x.v.n]
    if isinstance(x, Cx):
        return [x.re.v.n, x.im.v.n]
    if isinstance(x, Q):
        return [x.n]
    if isinstance(x, Poly):
        return [x]
    if isinstance(x, (int, float, complex, Fraction)):
        x = complex(x)
        return [Poly.const(Fraction(x.real)), Poly.const(Fraction(x.imag))]
    raise TypeError(type(x))


def prove_zero(x, what="", timeout_ms=20000, tangent=False):
    """Ask the solver whether x (value, or its tangent if tangent=True) can be non-zero under
    the current domain / side relations / path condition."""
    if tangent:
        if isinstance(x, SR):
            x = SR(x._dd())
        elif isinstance(x, Cx):
            x = Cx(SR(x.re._dd()), SR(x.im._dd()))
    nums = [n.reduce() for n in numerators(x)]
    nz = [n for n in nums if n.t]
    base = context_constraints()
    if not nz:
        # the engine's normal form is the zero polynomial; the solver confirms 0 != 0 is unsat
        rs, m, dt = check(base + [z3.RealVal(0) != 0], timeout_ms)
        STATS["trivial"] += 1
        return Verdict(rs, what, None, None, dt, "(assert (not (= 0.0 0.0)))", 0)
    goal = z3.Or([poly_to_z3(n) != 0 for n in nz])
    rs, m, dt = check(base + [goal], timeout_ms)
    return Verdict(rs, what, nz, model_point(m) if m is not None else None, dt, None, sum(len(n.t) for n in nz))


def prove_rel(p, rel, what="", timeout_ms=20000):
    """Prove p rel 0 (p: SR/Q/Poly) for all points of the domain."""
    q = p.v if isinstance(p, SR) else (p if isinstance(p, Q) else Q(p if isinstance(p, Poly) else Poly.const(p)))
    pp = q.n if rel in ("==0", "!=0") else q.n * q.den_odd()
    base = context_constraints()
    goal = z3.Not(rel_to_z3(pp, rel))
    rs, m, dt = check(base + [goal], timeout_ms)
    return Verdict(rs, what, [pp], model_point(m) if m is not None else None, dt, None, len(pp.t))


def prove_regular(prefix="", timeout_ms=20000):
    """Continuity side of a derivative-based argument ("value at one point + derivative everywhere" decides a function only
    where it is continuous): every transcendental atom created so far has an argument that stays finite on the whole domain
    (no denominator factor of it can vanish there), real logs have positive arguments and complex logs stay off the cut.
    Returns a list of Verdicts."""
    out = []
    seen = set()
    for _idx, info in list(ctx.atom_info.items()):
        fn = info["fn"]
        arg = info["arg"]
        args = arg if isinstance(arg, tuple) else (arg,)
        for a in args:
            if not isinstance(a, Q):
                continue
            for k0, (f, _k) in a.den.items():
                if k0 in seen:
                    continue
                seen.add(k0)
                # decided without the engine's standing "denominators are non-zero" side conditions
                rs, m, dt = check(context_constraints(include_nonzero=False) + [poly_to_z3(f) == 0], timeout_ms)
                out.append(Verdict(rs, "%sargument of %s stays finite: denominator factor != 0 on the domain" % (prefix, fn), [f], model_point(m) if m is not None else None, dt, None, len(f.t)))
        if fn == "log" and isinstance(arg, Q):
            key = ("logpos", arg.key())
            if key not in seen:
                seen.add(key)
                out.append(prove_rel(arg, ">0", "%sargument of the real log is positive on the domain" % prefix, timeout_ms))
        if fn == "log_re" and isinstance(arg, tuple):
            re, im = arg
            key = ("cut", re.key(), im.key())
            ckey = ("cut", re.key(), (-im).key())
            if key not in seen and ckey not in seen:
                seen.add(key)
                goal = z3.Not(z3.And(rel_to_z3(im.n, "==0"), rel_to_z3(re.n * re.den_odd(), "<=0")))
                rs, m, dt = check(context_constraints(include_nonzero=False) + [z3.Not(goal)], timeout_ms)
                out.append(Verdict(rs, "%sargument of the complex log stays off the branch cut on the domain" % prefix, None, model_point(m) if m is not None else None, dt, None, 1))
    return out


def reachable(timeout_ms=10000):
    """Vacuity twin: the assumptions collected so far must be satisfiable."""
    rs, m, dt = check(context_constraints(), timeout_ms)
    return rs, model_point(m) if m is not None else None


def smt2_of(constraints):
    s = z3.Solver()
    for c in constraints:
        s.add(c)
    return s.to_smt2()


# ---------------------------------------------------------------------------
# generic z3-valued symbols (flags, bounded ints, crash indices)
# ---------------------------------------------------------------------------
class ZBool:
    """Symbolic Boolean wrapping an arbitrary z3 BoolRef; bool() forks through the path manager."""

    __slots__ = ("e",)

    def __init__(self, e):
        self.e = e

    def __bool__(self):
        if isinstance(self.e, bool):
            return self.e
        if z3.is_true(self.e):
            return True
        if z3.is_false(self.e):
            return False
        if ctx.path is None:
            raise SymbolicEscape("branch on symbolic z3 condition outside a path manager: %s" % self.e)
        return ctx.path.decide(self)

    def negate(self):
        return ZBool(z3.Not(self.e))

    __invert__ = negate

    def __and__(self, o):
        return ZBool(z3.And(self.e, o.e if isinstance(o, ZBool) else o))

    def __or__(self, o):
        return ZBool(z3.Or(self.e, o.e if isinstance(o, ZBool) else o))

    def __repr__(self):
        return "ZBool(%s)" % self.e


class ZInt:
    """Symbolic integer wrapping a z3 ArithRef (Int). Comparisons give ZBool; int() escapes."""

    __slots__ = ("e",)

    def __init__(self, e):
        self.e = z3.Int(e) if isinstance(e, str) else e

    @staticmethod
    def _u(o):
        return o.e if isinstance(o, ZInt) else o

    def __add__(self, o):
        return ZInt(self.e + ZInt._u(o))

    __radd__ = __add__

    def __sub__(self, o):
        return ZInt(self.e - ZInt._u(o))

    def __rsub__(self, o):
        return ZInt(ZInt._u(o) - self.e)

    def __mul__(self, o):
        return ZInt(self.e * ZInt._u(o))

    __rmul__ = __mul__

    def __neg__(self):
        return ZInt(-self.e)

    def __eq__(self, o):
        return ZBool(self.e == ZInt._u(o))

    def __ne__(self, o):
        return ZBool(self.e != ZInt._u(o))

    def __lt__(self, o):
        return ZBool(self.e < ZInt._u(o))

    def __le__(self, o):
        return ZBool(self.e <= ZInt._u(o))

    def __gt__(self, o):
        return ZBool(self.e > ZInt._u(o))

    def __ge__(self, o):
        return ZBool(self.e >= ZInt._u(o))

    __hash__ = object.__hash__

    def __int__(self):
        raise SymbolicEscape("int() of symbolic integer %s" % self.e)

    __index__ = __int__

    def __repr__(self):
        return "ZInt(%s)" % self.e


EXTRA = []  # extra z3 constraints (domain of ZInt/ZBool symbols) added to every query; reset with ctx


def assume_z3(e):
    EXTRA.append(e.e if isinstance(e, (ZBool, ZInt)) else e)


_old_reset = ctx.reset


def _reset_all():
    _old_reset()
    del EXTRA[:]


ctx.reset = _reset_all


def prove_formula(goal, what="", assumptions=(), timeout_ms=20000):
    """Prove a z3 formula `goal` under context constraints + assumptions: asks for a model of the negation."""
    g = goal.e if isinstance(goal, ZBool) else goal
    base = context_constraints() + [a.e if isinstance(a, ZBool) else a for a in assumptions]
    rs, m, dt = check(base + [z3.Not(g)], timeout_ms)
    mp_ = {}
    if m is not None:
        for d in m.decls():
            mp_[d.name()] = str(m[d])
    return Verdict(rs, what, None, mp_ or None, dt, None, 1)


# ---------------------------------------------------------------------------
# second, independent route: let the solver do the polynomial reasoning itself
# ---------------------------------------------------------------------------
def _q_of(x):
    if isinstance(x, SR):
        return [x.v]
    if isinstance(x, Cx):
        return [x.re.v, x.im.v]
    if isinstance(x, Q):
        return [x]
    if isinstance(x, Poly):
        return [Q(x)]
    c = complex(x)
    return [Q(Poly.const(Fraction(c.real))), Q(Poly.const(Fraction(c.imag)))]


def _den_z3(q):
    t = None
    for f, k in q.den.values():
        fz = poly_to_z3(f)
        for _ in range(k):
            t = fz if t is None else t * fz
    return t


def solver_route_equal(lhs, rhs, timeout_ms=4000, max_terms=4000):
    """Ask z3 directly whether lhs != rhs is satisfiable, handing it the two sides *without* forming their
    difference in the engine: the cross-multiplied obligation  n_l * d_r != n_r * d_l  is built from the separate
    numerators and denominator factors as z3 products, so the cancellation is z3's work (nlsat / arithmetic rewriter),
    independent of the engine's normal form. Returns 'unsat' | 'sat' | 'unknown' | 'skipped'."""
    ql, qr = _q_of(lhs), _q_of(rhs)
    if len(ql) != len(qr):
        ql = ql + [Q(Poly())] * (len(qr) - len(ql))
        qr = qr + [Q(Poly())] * (len(ql) - len(qr))
    if sum(len(q.n.t) for q in ql + qr) > max_terms:
        return "skipped"
    goals = []
    for a, b in zip(ql, qr):
        l = poly_to_z3(a.n)
        r = poly_to_z3(b.n)
        db, da = _den_z3(b), _den_z3(a)
        if db is not None:
            l = l * db
        if da is not None:
            r = r * da
        goals.append(l != r)
    rs, _m, _dt = check(context_constraints() + [z3.Or(goals)], timeout_ms)
    return rs


def prove_equal(lhs, rhs, what="", timeout_ms=20000, route_timeout_ms=4000):
    """prove lhs == rhs. Two routes, both z3 verdicts: (1) engine normal form of lhs - rhs, residual handed to z3;
    (2) the un-subtracted cross-multiplied form decided by z3 alone. The verdict is `unsat` if either route is `unsat`
    and neither is `sat` with the other `unsat` (a disagreement is reported as `unknown`)."""
    diff = lhs - rhs
    v = prove_zero(diff, what, timeout_ms)
    try:
        r2 = solver_route_equal(lhs, rhs, route_timeout_ms)
    except Exception:
        r2 = "skipped"
    STATS["route2_" + r2] = STATS.get("route2_" + r2, 0) + 1
    if v.status == "unsat" and r2 == "sat":
        v.status = "unknown"
        v.what += " [engine normal form says 0 but the solver finds the cross-multiplied form satisfiable]"
    elif v.status != "unsat" and r2 == "unsat":
        v.status = "unsat"
    return v


# ---------------------------------------------------------------------------
# second solver (cvc5) on the same SMT-LIB text: thorough-tier cross-check of the solver-only route
# ---------------------------------------------------------------------------
def cvc5_check(constraints, timeout_ms=10000):
    """Run cvc5 (python wheel) on the SMT-LIB2 rendering of the z3 constraints. Returns 'unsat' | 'sat' | 'unknown'."""
    try:
        import cvc5
    except Exception:
        return "unavailable"
    s = z3.Solver()
    for c in constraints:
        s.add(c)
    text = s.to_smt2()
    try:
        slv = cvc5.Solver()
        slv.setOption("tlimit-per", str(int(timeout_ms)))
        slv.setLogic("QF_NRA")
        parser = cvc5.InputParser(slv)
        parser.setStringInput(cvc5.InputLanguage.SMT_LIB_2_6, text, "symx")
        sm = parser.getSymbolManager()
        res = "unknown"
        while True:
            cmd = parser.nextCommand()
            if cmd.isNull():
                break
            out = cmd.invoke(slv, sm)
            if "unsat" in str(out):
                res = "unsat"
            elif "sat" in str(out).split():
                res = "sat"
        return res
    except Exception as e:  # parser/option differences: no information
        return "error:%s" % type(e).__name__


_old_route = solver_route_equal


def solver_route_equal(lhs, rhs, timeout_ms=4000, max_terms=4000):  # noqa: F811
    rs = _old_route(lhs, rhs, timeout_ms, max_terms)
    import os

    if os.environ.get("VERIF_TIER") == "thorough" and rs in ("unsat", "sat"):
        ql, qr = _q_of(lhs), _q_of(rhs)
        goals = []
        for a, b in zip(ql, qr):
            l, r = poly_to_z3(a.n), poly_to_z3(b.n)
            db, da = _den_z3(b), _den_z3(a)
            if db is not None:
                l = l * db
            if da is not None:
                r = r * da
            goals.append(l != r)
        c5 = cvc5_check(context_constraints() + [z3.Or(goals)], 8000)
        tag = "cvc5_" + ("agree" if c5 == rs else ("noinfo" if c5 not in ("sat", "unsat") else "DISAGREE"))
        STATS["route2_" + tag] = STATS.get("route2_" + tag, 0) + 1
        if tag.endswith("DISAGREE"):
            return "unknown"
    return rs
