"""Published renormalisation-group coefficients, transcribed independently of /repo.

Normalisation: a = alpha_s/(4 pi);  da/dln(mu^2) = - sum_k beta_k a^(k+2);
               dm/dln(mu^2) = - m sum_k gamma_k a^(k+1)  (eko's gamma.py convention: gamma_0 = 4).

Sources
  beta_0..beta_3 : Herzog, Ruijl, Ueda, Vermaseren, Vogt, JHEP 02 (2017) 090, eqs. (3.1)-(3.4)
                   (van Ritbergen-Vermaseren-Larin 1997 for beta_3) in terms of C_A, C_F, T_F.
  gamma_0..gamma_3: Vermaseren, Larin, van Ritbergen, PLB 405 (1997) 327, eq. (15) / Chetyrkin PLB 404 (1997) 161
                   (there in a=alpha_s/pi; multiplied by 4^(k+1) here).
  mixed QCDxQED  : Surguladze, hep-ph/9803211, eq. (7) (leading mixed terms), QED one/two loop textbook values.

All values are exact rationals times zeta values; functions take any ring element for nf, z3, z4, z5.
"""
from fractions import Fraction as F

CA, CF, TF = F(3), F(4, 3), F(1, 2)
EU2, ED2, NC = F(4, 9), F(1, 9), 3


def beta0(nf):
    return F(11, 3) * CA - F(4, 3) * TF * nf


def beta1(nf):
    return F(34, 3) * CA**2 - F(20, 3) * CA * TF * nf - 4 * CF * TF * nf


def beta2(nf):
    return (F(2857, 54) * CA**3 - F(1415, 27) * CA**2 * TF * nf - F(205, 9) * CF * CA * TF * nf + 2 * CF**2 * TF * nf
            + F(44, 9) * CF * TF**2 * nf * nf + F(158, 27) * CA * TF**2 * nf * nf)


def beta3(nf, z3):
    return (F(149753, 6) + 3564 * z3 - (F(1078361, 162) + F(6508, 27) * z3) * nf + (F(50065, 162) + F(6472, 81) * z3) * nf * nf
            + F(1093, 729) * nf * nf * nf)


def gamma0():
    return F(4)


def gamma1(nf):
    return F(202, 3) - F(20, 9) * nf


def gamma2(nf, z3):
    return F(1249) - (F(2216, 27) + F(160, 3) * z3) * nf - F(140, 81) * nf * nf


def gamma3(nf, z3, z4, z5):
    # 256 * [ 4603055/41472 + 530/27 z3 - 275/8 z5 + (-91723/6912 - 2137/144 z3 + 55/16 z4 + 575/72 z5) nf
    #         + (2621/31104 + 25/72 z3 - 5/24 z4) nf^2 + (-83/15552 + 1/108 z3) nf^3 ]
    c0 = F(4603055, 41472) + F(530, 27) * z3 - F(275, 8) * z5
    c1 = -F(91723, 6912) - F(2137, 144) * z3 + F(55, 16) * z4 + F(575, 72) * z5
    c2 = F(2621, 31104) + F(25, 72) * z3 - F(5, 24) * z4
    c3 = -F(83, 15552) + F(1, 108) * z3
    return 256 * (c0 + c1 * nf + c2 * nf * nf + c3 * nf * nf * nf)


def nu_nd(nf):
    nu = nf // 2
    return nu, nf - nu


def beta_qed0(nf, nl):
    nu, nd = nu_nd(nf)
    return -F(4, 3) * (nl + NC * (nu * EU2 + nd * ED2))


def beta_qed1(nf, nl):
    nu, nd = nu_nd(nf)
    return -4 * (nl + NC * (nu * EU2**2 + nd * ED2**2))


def beta_qcd_as2aem1(nf):
    nu, nd = nu_nd(nf)
    return -4 * TF * (nu * EU2 + nd * ED2)


def beta_qed_aem2as1(nf):
    nu, nd = nu_nd(nf)
    return -4 * CF * NC * (nu * EU2 + nd * ED2)
