"""Published decoupling (threshold matching) relations for alpha_s and for the light-quark MS-bar masses,
transcribed independently of /repo.

Sources (L = ln(mu^2/m_h^2), n_l = number of light flavours, a = alpha_s/pi in the papers):
  [CKS97]  K.G. Chetyrkin, B.A. Kniehl, M. Steinhauser, "Strong coupling constant with flavour thresholds at four loops in the
           MS-bar scheme", Phys. Rev. Lett. 79 (1997) 2184, hep-ph/9706430:
             eq. (20)  zeta_g^2 = alpha_s^(nl)/alpha_s^(nl+1) for the MS-bar mass m_h(mu), series in alpha_s^(nl+1)(mu)/pi
             eq. (22)  the same for the on-shell (pole) mass M_h
  [RunDec] K.G. Chetyrkin, J.H. Kuehn, M. Steinhauser, "RunDec", Comput. Phys. Commun. 133 (2000) 43, hep-ph/0004189, Sec. 3:
             the inverted series 1/zeta_g^2 (series in alpha_s^(nl)(mu)/pi) for the MS-bar and the on-shell mass
             (eqs. (20)-(25) there; also Schroeder, Steinhauser JHEP 01 (2006) 051, hep-ph/0512058, eqs. (3.1)-(3.3)).
  [Vogt04] A. Vogt, Comput. Phys. Commun. 170 (2005) 65, hep-ph/0408244, eq. (2.41)-(2.43): pole-mass coefficients in
           a_s = alpha_s/(4 pi), decimals 340.729 - 16.7981 nf.
  [CKS98]  K.G. Chetyrkin, B.A. Kniehl, M. Steinhauser, "Decoupling relations to O(alpha_s^3) and their connection to low-energy
           theorems", Nucl. Phys. B510 (1998) 61, hep-ph/9708255, eq. (20) (zeta_m for the MS-bar mass m_h(mu), series in
           alpha_s^(nl+1)(mu)/pi); repeated as eq. (5) of T. Liu, M. Steinhauser, Phys. Lett. B746 (2015) 330, arXiv:1502.04719.

The equation numbers are those of the arXiv versions as remembered by the transcriber; the numbers themselves are cross-validated
in `selftest()` (run by the harnesses on every check): zeta * (1/zeta) = 1 through third order (two independent transcriptions of
every table), the printed decimals of [Vogt04], and -- in harness C16/C18 -- renormalisation-group consistency of every logarithm.

Normalisation of the tables returned here: eko's a_s = alpha_s/(4 pi);  table[n][l] multiplies a^(n+1) L^l  (n = 1..3, l = 0..n):
      a^(nl+1) = a^(nl) * ( 1 + sum_n sum_l up[n][l]   (a^(nl))^n   L^l )        "up":   1/zeta_g^2
      a^(nl)   = a^(nl+1) * ( 1 + sum_n sum_l down[n][l] (a^(nl+1))^n L^l )      "down": zeta_g^2
      m_q^(nl) = m_q^(nl+1) * ( 1 + sum_n sum_l mdown[n][l] (a^(nl+1))^n L^l )   "mdown": zeta_m
All functions accept any ring element for nl and the zeta values.
"""
from fractions import Fraction as F

# numerical values of the transcendental constants (for decimals)
ZETA2 = F(16449340668482264, 10**16)
ZETA3 = F(12020569031595943, 10**16)
ZETA4 = F(10823232337111382, 10**16)
LN2 = F(6931471805599453, 10**16)
# B4 = 16 Li4(1/2) - 13/2 zeta4 - 4 zeta2 ln^2 2 + 2/3 ln^4 2
LI4HALF = F(5174790616738994, 10**16)
B4 = 16 * LI4HALF - F(13, 2) * ZETA4 - 4 * ZETA2 * LN2**2 + F(2, 3) * LN2**4


def _scale(tab):
    """(alpha_s/pi)^n -> (alpha_s/(4 pi))^n : multiply order-n entries by 4^n"""
    return {n: {l: c * 4**n for l, c in row.items()} for n, row in tab.items()}


# --- alpha_s, MS-bar mass m_h(mu) -------------------------------------------------------------------------------
def zeta_g2_msbar(nl, z3=ZETA3):
    """[CKS97] eq. (20): zeta_g^2 in alpha_s^(nl+1)/pi"""
    return _scale({
        1: {0: 0, 1: -F(1, 6)},
        2: {0: F(11, 72), 1: -F(11, 24), 2: F(1, 36)},
        3: {0: F(564731, 124416) - F(82043, 27648) * z3 - F(2633, 31104) * nl, 1: -F(955, 576) + F(67, 576) * nl,
            2: F(53, 576) - F(1, 36) * nl, 3: -F(1, 216)},
    })


def inv_zeta_g2_msbar(nl, z3=ZETA3):
    """[RunDec]: 1/zeta_g^2 in alpha_s^(nl)/pi, MS-bar mass m_h(mu)"""
    return _scale({
        1: {0: 0, 1: F(1, 6)},
        2: {0: -F(11, 72), 1: F(11, 24), 2: F(1, 36)},
        3: {0: -F(564731, 124416) + F(82043, 27648) * z3 + F(2633, 31104) * nl, 1: F(2645, 1728) - F(67, 576) * nl,
            2: F(167, 576) + F(1, 36) * nl, 3: F(1, 216)},
    })


# --- alpha_s, on-shell mass M_h ------------------------------------------------------------------------------------
def _os_const(z2, z3, ln2):
    return F(58933, 124416) + F(2, 3) * z2 * (1 + F(1, 3) * ln2) + F(80507, 27648) * z3


def zeta_g2_pole(nl, z2=ZETA2, z3=ZETA3, ln2=LN2):
    """[CKS97] eq. (22): zeta_g^2 in alpha_s^(nl+1)/pi, on-shell mass"""
    return _scale({
        1: {0: 0, 1: -F(1, 6)},
        2: {0: -F(7, 24), 1: -F(19, 24), 2: F(1, 36)},
        3: {0: -_os_const(z2, z3, ln2) + (F(2479, 31104) + z2 / 9) * nl, 1: -F(8521, 1728) + F(409, 1728) * nl, 2: -F(131, 576), 3: -F(1, 216)},
    })


def inv_zeta_g2_pole(nl, z2=ZETA2, z3=ZETA3, ln2=LN2):
    """[RunDec]: 1/zeta_g^2 in alpha_s^(nl)/pi, on-shell mass;  [Vogt04] eq. (2.43) in a_s = alpha_s/(4 pi)"""
    return _scale({
        1: {0: 0, 1: F(1, 6)},
        2: {0: F(7, 24), 1: F(19, 24), 2: F(1, 36)},
        3: {0: _os_const(z2, z3, ln2) - (F(2479, 31104) + z2 / 9) * nl, 1: F(8941, 1728) - F(409, 1728) * nl, 2: F(511, 576), 3: F(1, 216)},
    })


# --- light-quark MS-bar mass, heavy MS-bar mass m_h(mu) ---------------------------------------------------------------
def zeta_m_msbar(nl, z3=ZETA3, z4=ZETA4, b4=B4):
    """[CKS98] eq. (20) / Liu-Steinhauser eq. (5): zeta_m = m_q^(nl)/m_q^(nl+1) in alpha_s^(nl+1)/pi"""
    return _scale({
        1: {0: 0, 1: 0},
        2: {0: F(89, 432), 1: -F(5, 36), 2: F(1, 12)},
        3: {0: F(2951, 2916) - F(407, 864) * z3 + F(5, 4) * z4 - b4 / 36 + (F(1327, 11664) - F(2, 27) * z3) * nl,
            1: -F(311, 2592) - F(5, 6) * z3 - F(53, 432) * nl, 2: F(175, 432), 3: F(29, 216) - F(1, 108) * nl},
    })


def up_table(scheme, nl):
    return {"POLE": inv_zeta_g2_pole, "MSBAR": inv_zeta_g2_msbar}[scheme](nl)


def down_table(scheme, nl):
    return {"POLE": zeta_g2_pole, "MSBAR": zeta_g2_msbar}[scheme](nl)


def get(tab, n, l):
    return tab.get(n, {}).get(l, 0)


# ---------------------------------------------------------------------------
def _series(tab, L, order=4):
    """[c_0=0, c_1=1, c_2, ...] coefficients in a of  a*(1 + sum tab[n][l] a^n L^l)"""
    return [F(0), F(1)] + [sum(F(get(tab, n, l)) * L**l for l in range(n + 1)) for n in range(1, order)]


def _compose(inner, outer, deg=4):
    def mul(p, q):
        r = [F(0)] * (deg + 1)
        for i, x in enumerate(p):
            for j, y in enumerate(q):
                if i + j <= deg:
                    r[i + j] += x * y
        return r

    res = [F(0)] * (deg + 1)
    pw = [F(1)] + [F(0)] * deg
    for k, c in enumerate(outer):
        if k > 0:
            pw = mul(pw, inner)
        for i in range(deg + 1):
            res[i] += c * pw[i]
    return res


def selftest():
    """internal consistency of the transcription; returns a list of problems (empty = fine)."""
    bad = []
    for scheme in ("POLE", "MSBAR"):
        for nl in (3, 4, 5):
            for L in (F(0), F(1), F(-2, 3), F(7, 5)):
                up, dn = _series(up_table(scheme, nl), L), _series(down_table(scheme, nl), L)
                for tag, res in (("down(up)", _compose(up, dn)), ("up(down)", _compose(dn, up))):
                    for k in range(5):
                        if res[k] != (1 if k == 1 else 0):
                            bad.append("%s %s nl=%d L=%s: a^%d coefficient %s" % (scheme, tag, nl, L, k, res[k]))
    # printed decimals of [Vogt04] (2.43)
    t = inv_zeta_g2_pole(0)
    t1 = inv_zeta_g2_pole(1)
    if abs(float(t[3][0]) - 340.729) > 5e-4 or abs(float(t1[3][0] - t[3][0]) + 16.7981) > 5e-5:
        bad.append("pole-mass c30 decimals %r %r differ from 340.729 - 16.7981 nf" % (float(t[3][0]), float(t1[3][0] - t[3][0])))
    if t[2][0] != F(14, 3) or t[2][1] != F(38, 3) or t[2][2] != F(4, 9) or t[3][1] != F(8941, 27) or t[3][2] != F(511, 9) or t[3][3] != F(8, 27):
        bad.append("pole-mass table differs from Vogt (2.43)")
    return bad
