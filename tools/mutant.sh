#!/bin/bash
# tools/mutant.sh <patch.diff> <check id> [<check id> ...]   (env VERIF_CASES etc. are passed through)
# Applies the patch in a scratch worktree of /repo (never in /repo itself), runs the checks against it, removes the worktree.
set -u
PATCH="$(readlink -f "$1")"; shift
WT=$(mktemp -d /tmp/wt_mut_XXXXXX)
git -C /repo worktree add -q --detach "$WT" HEAD || exit 9
( cd "$WT" && git apply "$PATCH" ) || { echo "patch does not apply"; git -C /repo worktree remove --force "$WT"; exit 9; }
RC=0
for id in "$@"; do
  echo "=== $id on $(basename "$PATCH")"
  EKO_REPO="$WT" /verif/check "$id" 2>&1 | grep -E "^VIOLATION|^KNOWN|^INCONCLUSIVE|tier=" | cut -c1-220
  rc=${PIPESTATUS[0]}
  echo "exit=$rc"
  [ "$rc" != "0" ] && RC=$rc
done
git -C /repo worktree remove --force "$WT"
exit $RC
