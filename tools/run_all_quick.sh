#!/bin/bash
# Run every registered quick command against /repo (sequentially), collecting exit codes: regenerates /verif/evidence/*.json.
cd /verif
ids=$(python3 -c "import json;print(' '.join(c['property_id'] for c in json.load(open('MANIFEST.json'))['checks']))")
out=${1:-/tmp/quick_all.log}
: > $out
for c in $ids; do
  t0=$(date +%s)
  cmd=$(python3 -c "import json;print([c['quick_cmd'] for c in json.load(open('MANIFEST.json'))['checks'] if c['property_id']=='$c'][0])")
  bash -c "$cmd" > /tmp/quick_$c.log 2>&1
  rc=$?
  echo "$c rc=$rc $(( $(date +%s) - t0 ))s $(grep -E 'tier=' /tmp/quick_$c.log | tail -1 | cut -c1-120)" >> $out
done
