#!/usr/bin/env python3
"""Regenerate MANIFEST.json from tools/manifest_entries.py (kept in one place so it stays valid)."""
import json, os, sys
sys.path.insert(0, os.path.dirname(__file__))
from manifest_entries import CHECKS, NOT_APPLICABLE, NOTES
V = os.path.dirname(os.path.dirname(os.path.abspath(__file__)))
checks = []
for pid, c in sorted(CHECKS.items()):
    checks.append({
        "property_id": pid,
        "quick_cmd": "./check %s --tier quick" % pid,
        "thorough_cmd": "./check %s --tier thorough" % pid,
        "evidence_file": "/verif/evidence/%s.json" % pid,
        "replay_cmd_template": "./check %s --replay {path}" % pid,
        "engine": "symx",
        "level_claimed": {"category": c.get("category", "model_checking"), "text": c["text"], "design_ref": c.get("design_ref", "DESIGN.md section 4")},
        "level_note": c["note"],
        "technique": c.get("technique", "symbolic execution of the real Python (value substitution) + z3 (QF_NRA) bounded verdicts, counterexamples replayed on the real code"),
    })
m = {
    "version": 1,
    "setup_cmd": "./check --setup",
    "hooks": {"guard": "EKO_VERIF", "enable": "no hooks: checks import /repo/src unmodified with NUMBA_DISABLE_JIT=1 and substitute module globals (np, math, complex, scipy, open...) from outside", "baseline_off_cmd": "cd /repo && /venv/bin/python -m pytest -ra -q -p no:cacheprovider --timeout=900 --continue-on-collection-errors", "source_commits": [], "add_only": True},
    "engines": [{"name": "symx", "path": "/verif/symx", "serves_properties": sorted(CHECKS), "kind_free_text": "symbolic execution of eko's Python by value substitution; exact polynomial/rational/jet domains with AD; z3 for path feasibility, obligations and counterexamples"}],
    "checks": checks,
    "notes": NOTES,
    "not_applicable": [{"property_id": k, "reason": v} for k, v in sorted(NOT_APPLICABLE.items())],
}
json.dump(m, open(os.path.join(V, "MANIFEST.json"), "w"), indent=1)
print("checks:", len(checks), "n/a:", len(NOT_APPLICABLE))
