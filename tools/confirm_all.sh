#!/bin/bash
# confirm every seed under /tmp/seedout that has no confirm.json yet, for properties listed as arguments (default: all registered)
cd /verif
REG=$(python3 -c "import json;print(' '.join(c['property_id'] for c in json.load(open('MANIFEST.json'))['checks']))")
ONLY="${*:-$REG}"
for d in /tmp/seedout/C*_*; do
  [ -f "$d/patch.diff" ] || continue
  [ -f "$d/confirm.json" ] && continue
  pid=$(basename $d | cut -d_ -f1)
  echo " $ONLY " | grep -q " $pid " || continue
  echo "$d $pid"
done > /tmp/seedout/todo.txt
cat /tmp/seedout/todo.txt | xargs -P 3 -L 1 bash -c 'VERIF_WORKERS=5 /verif/tools/confirm_seed.sh $0 $1 > $0/confirm_run.log 2>&1; echo "done $0: $(cat $0/confirm.json 2>/dev/null)"'
