#!/bin/bash
# tools/confirm_seed.sh <seed dir containing patch.diff demo.py meta.json> <check id> [<check id>...]
# Confirms a seeded change in a scratch worktree: demo fails with it / passes without, existing tests still pass with it,
# then runs the named checks against it. Writes <seed dir>/confirm.json. Env: SKIP_TESTS=1 skips the full pytest run.
set -u
D="$(readlink -f "$1")"; shift
WT=$(mktemp -d /tmp/wt_seed_XXXXXX)
git -C /repo worktree add -q --detach "$WT" HEAD || exit 9
( cd "$WT" && git apply "$D/patch.diff" ) || { echo "patch does not apply"; git -C /repo worktree remove --force "$WT"; exit 9; }
export NUMBA_DISABLE_JIT=1
PYTHONPATH="$WT/src" timeout 900 /venv/bin/python "$D/demo.py" > "$D/demo_with.log" 2>&1; DW=$?
PYTHONPATH="/repo/src" timeout 900 /venv/bin/python "$D/demo.py" > "$D/demo_without.log" 2>&1; DO=$?
TESTS="skipped"
if [ "${SKIP_TESTS:-0}" != "1" ]; then
  ( cd "$WT" && PYTHONPATH="$WT/src" timeout 5400 /venv/bin/python -m pytest -q -p no:cacheprovider --no-cov --timeout=900 --continue-on-collection-errors tests > "$D/pytest.log" 2>&1 )
  TESTS=$(tail -1 "$D/pytest.log")
  grep -E "^(FAILED|ERROR)" "$D/pytest.log" | grep -vE "test_legacy.py|test_evol_pdf.py|ekomark/data/test_init.py|test_generate_pdf_toy_antiqed|test_genpdf_exceptions" > "$D/unexpected_failures.log"
fi
RES=""
for id in "$@"; do
  EKO_REPO="$WT" /verif/check "$id" > "$D/check_$id.log" 2>&1; rc=$?
  RES="$RES $id:exit$rc"
done
git -C /repo worktree remove --force "$WT"
UNEXP=$( [ -f "$D/unexpected_failures.log" ] && wc -l < "$D/unexpected_failures.log" || echo -1 )
cat > "$D/confirm.json" <<J
{"demo_exit_with_patch": $DW, "demo_exit_without_patch": $DO, "pytest_summary": "$(echo $TESTS | tr -d '"')", "unexpected_test_failures": $UNEXP, "checks": "$RES", "repo_head": "$(git -C /repo log --format=%h -1)"}
J
cat "$D/confirm.json"
