#!/usr/bin/env python3
import json, glob, os
rows = []
for d in sorted(glob.glob("/verif/seeded/C*_*")):
    m = json.load(open(os.path.join(d, "meta.json")))
    res = "; ".join("%s %s" % (k, v.split(" (")[0]) for k, v in m.get("checks_run", {}).items())
    rows.append("| %s | %s | %s | %s |" % (os.path.basename(d), m["summary"].replace("|", "/")[:230], m["needs"].replace("|", "/")[:200], res))
print("| seeded change | what was changed | needs | result |\n|---|---|---|---|")
print("\n".join(rows))
