#!/usr/bin/env python3
"""Copy confirmed seeded changes from /tmp/seedout into /verif/seeded/<id>_<k>/ (patch.diff, demo.py, meta.json)."""
import json, os, shutil, glob, re
out = []
for d in sorted(glob.glob("/tmp/seedout/C*_*")):
    name = os.path.basename(d)
    cj = os.path.join(d, "confirm.json")
    if not (os.path.exists(cj) and os.path.exists(os.path.join(d, "patch.diff"))):
        continue
    try:
        conf = json.load(open(cj))
        meta = json.load(open(os.path.join(d, "meta.json")))
    except Exception as e:
        print("skip", name, e); continue
    ok = conf["demo_exit_with_patch"] != 0 and conf["demo_exit_without_patch"] == 0 and conf["unexpected_test_failures"] == 0
    dst = os.path.join("/verif/seeded", name)
    if not ok:
        print("NOT CONFIRMED", name, conf); continue
    os.makedirs(dst, exist_ok=True)
    shutil.copy(os.path.join(d, "patch.diff"), dst)
    shutil.copy(os.path.join(d, "demo.py"), dst)
    checks = dict(x.split(":exit") for x in conf["checks"].split())
    m = {
        "property": meta.get("property", name.split("_")[0]),
        "summary": meta.get("summary", ""),
        "needs": meta.get("needs", ""),
        "files": meta.get("files", []),
        "origin": "written by an independent sub-agent that saw only the property text and its own scratch worktree of /repo",
        "confirmed_by_coordinator": {
            "repo_head": conf["repo_head"],
            "demo_exit_with_patch": conf["demo_exit_with_patch"],
            "demo_exit_without_patch": conf["demo_exit_without_patch"],
            "existing_tests_with_patch": conf["pytest_summary"] + " (only the pre-existing failures/errors of the baseline)",
            "commands": ["git -C /repo worktree add --detach <wt> HEAD; git apply patch.diff",
                         "PYTHONPATH=<wt>/src NUMBA_DISABLE_JIT=1 /venv/bin/python demo.py  (with and without the patch)",
                         "cd <wt> && PYTHONPATH=<wt>/src /venv/bin/python -m pytest -q -p no:cacheprovider --no-cov --timeout=900 --continue-on-collection-errors tests",
                         "EKO_REPO=<wt> /verif/check <id>  (quick tier)"],
        },
        "checks_run": {k: ("caught (exit 1, VIOLATION replayed)" if v == "1" else ("missed (exit 0)" if v == "0" else "inconclusive (exit %s)" % v)) for k, v in checks.items()},
    }
    extra = json.load(open("/verif/tools/seed_extra.json")).get(name)
    if extra:
        m["other_checks_and_notes"] = extra
    json.dump(m, open(os.path.join(dst, "meta.json"), "w"), indent=1)
    out.append((name, m["checks_run"]))
for n, c in out:
    print(n, c)
