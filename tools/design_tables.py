#!/usr/bin/env python3
"""Emit the 'as built' tables of DESIGN.md section 11 from MANIFEST.json, evidence/ and seeded/."""
import json, glob, os
V = "/verif"
man = json.load(open(V + "/MANIFEST.json"))
print("### 11.4 Checks as built (from MANIFEST.json and the evidence of the last quick run)\n")
print("| id | level | obligations (quick) | wall s | what is decided (bounds in the manifest text / evidence) |\n|---|---|---|---|---|")
for c in man["checks"]:
    pid = c["property_id"]
    ev = {}
    try:
        ev = json.load(open("%s/evidence/%s.json" % (V, pid)))
    except Exception:
        pass
    cov = ev.get("coverage", {})
    print("| %s | %s | %s | %s | %s |" % (pid, c["level_claimed"]["category"], cov.get("obligations", "?"), ev.get("wall_s", "?"), c["level_claimed"]["text"][:330].replace("|", "/") + ("..." if len(c["level_claimed"]["text"]) > 330 else "")))
print("\nNot applicable (solver-based checking cannot address them; reasons in MANIFEST.not_applicable): " + ", ".join(x["property_id"] for x in man["not_applicable"]) + ".\n")
print("### 11.5 Independent seeded regressions and which checks catch them\n")
print("Each change below was written by a fresh sub-agent that saw only the property text and its own scratch worktree, then confirmed by the coordinator in another scratch worktree (demo fails with / passes without the change; the existing test-suite still passes with it) before the checks were run against it (`tools/confirm_seed.sh`). `seeded/<name>/` holds patch.diff, demo.py, meta.json.\n")
print("| seed | change (needs) | result |\n|---|---|---|")
tot = caught = 0
for d in sorted(glob.glob(V + "/seeded/C*_*")):
    m = json.load(open(d + "/meta.json"))
    res = "; ".join("%s: %s" % (k, v.split(" (")[0]) for k, v in m.get("checks_run", {}).items())
    extra = m.get("other_checks_and_notes", {})
    for k, v in extra.items():
        res += "; %s: %s" % (k, v.split(":")[0] if k != "note" else v)
    tot += 1
    if "caught" in res:
        caught += 1
    print("| %s | %s (%s) | %s |" % (os.path.basename(d), m["summary"][:200].replace("|", "/"), m["needs"][:140].replace("|", "/"), res.replace("|", "/")))
print("\n%d of %d seeded changes end in a replayed VIOLATION of a registered quick check." % (caught, tot))
