NOTES = "Every check rebuilds its encoding from /repo/src on each run (fresh import, JIT disabled). Exit 0 pass, 1 VIOLATION (replayed), 3 inconclusive/harness error. See DESIGN.md."
REALS = "Claims are about the real-number function the code denotes (floats read as exact rationals); rounding is outside the claim. Trusted: z3, the symx engine, numpy object-array semantics, mpmath oracles used only for replay."
CHECKS = {
 "C13": {"text": "For symbolic beta0,b1..b3,a0,a1 (all nf at once) and the concrete nf=3..6 coefficients, z3 decides that d/da1 of every exact evolution integral equals its integrand and that it vanishes at a1=a0 (both sign cases of the NNLO discriminant; N3LO with one real root + conjugate pair and with three real roots), that every expanded integral's derivative equals the Taylor truncation, and that roots() returns roots of the beta polynomial. Bounded by order <= 4 and the root configurations listed.",
         "note": REALS + " The defining integral is replaced by its ODE characterisation (dJ/da1 = integrand, J(a0,a0)=0)."},
 "C20": {"text": "Every function of eko.beta and eko.gamma is executed with nf symbolic (QCD) or nl symbolic and nf enumerated 0..6 (QED, mixed) and zeta values as opaque symbols; z3 decides that the resulting polynomial stays within 1e-11*scale of the literature polynomial (refs/rge_literature.py, transcribed independently with equation numbers) on the whole box, and that the dispatchers select the right coefficient.",
         "note": REALS + " The literature table is part of the trusted base."},
 "C07": {"text": "The real exact non-singlet kernels (orders 1-4) and the dispatcher's exact branch are executed on symbolic gamma_k, beta_k, a0, a1 with forward-mode AD; z3 decides dE/da1 = gamma(a1)/beta(a1) E and E(a0,a0)=1 on every path (both signs of the NNLO discriminant, both N3LO root configurations, concrete nf through eko.beta), and for the fixed-alpha_em QED kernel additionally the shifted beta0, the alpha_em-contracted gammas and the pure-QED scale factor (AD in mu2_to); exact() is the ordered product of step kernels for 1-2 steps.",
         "note": REALS + " N3LO with symbolic betas stubs roots() by symbolic roots + Vieta (argument-checked; roots() itself is decided in C13). gamma real symbols: polynomial identities extend to complex gamma."},
 "C08": {"text": "The approximate kernels are executed on truncated series (a0=lam*alpha0, a1=lam*alpha1, tracked precision) with AD in alpha1; z3 decides that every coefficient of lam^0..lam^(n-1) of lam*(dE/da1 - gamma/beta E) and of E(a0,a0)-1 vanishes: non-singlet truncated / ordered-truncated / expanded at orders 2-4 with symbolic gamma_k, beta_k; singlet truncated and perturbative (exact and expanded fill) with fully symbolic non-commuting 2x2 gamma at order 2 (quick) and 3 (thorough), order 4 with diagonal gamma_0 (thorough); decompose methods in the commuting limit.",
         "note": REALS + " E~-E=O(a^n) follows from the residual bound by variation of constants (stated in the evidence). Order-4 singlet with non-diagonal gamma_0 is outside the bound."},
 "C23": {"text": "exp_matrix_2D is executed on a symbolic real 2x2 (both signs of the discriminant, decided by z3) and a symbolic complex 2x2 (8 real symbols) scaled by the AD seed t; z3 decides the characteristic equation, P_iP_j=delta_ij P_i, sum P_i=1, M=sum lambda_i P_i, dP/dt=0 and d/dt exp = M exp. exp_matrix: numpy.linalg.eig is stubbed by its contract (symbolic v,w, M:=v diag(w) v^-1, argument-checked) and the post-processing is decided for dims 2-3 (4 thorough).",
         "note": REALS + " LAPACK itself, conditioning and defective matrices are outside the claim."},
}
NOT_APPLICABLE = {
 "C03": "Schedule independence of multiprocessing.Pool over QUADPACK integrations: process scheduling and Fortran quadrature have no encodable semantics; nothing symbolic remains once they are stubbed.",
 "C05": "Sum rules of evolved x-space PDFs to 1%: a statement about numerical Mellin inversion and interpolation error, not an identity; the exact Mellin-space core is decided under C11/C25.",
 "C06": "Split-path composition within interpolation accuracy and improving under refinement: convergence of numerical solves; exact composition where it holds is C10.",
 "C27": "Large-N asymptotics A_k ln N: a limit of transcendental functions (polygamma asymptotics), outside QF_NRA and outside any finite axiom set that could be justified.",
 "C28": "The Rust ekore crate cannot be compiled or lowered to MIR offline (num, ndarray absent from the cargo registry), so no counterexample could be replayed against it.",
 "C36": "Archive round trip is decided by numpy .npy/.npz, lz4, tarfile and PyYAML (C extensions, byte formats) and by the Python type of the scale, not by values; symbolic execution realises at the first of these boundaries.",
 "C47": "Two-process reproducibility under different hash seeds is a property of interpreter start-up state, not of a function of symbolic inputs.",
 "C48": "Agreement of numba-compiled machine code with the interpreted definition is a property of the LLVM code generator on IEEE floats; the compiled artefact cannot be encoded for an SMT solver here (no LLVM-IR-to-SMT tool installed) and float semantics are outside the real-arithmetic engine.",
 "C49": "click command wiring and file-system defaults; no input space for a solver.",
 "C50": "VFNS matching-scale dependence of x-space results under coupling rescaling needs full numerical solves; its algebraic core (L-dependence of OMEs and decoupling) is decided under C29/C16.",
 "C54": "The Rust reader cannot be built offline (same missing crates as C28).",
}
# properties not yet claimed and not N/A are work in progress; they are listed N/A with that reason until their check lands
PENDING = ["C01","C02","C04","C07","C08","C09","C10","C11","C12","C14","C15","C16","C17","C18","C19","C20","C21","C22","C23","C24","C25","C26","C29","C30","C31","C32","C33","C34","C35","C37","C38","C39","C40","C41","C42","C43","C44","C45","C46","C51","C52","C53","C55"]
for p in PENDING:
    if p not in CHECKS:
        NOT_APPLICABLE[p] = "not claimed yet: harness under construction (see DESIGN.md section 4 for the planned check)"
