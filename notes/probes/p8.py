import sys, time
sys.path.insert(0, "/tmp/probe")
from sym3 import *
from shim import NP, _has_sym
import numpy as realnp
from eko import interpolation as ip
np_ = NP()
def ones(n): 
    o = realnp.empty(n, dtype=object); o[:] = [SR(1)]*n; return o
np_.ones = ones
def concatenate(parts):
    out = []
    for p in parts:
        for e in p: out.append(e if isinstance(e, (SR,)) else SR(float(e)))
    return realnp.array(out, dtype=object)
np_.concatenate = concatenate
ip.np = np_
n = int(sys.argv[1]); deg = int(sys.argv[2])
V = Poly.var
t = time.time()
grid = realnp.array([SR(Q(V(f"x{i}"))) for i in range(n)], dtype=object)
xg = ip.XGrid.__new__(ip.XGrid); xg.log = False; xg.grid = grid     # bypass np.unique: assumed sorted & distinct
disp = ip.InterpolatorDispatcher(xg, deg, mode_N=False)
print("built", round(time.time()-t,2))
# evaluate all basis functions at symbolic x inside interval [x_i, x_{i+1}]: emulate evaluate_x per area
x = SR(Q(V("x")))
import z3
for interval in range(n - 1):
    tot = SR(0)
    for bf in disp:
        for a in bf.areas:
            if a.xmin is grid[interval]:
                val = SR(0)
                for i, coef in enumerate(a.coefs): val = val + coef * x ** i
                tot = tot + val
    num = (tot - SR(1)).v.n
    print(f"interval {interval}: sum-1 numerator monomials {len(num.t)}")
print("total", round(time.time()-t,2))
