import numpy as realnp
from sym3 import SR, SC, R, Q, Poly, ctx
from jet import Jet
SYM = (SR, SC, Jet)
def _has_sym(x):
    if isinstance(x, SYM): return True
    if isinstance(x, realnp.ndarray): return x.dtype == object
    if isinstance(x, (list, tuple)): return any(_has_sym(e) for e in x)
    return False
def _emap(f, x):
    if isinstance(x, realnp.ndarray):
        out = realnp.empty(x.shape, dtype=object)
        for idx in realnp.ndindex(x.shape): out[idx] = f(x[idx])
        return out
    return f(x)
class NP:
    symbolic_alloc = True
    def __getattr__(self, name): return getattr(realnp, name)
    def _obj(self, a):
        o = realnp.empty(a.shape, dtype=object)
        for idx in realnp.ndindex(a.shape):
            v = a[idx]; o[idx] = SR(float(v.real)) if v.imag == 0 else SC(float(v.real), float(v.imag))
        return o
    def zeros(self, shape, dtype=float): return self._obj(realnp.zeros(shape, dtype=complex))
    def identity(self, n, dtype=float): return self._obj(realnp.identity(n, dtype=complex))
    def eye(self, n, dtype=float): return self._obj(realnp.eye(n, dtype=complex))
    def ascontiguousarray(self, a): return a
    def array(self, a, dtype=None):
        if _has_sym(a): return realnp.array(a, dtype=object)
        return realnp.array(a, dtype=dtype)
    def log(self, x): return _emap(lambda e: e.log(), x) if _has_sym(x) else realnp.log(x)
    def exp(self, x): return _emap(lambda e: e.exp(), x) if _has_sym(x) else realnp.exp(x)
    def sqrt(self, x): return _emap(lambda e: e.sqrt(), x) if _has_sym(x) else realnp.sqrt(x)
    def power(self, x, k): return x ** k
    def real(self, x): return x.real if isinstance(x, SYM) else realnp.real(x)
    class linalg:
        @staticmethod
        def inv(m):
            assert m.shape == (2, 2)
            a, b, c, d = m[0, 0], m[0, 1], m[1, 0], m[1, 1]
            det = a * d - b * c
            return realnp.array([[d / det, -b / det], [-c / det, a / det]], dtype=object)
    def geomspace(self, a, b, n):
        assert n == 2; return [a, b]
