import z3, time, sys
P1 = 11400714785074694791; P2 = 14029467366897019727; P5 = 2870177450012600261
M61 = (1 << 61) - 1
def py_tuple_hash(lanes):
    acc = P5
    for l in lanes:
        acc = (acc + (l % 2**64) * P2) % 2**64
        acc = ((acc << 31) | (acc >> 33)) % 2**64
        acc = (acc * P1) % 2**64
    acc = (acc + (len(lanes) ^ (P5 ^ 3527539))) % 2**64
    if acc == 2**64 - 1: return 1546275796
    return acc - 2**64 if acc >= 2**63 else acc
from eko.io.items import Target
assert hash(Target(100.0, 4)) == py_tuple_hash([hash(100.0), 4]), "tuple hash model mismatch"
assert hash(Target(1.5, 5)) == py_tuple_hash([hash(1.5), 5])
J = 10   # scale = m / 2^J
def fhash(m):   # hash of m/2^J for 0 < m < 2^40 (BV64 term) : rotation in 61 bits
    lo = m & z3.BitVecVal((1 << J) - 1, 64)
    return (lo << (61 - J)) | z3.LShR(m, J)
def zhash(m, nf):
    acc = z3.BitVecVal(P5, 64)
    for l in (fhash(m), nf):
        acc = acc + l * z3.BitVecVal(P2, 64)
        acc = z3.RotateLeft(acc, 31)
        acc = acc * z3.BitVecVal(P1, 64)
    return acc + z3.BitVecVal(2 ^ (P5 ^ 3527539), 64)
m1, m2, n1, n2 = z3.BitVecs("m1 m2 n1 n2", 64)
s = z3.Solver(); s.set("timeout", 240000)
for m in (m1, m2): s.add(z3.UGT(m, 1 << J), z3.ULT(m, 1 << 40))
for n in (n1, n2): s.add(z3.UGE(n, 3), z3.ULE(n, 6))
s.add(z3.Or(m1 != m2, n1 != n2))
h1, h2 = zhash(m1, n1), zhash(m2, n2)
s.add(z3.Or(h1 == h2, h1 == -h2))     # abs(hash) collision
t = time.time(); r = s.check(); print(r, round(time.time() - t, 1))
if r == z3.sat:
    mo = s.model(); a = (mo[m1].as_long() / 2**J, mo[n1].as_long()); b = (mo[m2].as_long() / 2**J, mo[n2].as_long())
    print(a, b, hash(Target(*a)), hash(Target(*b)))
    from eko.io.inventory import encode
    print(encode(Target(*a)), encode(Target(*b)))
