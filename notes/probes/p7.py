import sys, time
sys.path.insert(0, "/tmp/probe")
from sym3 import *
import jet
from jet import Jet
from shim import NP
import numpy as realnp
from eko.kernels import singlet as s, evolution_integrals as ei
from ekore import anomalous_dimensions as ad
np_ = NP()
for m in (s, ei, ad): m.np = np_
n = int(sys.argv[1])            # perturbative order
method = sys.argv[2] if len(sys.argv) > 2 else "truncated"
jet.K[0] = n + int(sys.argv[3]) if len(sys.argv) > 3 else n + 2
V = Poly.var
al1 = SR(Q(V("al1")), Q(Poly.const(1))); al0 = SR(Q(V("al0")))
a1 = Jet(1, [al1]); a0 = Jet(1, [al0])
betas = [SR(Q(V(f"beta{k}"))) for k in range(n)]
gam = realnp.empty((n, 2, 2), dtype=object)
for k in range(n):
    for i in range(2):
        for j in range(2): gam[k, i, j] = SR(Q(V(f"g{k}_{i}{j}")))
t = time.time()
if method == "truncated":
    E = s.eko_truncated(gam, a1, a0, betas, (n, 0))
elif method == "perturbative":
    E = s.eko_perturbative(gam, a1, a0, betas, (n, 0), 1, (n, 0), True)
print("kernel built", round(time.time() - t, 2), flush=True)
# residual: dE/da1 - M(a1) E, with d/da1 = (1/lam) d/dal1
def ddal1(x):
    x = Jet.lift(x)
    return Jet(x.v - 1, [SR(c._d()) for c in x.c])
gsum = None; bsum = None
for k in range(n):
    term = gam[k] * (a1 ** k)
    gsum = term if gsum is None else gsum + term
    bt = betas[k] * (a1 ** (k + 1))
    bsum = bt if bsum is None else bsum + bt
M = gsum / bsum
ME = M @ E
worst = 0
for i in range(2):
    for j in range(2):
        res = ddal1(E[i, j]) - ME[i, j]
        res = Jet.lift(res)
        for order in range(-1, n - 1):     # need O(lam^(n-1)) => coefficients lam^-1..lam^(n-2) vanish
            c = res.coef(order)
            nm0 = len(c.v.n.t); red = reduce_sq(c.v.n); nm = len(red.t); worst = max(worst, nm)
            print(f"E[{i}{j}] residual coef lam^{order}: numerator monomials = {nm0} -> reduced {nm}", flush=True)
print("total", round(time.time() - t, 2), "side atoms", len(ctx.side), "max monomials", worst)
