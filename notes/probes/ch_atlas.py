import os
os.environ["NUMBA_DISABLE_JIT"] = "1"
from typing import Tuple
from eko import matchings
from eko.matchings import Atlas, Segment

def _digitize(x, walls):
    n = 0
    for w in walls:
        if x >= w: n += 1
    return n
class _NP:
    inf = float("inf")
    @staticmethod
    def digitize(x, walls): return _digitize(x, walls)
matchings.np = _NP

def check_path(w1: float, w2: float, w3: float, mu0: float, nf0: int, mu1: float, nf1: int) -> bool:
    """
    pre: 0 < w1 < w2 < w3
    pre: mu0 > 0 and mu1 > 0
    pre: 3 <= nf0 <= 6 and 3 <= nf1 <= 6
    post: _
    """
    atlas = Atlas([w1, w2, w3], (mu0, nf0))
    path = atlas.path((mu1, nf1))
    ok = path[0].origin == mu0 and path[0].nf == nf0 and path[-1].target == mu1 and path[-1].nf == nf1
    for a, b in zip(path, path[1:]):
        ok = ok and a.target == b.origin and abs(a.nf - b.nf) == 1
        ok = ok and a.target == [w1, w2, w3][max(a.nf, b.nf) - 4]
    ok = ok and len(path) == abs(nf1 - nf0) + 1
    return ok

def check_path_bug(w1: float, w2: float, w3: float, mu0: float, nf0: int, mu1: float, nf1: int) -> bool:
    """
    pre: 0 < w1 < w2 < w3
    pre: mu0 > 0 and mu1 > 0
    pre: 3 <= nf0 <= 6 and 3 <= nf1 <= 6
    post: _
    """
    atlas = Atlas([w1, w2, w3], (mu0, nf0))
    path = atlas.path((mu1, nf1))
    return len(path) <= 3
