import sys, time, importlib, pkgutil
sys.path.insert(0, "/tmp/probe")
from sym3 import *
from shim import NP, _has_sym
import numpy as realnp
import ekore
import ekore.anomalous_dimensions.unpolarized.space_like as ad_us
np_ = NP()
def full(n, val, dtype=None):
    o = realnp.empty(n, dtype=object); o[:] = [val] * n; return o
np_.full = full
def isnan(x):
    if isinstance(x, (SR, SC)): return False
    return realnp.isnan(x)
np_.isnan = isnan
# keep numeric zeros/arrays numeric unless symbolic content is assigned: here simply object arrays
mods = [m for name, m in sys.modules.items() if name.startswith("ekore") and hasattr(m, "np")]
for m in mods: m.np = np_
print("patched", len(mods), "modules")
nf = SR(Q(Poly.var("nf")))
for order in (1, 2, 3, 4):
    t = time.time()
    try:
        g = ad_us.gamma_singlet((order, 0), 2.0 + 0j, nf, (0, 0, 0, 0, 0, 0, 0), True)
        gk = g[order - 1]
        mom_q = gk[0, 0] + gk[1, 0]; mom_g = gk[0, 1] + gk[1, 1]
        def show(v):
            v = v if isinstance(v, (SR, SC)) else SR(float(realnp.real(v)))
            re = v.re if isinstance(v, SC) else v
            return {tuple(m): float(c) for m, c in re.v.n.t.items()}, len(re.v.den)
        print(order, "quark column:", show(mom_q), "gluon column:", show(mom_g), round(time.time() - t, 2))
    except Exception as e:
        import traceback; tb = traceback.extract_tb(e.__traceback__)[-1]
        print(order, "FAILED", type(e).__name__, str(e)[:120], tb.filename.split("/")[-1], tb.lineno)
