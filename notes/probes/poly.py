"""Sparse multivariate polynomials over Q with canonical form."""
from fractions import Fraction
class Poly:
    __slots__ = ("t",)
    VARS = {}          # name -> index
    NAMES = []
    def __init__(self, t=None): self.t = t or {}
    @classmethod
    def var(cls, name):
        if name not in cls.VARS:
            cls.VARS[name] = len(cls.NAMES); cls.NAMES.append(name)
        return cls({((cls.VARS[name], 1),): Fraction(1)})
    @classmethod
    def const(cls, c):
        c = Fraction(c)
        return cls({(): c} if c != 0 else {})
    def is_zero(self): return not self.t
    def is_const(self): return all(m == () for m in self.t)
    def cval(self): return self.t.get((), Fraction(0))
    def __add__(self, o):
        r = dict(self.t)
        for m, c in o.t.items():
            v = r.get(m, 0) + c
            if v == 0: r.pop(m, None)
            else: r[m] = v
        return Poly(r)
    def __neg__(self): return Poly({m: -c for m, c in self.t.items()})
    def __sub__(self, o): return self + (-o)
    @staticmethod
    def _mm(a, b):
        if not a: return b
        if not b: return a
        d = dict(a)
        for v, e in b: d[v] = d.get(v, 0) + e
        return tuple(sorted(d.items()))
    def __mul__(self, o):
        if len(self.t) > len(o.t): self, o = o, self
        r = {}
        for m1, c1 in self.t.items():
            for m2, c2 in o.t.items():
                m = Poly._mm(m1, m2); v = r.get(m, 0) + c1 * c2
                if v == 0: r.pop(m, None)
                else: r[m] = v
        return Poly(r)
    def __pow__(self, k):
        r = Poly.const(1)
        for _ in range(k): r = r * self
        return r
    def key(self): return frozenset(self.t.items())
    def to_z3(self, z3, vars_):
        tot = z3.RealVal(0)
        for m, c in self.t.items():
            term = z3.RealVal(c)
            for v, e in m:
                for _ in range(e): term = term * vars_[Poly.NAMES[v]]
            tot = tot + term
        return tot
