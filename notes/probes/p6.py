import sys, time
sys.path.insert(0, "/tmp/probe")
from sym3 import *
import numpy as realnp
from eko.kernels import as4_evolution_integrals as a4
class NP:
    def __getattr__(self, name): return getattr(realnp, name)
    def log(self, x): return x.log() if isinstance(x, (SR, SC)) else realnp.log(x)
a4.np = NP()
V = Poly.var
a1 = SR(Q(V("a1")), Q(Poly.const(1))); a0 = SR(Q(V("a0"))); beta0 = SR(Q(V("beta0")))
general = len(sys.argv) > 1
if general: rs = [SC(SR(Q(V(f"r{i}re"))), SR(Q(V(f"r{i}im")))) for i in range(3)]
else: rs = [SC(SR(Q(V("rho"))), SR(0)), SC(SR(Q(V("x"))), SR(Q(V("y")))), SC(SR(Q(V("x"))), SR(Q(-V("y"))))]
r1, r2, r3 = rs
b3 = SC(-1, 0) / (r1 * r2 * r3); b2 = SC(-1, 0) * b3 * (r1 + r2 + r3); b1 = b3 * (r1*r2 + r1*r3 + r2*r3)
a1c = SC(a1, 0)
P = SC(1,0) + b1*a1c + b2*a1c*a1c + b3*a1c*a1c*a1c
for name, k in (("j13_exact", 1), ("j23_exact", 2), ("j33_exact", 3)):
    t = time.time()
    J = getattr(a4, name)(a1, a0, beta0, [b1, b2, b3], rs)
    E = SC(SR(Q(V("a1") ** (k-1))), 0) / (SC(beta0, 0) * SC(SR(P.re.v), SR(P.im.v)))
    dre = J.re._d() - E.re.v; dim = J.im._d() - E.im.v
    print(name, "re numerator monomials:", len(dre.n.t), "im:", len(dim.n.t), "time", round(time.time()-t, 2), flush=True)
