"""Truncated Laurent/power series in a formal parameter lam with SR coefficients."""
from sym3 import SR, R, Q, Poly
import numpy as _np
K = [4]   # number of coefficients kept beyond valuation handled per-op: we keep absolute order < K[0]
class Jet:
    """sum_{i>=v} c_i lam^i, truncated at absolute order ORD (exclusive)."""
    def __init__(self, v, cs):
        # strip leading exact zeros
        cs = list(cs)
        while cs and iszero(cs[0]): cs.pop(0); v += 1
        self.v = v; self.c = cs[: max(0, K[0] - v)]
    def coef(self, i):
        j = i - self.v
        return self.c[j] if 0 <= j < len(self.c) else SR(0)
    @staticmethod
    def lift(x):
        return x if isinstance(x, Jet) else Jet(0, [R(x)])
    def __add__(self, o):
        if isinstance(o, _np.ndarray): return NotImplemented
        o = Jet.lift(o)
        if not self.c: return o
        if not o.c: return self
        v = min(self.v, o.v)
        return Jet(v, [self.coef(i) + o.coef(i) for i in range(v, K[0])])
    __radd__ = __add__
    def __neg__(self): return Jet(self.v, [-c for c in self.c])
    def __sub__(self, o):
        if isinstance(o, _np.ndarray): return NotImplemented
        return self + (-Jet.lift(o))
    def __rsub__(self, o): return (-self) + o
    def __mul__(self, o):
        if isinstance(o, _np.ndarray): return NotImplemented
        o = Jet.lift(o)
        if not self.c or not o.c: return Jet(0, [])
        v = self.v + o.v; n = max(0, K[0] - v); out = []
        for k in range(n):
            acc = SR(0)
            for i in range(k + 1):
                if i < len(self.c) and k - i < len(o.c): acc = acc + self.c[i] * o.c[k - i]
            out.append(acc)
        return Jet(v, out)
    __rmul__ = __mul__
    def inv(self):
        assert self.c, "division by zero jet"
        c0 = self.c[0]; n = max(0, K[0] + self.v)   # result valuation -v ; need orders < K => n coefficients
        out = [SR(1) / c0]
        for k in range(1, n):
            acc = SR(0)
            for i in range(1, k + 1):
                if i < len(self.c): acc = acc + self.c[i] * out[k - i]
            out.append(-acc / c0)
        return Jet(-self.v, out)
    def __truediv__(self, o):
        if isinstance(o, _np.ndarray): return NotImplemented
        return self * Jet.lift(o).inv()
    def __rtruediv__(self, o): return Jet.lift(o) * self.inv()
    def __pow__(self, k):
        if isinstance(k, float) and k == int(k): k = int(k)
        assert isinstance(k, int)
        if k == 0: return Jet(0, [SR(1)])
        if k < 0: return (self ** (-k)).inv()
        r = self
        for _ in range(k - 1): r = r * self
        return r
    def _split(self):
        assert self.v >= 0
        c0 = self.coef(0); rest = Jet(1, [self.coef(i) for i in range(1, K[0])])
        return c0, rest
    def log(self):
        c0, rest = self._split(); u = rest / c0   # log(c0 (1+u)) = log c0 + u - u^2/2 ...
        out = Jet(0, [c0.log()]); p = Jet(0, [SR(1)])
        for k in range(1, K[0]):
            p = p * u
            if not p.c: break
            out = out + p * SR(Fr(((-1) ** (k + 1)), k))
        return out
    def exp(self):
        c0, rest = self._split(); out = Jet(0, [SR(1)]); p = Jet(0, [SR(1)]); f = 1
        for k in range(1, K[0]):
            p = p * rest; f *= k
            if not p.c: break
            out = out + p * SR(Fr(1, f))
        return out * c0.exp()
    def sqrt(self):
        assert self.v == 0 or not self.c
        c0, rest = self._split(); s0 = c0.sqrt(); u = rest / c0
        out = Jet(0, [SR(1)]); p = Jet(0, [SR(1)]); coef = Fr(1, 1)
        for k in range(1, K[0]):
            coef = coef * (Fr(1, 2) - (k - 1)) / k; p = p * u
            if not p.c: break
            out = out + p * SR(coef)
        return out * s0
    def demote(self):
        if self.v >= 0 and len([c for c in self.c]) <= 1 and False: pass
        return self
from fractions import Fraction as Fr
def iszero(c):
    return isinstance(c, SR) and c.v.n.is_zero() and (c.d is None or c.d.n.is_zero())
Jet.__pos__ = lambda self: self
