import os, pathlib, tempfile
os.environ["NUMBA_DISABLE_JIT"] = "1"
import numpy as np
from ekobox.cards import example
from eko.io.struct import EKO
from eko.io.items import Operator
d = pathlib.Path(tempfile.mkdtemp(dir="/tmp/probe"))
th = example.theory(); op = example.operator()
op.xgrid = type(op.xgrid)([0.1, 0.5, 1.0])
p = d / "a.tar"
with EKO.create(p) as b:
    eko = b.load_cards(th, op).build()
    mu2 = op.mu2grid[0]
    print(type(mu2))
    eko[(mu2, 5)] = Operator(np.zeros((14, 3, 14, 3)))
try:
    with EKO.read(p) as e:
        print(list(e))
except Exception as ex:
    print("REOPEN FAILED:", type(ex).__name__, str(ex)[:200])
