"""Probe 3: SR over canonical rational functions (Poly num, factor-multiset den)."""
import os
os.environ["NUMBA_DISABLE_JIT"] = "1"
from fractions import Fraction
from poly import Poly
import numpy as _np
class Ctx:
    side = []; nonzero = []; assume_pos = []; sq = {}
ctx = Ctx()
_cnt = [0]
def fresh(name):
    _cnt[0] += 1
    return Poly.var(f"{name}!{_cnt[0]}")
def tp(x):
    if isinstance(x, Poly): return x
    if isinstance(x, bool): raise TypeError
    if isinstance(x, (int, Fraction)): return Poly.const(x)
    if isinstance(x, float): return Poly.const(Fraction(x))
    if isinstance(x, (_np.floating, _np.integer)): return tp(x.item())
    raise TypeError(type(x))
class Q:
    __slots__ = ("n", "den")
    def __init__(self, n, den=None): self.n = n; self.den = den or {}
    def denpoly(self):
        t = Poly.const(1)
        for f, k in self.den.values(): t = t * (f ** k)
        return t
    @staticmethod
    def _lcm(d1, d2):
        out = dict(d1)
        for key, (f, k) in d2.items():
            out[key] = (f, max(k, out[key][1])) if key in out else (f, k)
        return out
    @staticmethod
    def _cof(l, d):
        t = Poly.const(1)
        for key, (f, k) in l.items():
            kk = k - (d[key][1] if key in d else 0)
            if kk: t = t * (f ** kk)
        return t
    def __add__(self, o):
        if self.n.is_zero(): return o
        if o.n.is_zero(): return self
        l = Q._lcm(self.den, o.den)
        n = self.n * Q._cof(l, self.den) + o.n * Q._cof(l, o.den)
        return Q(n, l if not n.is_zero() else {})
    def __neg__(self): return Q(-self.n, self.den)
    def __sub__(self, o): return self + (-o)
    def __mul__(self, o):
        n = self.n * o.n
        if n.is_zero(): return Q(n)
        d = dict(self.den)
        for key, (f, k) in o.den.items(): d[key] = (f, k + (d[key][1] if key in d else 0))
        return Q(n, d)
    def inv(self):
        if self.n.is_const():
            c = self.n.cval(); assert c != 0
            return Q(Poly.const(1 / c) * self.denpoly())
        # normalise sign/scale of factor for sharing
        key = self.n.key(); ctx.nonzero.append(self.n)
        return Q(self.denpoly(), {key: (self.n, 1)})
    def __truediv__(self, o): return self * o.inv()
class SR:
    def __init__(self, v, d=None):
        self.v = v if isinstance(v, Q) else Q(tp(v))
        self.d = d if (d is None or isinstance(d, Q)) else Q(tp(d))
    def _d(self): return self.d if self.d is not None else Q(Poly())
    def _nd(self, o): return self.d is None and o.d is None
    def __add__(self, o):
        if isinstance(o, _np.ndarray) or type(o).__name__ == 'Jet': return NotImplemented
        if isinstance(o, (SC, complex)): return SC(self, 0) + o
        o = R(o); return SR(self.v + o.v, None if self._nd(o) else self._d() + o._d())
    __radd__ = __add__
    def __neg__(self): return SR(-self.v, None if self.d is None else -self.d)
    def __sub__(self, o):
        if isinstance(o, _np.ndarray) or type(o).__name__ == 'Jet': return NotImplemented
        if isinstance(o, (SC, complex)): return SC(self, 0) - o
        return self + (-R(o))
    def __rsub__(self, o): return (-self) + o
    def __mul__(self, o):
        if isinstance(o, _np.ndarray) or type(o).__name__ == 'Jet': return NotImplemented
        if isinstance(o, (SC, complex)): return SC(self, 0) * o
        o = R(o)
        return SR(self.v * o.v, None if self._nd(o) else self._d() * o.v + self.v * o._d())
    __rmul__ = __mul__
    def __truediv__(self, o):
        if isinstance(o, _np.ndarray) or type(o).__name__ == 'Jet': return NotImplemented
        if isinstance(o, (SC, complex)): return SC(self, 0) / o
        o = R(o)
        return SR(self.v / o.v, None if self._nd(o) else (self._d() * o.v - self.v * o._d()) / (o.v * o.v))
    def __rtruediv__(self, o): return R(o) / self
    def __pow__(self, k):
        if isinstance(k, float) and k == int(k): k = int(k)
        assert isinstance(k, int), k
        if k == 0: return SR(1)
        if k < 0: return SR(1) / (self ** (-k))
        r = self
        for _ in range(k - 1): r = r * self
        return r
    def log(self): return SR(Q(fresh("log")), None if self.d is None else self.d / self.v)
    def exp(self):
        e = Q(fresh("exp")); return SR(e, None if self.d is None else e * self.d)
    def arctan(self): return SR(Q(fresh("atan")), None if self.d is None else self.d / (Q(Poly.const(1)) + self.v * self.v))
    def sqrt(self):
        # sqrt(n / prod f^k) = sigma / prod f^ceil(k/2),  sigma^2 = n * prod_{k odd} f   (assumes factors f > 0)
        rad = self.v.n; den = {}
        for key, (f, k) in self.v.den.items():
            if k % 2: rad = rad * f
            den[key] = (f, (k + 1) // 2); ctx.assume_pos.append(f)
        s = fresh("sqrt"); ctx.side.append(("sq", s, rad)); ctx.sq[next(iter(s.t))[0][0]] = rad
        val = Q(s, den)
        return SR(val, None if self.d is None else self.d / (Q(Poly.const(2)) * val))
    @property
    def real(self): return self
    @property
    def imag(self): return SR(0)
def R(x): return x if isinstance(x, SR) else SR(x)
class SC:
    def __init__(self, re, im): self.re = R(re); self.im = R(im)
    def __add__(self, o):
        if isinstance(o, _np.ndarray) or type(o).__name__ == 'Jet': return NotImplemented
        o = C(o); return SC(self.re + o.re, self.im + o.im)
    __radd__ = __add__
    def __neg__(self): return SC(-self.re, -self.im)
    def __sub__(self, o):
        if isinstance(o, _np.ndarray) or type(o).__name__ == 'Jet': return NotImplemented
        return self + (-C(o))
    def __rsub__(self, o): return C(o) + (-self)
    def __mul__(self, o):
        if isinstance(o, _np.ndarray) or type(o).__name__ == 'Jet': return NotImplemented
        o = C(o); return SC(self.re*o.re - self.im*o.im, self.re*o.im + self.im*o.re)
    __rmul__ = __mul__
    def __truediv__(self, o):
        if isinstance(o, _np.ndarray) or type(o).__name__ == 'Jet': return NotImplemented
        o = C(o); den = o.re*o.re + o.im*o.im
        return SC((self.re*o.re + self.im*o.im)/den, (self.im*o.re - self.re*o.im)/den)
    def __rtruediv__(self, o): return C(o) / self
    def __pow__(self, k):
        if isinstance(k, float) and k == int(k): k = int(k)
        assert isinstance(k, int)
        if k == 0: return SC(1, 0)
        if k < 0: return SC(1, 0) / (self ** (-k))
        r = self
        for _ in range(k - 1): r = r * self
        return r
    @property
    def real(self): return self.re
    @property
    def imag(self): return self.im
    def _hol(self, name, deriv):
        zp = SC(SR(self.re._d()), SR(self.im._d())); zz = SC(SR(self.re.v), SR(self.im.v))
        dz = zp * deriv(zz)
        return SC(SR(Q(fresh(name + "_re")), dz.re.v), SR(Q(fresh(name + "_im")), dz.im.v))
    def log(self): return self._hol("log", lambda z: SC(1, 0) / z)
    def arctan(self): return self._hol("atan", lambda z: SC(1, 0) / (SC(1, 0) + z * z))
def C(o):
    if isinstance(o, SC): return o
    if isinstance(o, complex): return SC(o.real, o.imag)
    return SC(R(o), 0)
SR.__pos__ = lambda self: self
SC.__pos__ = lambda self: self

def reduce_sq(p):
    """normal form modulo sigma^2 -> rad for all sqrt atoms"""
    changed = True
    while changed:
        changed = False
        out = Poly()
        for m, c in p.t.items():
            hit = None
            for (v, e) in m:
                if v in ctx.sq and e >= 2: hit = (v, e); break
            if hit is None:
                out = out + Poly({m: c}); continue
            v, e = hit; changed = True
            rest = tuple((vv, ee) for (vv, ee) in m if vv != v) + (((v, e % 2),) if e % 2 else ())
            rest = tuple(sorted(rest))
            out = out + Poly({rest: c}) * (ctx.sq[v] ** (e // 2))
        p = out
    return p
