"""C46  PDF flavour projection is an exact orthogonal projection.

Real functions executed symbolically: ekobox.genpdf.flavors.project, pid_to_flavor, evol_to_flavor (module global `np`
rebound to the shim).  Block data are symbols, custom combinations have symbolic coefficients and are orthogonal by
construction.

Goals, for a selection R of mutually orthogonal combinations and every node i of every block
  formula       out[i][a] == sum_{e in R} e[a] (e . F[i]) / (e . e)       (explicit loops; F = data spread over the 14 flavours)
  kept          e . out[i] == e . F[i]           for every e in R
  annihilated   w . out[i] == 0                  for every w of an orthogonal basis of the complement of R
  idempotent    project(project(b)) == project(b)
  complete      R a complete orthogonal set  =>  out == F
  structure     output pids == flavour basis, other block entries and the input blocks untouched, empty blocks skipped
  helpers       pid_to_flavor(p) == unit vector of p ; evol_to_flavor(l) == the defining flavour combination of l
"""
import copy
import itertools
import random
from fractions import Fraction

import numpy as rnp

from .common import *  # noqa
from ._ekobox import explore, cleanup_markers, symarr, prove_all_zero, prove_concrete, getv, decide, lift, AbsNumpy
from symx.solver import prove_zero
from symx import harness as H
from symx.val import SymbolicEscape

MOD = "harness.C46"
PIDS = [22, -6, -5, -4, -3, -2, -1, 21, 1, 2, 3, 4, 5, 6]  # LHAPDF/eko flavour basis order (checked against eko below)
EVOL = ["ph", "S", "g", "V", "V3", "V8", "V15", "V24", "V35", "T3", "T8", "T15", "T24", "T35"]


class SymArray(rnp.ndarray):
    """object array that refuses, at once, to turn a comparison on symbolic entries into a boolean mask: numpy would ask every
    entry for its truth value, i.e. fork once per entry (2^(14*nodes) paths).  Magnitude-dependent treatment of the data is
    not something a projection may do (it is linear); the case then ends through its registered fall-back replays, which
    sample blocks rescaled over 22 orders of magnitude."""

    def _cmp(self, other, op):
        if self.dtype == object and any(isinstance(e, (SR, Cx)) and not e.is_const() for e in self.flat):
            raise SymbolicEscape("comparison (%s %r) on symbolic block data used as a mask: the treatment depends on the magnitude of the data" % (op, other))
        return getattr(rnp.asarray(self), "__%s__" % op)(other)

    def __lt__(self, o):
        return self._cmp(o, "lt")

    def __le__(self, o):
        return self._cmp(o, "le")

    def __gt__(self, o):
        return self._cmp(o, "gt")

    def __ge__(self, o):
        return self._cmp(o, "ge")


class ProjNumpy(AbsNumpy):
    """allocation and abs() hand out SymArray views, so that masks built from symbolic data are noticed immediately"""

    def zeros(self, shape, dtype=float, **k):
        return super().zeros(shape, dtype, **k).view(SymArray)

    def zeros_like(self, a, dtype=None, **k):
        return self.zeros(rnp.shape(a))

    def abs(self, x):
        r = super().abs(x)
        return r.view(SymArray) if isinstance(r, rnp.ndarray) else r

    absolute = abs


def evol_definition(label):
    """Defining flavour combinations of the QCD evolution basis (independent of eko.basis_rotation):
    q+- = q +- qbar ; S = sum q+ ; V = sum q- ; X3 = u - d ; X8 = u + d - 2s ; X15 = u+d+s-3c ; X24 = ..-4b ; X35 = ..-5t"""
    v = {p: 0 for p in PIDS}
    order = [2, 1, 3, 4, 5, 6]  # u d s c b t

    def add(q, c, sign):
        v[q] += c
        v[-q] += sign * c

    if label == "ph":
        v[22] = 1
    elif label == "g":
        v[21] = 1
    elif label in ("S", "V"):
        for q in order:
            add(q, 1, 1 if label == "S" else -1)
    else:
        sign = 1 if label[0] == "T" else -1
        k = {3: 2, 8: 3, 15: 4, 24: 5, 35: 6}[int(label[1:])]
        if k == 2:
            add(2, 1, sign)
            add(1, -1, sign)
        else:
            for q in order[: k - 1]:
                add(q, 1, sign)
            add(order[k - 1], -(k - 1), sign)
    return [v[p] for p in PIDS]


def _dot(u, w):
    tot = SR(QZERO)
    for a, b in zip(u, w):
        if isinstance(a, (int, float)) and a == 0 or isinstance(b, (int, float)) and b == 0:
            continue
        tot = tot + a * b
    return tot


def _layout(rng, nnodes, with_empty):
    """block structure [(pids, number of nodes)] of one project() call. Consecutive blocks are arranged so that stale state
    from an earlier block would matter: a block is followed by one with the SAME number of nodes that lacks PIDs the earlier
    one had (subset -> other subset, all 14 -> subset), then a block of another size; optionally an empty block in between."""
    a = rng.sample(PIDS, rng.randint(5, 9))
    b = [p for p in rng.sample(PIDS, rng.randint(4, 8)) if p != a[0] and p != a[1]]  # lacks at least two PIDs of a
    full = list(PIDS)
    rng.shuffle(full)
    c = [p for p in rng.sample(PIDS, rng.randint(4, 9)) if p != full[0]]
    lay = [(a, nnodes), (b, nnodes), (full, nnodes), (c, nnodes), (rng.sample(PIDS, 3), nnodes + 1)]
    if with_empty:
        lay.insert(2, ([-1, 21, 1], 0))
    return [(list(map(int, ps)), n) for ps, n in lay]


def _mk_blocks(layout):
    """symbolic blocks for a layout; entry (i, j) of block bi is the symbol d<bi>_<i>_<j>"""
    blocks = []
    for bi, (ps, n) in enumerate(layout):
        data = symarr("d%d" % bi, (n, len(ps))) if n else rnp.array([])
        blocks.append({"mu2grid": rnp.array([1.0, 2.0]), "xgrid": rnp.array([0.1, 1.0]), "pids": rnp.array(ps), "data": data})
    return blocks


def _spread(block, i):
    """node i of a block as a 14-vector in flavour-basis order (missing flavours 0)"""
    ps = [int(p) for p in block["pids"]]
    return [block["data"][i, ps.index(p)] if p in ps else 0 for p in PIDS]


def _check_selection(log, fl, name, blocks, reprs_real, reprs, complement, complete, rk):
    """reprs_real: what is handed to project(); reprs/complement: the same vectors / a complement basis as python lists"""
    snapshot = [(b["pids"].copy(), b["data"].copy()) for b in blocks]
    out = fl.project(blocks, reprs_real)
    ok = len(out) == len(blocks)
    f_diffs, k_diffs, a_diffs, c_diffs, i_diffs = [], [], [], [], []
    out2 = fl.project(out, reprs_real)
    # a further call in the same process on the same blocks in reverse order: no block may depend on what was projected before it
    out3 = fl.project(blocks[::-1], reprs_real)[::-1]
    h_diffs = []
    # linearity: rescaling a block by c rescales its projection by c (whatever the magnitude of the data)
    c = SR.var("cscale")
    scaled = [dict(b, data=(b["data"] * c if len(b["data"]) else b["data"])) for b in blocks]
    out4 = fl.project(scaled, reprs_real)
    l_diffs = []
    for bi, (b, o) in enumerate(zip(blocks, out)):
        if len(b["data"]) == 0:
            ok = ok and len(o["data"]) == 0 and list(o["pids"]) == list(b["pids"])
            continue
        ok = ok and [int(p) for p in o["pids"]] == PIDS and tuple(rnp.shape(o["data"])) == (len(b["data"]), 14)
        ok = ok and all(rnp.array_equal(o[k], b[k]) for k in ("mu2grid", "xgrid"))
        if not ok:
            break
        for i in range(len(b["data"])):
            F = _spread(b, i)
            got = [o["data"][i, a] for a in range(14)]
            want = [SR(QZERO)] * 14
            for e in reprs:
                coef = _dot(e, F) / _dot(e, e)
                want = [w + ea * coef if not (isinstance(ea, (int, float)) and ea == 0) else w for w, ea in zip(want, e)]
            f_diffs += [g - w for g, w in zip(got, want)]
            k_diffs += [_dot(e, got) - _dot(e, F) for e in reprs]
            a_diffs += [_dot(w, got) for w in complement]
            if complete:
                c_diffs += [g - f for g, f in zip(got, F)]
            i_diffs += [out2[bi]["data"][i, a] - got[a] for a in range(14)]
            h_diffs += [out3[bi]["data"][i, a] - got[a] for a in range(14)] if tuple(rnp.shape(out3[bi]["data"])) == (len(b["data"]), 14) else [SR(QONE)]
            l_diffs += [out4[bi]["data"][i, a] - c * got[a] for a in range(14)] if tuple(rnp.shape(out4[bi]["data"])) == (len(b["data"]), 14) else [SR(QONE)]
    # inputs untouched
    same = all(rnp.array_equal(b["pids"], s[0]) and b["data"].shape == s[1].shape and all(x is y for x, y in zip(b["data"].flat, s[1].flat))
               for b, s in zip(blocks, snapshot))
    v = prove_concrete(ok and same, "%s: output blocks carry the 14 flavour-basis pids, keep grids, skip empty blocks, leave the input untouched" % name)
    decide(log, v, key="project:structure", replay=(MOD, "replay_project", rk), sampler=_sampler)
    if not ok:
        return
    for key, diffs, what in (("project:formula", f_diffs, "out == sum_e e (e.F)/(e.e)"), ("project:kept", k_diffs, "components along the selection are kept"),
                             ("project:annihilated", a_diffs, "the orthogonal complement is removed"), ("project:idempotent", i_diffs, "projecting twice == projecting once"),
                             ("project:linear", l_diffs, "project(c F) == c project(F) for a symbolic factor c: no dependence on the magnitude of the data"),
                             ("project:history", h_diffs, "each block's result is independent of the blocks / calls processed before it (same blocks in reverse order, later call)")):
        v = prove_all_zero(diffs, "%s: %s" % (name, what))
        decide(log, v, key=key, replay=(MOD, "replay_project", rk), sampler=_sampler)
    if complete:
        v = prove_all_zero(c_diffs, "%s: complete orthogonal set leaves the data unchanged" % name)
        decide(log, v, key="project:complete", replay=(MOD, "replay_project", rk), sampler=_sampler)


def _unit(p):
    return [1 if q == p else 0 for q in PIDS]


# ---------------------------------------------------------------------------
def case_helpers(log):
    fl = sym_module("ekobox.genpdf.flavors", np=ProjNumpy())  # abs() as an atom (no sign forks); masks from symbolic data escape at once
    log.encode(fl.pid_to_flavor, fl.evol_to_flavor)
    log.register_replay("helpers:fallback", (MOD, "replay_helpers", {}), _sampler)
    from eko import basis_rotation as br

    def run():
        v = prove_concrete(list(br.flavor_basis_pids) == PIDS and list(br.evol_basis) == EVOL, "flavour / evolution basis order as documented")
        decide(log, v, key="basis:order", replay=(MOD, "replay_helpers", {}), sampler=_sampler)
        got = fl.pid_to_flavor(PIDS[::-1] + [21, 21])
        diffs = [lift(got[i][a]) - _unit(p)[a] for i, p in enumerate(PIDS[::-1] + [21, 21]) for a in range(14)]
        v = prove_all_zero(diffs, "pid_to_flavor(p) is the unit vector of p (all 14 pids, any order, repetitions)")
        decide(log, v, key="pid_to_flavor:unit", replay=(MOD, "replay_helpers", {}), sampler=_sampler)
        got = fl.evol_to_flavor(EVOL[::-1])
        diffs = [lift(got[i][a]) - evol_definition(l)[a] for i, l in enumerate(EVOL[::-1]) for a in range(14)]
        v = prove_all_zero(diffs, "evol_to_flavor(l) is the defining combination of l (S,V,V3..V35,T3..T35,g,ph)")
        decide(log, v, key="evol_to_flavor:definition", replay=(MOD, "replay_helpers", {}), sampler=_sampler)
        # mutual orthogonality of the evolution combinations (needed for 'complete set' below)
        rows = [evol_definition(l) for l in EVOL]
        v = prove_all_zero([_dot(rows[i], rows[j]) for i in range(14) for j in range(i)], "evolution-basis combinations are mutually orthogonal")
        decide(log, v, key="evol:orthogonal", replay=(MOD, "replay_helpers", {}), sampler=_sampler)
        log.twin("domain")

    _r, pm = explore(run)
    log.path_stats(pm)


def case_labels(log, basis, selections, nnodes, tag):
    """basis 'pid' | 'evol'; selections: list of index tuples into PIDS / EVOL"""
    fl = sym_module("ekobox.genpdf.flavors", np=ProjNumpy())  # abs() as an atom (no sign forks); masks from symbolic data escape at once
    log.encode(fl.project, fl.pid_to_flavor, fl.evol_to_flavor)
    seed0 = log.rng.randint(0, 10**9)
    rng0 = random.Random(seed0)
    for si, sel in enumerate(selections[:3]):  # fall-back replays (same layouts as the symbolic run), should the symbolic run not complete
        log.register_replay("project:fallback", (MOD, "replay_project", {"basis": basis, "sel": list(sel), "layout": _layout(rng0, nnodes, with_empty=(si % 3 == 0))}), _mk_sampler())

    def run():
        rng = random.Random(seed0)
        for si, sel in enumerate(selections):
            layout = _layout(rng, nnodes, with_empty=(si % 3 == 0))
            blocks = _mk_blocks(layout)
            if basis == "pid":
                labels = [PIDS[i] for i in sel]
                reprs_real = fl.pid_to_flavor(labels)
                vecs = [_unit(p) for p in labels]
                comp = [_unit(p) for p in PIDS if p not in labels]
            else:
                labels = [EVOL[i] for i in sel]
                reprs_real = fl.evol_to_flavor(labels)
                vecs = [evol_definition(l) for l in labels]
                comp = [evol_definition(l) for l in EVOL if l not in labels]
            _check_selection(log, fl, "%s %s" % (basis, labels), blocks, reprs_real, vecs, comp, len(sel) == 14,
                             {"basis": basis, "sel": list(sel), "layout": layout})
        log.twin("domain")
        log.collect_ctx()

    _r, pm = explore(run)
    log.path_stats(pm)


def _custom(kind):
    """orthogonal-by-construction symbolic combinations; returns (vectors, complement basis, complete?)"""
    z = [0] * 14

    def vec(d):
        v = list(z)
        for i, c in d.items():
            v[i] = c
        return v

    if kind == "one":
        a = SR.var("a")  # one flavour with a coefficient of either sign
        return [vec({9: a})], [_unit_i(i) for i in range(14) if i != 9], False
    if kind == "single14":
        c = [SR.var("c%d" % i) for i in range(14)]
        comp = [vec({k: c[k + 1], k + 1: -c[k]}) for k in range(13)]
        return [c], comp, False
    if kind == "disjoint":
        u = vec({i: SR.var("u%d" % i) for i in (0, 3, 7, 9, 12)})
        w = vec({i: SR.var("w%d" % i) for i in (1, 2, 8, 13)})
        comp = [vec({0: u[3], 3: -u[0]}), vec({1: w[2], 2: -w[1]}), vec({4: 1}), vec({5: 1}), vec({6: 1}), vec({10: 1}), vec({11: 1})]
        return [u, w], comp, False
    if kind == "rot2":
        a, b, s = SR.var("a"), SR.var("b"), SR.var("s")
        return [vec({8: a, 9: b}), vec({8: -b * s, 9: a * s})], [_unit_i(i) for i in range(14) if i not in (8, 9)], False
    if kind == "triple":
        a, b, c = SR.var("a"), SR.var("b"), SR.var("c")
        u = vec({5: a, 6: b, 7: c})
        w = vec({5: b, 6: -a})
        x = vec({5: a * c, 6: b * c, 7: -(a * a + b * b)})
        return [u, w], [x] + [_unit_i(i) for i in range(14) if i not in (5, 6, 7)], False
    if kind == "complete":
        vs = []
        for k in range(7):
            a, b = SR.var("a%d" % k), SR.var("b%d" % k)
            vs.append(vec({2 * k: a, 2 * k + 1: b}))
            vs.append(vec({2 * k: -b, 2 * k + 1: a}))
        return vs, [], True
    if kind == "complete-mixed":
        # evolution-like: q+ / q- for every quark with symbolic normalisations, photon, gluon
        vs = [vec({0: SR.var("np")}), vec({7: SR.var("ng")})]
        for k in range(1, 7):
            p, m = SR.var("p%d" % k), SR.var("m%d" % k)
            vs.append(vec({7 + k: p, 7 - k: p}))
            vs.append(vec({7 + k: m, 7 - k: -m}))
        return vs, [], True
    raise ValueError(kind)


def _unit_i(i):
    return [1 if j == i else 0 for j in range(14)]


def case_custom(log, kind, nnodes):
    fl = sym_module("ekobox.genpdf.flavors", np=ProjNumpy())  # abs() as an atom (no sign forks); masks from symbolic data escape at once
    log.encode(fl.project)
    seed0 = log.rng.randint(0, 10**9)
    log.register_replay("project:fallback", (MOD, "replay_project", {"basis": "custom", "kind": kind, "layout": _layout(random.Random(seed0), nnodes, with_empty=True)}), _mk_sampler())

    def run():
        vecs, comp, complete = _custom(kind)
        for v_ in vecs:
            assume(_dot(v_, v_), ">0")
            for e in v_:
                if isinstance(e, SR) and not e.is_const():
                    assume(e, "!=0")  # coefficients are non-zero on their support (structural zeros are the integers 0)
        layout = _layout(random.Random(seed0), nnodes, with_empty=True)
        blocks = _mk_blocks(layout)
        reprs_real = [rnp.array(v_, dtype=object) for v_ in vecs]
        _check_selection(log, fl, "custom %s" % kind, blocks, reprs_real, vecs, comp, complete, {"basis": "custom", "kind": kind, "layout": layout})
        log.twin("domain")
        log.collect_ctx()

    _r, pm = explore(run)
    log.path_stats(pm)
    _validate(log, fl)


def _validate(log, fl):
    real = real_module("ekobox.genpdf.flavors")
    rng = rnp.random.default_rng(log.rng.randint(0, 10**6))
    for _ in range(3):
        blocks = [{"pids": rnp.array([-1, 21, 1, 4]), "data": rng.normal(size=(3, 4))}]
        reprs = rng.normal(size=(2, 14))
        a = fl.project(copy.deepcopy(blocks), reprs)[0]["data"]
        b = real.project(copy.deepcopy(blocks), reprs)[0]["data"]
        if not rnp.allclose(rnp.array(a, dtype=float), b, rtol=1e-12, atol=1e-12):
            log.inconclusive.append("translator validation failed for flavors.project")
        log.validate()


SCALES = [-16, 0, -15, 6, -12, 3, -14, -6]  # powers of ten by which whole blocks are rescaled (large-x tails ... large normalisations)


def _mk_sampler():
    """seeded random blocks, rescaled: the first candidate by 1e-16, then 1, 1e-15, 1e6, ... (odd blocks by another power)"""
    state = {"n": 0}

    def sampler(rng):
        e = SCALES[state["n"] % len(SCALES)]
        e2 = SCALES[(state["n"] + 3) % len(SCALES)]
        state["n"] += 1
        return {"seed": Fraction(rng.randint(1, 10**6)), "scale": Fraction(10) ** e, "scale2": Fraction(10) ** e2}

    return sampler


_sampler = _mk_sampler()


# ---------------------------------------------------------------------------
# replays: the real module on floats, oracle = explicit Gram-Schmidt-free projector formula in plain python
# ---------------------------------------------------------------------------
def replay_helpers(point):
    from ekobox.genpdf import flavors as fl
    from eko import basis_rotation as br

    if list(br.flavor_basis_pids) != PIDS or list(br.evol_basis) != EVOL:
        return {"detail": "basis order changed: %r %r" % (br.flavor_basis_pids, br.evol_basis)}
    got = fl.pid_to_flavor(PIDS)
    for i, p in enumerate(PIDS):
        if list(got[i]) != _unit(p):
            return {"detail": "pid_to_flavor(%d) = %r" % (p, list(got[i]))}
    got = fl.evol_to_flavor(EVOL)
    for i, l in enumerate(EVOL):
        if [float(x) for x in got[i]] != [float(x) for x in evol_definition(l)]:
            return {"detail": "evol_to_flavor(%s) = %r but the defining combination is %r" % (l, list(got[i]), evol_definition(l))}
    return None


def _custom_float(kind, rng, point):
    def g(name):
        return getv(point, name, float(rng.uniform(0.3, 2.0) * rng.choice([-1, 1])))

    z = [0.0] * 14

    def vec(d):
        v = list(z)
        for i, c in d.items():
            v[i] = c
        return v

    if kind == "one":
        return [vec({9: g("a")})], False
    if kind == "single14":
        return [[g("c%d" % i) for i in range(14)]], False
    if kind == "disjoint":
        return [vec({i: g("u%d" % i) for i in (0, 3, 7, 9, 12)}), vec({i: g("w%d" % i) for i in (1, 2, 8, 13)})], False
    if kind == "rot2":
        a, b, s = g("a"), g("b"), g("s")
        return [vec({8: a, 9: b}), vec({8: -b * s, 9: a * s})], False
    if kind == "triple":
        a, b, c = g("a"), g("b"), g("c")
        return [vec({5: a, 6: b, 7: c}), vec({5: b, 6: -a})], False
    if kind == "complete":
        vs = []
        for k in range(7):
            a, b = g("a%d" % k), g("b%d" % k)
            vs += [vec({2 * k: a, 2 * k + 1: b}), vec({2 * k: -b, 2 * k + 1: a})]
        return vs, True
    if kind == "complete-mixed":
        vs = [vec({0: g("np")}), vec({7: g("ng")})]
        for k in range(1, 7):
            p, m = g("p%d" % k), g("m%d" % k)
            vs += [vec({7 + k: p, 7 - k: p}), vec({7 + k: m, 7 - k: -m})]
        return vs, True
    raise ValueError(kind)


def replay_project(point, basis, sel=None, kind=None, layout=None):
    from ekobox.genpdf import flavors as fl

    rng = rnp.random.default_rng(int(getv(point, "seed", 11)))
    if basis == "pid":
        labels = [PIDS[i] for i in sel]
        reprs = fl.pid_to_flavor(labels)
        vecs = [[float(x) for x in _unit(p)] for p in labels]
        complete = len(sel) == 14
    elif basis == "evol":
        labels = [EVOL[i] for i in sel]
        reprs = fl.evol_to_flavor(labels)
        vecs = [[float(x) for x in evol_definition(l)] for l in labels]
        complete = len(sel) == 14
    else:
        vecs, complete = _custom_float(kind, rng, point)
        if any(sum(x * x for x in v) < 1e-6 for v in vecs):
            return None
        reprs = [rnp.array(v) for v in vecs]
    if layout is None:
        layout = _layout(random.Random(int(getv(point, "seed", 11))), 3, True)
    datas = []
    for bi, (ps, n) in enumerate(layout):
        d = rng.normal(size=(n, len(ps))) if n else rnp.array([])
        for idx in rnp.ndindex(d.shape):
            d[idx] = getv(point, "d%d_%d_%d" % ((bi,) + idx), d[idx])
        # the property holds for data of any size: whole blocks rescaled (even / odd blocks by different powers of ten)
        sc = getv(point, "scale", 1.0) if bi % 2 == 0 else getv(point, "scale2", 1.0)
        if not (1e-30 < sc < 1e30):
            sc = 1.0
        datas.append(d * sc)

    def mk():
        return [{"mu2grid": rnp.array([1.0, 2.0]), "xgrid": rnp.array([0.1, 1.0]), "pids": rnp.array(ps), "data": d.copy()} for (ps, _n), d in zip(layout, datas)]

    blocks = mk()
    # the same sequence of calls as the symbolic run, in one process: project, project again on the result, project the reversed list
    out = fl.project(blocks, reprs)
    twice = fl.project(out, reprs)
    rev = fl.project(mk()[::-1], reprs)[::-1]
    for b, d, (ps, _n) in zip(blocks, datas, layout):
        if not rnp.array_equal(b["data"], d) or [int(p) for p in b["pids"]] != ps:
            return {"detail": "project modified its input block"}
    if len(out) != len(layout):
        return {"detail": "%d blocks in, %d out" % (len(layout), len(out))}
    what = kind or labels
    for bi, ((ps, n), d) in enumerate(zip(layout, datas)):
        o = out[bi]
        if n == 0:
            if len(o["data"]) != 0:
                return {"detail": "empty block not passed through"}
            continue
        if [int(p) for p in o["pids"]] != PIDS or o["data"].shape != (n, 14):
            return {"detail": "output block %d pids %r shape %r" % (bi, list(o["pids"]), o["data"].shape)}
        prev = [l for l in layout[:bi] if l[1] == n]
        for i in range(n):
            F = [d[i, ps.index(p)] if p in ps else 0.0 for p in PIDS]
            want = [0.0] * 14
            for e in vecs:
                c = sum(x * y for x, y in zip(e, F)) / sum(x * x for x in e)
                want = [w + x * c for w, x in zip(want, e)]
            scale = max(max(abs(x) for x in F), 1e-300)  # relative to the size of this block's data
            for a in range(14):
                if abs(o["data"][i, a] - want[a]) > 1e-8 * scale:
                    return {"detail": "project(%s), block %d of %d (pids %r, %d nodes; %d earlier block(s) of the same size, the one before has pids %r) node %d flavour %d: got %r, orthogonal projection of this block gives %r"
                            % (what, bi + 1, len(layout), ps, n, len(prev), layout[bi - 1][0] if bi else None, i, PIDS[a], o["data"][i, a], want[a])}
                if abs(twice[bi]["data"][i, a] - o["data"][i, a]) > 1e-8 * scale:
                    return {"detail": "project(%s) not idempotent at block %d node %d flavour %d: %r vs %r" % (what, bi + 1, i, PIDS[a], twice[bi]["data"][i, a], o["data"][i, a])}
                if abs(rev[bi]["data"][i, a] - want[a]) > 1e-8 * scale:
                    return {"detail": "project(%s) on the same blocks in reverse order (later call in the same process): block %d node %d flavour %d gives %r, expected %r" % (what, bi + 1, i, PIDS[a], rev[bi]["data"][i, a], want[a])}
                if complete and abs(o["data"][i, a] - F[a]) > 1e-8 * scale:
                    return {"detail": "project on a complete orthogonal set changed block %d node %d flavour %d: %r -> %r" % (bi + 1, i, PIDS[a], F[a], o["data"][i, a])}
    return None


# ---------------------------------------------------------------------------
def main():
    chk = H.Check("C46")
    thorough = H.tier() == "thorough"
    chk.bounds = ["one project() call on 5 data blocks (+ an empty one): subset of 5-9 pids -> subset of the same size lacking PIDs of the first -> all 14 pids shuffled -> subset lacking one of them (all with the same number of nodes: 2, thorough 3) -> 3 pids with one node more; data entries symbolic reals",
                  "history: in the same process the result is projected again and the same blocks are projected in reverse order; every block must come out as the projection of itself",
                  "selections of PIDs and of evolution labels: every single label, %s, subsets of size 3-13 (seeded), the complete set" % ("all 91 pairs" if thorough else "24 seeded pairs"),
                  "custom combinations with symbolic coefficients (non-zero on their support, either sign), orthogonal by construction: one flavour with a symbolic coefficient; one generic 14-vector; two vectors on disjoint supports; (a,b),(−sb,sa) on a shared support; "
                  "(a,b,c),(b,−a,0); complete sets {(a_k,b_k),(−b_k,a_k)}_k and {p_k q+, m_k q−, photon, gluon}"]
    chk.out_of_claim = ["non-orthogonal selections (the sum of rank-1 projectors is then not a projector; the property speaks of orthogonal combinations)",
                        "label classification is_evolution_labels / is_pid_labels and the surrounding generate_pdf I/O", "unified (QED) evolution labels: evol_to_flavor only knows the QCD evolution basis"]
    chk.stubs = []
    chk.assumptions = ["evol_definition() in this harness is the reference for the meaning of the evolution labels (S, V, V3..V35, T3..T35, g, ph)"]
    rng = random.Random(H.seed() + 46)
    nn = 3 if thorough else 2
    chk.case("helpers", case_helpers)
    singles = [(i,) for i in range(14)]
    pairs = list(itertools.combinations(range(14), 2))
    if not thorough:
        pairs = rng.sample(pairs, 24)
    subsets = [tuple(sorted(rng.sample(range(14), k))) for k in (3, 5, 8, 11, 13)] + [tuple(range(14))]
    if thorough:
        subsets += [tuple(sorted(rng.sample(range(14), k))) for k in (4, 6, 7, 9, 10, 12) for _ in range(2)]
    for basis in ("pid", "evol"):
        chk.case("%s.single" % basis, case_labels, basis=basis, selections=singles, nnodes=nn, tag="single")
        for c in range(0, len(pairs), 12):
            chk.case("%s.pairs%d" % (basis, c // 12), case_labels, basis=basis, selections=pairs[c:c + 12], nnodes=nn, tag="pairs")
        for c in range(0, len(subsets), 6):
            chk.case("%s.subsets%d" % (basis, c // 6), case_labels, basis=basis, selections=subsets[c:c + 6], nnodes=nn, tag="subsets")
    for kind in ("one", "single14", "disjoint", "rot2", "triple", "complete", "complete-mixed"):
        chk.case("custom.%s" % kind, case_custom, kind=kind, nnodes=nn)
    import ekobox.genpdf.flavors  # noqa: F401  imported before the workers fork (saves the import in every case)

    try:
        return chk.run()
    finally:
        cleanup_markers()


if __name__ == "__main__":
    import sys

    sys.exit(main())
