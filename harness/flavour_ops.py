"""Shared machinery of C32 / C52 / C01: run the real evolution-basis -> flavour-basis blow-up
(PhysicalOperator.ad_to_evol_map, MatchingCondition.split_ad_to_evol_map, OperatorBase.to_flavor_basis_tensor,
flavors.get_range / pids_from_intrinsic_*) on symbolic operator members, and build the reference tensor
R_out^+ . blockdiag(members) . R_in from harness.flavour_model."""
import importlib
from fractions import Fraction

import numpy as realnp

from .common import SR, Q, Poly, sym_module
from . import flavour_model as M
from .flavour_sym import fr

NPID = 14


def modules():
    """member with the numpy shim (allocations become object arrays); flavors keeps the real numpy: its weights are
    the production floats and are read as exact rationals."""
    member = sym_module("eko.member")
    physical = importlib.import_module("eko.evolution_operator.physical")
    matching = importlib.import_module("eko.evolution_operator.matching_condition")
    flavors = importlib.import_module("eko.evolution_operator.flavors")
    return member, physical, matching, flavors


def mname(key, i, j):
    return "m_%s_%s_%d%d" % (key[0], key[1], i, j)


class SymMembers(dict):
    """op_members stand-in: every key that the real map reads gets a g x g matrix of fresh symbols (error = 0)."""

    def __init__(self, member, g):
        super().__init__()
        self.member, self.g = member, g

    def __missing__(self, key):
        g = self.g
        val = realnp.empty((g, g), dtype=object)
        for i in range(g):
            for j in range(g):
                val[i, j] = SR.var(mname(key, i, j))
        om = self.member.OpMember(val, realnp.zeros((g, g)))
        self[key] = om
        return om

    def symbols(self):
        return [x for om in self.values() for x in om.value.flat]


def run_map(mods, kind, nf, qed, g, members=None):
    """Execute the real map + blow-up.  Returns (value tensor as object ndarray [14,g,14,g], members, operator)."""
    member, physical, matching, _fl = mods
    members = members if members is not None else SymMembers(member, g)
    if kind == "physical":
        op = physical.PhysicalOperator.ad_to_evol_map(members, nf, 1.0, qed)
    elif kind == "matching":
        op = matching.MatchingCondition.split_ad_to_evol_map(members, nf, 1.0, qed)
    else:
        raise ValueError(kind)
    val, _err = op.to_flavor_basis_tensor(qed)
    return val, members, op


def blocks_of(kind, nf, qed):
    return M.physical_blocks(nf, qed) if kind == "physical" else M.matching_blocks(nf, qed)


def lift(x):
    if isinstance(x, SR):
        return x
    return SR(Q(Poly.const(fr(x))))


def oracle_tensor(blocks, nf_in, nf_out, qed, g, entry):
    """R_out^+ . blockdiag . R_in.  blocks: {(target, input): key | 'id'}; entry(key, a, b) -> value of member[key][a][b].
    R_out^+ is the Moore-Penrose inverse of the complete intrinsic basis with nf_out flavours (no orthogonality assumed).
    Returns dict (o, a, i, b) -> value (only non-zero structural entries)."""
    labs_out = M.basis(nf_out, qed, photon=qed)
    Rp = M.pinv_rows(M.rows(labs_out, nf_out, qed))  # 14 x len(labs_out)
    col = {l: k for k, l in enumerate(labs_out)}
    out = {}
    for (T, I), key in blocks.items():
        rin = M.row(I, nf_in, qed)
        for o in range(NPID):
            wo = Rp[o][col[T]]
            if not wo:
                continue
            for i in range(NPID):
                w = wo * rin[i]
                if not w:
                    continue
                for a in range(g):
                    for b in range(g):
                        e = (1 if a == b else 0) if key == "id" else entry(key, a, b)
                        if isinstance(e, int) and e == 0:
                            continue
                        k = (o, a, i, b)
                        out[k] = out.get(k, 0) + e * w
    return out


def residuals(val, want, g, o):
    """list of (got - want) for output pid index o"""
    res = []
    for a in range(g):
        for i in range(NPID):
            for b in range(g):
                got = lift(val[o, a, i, b])
                w = want.get((o, a, i, b), 0)
                res.append(got - w)
    return res


# ---------------------------------------------------------------------------
# float side (replays): the real, unpatched modules
# ---------------------------------------------------------------------------
class FloatMembers(dict):
    def __init__(self, point, g, fill=0.0):
        super().__init__()
        self.point, self.g, self.fill = point, g, fill

    def __missing__(self, key):
        import numpy as np
        from eko import member

        g = self.g
        val = np.array([[float(Fraction(self.point.get(mname(key, i, j), self.fill))) for j in range(g)] for i in range(g)])
        om = member.OpMember(val, np.zeros((g, g)))
        self[key] = om
        return om


def real_tensor(kind, nf, qed, g, point, fill=0.0):
    """the real code on floats: (tensor, members)"""
    from eko.evolution_operator import matching_condition, physical

    members = FloatMembers(point, g, fill)
    if kind == "physical":
        op = physical.PhysicalOperator.ad_to_evol_map(members, nf, 1.0, qed)
    else:
        op = matching_condition.MatchingCondition.split_ad_to_evol_map(members, nf, 1.0, qed)
    val, _ = op.to_flavor_basis_tensor(qed)
    return val, members


def oracle_float(blocks, nf_in, nf_out, qed, g, members):
    import numpy as np

    want = oracle_tensor(blocks, nf_in, nf_out, qed, g, lambda key, a, b: Fraction(float(members[key].value[a, b])))
    T = np.zeros((NPID, g, NPID, g))
    for (o, a, i, b), v in want.items():
        T[o, a, i, b] = float(v)
    return T
