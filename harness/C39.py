"""C39  Read-only and closed EKOs never change on disk.

Real code executed symbolically over the in-memory file-system model (harness/iofs.py):
eko.io.access.AccessConfigs, eko.io.inventory.Inventory.__setitem__, eko.io.struct.EKO
(__setitem__, load_recipes, update, xgrid setter, dump, close, __exit__), eko.io.metadata.Metadata.update.

Symbolic: the flags.  `readonly` is a z3 Bool handed to the real `EKO.read(..., readonly=...)`;
`closed` is a z3 Bool on which the harness forks to call the real `EKO.close()` before the attempt
(so a "closed EKO" is exactly what close() leaves behind); at Inventory level both `readonly` and
`open` of the real AccessConfigs are z3 Bools.  Every `if` on a flag inside access.py/struct.py forks
through the path manager; flags that the code never consults stay free in the obligation, so the
solver picks the offending value.

Goals (per attempted store, with W = the model's write log after the pre-state):
  readonly or closed  =>  an exception is raised                     (aspect 'raises')
  readonly or closed  =>  W is empty                                  (aspect 'nowrite')
  readonly or closed  =>  the archive content equals the content before  (aspect 'archive'; also for close / __exit__)
  open and writable   =>  no exception and W non-empty                (aspect 'writable': the guarded write is reachable)
"""
import z3

from .common import *  # noqa
from symx.solver import explore, prove_formula, ZInt, ZBool, assume_z3
from symx import harness as H
from . import iofs
from .iofs import FS, Binder, ModelWorld, RealWorld, MPath, zeq, apply_op, session_new, scratch, sha_file, sha_tree

MOD = "harness.C39"

OPS = {
    "setitem_new": ("set", 1, "tn", False),
    "setitem_existing": ("set", 0, "tn", False),
    "load_recipes_evol": ("load_recipes_evol",),
    "load_recipes_match": ("load_recipes_match",),
    "update": ("update",),
    "xgrid": ("xgrid",),
    "metadata_update": ("metadata_update",),
    "dump": ("dump",),
    "inv_recipes": ("inv", "recipes"),
    "inv_recipes_matching": ("inv", "recipes_matching"),
    "inv_parts": ("inv", "parts", "tn"),
    "inv_parts_matching": ("inv", "parts_matching", "tn"),
    "inv_operators": ("inv", "operators", "tn"),
    "close": ("close",),
    "exit": ("exit",),
}
NOT_STORES = ("close", "exit")
# where each attempted store ends up in the real code (used as violation key)
SITE = {
    "setitem_new": "EKO.__setitem__", "setitem_existing": "EKO.__setitem__", "load_recipes_evol": "EKO.load_recipes",
    "load_recipes_match": "EKO.load_recipes", "update": "EKO.update", "xgrid": "EKO.xgrid.setter", "metadata_update": "Metadata.update",
    "dump": "EKO.dump", "inv_recipes": "Inventory.__setitem__[recipes]", "inv_recipes_matching": "Inventory.__setitem__[recipes_matching]",
    "inv_parts": "Inventory.__setitem__[parts]", "inv_parts_matching": "Inventory.__setitem__[parts_matching]",
    "inv_operators": "Inventory.__setitem__[operators]", "close": "EKO.close", "exit": "EKO.__exit__",
}
REAL_TAGS = {"t0": 1, "tn": 2}
PRE = [("set", 0, "t0", False)]


def _flags():
    ro = ZBool(z3.Bool("readonly"))
    closed = ZBool(z3.Bool("closed"))
    return ro, closed


def _tags():
    return {"t0": ZInt("t0"), "tn": ZInt("tn")}


# ---------------------------------------------------------------------------
def case_eko(log, opnames, folder=False):
    """ops applied in sequence to an EKO opened from an archive (or from an extracted folder)."""
    log.encode(*iofs.encoded_functions())
    decide = iofs.Decider(log)
    _register_fallbacks(log, [opnames], folder)
    _eko_history(log, decide, opnames, folder)
    decide.finish()


PROBES = ("metadata_update", "setitem_new", "update", "dump", "exit")


def _cycle():
    n = [0]

    def sampler(rng):
        n[0] += 1
        return {"i": n[0] - 1}

    return sampler


def _register_fallbacks(log, histories, folder):
    """fall-back replays (run by the framework if the symbolic run of the case cannot complete)"""
    for h in histories[:6]:
        log.register_replay("%s:fallback" % SITE[h[-1]], (MOD, "replay_generic", {"opnames": list(h), "folder": folder}), _cycle())


def replay_generic(point, opnames, folder):
    """every prefix of the history, every flag combination, every aspect; the first reproduced finding"""
    combos = [(True, False), (True, True), (False, True)] if not folder else [(True, False)]
    ro, closed = combos[int(point.get("i", 0)) % len(combos)]
    for n in range(1, len(opnames) + 1):
        for aspect in ("raises", "nowrite", "archive"):
            if opnames[n - 1] in NOT_STORES and aspect != "archive":
                continue
            r = replay_eko({"readonly": str(ro)}, opnames[:n], closed, folder, aspect)
            if r:
                return r
    return None


def case_eko_pairs(log, first, folder=False, third=False):
    """`first`, then every second operation, then the context exit (archive) -- so that whatever the first
    operation does to the object (setters replacing members, an explicit close) is followed by every store attempt.
    third=True (thorough tier): a third operation from PROBES instead of the plain exit."""
    log.encode(*iofs.encoded_functions())
    decide = iofs.Decider(log)
    hist = []
    for b in OPS:
        if folder and (b in NOT_STORES or first in NOT_STORES):
            continue
        if third:
            hist += [[first, b, c] for c in PROBES if not (folder and c in NOT_STORES)]
        else:
            hist.append([first, b] if folder else [first, b, "exit"])
    _register_fallbacks(log, hist, folder)
    for h in hist:
        _eko_history(log, decide, h, folder)
    decide.finish()


def _eko_history(log, decide, opnames, folder):
    ops = [OPS[n] for n in opnames]
    label = "+".join(opnames) + (" [folder]" if folder else "")

    def run():
        fs = FS()
        with Binder(fs):
            from eko.io.struct import EKO

            ro, closed = _flags()
            w = ModelWorld(fs, _tags())
            session_new(w, PRE)
            if folder:
                dest = MPath("/work/opened")
                fs.dirs.add(str(dest))
                EKO.read(w.path, dest=dest)  # extract into the folder, as tests/eko/io/test_struct.py::test_load_opened does
                eko = EKO.read(dest, extract=False, readonly=ro)
                is_closed = False
            else:
                eko = EKO.read(w.path, readonly=ro)
                is_closed = False
                if closed:  # forks; the real close() decides on `readonly` itself
                    eko.close()
                    is_closed = True
            persistent = (lambda: fs.tree("/work/opened")) if folder else (lambda: fs.files.get(str(w.path)))
            for i, (name, op) in enumerate(zip(opnames, ops)):
                before = persistent()
                before = before.copy() if hasattr(before, "copy") else before
                m = fs.mark()
                raised = None
                try:
                    apply_op(eko, op, w)
                except Exception as e:  # noqa
                    raised = e
                writes = fs.writes_since(m)
                prot = ro.e if folder else z3.Or(ro.e, z3.BoolVal(is_closed))
                kw = {"opnames": opnames[: i + 1], "closed": is_closed, "folder": folder}
                site = SITE[name] + (":folder" if folder else "")
                tag = "%s step %d (%s)%s" % (label, i + 1, name, " on a closed EKO" if is_closed else "")
                if name not in NOT_STORES:
                    v = prove_formula(z3.Implies(prot, z3.BoolVal(raised is not None)), "%s: read-only/closed => the store attempt raises" % tag)
                    decide(v, key="%s:raises" % site, replay=(MOD, "replay_eko", dict(kw, aspect="raises")))
                    v = prove_formula(z3.Implies(prot, z3.BoolVal(len(writes) == 0)), "%s: read-only/closed => write log empty" % tag)
                    decide(v, key="%s:nowrite" % site, replay=(MOD, "replay_eko", dict(kw, aspect="nowrite")))
                    if not folder:
                        v = prove_formula(z3.Implies(z3.Not(prot), z3.BoolVal(raised is None and len(writes) > 0)),
                                          "%s: open and writable => the store is accepted and written" % tag)
                        decide(v, key="%s:writable" % site, replay=(MOD, "replay_eko", dict(kw, aspect="writable")))
                after = persistent()
                same = zeq(after, before) if (after is not None and before is not None) else z3.BoolVal(after is None and before is None)
                v = prove_formula(z3.Implies(prot, same), "%s: read-only/closed => persistent content unchanged" % tag)
                decide(v, key="%s:archive" % site, replay=(MOD, "replay_eko", dict(kw, aspect="archive")))
                if name == "close" and raised is None:
                    is_closed = True
                if name == "exit" and raised is None and not folder:
                    is_closed = True
            log.twin("flags")

    _r, pm = explore(run, max_paths=256)
    log.path_stats(pm)


def case_inventory(log, name):
    """Inventory.__setitem__ for one of the five inventories with both AccessConfigs flags symbolic."""
    log.encode(*iofs.encoded_functions())
    decide = iofs.Decider(log)

    def run():
        fs = FS()
        with Binder(fs):
            import eko.io.struct as st
            from eko.io.access import AccessConfigs
            from eko.io.paths import InternalPaths
            from eko.io.items import Target

            ro = ZBool(z3.Bool("readonly"))
            op = ZBool(z3.Bool("open"))
            root = MPath(fs.mkdtemp("eko-"))
            InternalPaths(root).bootstrap(theory={}, operator={}, metadata={})
            acc = AccessConfigs(MPath("/work/out.tar"), readonly=ro, open=op)
            invs = st.inventories(root, acc)
            ev, ma = iofs.some_recipes()
            hdr = {"recipes": ev, "parts": ev, "recipes_matching": ma, "parts_matching": ma, "operators": Target(100.0, 5)}[name]
            payload = None if name.startswith("recipes") else iofs.MOperator(ZInt("tn"), False)
            m = fs.mark()
            raised = None
            try:
                invs[name][hdr] = payload
            except Exception as e:  # noqa
                raised = e
            writes = fs.writes_since(m)
            prot = z3.Or(ro.e, z3.Not(op.e))
            kw = {"name": name}
            v = prove_formula(z3.Implies(prot, z3.BoolVal(raised is not None)), "Inventory[%s].__setitem__: readonly or not open => raises" % name)
            decide(v, key="Inventory.__setitem__[%s]:raises" % name, replay=(MOD, "replay_inventory", dict(kw, aspect="raises")))
            v = prove_formula(z3.Implies(prot, z3.BoolVal(not writes)), "Inventory[%s].__setitem__: readonly or not open => write log empty" % name)
            decide(v, key="Inventory.__setitem__[%s]:nowrite" % name, replay=(MOD, "replay_inventory", dict(kw, aspect="nowrite")))
            v = prove_formula(z3.Implies(z3.Not(prot), z3.BoolVal(raised is None and len(writes) > 0)),
                              "Inventory[%s].__setitem__: open and writable => accepted and written" % name)
            decide(v, key="Inventory.__setitem__[%s]:writable" % name, replay=(MOD, "replay_inventory", dict(kw, aspect="writable")))
            # exception kinds documented in access.py
            if raised is not None:
                from eko.io.access import ClosedOperator, ReadOnlyOperator

                want = z3.If(z3.Not(op.e), z3.BoolVal(isinstance(raised, ClosedOperator)), z3.BoolVal(isinstance(raised, ReadOnlyOperator)))
                v = prove_formula(z3.Implies(prot, want), "Inventory[%s].__setitem__: ClosedOperator when not open, else ReadOnlyOperator" % name)
                decide(v, key="Inventory.__setitem__[%s]:kind" % name, replay=(MOD, "replay_inventory", dict(kw, aspect="kind")))
            log.twin("flags")

    _r, pm = explore(run, max_paths=64)
    log.path_stats(pm)


def case_flags(log):
    """AccessConfigs.read / write / assert_open / assert_writeable against their truth tables."""
    import eko.io.access as ac

    log.encode(ac.AccessConfigs.assert_open, ac.AccessConfigs.assert_writeable, ac.AccessConfigs.read.fget, ac.AccessConfigs.write.fget)
    decide = iofs.Decider(log)

    def run():
        ro = ZBool(z3.Bool("readonly"))
        op = ZBool(z3.Bool("open"))
        acc = ac.AccessConfigs(None, readonly=ro, open=op)
        r = acc.read
        rz = r.e if isinstance(r, ZBool) else z3.BoolVal(bool(r))
        v = prove_formula(rz == op.e, "AccessConfigs.read == open")
        decide(v, key="AccessConfigs.read", replay=(MOD, "replay_flags", {"what": "read"}))
        wv = acc.write
        wz = wv.e if isinstance(wv, ZBool) else z3.BoolVal(bool(wv))
        v = prove_formula(wz == z3.And(op.e, z3.Not(ro.e)), "AccessConfigs.write == open and not readonly")
        decide(v, key="AccessConfigs.write", replay=(MOD, "replay_flags", {"what": "write"}))
        for meth, want in (("assert_open", z3.Not(op.e)), ("assert_writeable", z3.Or(z3.Not(op.e), ro.e))):
            raised = None
            try:
                getattr(acc, meth)()
            except Exception as e:  # noqa
                raised = e
            v = prove_formula(z3.BoolVal(raised is not None) == want, "AccessConfigs.%s raises iff %s" % (meth, want))
            decide(v, key="AccessConfigs.%s" % meth, replay=(MOD, "replay_flags", {"what": meth}))
        log.twin("flags")

    _r, pm = explore(run, max_paths=64)
    log.path_stats(pm)


def case_validate(log):
    """Translator validation: the model and the real file system agree on scripted read-only/closed histories."""
    from .C38 import validate_model

    validate_model(log, scenarios=("new",))
    for opn in ("setitem_new", "metadata_update", "xgrid", "close", "dump"):
        for ro in (True, False):
            for closed in (True, False):
                real = _real_attempt([opn], ro, closed, False)
                fs = FS()
                with Binder(fs):
                    from eko.io.struct import EKO

                    w = ModelWorld(fs, REAL_TAGS)
                    session_new(w, PRE)
                    eko = EKO.read(w.path, readonly=ro)
                    if closed:
                        eko.close()
                    before = fs.files.get(str(w.path))
                    before = before.copy() if before is not None else None
                    m = fs.mark()
                    raised = None
                    try:
                        apply_op(eko, OPS[opn], w)
                    except Exception as e:  # noqa
                        raised = e
                    after = fs.files.get(str(w.path))
                    model = {"raised": type(raised).__name__ if raised else None,
                             "archive_changed": not (after is not None and before is not None and z3.is_true(z3.simplify(zeq(after, before)))) if (after is not None or before is not None) else False,
                             "tmp_written": any(not p.endswith(".tar") for _k, p in fs.writes_since(m))}
                # re-dumping identical content gives different tar bytes (mtime) but the same content: compare exists/raised/tmp writes
                r = {"raised": real["raised"], "tmp_written": real["tmp_changed"]}
                mm = {"raised": model["raised"], "tmp_written": model["tmp_written"]}
                if opn == "close":  # rmtree of the temp dir is a write in both worlds
                    r.pop("tmp_written"), mm.pop("tmp_written")
                if r != mm or (real["archive_exists"] != (after is not None)):
                    log.inconclusive.append("translator validation: op %s ro=%s closed=%s: model %r (archive %s) vs real %r" % (opn, ro, closed, model, after, real))
                log.validate()


# ---------------------------------------------------------------------------
# replays: the real, unpatched eko on the real file system
# ---------------------------------------------------------------------------
def _real_attempt(opnames, ro, closed, folder):
    from eko.io.struct import EKO

    with scratch() as d:
        path = d / "out.tar"
        w = RealWorld(path, REAL_TAGS)
        session_new(w, PRE)
        if folder:
            dest = d / "opened"
            dest.mkdir()
            EKO.read(path, dest=dest)
            eko = EKO.read(dest, extract=False, readonly=ro)
            persistent = lambda: sha_tree(dest)  # noqa
        else:
            eko = EKO.read(path, readonly=ro)
            if closed:
                eko.close()
            persistent = lambda: sha_file(path)  # noqa
        tmp = eko.metadata._path
        out = {}
        for name in opnames:
            sha0, tree0 = persistent(), sha_tree(tmp, mtime=True)
            raised = None
            try:
                apply_op(eko, OPS[name], w)
            except Exception as e:  # noqa
                raised = e
            sha1, tree1 = persistent(), sha_tree(tmp, mtime=True)
            out = {"op": name, "raised": type(raised).__name__ if raised is not None else None, "persistent_changed": sha0 != sha1,
                   "tmp_changed": tree0 != tree1, "archive_exists": path.exists()}
        return out


def _bool(point, name, default):
    v = point.get(name)
    if v is None:
        return default
    return str(v) == "True"


def replay_eko(point, opnames, closed, folder, aspect):
    ro = _bool(point, "readonly", True)
    prot = ro or (closed and not folder)
    r = _real_attempt(opnames, ro, closed, folder)
    where = "EKO opened %s%s%s" % ("read-only" if ro else "for editing", " from an extracted folder" if folder else "", ", then closed" if closed else "")
    if aspect == "raises" and prot and r["raised"] is None:
        return {"detail": "%s: %s raised nothing (temporary folder rewritten: %s, persistent object changed: %s)" % (where, opnames, r["tmp_changed"], r["persistent_changed"])}
    if aspect == "nowrite" and prot and (r["tmp_changed"] or r["persistent_changed"]):
        return {"detail": "%s: %s wrote to disk (temporary folder changed: %s, persistent object changed byte-wise: %s, raised %s)" % (where, opnames, r["tmp_changed"], r["persistent_changed"], r["raised"])}
    if aspect == "archive" and prot and r["persistent_changed"]:
        return {"detail": "%s: after %s the persistent object differs byte-for-byte from before (archive still exists: %s, raised %s)" % (where, opnames, r["archive_exists"], r["raised"])}
    if aspect == "writable" and not prot and (r["raised"] is not None or not (r["tmp_changed"] or r["persistent_changed"])):
        return {"detail": "%s: %s was refused or wrote nothing (raised %s)" % (where, opnames, r["raised"])}
    return None


def replay_inventory(point, name, aspect):
    import numpy as np
    from eko.io import access, struct
    from eko.io.items import Target, Operator
    from eko.io.paths import InternalPaths

    ro = _bool(point, "readonly", True)
    op = _bool(point, "open", True)
    prot = ro or not op
    with scratch() as d:
        root = d / "eko-x"
        root.mkdir()
        InternalPaths(root).bootstrap(theory={}, operator={}, metadata={})
        acc = access.AccessConfigs(d / "out.tar", readonly=ro, open=op)
        invs = struct.inventories(root, acc)
        ev, ma = iofs.some_recipes()
        hdr = {"recipes": ev, "parts": ev, "recipes_matching": ma, "parts_matching": ma, "operators": Target(100.0, 5)}[name]
        payload = None if name.startswith("recipes") else Operator(np.ones((2, 2, 2, 2)))
        t0 = sha_tree(root)
        raised = None
        try:
            invs[name][hdr] = payload
        except Exception as e:  # noqa
            raised = e
        changed = sha_tree(root) != t0
    if aspect == "raises" and prot and raised is None:
        return {"detail": "Inventory[%s][h] = x with readonly=%s open=%s raised nothing" % (name, ro, op)}
    if aspect == "nowrite" and prot and changed:
        return {"detail": "Inventory[%s][h] = x with readonly=%s open=%s wrote to disk" % (name, ro, op)}
    if aspect == "writable" and not prot and (raised is not None or not changed):
        return {"detail": "Inventory[%s][h] = x on an open writable inventory: raised %r, written %s" % (name, raised, changed)}
    if aspect == "kind" and prot and raised is not None:
        want = access.ClosedOperator if not op else access.ReadOnlyOperator
        if not isinstance(raised, want):
            return {"detail": "Inventory[%s][h] = x with readonly=%s open=%s raised %s, documented: %s" % (name, ro, op, type(raised).__name__, want.__name__)}
    return None


def replay_flags(point, what):
    from eko.io import access

    ro = _bool(point, "readonly", True)
    op = _bool(point, "open", True)
    acc = access.AccessConfigs(None, readonly=ro, open=op)
    if what == "read" and bool(acc.read) != op:
        return {"detail": "AccessConfigs(readonly=%s, open=%s).read = %r" % (ro, op, acc.read)}
    if what == "write" and bool(acc.write) != (op and not ro):
        return {"detail": "AccessConfigs(readonly=%s, open=%s).write = %r" % (ro, op, acc.write)}
    if what in ("assert_open", "assert_writeable"):
        try:
            getattr(acc, what)()
            raised = False
        except Exception:  # noqa
            raised = True
        want = (not op) if what == "assert_open" else (not op or ro)
        if raised != want:
            return {"detail": "AccessConfigs(readonly=%s, open=%s).%s() raised=%s, expected %s" % (ro, op, what, raised, want)}
    return None


# ---------------------------------------------------------------------------
def main():
    chk = H.Check("C39")
    chk.bounds = [
        "flags: readonly (z3 Bool passed to the real EKO.read) x closed (z3 Bool; closed = after the real EKO.close()); Inventory level: readonly x open both z3 Bools",
        "histories of one operation and of every ordered pair of operations (followed by __exit__ for archives) out of 15: EKO.__setitem__ new/existing key, "
        "load_recipes evolution/matching, update, xgrid setter, Metadata.update, dump, Inventory.__setitem__ for the five inventories, close, __exit__; "
        "every step of a history is an attempt with its own obligations (so a setter that replaces a member is followed by every store attempt); "
        "thorough: every ordered pair followed by a third operation out of {Metadata.update, __setitem__, update, dump, __exit__}",
        "EKO opened from a tar archive, and (read-only flag only) from an extracted folder (EKO.read(extract=False))",
        "archive content = member names + opaque payload tags (z3 Ints) + YAML texts; one stored operator before the attempt",
    ]
    chk.out_of_claim = [
        "byte-level tar/npy/lz4 encoding (payloads are opaque tags; a re-dump of identical content counts as unchanged in the model, replays compare sha256 of the real bytes)",
        "EKO.dump(explicit other path), documented as allowed in read-only mode",
        "reads from a closed EKO; in-memory attribute changes that never reach the disk (e.g. metadata.xgrid assigned before EKO.update raises)",
        "EKO.deepcopy, concurrent writers",
    ]
    chk.stubs = [
        "pathlib.Path / open / tarfile / shutil / tempfile rebound to the in-memory model (harness/iofs.py) in the globals of eko.io.struct, inventory, metadata, paths, raw",
        "yaml: concrete documents go through the real PyYAML; documents with symbolic leaves are kept structurally",
        "eko.io.items.Operator.save/load (npy + lz4, C boundary) replaced by writing/reading an opaque tag",
    ]
    chk.assumptions = ["a crash-free run (no fault injection in C39)", "single process, no other writer to the archive or temporary folder"]
    tier = H.tier()
    iofs.preload()
    chk.case("access.flags", case_flags)
    for n in ("recipes", "recipes_matching", "parts", "parts_matching", "operators"):
        chk.case("inventory.%s" % n, case_inventory, name=n)
    for n in OPS:
        chk.case("eko.%s" % n, case_eko, opnames=[n])
    for n in OPS:
        if n not in NOT_STORES:
            chk.case("folder.%s" % n, case_eko, opnames=[n], folder=True)
    chk.case("validate", case_validate)
    for a in OPS:
        chk.case("eko.%s+any+exit" % a, case_eko_pairs, first=a)
        if a not in NOT_STORES:
            chk.case("folder.%s+any" % a, case_eko_pairs, first=a, folder=True)
    if tier == "thorough":
        for a in OPS:
            chk.case("eko.%s+any+probe" % a, case_eko_pairs, first=a, third=True)
            if a not in NOT_STORES:
                chk.case("folder.%s+any+probe" % a, case_eko_pairs, first=a, folder=True, third=True)
    return chk.run()


if __name__ == "__main__":
    import sys

    sys.exit(main())
