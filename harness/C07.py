"""C07  Exact non-singlet evolution kernels solve the DGLAP equation.

Real functions executed symbolically: eko.kernels.non_singlet.{lo,nlo,nnlo,n3lo}_exact and dispatcher (exact
branch), eko.kernels.evolution_integrals.*, as4_evolution_integrals.*, non_singlet_qed.{fixed_alphaem_exact,
contract_gammas, apply_qed, exact}.

Goal (AD in a1):  dE/da1 == [sum_k gamma_k a1^(k+1)] / [sum_k beta_k a1^(k+2)] * E  and  E(a0,a0) == 1.
QED (fixed alpha_em): same with beta0 -> beta0 + aem*beta^(2,1) and gamma_k -> sum_j gamma_kj aem^j, and
dE/d ln(mu2_to) == - sum_j gamma_0j aem^j * E.
"""
from fractions import Fraction

from .common import *  # noqa
from symx.solver import explore, prove_zero, prove_equal
from symx import harness as H

MOD = "harness.C07"
EXACT = {1: "lo_exact", 2: "nlo_exact", 3: "nnlo_exact", 4: "n3lo_exact"}


def _mods():
    ns = sym_module("eko.kernels.non_singlet")
    ei = sym_module("eko.kernels.evolution_integrals")
    as4 = sym_module("eko.kernels.as4_evolution_integrals")
    return ns, ei, as4


class _As4Proxy:
    """as4_evolution_integrals with roots() replaced by given symbolic roots; the stub checks that it is
    called with the b-coefficients those roots belong to (Vieta), so it cannot mask a wrong argument."""

    def __init__(self, real, roots, b_list, log):
        self._real = real
        self._roots = roots
        self._b = b_list
        self._log = log

    def __getattr__(self, n):
        return getattr(self._real, n)

    def roots(self, b_list):
        for got, want in zip(b_list, self._b):
            if not (got - want).is_zero() and not (SR(0) + got - want).v.canon().n.is_zero():
                raise EngineError("roots() stub called with b-coefficients other than those of the symbolic roots")
        return list(self._roots)


def _ode_rhs(gam, bet, a1):
    num = sum(g * a1 ** (k + 1) for k, g in enumerate(gam))
    den = sum(b * a1 ** (k + 2) for k, b in enumerate(bet))
    return num / den


def _sym_beta(order, shape=None):
    """symbolic beta list; for order 4 the b's are tied to symbolic roots."""
    beta0 = SR.var("beta0")
    assume(beta0, ">0")
    if order < 4:
        bs = [SR.var("b%d" % i) for i in range(1, order)]
        return [beta0] + [b * beta0 for b in bs], bs, None
    if shape == "complex":
        r1, u, v = SR.var("r1"), SR.var("u"), SR.var("v")
        assume(v, ">0")
        assume(r1, "<0")
        roots = [Cx.lift(r1), Cx(u, v), Cx(u, -v)]
        m2 = u * u + v * v
        c0 = -r1 * m2
        b3 = 1 / c0
        b2 = (-(r1 + 2 * u)) * b3
        b1 = (m2 + 2 * u * r1) * b3
    else:
        r1, r2, r3 = SR.var("r1"), SR.var("r2"), SR.var("r3")
        assume(r1, "<0")
        assume(r2, "<0")
        roots = [r1, r2, r3]
        c0 = -(r1 * r2 * r3)
        b3 = 1 / c0
        b2 = (-(r1 + r2 + r3)) * b3
        b1 = (r1 * r2 + r1 * r3 + r2 * r3) * b3
    bs = [b1, b2, b3]
    return [beta0] + [b * beta0 for b in bs], bs, roots


def case_qcd_symbolic(log, order, shape=None):
    ns, ei, as4 = _mods()
    f = getattr(ns, EXACT[order])
    log.encode(f, ns.lo_exact)

    def run():
        a0 = SR.var("a0")
        a1 = SR.var("a1", seed=True)
        assume(a0, ">0")
        assume(a1, ">0")
        bet, bs, roots = _sym_beta(order, shape)
        if roots is not None:
            ns.as4_ei = _As4Proxy(as4, roots, bs, log)
            if shape == "real":
                assume(roots[2] - a0, ">0")
                assume(roots[2] - a1, ">0")
        for a in (a0, a1):
            assume(1 + sum(b * a ** (i + 1) for i, b in enumerate(bs)), ">0")
        gam = [SR.var("g%d" % k) for k in range(order)]
        try:
            E = f(gam, a1, a0, bet)
            E1 = f(gam, a0, a0, bet)
        finally:
            ns.as4_ei = as4
        E = Cx.lift(E)
        rhs = _ode_rhs(gam, bet, a1)
        v = prove_equal(E.re.tangent(), E.re.novar() * rhs, "dE/da1 == gamma(a1)/beta(a1) * E   (%s)" % EXACT[order])
        log.decide(v, key="%s:ode" % EXACT[order], replay=(MOD, "replay_qcd", {"order": order, "shape": shape}), sampler=_sampler)
        v = prove_zero(E.im, "Im E == 0 for real gamma (%s)" % EXACT[order])
        log.decide(v, key="%s:imag" % EXACT[order], replay=(MOD, "replay_qcd", {"order": order, "shape": shape}), sampler=_sampler)
        v = prove_zero(Cx.lift(E1) - 1, "E(a0,a0) == 1 (%s)" % EXACT[order])
        log.decide(v, key="%s:unit" % EXACT[order], replay=(MOD, "replay_qcd", {"order": order, "shape": shape, "unit": True}), sampler=_sampler)
        log.twin("domain")
        log.collect_ctx()

    _r, pm = explore(run)
    log.path_stats(pm)


def case_dispatcher(log, order, nf):
    """the real dispatcher with concrete nf: selects the exact kernel for the three *_EXACT methods and
    the kernel solves the ODE with the beta coefficients of that nf (from eko.beta)."""
    ns, ei, as4 = _mods()
    as4.np.exact_const_sqrt = True
    from eko.kernels import EvoMethods
    from eko import beta as B

    log.encode(ns.dispatcher, getattr(ns, EXACT[order]))

    def run():
        a0 = SR.var("a0")
        a1 = SR.var("a1", seed=True)
        assume(a0, ">0")
        assume(a1, ">0")
        assume(Fraction(1, 10) - a0, ">0")
        assume(Fraction(1, 10) - a1, ">0")
        gam = [SR.var("g%d" % k) for k in range(order)]
        nfs = SR(nf)  # exact constant: beta coefficients and their ratios are then exact rationals
        bet = [SR(0) + B.beta_qcd((2 + i, 0), nfs) for i in range(order)]
        rhs = _ode_rhs(gam, bet, a1)
        for method in (EvoMethods.ITERATE_EXACT, EvoMethods.DECOMPOSE_EXACT, EvoMethods.PERTURBATIVE_EXACT):
            E = Cx.lift(ns.dispatcher((order, 0), method, gam, a1, a0, nfs))
            v = prove_zero(E.re.tangent() - E.re.novar() * rhs, "dispatcher(%s, order %d, nf %d) solves the ODE" % (method.name, order, nf), timeout_ms=60000)
            log.decide(v, key="dispatcher:%s:%d" % (method.name, order), replay=(MOD, "replay_dispatcher", {"order": order, "nf": nf, "method": method.name}), sampler=_sampler)
            E1 = Cx.lift(ns.dispatcher((order, 0), method, gam, a0, a0, nfs))
            v = prove_zero(E1 - 1, "dispatcher(%s, order %d, nf %d)(a0,a0) == 1" % (method.name, order, nf))
            log.decide(v, key="dispatcher:%s:%d:unit" % (method.name, order), replay=(MOD, "replay_dispatcher", {"order": order, "nf": nf, "method": method.name, "unit": True}), sampler=_sampler)
        log.twin("domain")
        log.collect_ctx()

    _r, pm = explore(run)
    log.path_stats(pm)


def case_qed(log, order, nf, seed_var):
    """fixed_alphaem_exact: AD in a1 (QCD direction) or in mu2_to (pure-QED factor)."""
    ns, ei, as4 = _mods()
    as4.np.exact_const_sqrt = True
    nsq = sym_module("eko.kernels.non_singlet_qed")
    from eko import beta as B

    log.encode(nsq.fixed_alphaem_exact, nsq.contract_gammas, nsq.apply_qed, nsq.exact)
    oq, oe = order

    def run():
        a0 = SR.var("a0")
        a1 = SR.var("a1", seed=(seed_var == "a1"))
        aem = SR.var("aem")
        m0 = SR.var("mu2_from")
        m1 = SR.var("mu2_to", seed=(seed_var == "mu2_to"))
        for x in (a0, a1, m0, m1):
            assume(x, ">0")
        assume(aem, ">=0")
        assume(Fraction(1, 10) - a0, ">0")
        assume(Fraction(1, 10) - a1, ">0")
        assume(Fraction(1, 50) - aem, ">0")
        import numpy as realnp

        g = realnp.empty((oq + 1, oe + 1), dtype=object)
        for i in range(oq + 1):
            for j in range(oe + 1):
                g[i, j] = SR.var("g%d%d" % (i, j)) if (i, j) != (0, 0) else SR(0)
        nfs = SR(nf)
        E = Cx.lift(nsq.fixed_alphaem_exact(order, g, a1, a0, aem, nfs, m0, m1))
        gt = [sum(g[k, j] * aem**j for j in range(oe + 1)) for k in range(oq + 1)]
        bet = [SR(0) + B.beta_qcd((2 + i, 0), nfs) for i in range(oq)]
        bet[0] = bet[0] + aem * B.beta_qcd((2, 1), nfs)
        if seed_var == "a1":
            rhs = _ode_rhs(gt[1:], bet, a1)
            what = "d/da1 fixed_alphaem_exact == gamma(a1,aem)/beta_shifted(a1) * E"
        else:
            rhs = -gt[0] / m1
            what = "d/dmu2_to fixed_alphaem_exact == -gamma_QED(aem)/mu2_to * E"
        v = prove_zero(E.re.tangent() - E.re.novar() * rhs, "%s (order %r nf %d)" % (what, order, nf), timeout_ms=60000)
        log.decide(v, key="fixed_alphaem_exact:%s" % seed_var, replay=(MOD, "replay_qed", {"order": list(order), "nf": nf}), sampler=_sampler)
        if seed_var == "a1":
            E1 = Cx.lift(nsq.fixed_alphaem_exact(order, g, a0, a0, aem, nfs, m0, m0))
            v = prove_zero(E1 - 1, "fixed_alphaem_exact at equal couplings and scales == 1 (order %r nf %d)" % (order, nf))
            log.decide(v, key="fixed_alphaem_exact:unit", replay=(MOD, "replay_qed", {"order": list(order), "nf": nf, "unit": True}), sampler=_sampler)
            # exact() with 1 and 2 steps is the product of the step kernels on the geometric mu2 steps
            for nstep in (1, 2):
                as_list = [a0] + [SR.var("as%d" % i) for i in range(1, nstep)] + [a1.novar()]
                aems = [SR.var("aemh%d" % i) for i in range(nstep)]
                got = Cx.lift(nsq.exact(order, g, as_list, aems, nfs, nstep, m0, m1.novar()))
                # oracle: product over steps with mu2 steps geometric
                steps = nsq.np.geomspace(m0, m1.novar(), 1 + nstep)
                want = Cx.lift(1)
                for s in range(1, nstep + 1):
                    want = want * Cx.lift(nsq.fixed_alphaem_exact(order, g, as_list[s], as_list[s - 1], aems[s - 1], nfs, steps[s - 1], steps[s]))
                v = prove_zero(got - want, "exact() with %d steps == ordered product of fixed-alpha_em kernels" % nstep)
                log.decide(v, key="nsqed.exact:%dsteps" % nstep, replay=(MOD, "replay_exact_steps", {"order": list(order), "nf": nf, "nstep": nstep}), sampler=_sampler)
                # the dispatcher (what quad_ker_qed calls), running and fixed alpha_em, every method name
                from eko.kernels import EvoMethods

                for running in (True, False):
                    for mth in (EvoMethods.ITERATE_EXACT, EvoMethods.TRUNCATED):
                        gd = Cx.lift(nsq.dispatcher(order, mth, g, as_list, aems, running, nfs, nstep, m0, m1.novar()))
                        v = prove_zero(gd - want, "QED non-singlet dispatcher (%s, alphaem_running=%s) with %d steps == ordered product of the step kernels" % (mth.name, running, nstep))
                        log.decide(v, key="nsqed.dispatcher:%dsteps" % nstep, replay=(MOD, "replay_exact_steps", {"order": list(order), "nf": nf, "nstep": nstep, "dispatcher": True, "running": running}), sampler=_sampler)
        log.twin("domain")
        log.collect_ctx()

    _r, pm = explore(run)
    log.path_stats(pm)


# ---------------------------------------------------------------------------
def _sampler(rng):
    return _near(_sampler0(rng))


_NEAR = [0]


def _near(p):
    """every third sample has nearly coincident couplings (a1 = a0 (1 + delta), delta = 1e-3 / 1e-5): special-casing of small steps"""
    _NEAR[0] += 1
    if _NEAR[0] % 3 == 0 and "a0" in p and "a1" in p:
        p["a1"] = p["a0"] * (1 + (Fraction(1, 1000) if _NEAR[0] % 2 else Fraction(1, 100000)))
    return p


def _sampler0(rng):
    p = {"a0": rnd(rng, 0.002, 0.05), "a1": rnd(rng, 0.002, 0.05), "beta0": rnd(rng, 5, 10), "b1": rnd(rng, 0.2, 6), "b2": rnd(rng, -5, 30),
         "r1": -rnd(rng, 0.2, 3), "u": rnd(rng, -2, 2), "v": rnd(rng, 0.3, 3), "r2": -rnd(rng, 3.1, 5), "r3": rnd(rng, 0.5, 4),
         "aem": rnd(rng, 0.0005, 0.01, 10000), "mu2_from": rnd(rng, 2, 50), "mu2_to": rnd(rng, 2, 5000)}
    for k in range(4):
        p["g%d" % k] = rnd(rng, -3, 3) * 10**k
    for i in range(5):
        for j in range(3):
            p["g%d%d" % (i, j)] = rnd(rng, -3, 3) * 4**i
    return p


def _cgam(point, names):
    """complex anomalous dimensions derived from the real point (the property quantifies over complex gamma;
    the symbolic identity is polynomial in gamma, hence valid for complex values)."""
    out = []
    for n in names:
        re = float(point.get(n, 1.0))
        out.append(complex(re, 0.37 * re + (0.11 if re else 0.0)))  # an exactly vanishing coefficient stays exactly zero
    return out


def _exp_int(gam, bet, a0, a1):
    import mpmath as mp

    mp.mp.dps = 30
    f = lambda a: sum(mp.mpc(g) * a ** (k + 1) for k, g in enumerate(gam)) / sum(b * a ** (k + 2) for k, b in enumerate(bet))
    return mp.exp(mp.quad(f, [a0, a1]))


def _differs(x, y, rtol=1e-8):
    x, y = complex(x), complex(y)
    if x != x or abs(x) == float("inf"):
        return True  # a non-finite kernel differs from every solution
    return abs(x - y) > rtol * max(abs(x), abs(y), 1e-30)


def _betas_from_point(f, order, shape):
    import numpy as np

    b0 = f["beta0"]
    if order < 4:
        return [b0] + [f["b%d" % i] * b0 for i in range(1, order)]
    roots = [f["r1"], complex(f["u"], f["v"]), complex(f["u"], -f["v"])] if shape == "complex" else [f["r1"], f["r2"], f["r3"]]
    poly = np.poly(roots)
    c0 = poly[3]
    return [b0, (poly[2] / c0).real * b0, (poly[1] / c0).real * b0, (1 / c0).real * b0]


def replay_qcd(point, order, shape=None, unit=False):
    import eko.kernels.non_singlet as ns

    need = ["a0", "a1", "beta0"] + (["b%d" % i for i in range(1, order)] if order < 4 else (["r1", "u", "v"] if shape == "complex" else ["r1", "r2", "r3"]))
    if not all(k in point for k in need):
        return None
    f = fpoint(point)
    if not (0 < f["a0"] < 0.5 and 0 < f["a1"] < 0.5 and f["beta0"] > 0):
        return None
    bet = _betas_from_point(f, order, shape)
    lo, hi = min(f["a0"], f["a1"]), max(f["a0"], f["a1"])
    P = lambda a: sum(b * a**k for k, b in enumerate(bet)) / bet[0]
    if any(P(lo + (hi - lo) * t / 20) < 0.05 for t in range(21)):
        return None
    gam = _cgam(point, ["g%d" % k for k in range(order)])
    fn = getattr(ns, EXACT[order])
    if unit:
        got = fn(gam, f["a0"], f["a0"], bet)
        return {"detail": "%s(a0,a0) = %r != 1" % (EXACT[order], got)} if _differs(got, 1) else None
    got = fn(gam, f["a1"], f["a0"], bet)
    want = _exp_int(gam, bet, f["a0"], f["a1"])
    if _differs(got, want):
        return {"detail": "%s = %r but exp(int gamma/beta) = %s; gamma=%r beta=%r a0=%r a1=%r" % (EXACT[order], got, want, gam, bet, f["a0"], f["a1"])}
    return None


def replay_dispatcher(point, order, nf, method, unit=False):
    import eko.kernels.non_singlet as ns
    from eko.kernels import EvoMethods
    from eko import beta as B

    if not all(k in point for k in ("a0", "a1")):
        return None
    f = fpoint(point)
    if not (0 < f["a0"] < 0.1 and 0 < f["a1"] < 0.1):
        return None
    gam = _cgam(point, ["g%d" % k for k in range(order)])
    bet = [B.beta_qcd((2 + i, 0), nf) for i in range(order)]
    m = EvoMethods[method]
    if unit:
        got = ns.dispatcher((order, 0), m, gam, f["a0"], f["a0"], nf)
        return {"detail": "dispatcher(a0,a0) = %r != 1" % (got,)} if _differs(got, 1) else None
    got = ns.dispatcher((order, 0), m, gam, f["a1"], f["a0"], nf)
    want = _exp_int(gam, bet, f["a0"], f["a1"])
    if _differs(got, want):
        return {"detail": "dispatcher(%s, order %d, nf %d) = %r but exp(int gamma/beta) = %s (a0=%r a1=%r gamma=%r)" % (method, order, nf, got, want, f["a0"], f["a1"], gam)}
    return None


def replay_qed(point, order, nf, unit=False):
    import numpy as np
    import mpmath as mp
    import eko.kernels.non_singlet_qed as nsq
    from eko import beta as B

    if not all(k in point for k in ("a0", "a1", "aem", "mu2_from", "mu2_to")):
        return None
    f = fpoint(point)
    if not (0 < f["a0"] < 0.1 and 0 < f["a1"] < 0.1 and 0 <= f["aem"] < 0.02 and f["mu2_from"] > 0 and f["mu2_to"] > 0):
        return None
    oq, oe = order
    g = np.zeros((oq + 1, oe + 1), dtype=complex)
    for i in range(oq + 1):
        for j in range(oe + 1):
            if (i, j) != (0, 0):
                re = float(point.get("g%d%d" % (i, j), 1.0))
                g[i, j] = complex(re, 0.37 * re + 0.11)
    aem = f["aem"]
    if unit:
        got = nsq.fixed_alphaem_exact(tuple(order), g, f["a0"], f["a0"], aem, nf, f["mu2_from"], f["mu2_from"])
        return {"detail": "fixed_alphaem_exact at equal points = %r != 1" % (got,)} if _differs(got, 1) else None
    got = nsq.fixed_alphaem_exact(tuple(order), g, f["a1"], f["a0"], aem, nf, f["mu2_from"], f["mu2_to"])
    gt = [sum(g[k, j] * aem**j for j in range(oe + 1)) for k in range(oq + 1)]
    bet = [B.beta_qcd((2 + i, 0), nf) for i in range(oq)]
    bet[0] += aem * B.beta_qcd((2, 1), nf)
    want = _exp_int(gt[1:], bet, f["a0"], f["a1"]) * mp.exp(mp.mpc(gt[0]) * mp.log(f["mu2_from"] / f["mu2_to"]))
    if _differs(got, want):
        return {"detail": "fixed_alphaem_exact(order=%r, nf=%d) = %r but reference = %s at %r" % (order, nf, got, want, f)}
    return None


def replay_exact_steps(point, order, nf, nstep, dispatcher=False, running=True):
    """real non_singlet_qed.exact over `nstep` geometric mu^2 steps vs the product of per-step references (quadrature of
    gamma/beta_shifted times the pure-QED factor over that step only)"""
    import numpy as np
    import mpmath as mp
    import eko.kernels.non_singlet_qed as nsq
    from eko import beta as B

    f = fpoint({k: v for k, v in point.items() if k in ("a0", "a1", "aem", "mu2_from", "mu2_to")})
    a0, a1 = f.get("a0", 0.03), f.get("a1", 0.02)
    m0, m1 = f.get("mu2_from", 5.0), f.get("mu2_to", 200.0)
    if not (0 < a0 < 0.1 and 0 < a1 < 0.1 and m0 > 0 and m1 > 0 and abs(m0 - m1) > 1e-3):
        return None
    oq, oe = order
    rng = np.random.default_rng(43)
    g = rng.normal(size=(oq + 1, oe + 1)) + 0.3j
    g[0, 0] = 0
    as_list = np.linspace(a0, a1, nstep + 1)
    aems = np.array([0.0007 + 1e-4 * k for k in range(nstep)])
    if dispatcher:
        from eko.kernels import EvoMethods

        got = complex(nsq.dispatcher(tuple(order), EvoMethods.ITERATE_EXACT, g, as_list, aems, running, nf, nstep, m0, m1))
    else:
        got = complex(nsq.exact(tuple(order), g, as_list, aems, nf, nstep, m0, m1))
    steps = np.geomspace(m0, m1, nstep + 1)
    want = mp.mpc(1)
    for s in range(1, nstep + 1):
        aem = aems[s - 1]
        gt = [sum(g[k, j] * aem**j for j in range(oe + 1)) for k in range(oq + 1)]
        bet = [B.beta_qcd((2 + i, 0), nf) for i in range(oq)]
        bet[0] += aem * B.beta_qcd((2, 1), nf)
        want *= _exp_int(gt[1:], bet, as_list[s - 1], as_list[s]) * mp.exp(mp.mpc(gt[0]) * mp.log(steps[s - 1] / steps[s]))
    if _differs(got, want):
        return {"detail": "non_singlet_qed.exact (order %r, nf %d, %d steps, mu2 %r -> %r) = %r but the product of per-step references = %s" % (order, nf, nstep, m0, m1, got, want)}
    return None


def main():
    chk = H.Check("C07")
    chk.bounds = ["orders 1-4; beta_k symbolic (all nf at once) and the concrete eko.beta values for nf=3..6 through the real dispatcher",
                  "gamma_k real symbols (the obligations are polynomial identities in gamma, hence hold for complex gamma)",
                  "N3LO with symbolic beta: roots() stubbed by symbolic roots (one real + conjugate pair; three real) tied to b_k by Vieta; "
                  "roots() itself is decided in C13; with concrete nf the real roots() runs",
                  "QED: fixed alpha_em kernel for orders (1..4, 1..2), nf=3..6, alpha_em symbolic in [0,0.02]; exact() for 1 and 2 steps"]
    chk.out_of_claim = ["float evaluation; accuracy of the running-alpha_em product (C12/C14)"]
    chk.stubs = ["as4_evolution_integrals.roots -> symbolic roots with Vieta relations (argument checked)"]
    thorough = H.tier() == "thorough"
    for o in (1, 2, 3):
        chk.case("qcd.sym.o%d" % o, case_qcd_symbolic, order=o)
    chk.case("qcd.sym.o4.complex", case_qcd_symbolic, order=4, shape="complex")
    chk.case("qcd.sym.o4.real", case_qcd_symbolic, order=4, shape="real")
    for nf in ((3, 4, 5, 6) if thorough else (4,)):
        for o in (1, 2, 3, 4):
            chk.case("dispatcher.o%d.nf%d" % (o, nf), case_dispatcher, order=o, nf=nf)
    qed_orders = [(1, 1), (2, 2), (3, 1)] if not thorough else [(q, e) for q in (1, 2, 3, 4) for e in (1, 2)]
    for nf in ((3, 4, 5, 6) if thorough else (5,)):
        for od in qed_orders:
            for sv in ("a1", "mu2_to"):
                chk.case("qed.o%d%d.nf%d.%s" % (od[0], od[1], nf, sv), case_qed, order=od, nf=nf, seed_var=sv)
    if not thorough:
        chk.case("qed.o41.nf5.a1", case_qed, order=(4, 1), nf=5, seed_var="a1")
    return chk.run()


if __name__ == "__main__":
    import sys

    sys.exit(main())
