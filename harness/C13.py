"""C13  Evolution integrals equal their definitions and expansions.

Real functions executed symbolically: eko.kernels.evolution_integrals.* and
eko.kernels.as4_evolution_integrals.* (module global `np`/`complex` rebound to the shim).

Goals (forward-mode AD in a1):
  exact:     d J/d a1 == a1^m / (beta0 * P(a1)),   J(a0,a0) == 0
  expanded:  d J/d a1 == Taylor_{<= order-1}[ a1^m / (beta0 * P(a1)) ],  J(a0,a0) == 0
  roots():   P(r_i) == 0 for the three returned roots
"""
from fractions import Fraction

from .common import *  # noqa
from symx.solver import explore, prove_zero, prove_equal
from symx import harness as H

MOD = "harness.C13"

# name -> (module, m, order)  with  dJ/da1 = a1^m / (beta0 P_order(a1)), P_order = 1 + b1 a + .. + b_order a^order
TABLE = {
    "j12": ("ei", -1, 0),
    "j23_exact": ("ei", 0, 1),
    "j13_exact": ("ei", -1, 1),
    "j34_exact": ("ei", 1, 2),
    "j24_exact": ("ei", 0, 2),
    "j14_exact": ("ei", -1, 2),
    "j23_expanded": ("ei", 0, 1),
    "j13_expanded": ("ei", -1, 1),
    "j34_expanded": ("ei", 1, 2),
    "j24_expanded": ("ei", 0, 2),
    "j14_expanded": ("ei", -1, 2),
}
AS4 = {"j33": 2, "j23": 1, "j13": 0, "j03": -1}


def _call_ei(ei, name, a1, a0, beta0, bs):
    """call with the argument list each function has in the real module"""
    b_vec = [1] + list(bs)
    if name == "j12":
        return ei.j12(a1, a0, beta0)
    if name in ("j23_expanded", "j34_expanded"):
        return getattr(ei, name)(a1, a0, beta0)
    return getattr(ei, name)(a1, a0, beta0, b_vec)


def _P(a, bs):
    p = 1
    for i, b in enumerate(bs):
        p = p + b * a ** (i + 1)
    return p


def _taylor_integrand(a1, beta0, bs, m, order):
    """Taylor truncation of a^m/(beta0 P(a)): terms a^m * c_k a^k with k <= order-1-m ... i.e. all
    powers of a up to and including a^(order-1)."""
    inv = series_inverse_poly(list(bs), order + 2)
    tot = SR(QZERO)
    for k, c in enumerate(inv):
        if m + k <= order - 1:
            tot = tot + c * a1 ** (m + k)
    return tot / beta0


# ---------------------------------------------------------------------------
def case_ei(log, names, concrete_nf=None):
    ei = sym_module("eko.kernels.evolution_integrals")
    log.encode(*[getattr(ei, n) for n in names])
    for nm in names:  # numeric fall-back if the symbolic run cannot complete (e.g. a real sqrt of a negative constant)
        log.register_replay("%s:derivative" % nm, (MOD, "replay", {"name": nm, "nf": concrete_nf}), _sampler)

    def run():
        a0 = SR.var("a0")
        a1 = SR.var("a1", seed=True)
        if concrete_nf is None:
            beta0 = SR.var("beta0")
            b = [SR.var("b1"), SR.var("b2")]
            assume(beta0, ">0")
        else:
            from eko import beta as B

            beta0 = SR(Q(Poly.const(B.beta_qcd((2, 0), concrete_nf))))
            b = [SR(Q(Poly.const(B.b_qcd((k, 0), concrete_nf)))) for k in (3, 4)]
        assume(a0, ">0")
        assume(a1, ">0")
        out = []
        for name in names:
            _mod, m, order = TABLE[name]
            bs = b[:order]
            assume(_P(a1, bs), ">0")
            assume(_P(a0, bs), ">0")
            J = _call_ei(ei, name, a1, a0, beta0, b)
            J = J.real if isinstance(J, Cx) else J
            if name.endswith("expanded"):
                rhs = _taylor_integrand(a1, beta0, bs, m, order)
            else:
                rhs = a1**m / (beta0 * _P(a1, bs))
            v = prove_equal(J.tangent(), rhs, "d %s/d a1 == integrand" % name)
            log.decide(v, key="%s:derivative" % name, replay=(MOD, "replay", {"name": name, "nf": concrete_nf}), sampler=_sampler)
            # zero at coinciding limits
            J0 = _call_ei(ei, name, a0, a0, beta0, b)
            J0 = J0.real if isinstance(J0, Cx) else J0
            v = prove_zero(J0, "%s(a0,a0) == 0" % name)
            log.decide(v, key="%s:zero" % name, replay=(MOD, "replay", {"name": name, "nf": concrete_nf, "zero": True}), sampler=_sampler)
        log.twin("domain")
        log.collect_ctx()
        return out

    _res, pm = explore(run)
    log.path_stats(pm)
    _validate_ei(log, ei, names)


def _sampler(rng):
    return _near(_sampler0(rng))


_NEAR = [0]


def _near(p):
    """every third sample has nearly coincident couplings (a1 = a0 (1 + delta), delta = 1e-3 / 1e-5): special-casing of small steps"""
    _NEAR[0] += 1
    if _NEAR[0] % 3 == 0 and "a0" in p and "a1" in p:
        p["a1"] = p["a0"] * (1 + (Fraction(1, 1000) if _NEAR[0] % 2 else Fraction(1, 100000)))
    return p


def _sampler0(rng):
    return {"a0": rnd(rng, 0.002, 0.1), "a1": rnd(rng, 0.002, 0.1), "beta0": rnd(rng, 5, 10), "b1": rnd(rng, 0.2, 6),
            "b2": rnd(rng, -5, 30), "b3": rnd(rng, -20, 200), "r1": -rnd(rng, 0.2, 3), "u": rnd(rng, -2, 2), "v": rnd(rng, 0.3, 3),
            "r2": -rnd(rng, 3.1, 5), "r3": rnd(rng, 0.5, 4)}


def _sampler_straddle(rng):
    """complex-pair roots with a0 and a1 on opposite sides of Re(root)"""
    u = rnd(rng, 0.01, 0.08)
    return {"a0": u * rnd(rng, 1.2, 2.5), "a1": u * rnd(rng, 0.3, 0.8), "beta0": rnd(rng, 6, 10), "r1": -rnd(rng, 0.05, 0.4), "u": u, "v": rnd(rng, 0.05, 0.3)}


def _validate_ei(log, ei, names):
    """translator validation: symbolic result evaluated at concrete points == the function on floats."""
    import mpmath as mp

    rng = log.rng
    for name in names:
        for _ in range(3):
            pt = _sampler(rng)
            ctx.reset()
            a0, a1, beta0, b1, b2 = (SR.var(n) for n in ("a0", "a1", "beta0", "b1", "b2"))
            from symx.solver import PathManager

            # evaluate symbolically along the path this point takes: concrete decisions
            pm = _ConcretePath(pt)
            ctx.path = pm
            try:
                J = _call_ei(ei, name, a1, a0, beta0, [b1, b2])
            finally:
                ctx.path = None
            J = J.real if isinstance(J, Cx) else J
            sym = S.NumEnv(pt).value(J)
            f = fpoint(pt)
            num = _call_ei(ei, name, f["a1"], f["a0"], f["beta0"], [f["b1"], f["b2"]])
            num = complex(num).real
            if abs(sym - num) > 1e-9 * max(1, abs(num)):
                log.inconclusive.append("translator validation failed for %s at %r: symbolic %s vs float %s" % (name, f, sym, num))
            log.validate()


class _ConcretePath:
    """A 'path manager' that decides branches by evaluating the condition at a concrete point."""

    def __init__(self, point):
        self.point = point
        self.pc = []

    def decide(self, b):
        val = S.NumEnv(self.point).value(b.p)
        r = {"<0": val < 0, "<=0": val <= 0, ">0": val > 0, ">=0": val >= 0, "==0": val == 0, "!=0": val != 0}[b.rel]
        self.pc.append(b if r else b.negate())
        return bool(r)


# ---------------------------------------------------------------------------
def case_as4(log, shape):
    """N3LO integrals with the `roots` argument symbolic, tied to b1..b3 by Vieta.
    shape 'complex': one real root r1 and a conjugate pair u +- i v;  'real': three real roots."""
    as4 = sym_module("eko.kernels.as4_evolution_integrals")
    ei = sym_module("eko.kernels.evolution_integrals")
    log.encode(as4.j13_exact, as4.j23_exact, as4.j33_exact, as4.j03_exact, as4.derivative)

    def run():
        a0 = SR.var("a0")
        a1 = SR.var("a1", seed=True)
        beta0 = SR.var("beta0")
        for x in (a0, a1, beta0):
            assume(x, ">0")
        if shape == "complex":
            r1, u, v = SR.var("r1"), SR.var("u"), SR.var("v")
            assume(v, ">0")
            assume(r1, "<0")
            roots = [Cx.lift(r1), Cx(u, v), Cx(u, -v)]
            # (a-r1)((a-u)^2+v^2) * b3 = 1 + b1 a + b2 a^2 + b3 a^3
            m2 = u * u + v * v
            c0 = -r1 * m2  # constant term of monic cubic
            b3 = 1 / c0
            b2 = (-(r1 + 2 * u)) * b3
            b1 = (m2 + 2 * u * r1) * b3
        else:
            r1, r2, r3 = SR.var("r1"), SR.var("r2"), SR.var("r3")
            for r in (r1, r2):
                assume(r, "<0")
            # roots outside [a0,a1]: r3 > a0, r3 > a1 or negative; we take r3 > both couplings
            assume(r3 - a0, ">0")
            assume(r3 - a1, ">0")
            roots = [r1, r2, r3]
            c0 = -(r1 * r2 * r3)
            b3 = 1 / c0
            b2 = (-(r1 + r2 + r3)) * b3
            b1 = (r1 * r2 + r1 * r3 + r2 * r3) * b3
        b_list = [b1, b2, b3]
        P1 = _P(a1, b_list)
        js = {}
        for name, m in (("j13", 0), ("j23", 1), ("j33", 2)):
            J = getattr(as4, name + "_exact")(a1, a0, beta0, b_list, roots)
            js[name] = J
            Jc = Cx.lift(J)
            rhs = a1**m / (beta0 * P1)
            v1 = prove_equal(Jc.re.tangent(), rhs, "Re d %s_exact/d a1 == a1^%d/(beta0 P)" % (name, m))
            log.decide(v1, key="as4.%s_exact:derivative" % name, replay=(MOD, "replay_as4", {"name": name, "shape": shape}), sampler=_sampler)
            v2 = prove_zero(Jc.im, "Im %s_exact == 0 (tangent)" % name, tangent=True)
            log.decide(v2, key="as4.%s_exact:imag" % name, replay=(MOD, "replay_as4", {"name": name, "shape": shape}), sampler=_sampler)
            J0 = Cx.lift(getattr(as4, name + "_exact")(a0, a0, beta0, b_list, roots))
            v3 = prove_zero(J0, "%s_exact(a0,a0) == 0" % name)
            log.decide(v3, key="as4.%s_exact:zero" % name, replay=(MOD, "replay_as4", {"name": name, "shape": shape, "zero": True}), sampler=_sampler)
        j12 = ei.j12(a1, a0, beta0)
        J03 = Cx.lift(as4.j03_exact(j12, js["j13"], js["j23"], js["j33"], b_list))
        v = prove_zero(J03.re.tangent() - 1 / (a1 * beta0 * P1), "d j03_exact/d a1 == 1/(a1 beta0 P)")
        log.decide(v, key="as4.j03_exact:derivative", replay=(MOD, "replay_as4", {"name": "j03", "shape": shape}), sampler=_sampler)
        # continuity: derivative + value at a0 decide J only if J has no jump between a0 and a1
        for v in S.prove_regular("as4 exact integrals (%s roots): " % shape):
            cands = []
            if v.model:
                p = fpoint(v.model)
                if all(k in p for k in ("a0", "a1")):
                    # a singular point of some atom: straddle it
                    for d in (0.15, 0.4):
                        for x in ("a0", "a1"):
                            q = dict(p)
                            y = "a1" if x == "a0" else "a0"
                            q[x] = p[x] * (1 + d)
                            q[y] = p[x] * (1 - d)
                            q.setdefault("beta0", 8.0)
                            cands.append(q)
            log.decide(v, key="as4.exact:continuity", replay=(MOD, "replay_as4", {"name": "j13", "shape": shape}), sampler=_sampler_straddle if shape == "complex" else _sampler, candidates=cands)
        log.twin("domain")
        log.collect_ctx()

    _res, pm = explore(run)
    log.path_stats(pm)


def case_as4_expanded(log):
    as4 = sym_module("eko.kernels.as4_evolution_integrals")
    ei = sym_module("eko.kernels.evolution_integrals")
    log.encode(as4.j13_expanded, as4.j23_expanded, as4.j33_expanded, as4.j03_expanded)

    def run():
        a0 = SR.var("a0")
        a1 = SR.var("a1", seed=True)
        beta0 = SR.var("beta0")
        b = [SR.var("b1"), SR.var("b2"), SR.var("b3")]
        for x in (a0, a1, beta0):
            assume(x, ">0")
        js = {}
        for name, m in (("j13", 0), ("j23", 1), ("j33", 2)):
            f = getattr(as4, name + "_expanded")
            J = f(a1, a0, beta0) if name == "j33" else f(a1, a0, beta0, b)
            J0 = f(a0, a0, beta0) if name == "j33" else f(a0, a0, beta0, b)
            js[name] = J
            rhs = _taylor_integrand(a1, beta0, b, m, 3)
            v = prove_equal(J.tangent(), rhs, "d %s_expanded/d a1 == Taylor_{<=2}" % name)
            log.decide(v, key="as4.%s_expanded:derivative" % name, replay=(MOD, "replay_as4_exp", {"name": name}), sampler=_sampler)
            v = prove_zero(J0, "%s_expanded(a0,a0)==0" % name)
            log.decide(v, key="as4.%s_expanded:zero" % name, replay=(MOD, "replay_as4_exp", {"name": name, "zero": True}), sampler=_sampler)
        j12 = ei.j12(a1, a0, beta0)
        J03 = as4.j03_expanded(j12, js["j13"], js["j23"], js["j33"], b)
        rhs = _taylor_integrand(a1, beta0, b, -1, 3)
        v = prove_zero(J03.tangent() - rhs, "d j03_expanded/d a1 == Taylor_{<=2}")
        log.decide(v, key="as4.j03_expanded:derivative", replay=(MOD, "replay_as4_exp", {"name": "j03"}), sampler=_sampler)
        log.twin("domain")
        log.collect_ctx()

    _res, pm = explore(run)
    log.path_stats(pm)


def case_roots(log, nf=None):
    """roots() executed on symbolic (or the concrete nf) b1,b2,b3: each returned value annihilates P."""
    as4 = sym_module("eko.kernels.as4_evolution_integrals")
    as4.np.exact_const_sqrt = True
    log.encode(as4.roots)

    def run():
        if nf is None:
            b = [SR.var("b1"), SR.var("b2"), SR.var("b3")]
        else:
            from eko import beta as B

            b = [SR(Q(Poly.const(B.b_qcd((k, 0), nf)))) for k in (3, 4, 5)]
        rs = as4.roots(b)
        for i, r in enumerate(rs):
            r = Cx.lift(r)
            val = 1 + b[0] * r + b[1] * r * r + b[2] * r * r * r
            v = prove_zero(val, "P(root_%d) == 0" % (i + 1), timeout_ms=60000)
            log.decide(v, key="roots:r%d" % (i + 1), replay=(MOD, "replay_roots", {"i": i, "nf": nf}), sampler=_sampler_roots)
        log.twin("roots domain")
        log.collect_ctx()

    _res, pm = explore(run)
    log.path_stats(pm)


def _sampler_roots(rng):
    return {"b1": rnd(rng, 0.2, 15), "b2": rnd(rng, 0.2, 30), "b3": rnd(rng, 1, 900)}


# ---------------------------------------------------------------------------
# replays: real code on floats vs high-precision numerical integration (independent oracle)
# ---------------------------------------------------------------------------
def _quad(m, beta0, bs, a0, a1):
    import mpmath as mp

    mp.mp.dps = 30
    f = lambda a: a**m / (beta0 * (1 + sum(b * a ** (i + 1) for i, b in enumerate(bs))))
    return mp.quad(f, [a0, a1])


def _taylor_num(m, beta0, bs, order, a0, a1):
    """exact integral of the Taylor-truncated integrand"""
    import mpmath as mp

    inv = [mp.mpf(1)]
    for k in range(1, order + 2):
        inv.append(-sum(bs[i - 1] * inv[k - i] for i in range(1, k + 1) if i - 1 < len(bs)))
    tot = mp.mpf(0)
    for k, c in enumerate(inv):
        p = m + k
        if p <= order - 1:
            tot += c * (mp.log(a1 / a0) if p == -1 else (a1 ** (p + 1) - a0 ** (p + 1)) / (p + 1))
    return tot / beta0


def _differs(x, y, rtol=1e-8):
    x = complex(x)
    y = complex(y)
    if x != x or abs(x) == float("inf"):
        return True  # a non-finite result differs from every integral
    return abs(x - y) > rtol * max(abs(x), abs(y), 1e-30) + 1e-13


def _point_ok(p, keys):
    return all(k in p for k in keys)


def replay(point, name, nf=None, zero=False):
    import eko.kernels.evolution_integrals as ei
    from eko import beta as B

    _mod, m, order = TABLE[name]
    if nf is not None:
        point = dict(point)
        point["beta0"] = B.beta_qcd((2, 0), nf)
        point["b1"] = B.b_qcd((3, 0), nf)
        point["b2"] = B.b_qcd((4, 0), nf)
    if not _point_ok(point, ["a0", "a1", "beta0"] + ["b1", "b2"][:order]):
        return None
    f = fpoint({k: point[k] for k in ("a0", "a1", "beta0", "b1", "b2") if k in point})
    f.setdefault("b1", 1.0)
    f.setdefault("b2", 1.0)
    bs = [f["b1"], f["b2"]][:order]
    if not (0 < f["a0"] < 1 and 0 < f["a1"] < 1 and f["beta0"] > 0):
        return None
    if any(1 + sum(b * a ** (i + 1) for i, b in enumerate(bs)) <= 0.05 for a in (f["a0"], f["a1"], 0.5 * (f["a0"] + f["a1"]))):
        return None
    if zero:
        got = _call_ei(ei, name, f["a0"], f["a0"], f["beta0"], [f["b1"], f["b2"]])
        if _differs(got, 0.0):
            return {"detail": "%s(a0,a0) = %r != 0 at %r" % (name, got, f)}
        return None
    got = _call_ei(ei, name, f["a1"], f["a0"], f["beta0"], [f["b1"], f["b2"]])
    if name.endswith("expanded"):
        want = _taylor_num(m, f["beta0"], bs, order, f["a0"], f["a1"])
    else:
        want = _quad(m, f["beta0"], bs, f["a0"], f["a1"])
    if _differs(got, want):
        return {"detail": "%s = %r but defining integral = %s at %r" % (name, got, want, f)}
    return None


def _as4_inputs(point, shape):
    import numpy as np

    f = fpoint(point)
    if shape == "complex":
        if not _point_ok(f, ["r1", "u", "v"]):
            return None
        roots = [complex(f["r1"]), complex(f["u"], f["v"]), complex(f["u"], -f["v"])]
    else:
        if not _point_ok(f, ["r1", "r2", "r3"]):
            return None
        roots = [f["r1"], f["r2"], f["r3"]]
    poly = np.poly(roots)  # monic, highest first
    c0 = poly[3]
    b3, b2, b1 = (1 / c0).real, (poly[1] / c0).real, (poly[2] / c0).real
    return f, roots, [b1, b2, b3]


def replay_as4(point, name, shape, zero=False):
    import numpy as np
    import eko.kernels.as4_evolution_integrals as as4
    import eko.kernels.evolution_integrals as ei

    r = _as4_inputs(point, shape)
    if r is None or not _point_ok(point, ["a0", "a1", "beta0"]):
        return None
    f, roots, bl = r
    a0, a1, beta0 = f["a0"], f["a1"], f["beta0"]
    if not (0 < a0 < 1 and 0 < a1 < 1 and beta0 > 0):
        return None
    P = lambda a: 1 + bl[0] * a + bl[1] * a**2 + bl[2] * a**3
    lo, hi = min(a0, a1), max(a0, a1)
    if any(abs(P(lo + (hi - lo) * t / 20)) < 1e-3 or P(lo + (hi - lo) * t / 20) < 0 for t in range(21)):
        return None
    roots = np.array(roots, dtype=complex)
    if zero:
        got = getattr(as4, name + "_exact")(a0, a0, beta0, bl, roots)
        return {"detail": "%s_exact(a0,a0)=%r" % (name, got)} if _differs(got, 0) else None
    js = {n: getattr(as4, n + "_exact")(a1, a0, beta0, bl, roots) for n in ("j13", "j23", "j33")}
    if name == "j03":
        got = as4.j03_exact(ei.j12(a1, a0, beta0), js["j13"], js["j23"], js["j33"], bl)
    else:
        got = js[name]
    want = _quad(AS4[name], beta0, bl, a0, a1)
    if _differs(got, want):
        return {"detail": "as4.%s_exact = %r but defining integral = %s (roots %r, b %r, a0 %r a1 %r)" % (name, got, want, list(roots), bl, a0, a1)}
    return None


def replay_as4_exp(point, name, zero=False):
    import eko.kernels.as4_evolution_integrals as as4
    import eko.kernels.evolution_integrals as ei

    if not _point_ok(point, ["a0", "a1", "beta0", "b1", "b2", "b3"]):
        return None
    f = fpoint(point)
    a0, a1, beta0 = f["a0"], f["a1"], f["beta0"]
    if not (a0 > 0 and a1 > 0 and beta0 > 0):
        return None
    bl = [f["b1"], f["b2"], f["b3"]]

    def call(n, x1, x0):
        g = getattr(as4, n + "_expanded")
        return g(x1, x0, beta0) if n == "j33" else g(x1, x0, beta0, bl)

    if zero:
        got = call(name, a0, a0)
        return {"detail": "%s_expanded(a0,a0)=%r" % (name, got)} if _differs(got, 0) else None
    js = {n: call(n, a1, a0) for n in ("j13", "j23", "j33")}
    got = as4.j03_expanded(ei.j12(a1, a0, beta0), js["j13"], js["j23"], js["j33"], bl) if name == "j03" else js[name]
    want = _taylor_num(AS4[name], beta0, bl, 3, a0, a1)
    if _differs(got, want):
        return {"detail": "as4.%s_expanded = %r but integral of Taylor-truncated integrand = %s at %r" % (name, got, want, f)}
    return None


def replay_roots(point, i, nf=None):
    import eko.kernels.as4_evolution_integrals as as4
    from eko import beta as B

    if nf is not None:
        b = [B.b_qcd((k, 0), nf) for k in (3, 4, 5)]
    else:
        if not _point_ok(point, ["b1", "b2", "b3"]):
            return None
        f = fpoint(point)
        b = [f["b1"], f["b2"], f["b3"]]
    d1 = -(b[1] ** 2) + 3 * b[0] * b[2]
    d2 = -2 * b[1] ** 3 + 9 * b[0] * b[1] * b[2] - 27 * b[2] ** 2
    if 4 * d1**3 + d2**2 < 0 or d2 + (4 * d1**3 + d2**2) ** 0.5 <= 0:
        return None  # outside the domain of the real-valued formula (numpy would return nan)
    r = as4.roots(b)[i]
    val = 1 + b[0] * r + b[1] * r**2 + b[2] * r**3
    scale = 1 + abs(b[0] * r) + abs(b[1] * r**2) + abs(b[2] * r**3)
    if abs(val) > 1e-9 * scale:
        return {"detail": "P(root_%d) = %r (scale %r) for b = %r" % (i + 1, val, scale, b)}
    return None


# ---------------------------------------------------------------------------
def main():
    chk = H.Check("C13")
    chk.bounds = ["orders 2-4 (NLO, NNLO, N3LO integrals)", "beta0, b1, b2, b3 symbolic reals (all nf at once) plus nf=3..6 concrete for NNLO",
                  "N3LO exact integrals: root configuration {one real + conjugate pair, three real} with b_k tied to roots by Vieta",
                  "a0,a1 > 0 with P(a) > 0 at both ends"]
    chk.out_of_claim = ["floating-point evaluation (cancellation near Delta=0, near coinciding roots)",
                        "numerical value of the defining integral (replaced by the equivalent ODE form dJ/da1 = integrand, J(a0,a0)=0)"]
    chk.assumptions = ["floats in the source are read as the exact rationals they denote",
                       "J is C^1 in a1 on the interval, so dJ/da1 = integrand and J(a0,a0)=0 characterise the integral"]
    nlo = ["j12", "j23_exact", "j13_exact", "j23_expanded", "j13_expanded"]
    nnlo_ex = ["j24_exact", "j34_exact", "j14_exact"]
    nnlo_exp = ["j34_expanded", "j24_expanded", "j14_expanded"]
    chk.case("ei.nlo", case_ei, names=nlo)
    chk.case("ei.nnlo.exact", case_ei, names=nnlo_ex)
    chk.case("ei.nnlo.expanded", case_ei, names=nnlo_exp)
    for nf in (3, 4, 5, 6):
        chk.case("ei.nnlo.exact.nf%d" % nf, case_ei, names=nnlo_ex, concrete_nf=nf)
    chk.case("as4.exact.complex-pair", case_as4, shape="complex")
    chk.case("as4.exact.three-real", case_as4, shape="real")
    chk.case("as4.expanded", case_as4_expanded)
    for nf in (3, 4, 5, 6):
        chk.case("as4.roots.nf%d" % nf, case_roots, nf=nf)
    chk.case("as4.roots.symbolic", case_roots, nf=None)
    return chk.run()


if __name__ == "__main__":
    import sys

    sys.exit(main())
