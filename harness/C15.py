"""C15  Running couplings solve their renormalisation group equations (within one fixed-flavour patch).

Real code executed symbolically (eko.couplings with np / float / scipy / beta_* rebound in the module namespace):
  exact_lo, expanded_nlo, expanded_nnlo, expanded_n3lo, expanded_qcd, expanded_qed,
  couplings_expanded_fixed_alphaem, couplings_expanded_alphaem_running,
  Couplings.compute (dispatch + cache miss path), Couplings.compute_exact_fixed_alphaem,
  Couplings.compute_exact_alphaem_running, Couplings.unidimensional_exact.

(i)  expanded solutions.  Counting A ("resummed", the one the formulas are built for): a_ref = lam*alpha, ln(mu^2/mu0^2) = X/lam with X
     symbolic and the AD seed, so that beta0*a_ref*lmu = O(1) is kept to all orders.  Goal for QCD order n:
         lam * d a/dX + sum_{k<n} beta_k a^(k+2)  =  O(lam^(n+2)),          a(X=0) == a_ref   (identically)
     with beta_0 -> beta_0 + a_em*beta_(2,1) for fixed alpha_em and QED order >= 1 (a_em an O(1) symbol, returned unchanged).
     Running alpha_em with QED order >= 1: the solution is claimed through second order in the couplings ("beyond second order", as the statement
     says) with a_ref*lmu = O(1): the residual of the coupled equations is O(lam^4) in counting A (the mixed term -a^2 f(a_ref*lmu) is itself second order;
     its residual is one power of lam higher because d/dlmu = lam d/dX) and in fixed-order counting B (lmu = O(1) symbolic seed).
     Every logarithm taken by the closed forms has a positive argument on the perturbative domain (both LO denominators 1 + beta0 a_ref lmu > 0).
     beta coefficients are free symbols supplied through the module-level names beta_qcd / b_qcd / beta_qed / b_qed (argument-checked proxies),
     so one run covers every nf, nl.
(ii) exact method.  scipy.integrate.solve_ivp is replaced by a stub that records (fun, t_span, y0, args, method, rtol) and returns fresh symbols
     as final state.  Goals for every (order_qcd, order_qed, em_running): the recorded right-hand side evaluated on symbolic (a_s, a_em),
     multiplied by dt/dlmu = t_span[1]/ln(mu^2/mu0^2), equals the truncated coupled beta functions; t_span[0] == 0; y0 == reference; the returned
     array is the stub's final state (a_em untouched where it does not run).  Decided twice: structurally with symbolic beta coefficients
     (exact identity; argument-checked nf, nl), and with the real eko.beta evaluated at exact nf in {3..6}, nl in {2,3} against
     refs/rge_literature.py within 1e-10 relative (inequality on the box of couplings).  LO paths (closed form): ODE by AD, exactly.
(iv) tau-mass split: the real Couplings.a inside one nf patch, reference and target scales symbolic (forks on np.isclose and on the comparisons with
     m_tau^2), Couplings.compute an uninterpreted recorder: with QED order >= 1 and the two scales on different sides of m_tau the legs are
     [ref -> m_tau^2, lepton number of the reference side] and [m_tau^2 -> target, lepton number of the target side], chained; otherwise a single leg
     (none for coinciding scales); without QED always a single leg.
(iii) monotonicity: the recorded right-hand side (real eko.beta, nf = 3..6, orders 1-4, QED 0-2) is < 0 for 0 < a_s <= 0.35/(4 pi) (+2% margin),
     0 <= a_em <= 0.01/(4 pi) (+2%): NRA inequality.
"""
from fractions import Fraction
import types

import numpy as realnp

from .cplkit import *  # noqa
from .kern import jet_tangent
from .cplkit import _b, _sampler_tau
from symx.solver import explore, prove_zero, prove_rel, prove_regular
from symx import harness as H

MOD = "harness.C15"
AS_MAX = Fraction(285, 10000)  # 0.35/(4 pi) = 0.027852 < 0.0285
AEM_MAX = Fraction(82, 100000)  # 0.01/(4 pi) = 0.000796 < 0.00082


# ---------------------------------------------------------------------------
# pieces substituted in the couplings namespace
# ---------------------------------------------------------------------------
class LogScale:
    """Stands for the squared target scale mu0^2 * exp(lmu): the code only ever forms np.log(scale_to / scale_from)."""

    def __init__(self, lmu):
        self.lmu = lmu

    def __truediv__(self, o):
        if isinstance(o, (int, float)) and o == 1:
            return self
        raise EngineError("LogScale divided by something else than the reference scale 1")


class C15Numpy(CplNumpy):
    def log(self, x):
        if isinstance(x, LogScale):
            return x.lmu
        return CplNumpy.log(self, x)


class BetaSyms:
    """Argument-checked symbolic beta coefficients: beta_qcd((k,j), nf) etc. return free symbols; a call with another nf / nl than the one
    the harness passed down raises (so the proxy cannot hide a wrong argument)."""

    def __init__(self, nf, nl):
        self.nf, self.nl = nf, nl
        self.b0 = SR.var("beta0")
        assume(self.b0, ">0")
        self.q0 = SR.var("betaqed0")
        assume(self.q0, "<0")  # eko convention: beta_qed^(0,2) = -4/3 sum e^2 < 0
        self.qcd = {(2, 0): self.b0, (3, 0): SR.var("beta1"), (4, 0): SR.var("beta2"), (5, 0): SR.var("beta3"), (2, 1): SR.var("beta21")}
        self.qed = {(0, 2): self.q0, (0, 3): SR.var("betaqed1"), (1, 2): SR.var("beta12")}

    def _chk(self, nf, nl=None):
        if not (nf is self.nf or nf == self.nf):
            raise EngineError("beta coefficient requested for nf=%r, harness passed %r" % (nf, self.nf))
        if nl is not None and not (nl is self.nl or nl == self.nl):
            raise EngineError("beta coefficient requested for nl=%r, harness passed %r" % (nl, self.nl))

    def beta_qcd(self, k, nf):
        self._chk(nf)
        return self.qcd[tuple(k)]

    def b_qcd(self, k, nf):
        return self.beta_qcd(k, nf) / self.b0

    def beta_qed(self, k, nf, nl):
        self._chk(nf, nl)
        return self.qed[tuple(k)]

    def b_qed(self, k, nf, nl):
        return self.beta_qed(k, nf, nl) / self.q0

    def install(self, cpl):
        cpl.beta_qcd, cpl.b_qcd, cpl.beta_qed, cpl.b_qed = self.beta_qcd, self.b_qcd, self.beta_qed, self.b_qed

    def qcd_list(self, n):
        return [self.qcd[(k + 2, 0)] for k in range(n)]

    def qed_list(self, n):
        return [self.qed[(0, k + 2)] for k in range(n)]


def _load():
    cpl = cpl_module("eko.couplings")
    cpl.np = C15Numpy()
    cpl.float = sym_float
    return cpl


def _restore_betas(cpl):
    import eko.beta as B

    cpl.beta_qcd, cpl.b_qcd, cpl.beta_qed, cpl.b_qed = B.beta_qcd, B.b_qcd, B.beta_qed, B.b_qed


def _make_sc(cpl, order, method, em_running):
    """a real Couplings object (concrete reference, FFNS-like atlas); only its dispatch attributes matter here."""
    from eko.quantities.couplings import CouplingEvolutionMethod, CouplingsInfo
    from eko.quantities.heavy_quarks import QuarkMassScheme

    info = CouplingsInfo(alphas=0.118, alphaem=0.007496, ref=(91.2, 5), em_running=em_running)
    meth = CouplingEvolutionMethod.EXACT if method == "exact" else CouplingEvolutionMethod.EXPANDED
    return cpl.Couplings(info, order, meth, [2.0, 20.0, 30000.0], QuarkMassScheme.POLE, [1.0, 1.0, 1.0])


def _novar(j):
    j = as_jet(j)
    return Jet(j.v, [c.novar() for c in j.c], j.prec)


def _zero_through(D, x, n, what, key, rp, sampler, lo=None, key_at=None, candidates=()):
    """key_at: {k: key} overrides the violation key of single coefficients"""
    j = as_jet(x)
    if j.prec < n:
        raise EngineError("%s known only to O(lam^%d), need %d" % (what, j.prec, n))
    start = min(j.v, 0) if j.c else 0
    ok = True
    for k in range(start, n):
        v = prove_zero(j._known(k), "%s: lam^%d coefficient == 0" % (what, k), timeout_ms=60000)
        ok = D(v, key=(key_at or {}).get(k, key), replay=rp, sampler=sampler, candidates=candidates) and ok
    return ok


# ---------------------------------------------------------------------------
# (i) expanded solutions
# ---------------------------------------------------------------------------
def _rge_qcd(a, betas, extra0=0):
    """sum_k beta_k a^(k+2) (+ extra0 * a^2)"""
    tot = 0
    for k, b in enumerate(betas):
        tot = tot + (b + (extra0 if k == 0 else 0)) * a ** (k + 2)
    return tot


def case_expanded_functions(log):
    """the bare closed forms with symbolic beta0, b1, b2, b3 (counting A)."""
    cpl = _load()
    log.encode(cpl.exact_lo, cpl.expanded_nlo, cpl.expanded_nnlo, cpl.expanded_n3lo, cpl.expanded_qcd, cpl.expanded_qed)
    D = Decider(log, max_replays=6)

    def run_order(n, via, counting):
        def run():
            jetmod.set_cap(n + 3)
            alpha = SR.var("alpha")
            beta0 = SR.var("beta0")
            bs = [SR.var("b%d" % i) for i in (1, 2, 3)]
            assume(alpha, ">0")
            assume(beta0, ">0")
            lam = Jet.lam()
            ref = lam * alpha
            if counting == "A":
                X = SR.var("X", seed=True)
                assume(1 + beta0 * alpha * X, ">0")
                lmu = Jet(-1, [X], INF)
                lmu0 = Jet(0, [], INF)
                ddl = lambda j: lam * jet_tangent(j)
            else:
                lmu = SR.var("lmu", seed=True)
                lmu0 = SR(0)
                ddl = lambda j: jet_tangent(j)

            def call(l):
                if via == "expanded_qcd":
                    return cpl.expanded_qcd(ref, n, beta0, [1] + bs, l)
                if via == "expanded_qed":
                    return cpl.expanded_qed(ref, n, beta0, [1] + bs, l)
                return [None, lambda: cpl.exact_lo(ref, beta0, l), lambda: cpl.expanded_nlo(ref, beta0, bs[0], l),
                        lambda: cpl.expanded_nnlo(ref, beta0, bs[0], bs[1], l), lambda: cpl.expanded_n3lo(ref, beta0, bs[0], bs[1], bs[2], l)][n]()

            a = as_jet(call(lmu))
            betas = [beta0] + [b * beta0 for b in bs[: n - 1]]
            res = ddl(a) + _rge_qcd(_novar(a), betas)
            rp = (MOD, "replay_expanded_fn", {"n": n, "via": via, "counting": counting})
            name = {"direct": ["", "exact_lo", "expanded_nlo", "expanded_nnlo", "expanded_n3lo"][n], "expanded_qcd": "expanded_qcd", "expanded_qed": "expanded_qed"}[via]
            if via != "direct":
                name += ":n%d" % n
            what = ("%s order %d: lam*da/dX + sum_k beta_k a^(k+2) [a_ref*lmu = O(1) resummed]" if counting == "A" else "%s order %d: da/dlmu + sum_k beta_k a^(k+2) [fixed lmu]") % (name, n)
            if via != "direct" and n == 4:
                # the order-4 closed form is judged once, on expanded_n3lo itself; here: the dispatcher hands exactly its arguments down
                direct = as_jet(cpl.expanded_n3lo(ref, beta0, bs[0], bs[1], bs[2], lmu))
                _zero_through(D, a - direct, n + 3, "%s order 4 == expanded_n3lo(ref, beta0, b1, b2, b3, lmu)" % name, "%s:dispatch" % name, rp, _sampler)
            else:
                # the coefficient lam^5 of the order-4 residual is where the a_LO^4 term of expanded_n3lo enters: its own key
                _zero_through(D, res, n + 2, what, "%s:rge%s" % (name, "" if counting == "A" else "_fixed_order"), rp, _sampler,
                              key_at={5: "expanded_n3lo:a4-term"} if (via == "direct" and n == 4) else None)
            if counting == "A":
                a0 = as_jet(call(lmu0)) - ref
                _zero_through(D, a0, n + 3, "%s order %d at the reference scale: a - a_ref" % (name, n), "%s:ref" % name, rp, _sampler)
            log.twin("domain")
            log.collect_ctx()

        return run

    for n in (1, 2, 3, 4):
        for via in ("direct", "expanded_qcd") + (("expanded_qed",) if n <= 2 else ()):
            for counting in ("A", "B") if via == "direct" else ("A",):
                _r, pm = explore(run_order(n, via, counting))
                log.path_stats(pm)


def case_expanded_compute(log, em_running, orders):
    """Couplings.compute (method expanded) -> couplings_expanded_{fixed_alphaem, alphaem_running}, symbolic beta coefficients."""
    cpl = _load()
    log.encode(cpl.Couplings.compute, cpl.couplings_expanded_fixed_alphaem, cpl.couplings_expanded_alphaem_running, cpl.expanded_qcd, cpl.expanded_qed)
    D = Decider(log)
    nf, nl = 4, 3

    def run_one(order, counting):
        n, q = order

        def run():
            mixed = em_running and q >= 1
            # mixed QCDxQED running: the solution is claimed through second order in the couplings, i.e. the RGE residual through lam^3 (one power of lam
            # more than the solution, since d/dlmu = lam d/dX in counting A), in both countings
            top = (n + 2) if not mixed else 4
            jetmod.set_cap(top + 1)
            sc = _make_sc(cpl, order, "expanded", em_running)
            bsym = BetaSyms(nf, nl)
            bsym.install(cpl)
            try:
                alpha = SR.var("alpha")
                assume(alpha, ">0")
                lam = Jet.lam()
                if counting == "A":
                    X = SR.var("X", seed=True)
                    lmu = Jet(-1, [X], INF)
                    ddl = lambda j: lam * jet_tangent(as_jet(j))  # d/dlmu = lam d/dX
                    assume(1 + bsym.b0 * alpha * X, ">0")
                else:
                    X = SR.var("lmu", seed=True)
                    lmu = X
                    ddl = lambda j: jet_tangent(as_jet(j))
                if em_running:
                    aem_sym = SR.var("alphaem")
                    assume(aem_sym, ">0")
                    aem = lam * aem_sym
                    if counting == "A":
                        # perturbative domain: both couplings positive at both ends, i.e. both LO denominators positive -- nothing else
                        assume(1 + bsym.q0 * aem_sym * X, ">0")
                else:
                    aem = SR.var("aem")
                    assume(aem, ">0")
                    if q >= 1 and counting == "A":
                        assume(bsym.b0 + aem * bsym.qcd[(2, 1)], ">0")
                        assume(1 + (bsym.b0 + aem * bsym.qcd[(2, 1)]) * alpha * X, ">0")
                ref = symarr([lam * alpha, aem])
                out = sc.compute(ref, nf, nl, 1, LogScale(lmu))
                a_s, a_em = as_jet(out[0]), as_jet(out[1])
                tag = "compute[expanded, %s alpha_em] order (%d,%d) counting %s" % ("running" if em_running else "fixed", n, q, counting)
                fn = "couplings_expanded_alphaem_running" if em_running else "couplings_expanded_fixed_alphaem"
                rp = (MOD, "replay_compute", {"order": list(order), "em_running": em_running, "method": "expanded", "counting": counting})
                rpm = (MOD, "replay_mixed", {"order": list(order)})
                mixkey = {3: fn + ":mixed-term"} if (mixed and counting == "A") else None
                # every log the closed forms take has a positive argument (and no denominator vanishes) on the perturbative domain
                for vreg in prove_regular(prefix=tag + ": "):
                    D(vreg, key=fn + ":log-domain", replay=rpm if mixed else rp, sampler=_sampler, candidates=_DOMAIN_CANDIDATES)
                # QCD equation
                if em_running:
                    mix = bsym.qcd[(2, 1)] * _novar(a_em) if q >= 1 else 0
                    res = ddl(a_s) + _rge_qcd(_novar(a_s), bsym.qcd_list(n)) + mix * _novar(a_s) ** 2
                else:
                    res = ddl(a_s) + _rge_qcd(_novar(a_s), bsym.qcd_list(n), extra0=(aem * bsym.qcd[(2, 1)] if q >= 1 else 0))
                if n == 4 and not mixed:
                    # order 4: the closed form itself is judged on expanded_n3lo (key expanded_n3lo:a4-term); here: the wrapper hands the right arguments down
                    b0eff = bsym.b0 + (aem * bsym.qcd[(2, 1)] if (q >= 1 and not em_running) else 0)
                    direct = as_jet(cpl.expanded_n3lo(ref[0], b0eff, bsym.qcd[(3, 0)] / b0eff, bsym.qcd[(4, 0)] / b0eff, bsym.qcd[(5, 0)] / b0eff, lmu))
                    _zero_through(D, a_s - direct, top + 1, "%s: a_s == expanded_n3lo(a_ref, beta0_eff, beta_k/beta0_eff, lmu)" % tag, fn + ":n4_args", rp, _sampler)
                else:
                    _zero_through(D, res, top, "%s: d a_s/dlmu - beta_QCD(a_s,a_em)" % tag, fn + (":rge_qcd:n%d" % n if not (mixed and counting == "B") else ":rge_qcd_mixed"), rpm if mixed else rp, _sampler, key_at=mixkey, candidates=_MIXED_CANDIDATES if mixed else ())
                # QED equation
                if em_running and q >= 1:
                    res = ddl(a_em) + _rge_qcd(_novar(a_em), bsym.qed_list(q)) + bsym.qed[(1, 2)] * _novar(a_s) * _novar(a_em) ** 2
                    _zero_through(D, res, top, "%s: d a_em/dlmu - beta_QED(a_s,a_em)" % tag, fn + (":rge_qed" if counting == "A" else ":rge_qed_mixed"), rpm if mixed else rp, _sampler, key_at=mixkey, candidates=_MIXED_CANDIDATES if mixed else ())
                else:
                    _zero_through(D, a_em - aem, top, "%s: a_em stays at its reference value" % tag, fn + ":aem_fixed", rp, _sampler)
                # reference point
                sc2 = _make_sc(cpl, order, "expanded", em_running)
                out0 = sc2.compute(ref, nf, nl, 1, LogScale(Jet(0, [], INF) if counting == "A" else SR(0)))
                _zero_through(D, as_jet(out0[0]) - ref[0], top, "%s at the reference scale: a_s - a_s,ref" % tag, fn + ":ref", rp, _sampler)
                _zero_through(D, as_jet(out0[1]) - ref[1], top, "%s at the reference scale: a_em - a_em,ref" % tag, fn + ":ref", rp, _sampler)
                log.twin("domain")
                log.collect_ctx()
            finally:
                _restore_betas(cpl)

        return run

    for order in orders:
        for counting in (("A", "B") if (em_running and order[1] >= 1) else ("A",)):
            _r, pm = explore(run_one(tuple(order), counting))
            log.path_stats(pm)


def _sampler(rng):
    return {"alpha": rnd(rng, 0.008, 0.027), "alphaem": rnd(rng, 0.0002, 0.0008, den=100000), "aem": rnd(rng, 0.0002, 0.0008, den=100000),
            "X": rnd(rng, -2, 6), "lmu": rnd(rng, -2, 6), "a_s": rnd(rng, 0.008, 0.027), "a_em": rnd(rng, 0.0002, 0.0008, den=100000),
            "u": rnd(rng, -2, 6), "nf": Fraction(rng.randint(3, 6))}


# ---------------------------------------------------------------------------
# (ii) exact method: what is handed to solve_ivp
# ---------------------------------------------------------------------------
class IvpStub:
    """scipy.integrate.solve_ivp as an uninterpreted function of (t_span, y0): records the call, returns fresh symbols as final state; the same
    initial value problem requested again gets the same final state."""

    def __init__(self):
        self.calls = []
        self.memo = {}

    @staticmethod
    def _key(x):
        x = SR(0) + x
        return x.v.key()

    def solve_ivp(self, fun, t_span, y0, method="RK45", t_eval=None, dense_output=False, events=None, vectorized=False, args=None, **options):
        n = len(y0)
        try:
            key = (tuple(self._key(t) for t in t_span), tuple(self._key(y) for y in y0))
        except Exception:  # noqa
            key = None
        end = self.memo.get(key) if key is not None else None
        if end is None:
            end = [SR.var("Yend%d_%d" % (len(self.calls), i)) for i in range(n)]
            if key is not None:
                self.memo[key] = end
        self.calls.append({"fun": fun, "t_span": t_span, "y0": y0, "args": args, "method": method, "options": options, "end": end})
        return types.SimpleNamespace(y=[[y0[i], end[i]] for i in range(n)], t=[t_span[0], t_span[1]], success=True)


def _install_ivp(cpl):
    stub = IvpStub()
    cpl.scipy = types.SimpleNamespace(integrate=types.SimpleNamespace(solve_ivp=stub.solve_ivp))
    return stub


def _oracle_rhs(A, E, order, em_running, bq, b21, bqed, b12):
    """truncated coupled beta functions (d/dln mu^2) as the statement defines them; bq: QCD list, bqed: QED list."""
    n, q = order
    rq = 0
    for k in range(n):
        rq = rq + bq[k] * A ** (k + 2)
    if q >= 1:
        rq = rq + b21 * E * A**2
    rq = -rq
    if em_running and q >= 1:
        re = 0
        for k in range(q):
            re = re + bqed[k] * E ** (k + 2)
        re = -(re + b12 * A * E**2)
    else:
        re = 0
    return rq, re


def _run_exact(cpl, order, em_running, nf, nl, a_ref, u):
    sc = _make_sc(cpl, order, "exact", em_running)
    stub = _install_ivp(cpl)
    out = sc.compute(a_ref, nf, nl, 1, LogScale(u))
    return sc, stub, out


def _check_exact_path(log, D, cpl, order, em_running, nf, nl, coeffs, mode, tol_scale=None):
    """coeffs = (bq, b21, bqed, b12) oracle coefficients. mode 'exact' -> identities, 'tol' -> |diff| <= 1e-10 relative on the box."""
    n, q = order
    A = SR.var("a_s")
    E = SR.var("a_em")
    u = SR.var("u", seed=(mode == "exact"))
    assume(A, ">0")
    assume(E, ">0")
    if mode == "tol":
        assume(AS_MAX - A, ">=0")
        assume(AEM_MAX - E, ">=0")
        assume(2 * u - 1, ">=0")
        assume(6 - u, ">=0")
    a_ref = symarr([A, E])
    sc, stub, out = _run_exact(cpl, order, em_running, nf, nl, a_ref, u)
    tag = "compute[exact, %s alpha_em] order (%d,%d)%s" % ("running" if em_running else "fixed", n, q, "" if mode == "exact" else " nf=%s nl=%s" % (nf, nl))
    fn = "compute_exact_alphaem_running" if em_running else "compute_exact_fixed_alphaem"
    rp = (MOD, "replay_compute", {"order": list(order), "em_running": em_running, "method": "exact"})
    bq, b21, bqed, b12 = coeffs
    want_q, want_e = _oracle_rhs(A, E, order, em_running, bq, b21, bqed, b12)

    def same(got, want, what, key, scale=1):
        if mode == "exact":
            v = prove_zero(SR(0) + got - want, "%s: %s" % (tag, what))
            D(v, key=key, replay=rp, sampler=_sampler)
        else:
            tol = Fraction(1, 10**10) * scale  # scale: the leading term beta0*a^2*u of the compared quantity (relative tolerance 1e-10)
            for rel, expr, side in ((">=0", SR(0) + got - want + tol, "lower"), ("<=0", SR(0) + got - want - tol, "upper")):
                v = prove_rel(expr, rel, "%s: %s within 1e-10 relative (%s)" % (tag, what, side))
                D(v, key=key, replay=rp, sampler=_sampler, candidates=[{"a_s": Fraction(2, 100), "a_em": Fraction(6, 10000), "u": Fraction(1)}])

    if not stub.calls:
        # closed-form LO path: d/du [returned] == beta(returned), returned(u=0) == reference
        if mode == "exact":
            a1 = out[0]
            rq, _re = _oracle_rhs(a1.novar(), E, order, em_running, bq, b21, bqed, b12)
            v = prove_zero(a1.tangent() - rq, "%s (closed-form LO path): d a_s/dlmu == beta_QCD(a_s)" % tag)
            D(v, key=fn + ":lo_rge", replay=rp, sampler=_sampler)
            v = prove_zero(SR(0) + out[1] - E, "%s (closed-form LO path): a_em untouched" % tag)
            D(v, key=fn + ":lo_aem", replay=rp, sampler=_sampler)
            sc0, stub0, out0 = _run_exact(cpl, order, em_running, nf, nl, a_ref, SR(0))
            v = prove_zero(SR(0) + out0[0] - A, "%s (closed-form LO path): a_s(mu0) == reference" % tag)
            D(v, key=fn + ":lo_ref", replay=rp, sampler=_sampler)
        else:
            # literature value of the effective beta0 through the closed form: a(u) = A/(1 + beta0' A u)  <=>  A/a - 1 == beta0' A u
            eff = bq[0] + (b21 * E if q >= 1 else 0)
            assume(1 + eff * A * u, ">0")
            same((A / out[0] - 1), eff * A * u, "closed-form LO path: A/a_s(u) - 1 == beta0_eff*A*u (literature beta0, beta21)", fn + ":lo_rge", scale=A * u)
        return
    if len(stub.calls) != 1:
        raise EngineError("solve_ivp called %d times" % len(stub.calls))
    c = stub.calls[0]
    t0, t1 = c["t_span"]
    y0 = list(c["y0"])
    args = tuple(c["args"]) if c["args"] is not None else ()
    # state the integrator works on
    if len(y0) == 2:
        yy = symarr([A, E])
        got = c["fun"](SR.var("t"), yy, *args)
        got_q, got_e = got[0], got[1]
    else:
        got_q = c["fun"](SR.var("t"), A, *args)
        got_e = 0
    scale_t = t1  # dt/dlmu = t1/u  (t0 == 0)
    same(got_q * scale_t, want_q * u, "solve_ivp right-hand side (a_s) * t_span[1] == beta_QCD(a_s,a_em) * ln(mu^2/mu0^2)", fn + ":rhs_qcd", scale=A * A * u)
    if len(y0) == 2:
        same(got_e * scale_t, want_e * u, "solve_ivp right-hand side (a_em) * t_span[1] == beta_QED(a_s,a_em) * ln(mu^2/mu0^2)", fn + ":rhs_qed", scale=E * E * u)
    if mode == "exact":
        v = prove_zero(SR(0) + t0, "%s: t_span[0] == 0" % tag)
        D(v, key=fn + ":t_span", replay=rp, sampler=_sampler)
        # t_span[1] must be a non-vanishing multiple of u (a pure rescaling of the evolution variable)
        v = prove_zero((SR(0) + t1).tangent() * u - (SR(0) + t1).novar(), "%s: t_span[1] is proportional to ln(mu^2/mu0^2)" % tag)
        D(v, key=fn + ":t_span", replay=rp, sampler=_sampler)
        for i, (g, w) in enumerate(zip(y0, [A, E])):
            v = prove_zero(SR(0) + g - w, "%s: y0[%d] == reference coupling" % (tag, i))
            D(v, key=fn + ":y0", replay=rp, sampler=_sampler)
        v = prove_zero(SR(0) + out[0] - c["end"][0], "%s: returned a_s is the integrator's final state" % tag)
        D(v, key=fn + ":result", replay=rp, sampler=_sampler)
        want_em = c["end"][1] if len(y0) == 2 else E
        v = prove_zero(SR(0) + out[1] - want_em, "%s: returned a_em is %s" % (tag, "the integrator's final state" if len(y0) == 2 else "the reference value"))
        D(v, key=fn + ":result", replay=rp, sampler=_sampler)
        if c["method"] != "Radau" or c["options"].get("rtol") != 1e-6:
            log.notes.append("%s: solve_ivp called with method=%r options=%r" % (tag, c["method"], c["options"]))
        # a running a_em must actually be integrated
        if em_running and q >= 1 and len(y0) != 2:
            v = prove_zero(SR(1), "%s: a_em is part of the integrated state" % tag)
            D(v, key=fn + ":state", replay=rp, sampler=_sampler)


ALL_ORDERS = [(n, q) for n in (1, 2, 3, 4) for q in (0, 1, 2)]


def case_exact_struct(log, em_running):
    cpl = _load()
    log.encode(cpl.Couplings.compute, cpl.Couplings.compute_exact_fixed_alphaem, cpl.Couplings.compute_exact_alphaem_running, cpl.Couplings.unidimensional_exact,
               cpl.couplings_expanded_fixed_alphaem, cpl.exact_lo)
    D = Decider(log)
    nf, nl = 4, 3

    def mk(order):
        def run():
            bsym = BetaSyms(nf, nl)
            bsym.install(cpl)
            try:
                E = SR.var("a_em")
                if order[1] >= 1:
                    assume(bsym.b0 + E * bsym.qcd[(2, 1)], ">0")
                _check_exact_path(log, D, cpl, order, em_running, nf, nl, (bsym.qcd_list(4), bsym.qcd[(2, 1)], bsym.qed_list(2), bsym.qed[(1, 2)]), "exact")
                log.twin("domain")
                log.collect_ctx()
            finally:
                _restore_betas(cpl)

        return run

    for order in ALL_ORDERS:
        _r, pm = explore(mk(order))
        log.path_stats(pm)


def _lit_coeffs(nf, nl):
    from refs import rge_literature as L

    z3 = lift_exact(_zeta3())
    bq = [lift_exact(L.beta0(nf)), lift_exact(L.beta1(nf)), lift_exact(L.beta2(nf)), L.beta3(nf, z3)]
    return bq, lift_exact(L.beta_qcd_as2aem1(nf)), [lift_exact(L.beta_qed0(nf, nl)), lift_exact(L.beta_qed1(nf, nl))], lift_exact(L.beta_qed_aem2as1(nf))


def _zeta3():
    import mpmath as mp

    return float(mp.zeta(3))


def case_exact_literature(log, nf):
    """real eko.beta below the real exact paths, nf and nl exact constants; oracle refs/rge_literature.py"""
    cpl = _load()
    import eko.beta as B

    log.encode(cpl.Couplings.compute_exact_fixed_alphaem, cpl.Couplings.compute_exact_alphaem_running, cpl.Couplings.unidimensional_exact,
               B.beta_qcd, B.beta_qed, B.beta_qcd_as2, B.beta_qcd_as3, B.beta_qcd_as4, B.beta_qcd_as5, B.beta_qcd_as2aem1, B.beta_qed_aem2, B.beta_qed_aem3, B.beta_qed_aem2as1)
    D = Decider(log)

    def mk(order, em_running, nl):
        def run():
            _check_exact_path(log, D, cpl, order, em_running, SR(nf), SR(nl), _lit_coeffs(nf, nl), "tol")
            log.twin("domain")
            log.collect_ctx()

        return run

    for em_running in (True, False):
        for order in ALL_ORDERS:
            for nl in ((2, 3) if (em_running and order[1] >= 1) else (3,)):
                _r, pm = explore(mk(order, em_running, nl))
                log.path_stats(pm)


# ---------------------------------------------------------------------------
# (iii) monotonicity
# ---------------------------------------------------------------------------
def case_monotone(log, nf):
    cpl = _load()
    log.encode(cpl.Couplings.compute_exact_fixed_alphaem, cpl.Couplings.compute_exact_alphaem_running, cpl.Couplings.unidimensional_exact)
    D = Decider(log)

    def mk(order, em_running):
        def run():
            A = SR.var("a_s")
            E = SR.var("a_em")
            u = SR.var("u")
            assume(A, ">0")
            assume(AS_MAX - A, ">=0")
            assume(E, ">=0")
            assume(AEM_MAX - E, ">=0")
            assume(u, ">0")
            sc, stub, out = _run_exact(cpl, order, em_running, SR(nf), SR(3), symarr([A, E]), u)
            tag = "order (%d,%d) %s alpha_em nf=%d" % (order[0], order[1], "running" if em_running else "fixed", nf)
            rp = (MOD, "replay_monotone", {"order": list(order), "em_running": em_running, "nf": nf})
            if not stub.calls:
                # closed form a_s(u) = A/(1+beta0' A u): decreasing in u  <=>  returned < A for u > 0
                v = prove_rel(SR(0) + out[0] - A, "<0", "closed-form LO %s: a_s(mu) < a_s(mu0) for mu > mu0" % tag)
                D(v, key="monotone:lo", replay=rp, sampler=_sampler)
            else:
                c = stub.calls[0]
                args = tuple(c["args"]) if c["args"] is not None else ()
                if len(c["y0"]) == 2:
                    got = c["fun"](SR.var("t"), symarr([A, E]), *args)[0]
                else:
                    got = c["fun"](SR.var("t"), A, *args)
                # sign of dt/dlmu
                v = prove_rel((SR(0) + c["t_span"][1]), ">0", "%s: the evolution variable handed to solve_ivp increases with the scale" % tag)
                D(v, key="monotone:t", replay=rp, sampler=_sampler)
                v = prove_rel(SR(0) + got, "<0", "%s: d a_s/dt < 0 for 0 < a_s <= %s, 0 <= a_em <= %s" % (tag, AS_MAX, AEM_MAX))
                D(v, key="monotone:rhs", replay=rp, sampler=_sampler, candidates=[{"a_s": AS_MAX, "a_em": AEM_MAX}])
            log.twin("domain")

        return run

    for em_running in (True, False):
        for order in ALL_ORDERS:
            _r, pm = explore(mk(order, em_running))
            log.path_stats(pm)


# ---------------------------------------------------------------------------
# replays: the real, unpatched eko.couplings on floats against mpmath ODE integration with literature coefficients
# ---------------------------------------------------------------------------
def _lit_float(nf, nl):
    from refs import rge_literature as L

    z3 = Fraction(_zeta3())
    return ([float(L.beta0(nf)), float(L.beta1(nf)), float(L.beta2(nf)), float(L.beta3(nf, z3))], float(L.beta_qcd_as2aem1(nf)),
            [float(L.beta_qed0(nf, nl)), float(L.beta_qed1(nf, nl))], float(L.beta_qed_aem2as1(nf)))


def _ode(a0, e0, lmu, order, em_running, nf, nl, bq=None):
    """high-precision solution of the truncated coupled RGEs (independent coefficients)."""
    import mpmath as mp

    mp.mp.dps = 25
    lit = _lit_float(nf, nl)
    bqcd, b21, bqed, b12 = lit
    if bq is not None:
        bqcd = bq
    n, q = order

    def f(t, y):
        A, E = y
        rq = -(sum(bqcd[k] * A ** (k + 2) for k in range(n)) + (b21 * E * A**2 if q >= 1 else 0))
        re = -(sum(bqed[k] * E ** (k + 2) for k in range(q)) + b12 * A * E**2) if (em_running and q >= 1) else 0
        return [rq, re]

    if lmu == 0:
        return a0, e0
    sgn = 1 if lmu > 0 else -1
    g = (lambda t, y: [sgn * v for v in f(t, y)])
    sol = mp.odefun(g, 0, [mp.mpf(a0), mp.mpf(e0)], tol=mp.mpf(10) ** (-16))
    y = sol(abs(lmu))
    return float(y[0]), float(y[1])


def _real_sc(order, method, em_running, a_s, a_em, nf, mu0=10.0):
    import numpy as np
    from eko.couplings import Couplings
    from eko.quantities.couplings import CouplingEvolutionMethod, CouplingsInfo
    from eko.quantities.heavy_quarks import QuarkMassScheme

    info = CouplingsInfo(alphas=a_s * 4 * np.pi, alphaem=a_em * 4 * np.pi, ref=(mu0, nf), em_running=em_running)
    thr = [0.0] * (nf - 3) + [np.inf] * (6 - nf)
    meth = CouplingEvolutionMethod.EXACT if method == "exact" else CouplingEvolutionMethod.EXPANDED
    return Couplings(info, tuple(order), meth, [1.0, 1.0, 1.0], QuarkMassScheme.POLE, thr)


def _scaling(errs, lams):
    import math

    pairs = [(l, e) for l, e in zip(lams, errs) if e > 1e-15]
    if len(pairs) < 2:
        return 99.0
    (l1, e1), (l2, e2) = pairs[-2], pairs[-1]
    return math.log(e1 / e2) / math.log(l1 / l2)


def replay_compute(point, order, em_running, method, counting="B"):
    """Couplings.a inside one patch on the real code: exact method vs ODE (rtol 2e-5: Radau runs at rtol 1e-6); expanded method: reference
    point and the order of the deviation from the ODE solution when the reference coupling is scaled down at fixed lmu."""
    import math
    import numpy as np

    order = tuple(order)
    a_s = float(point.get("a_s", point.get("alpha", 0.02)))
    a_em = float(point.get("a_em", point.get("alphaem", point.get("aem", 0.0006))))
    lmu = float(point.get("u", point.get("lmu", point.get("X", 1.5))))
    if not (0.006 <= a_s <= 0.0285 and 0.00008 <= a_em <= 0.00082 and -2 <= lmu <= 6):
        return None
    mu0 = 10.0
    for nf in ((int(point["nf"]),) if "nf" in point and 3 <= int(point["nf"]) <= 6 else (4, 5)):
        mu2 = mu0**2 * math.exp(lmu)
        # leptons: stay on one side of the tau mass (the path inside a patch is split there; C16/C17 territory)
        nl = 3
        if mu2 <= 1.777**2 * 1.01:
            continue
        sc = _real_sc(order, method, em_running, a_s, a_em, nf, mu0)
        got0 = sc.a(mu0**2)
        if abs(got0[0] - a_s) > 1e-10 * a_s or abs(got0[1] - a_em) > 1e-10 * a_em:
            return {"detail": "couplings at the reference scale %r differ from the reference values (%r, %r); order %r %s em_running=%r nf=%d" % (list(got0), a_s, a_em, order, method, em_running, nf)}
        if method == "exact":
            got = sc.a(mu2)
            want = _ode(a_s, a_em, lmu, order, em_running, nf, nl)
            if abs(got[0] - want[0]) > 2e-5 * abs(want[0]) or abs(got[1] - want[1]) > 2e-5 * abs(want[1]):
                return {"detail": "exact couplings %r at ln(mu^2/mu0^2)=%r differ from the ODE solution %r of the truncated RGEs (order %r, em_running=%r, nf=%d, a_ref=(%r,%r))"
                        % (list(got), lmu, want, order, em_running, nf, a_s, a_em)}
            # monotonic
            continue
        lams = [1.0, 0.5, 0.25, 0.125]
        errs_s, errs_e = [], []
        n, q = order
        mixed = em_running and q >= 1
        if counting == "A" and (abs(lmu) > 2.5 or mixed):
            continue
        for l in lams:
            s2 = _real_sc(order, method, em_running, a_s * l, a_em * (l if em_running else 1), nf, mu0)
            lm = lmu / l if counting == "A" else lmu
            got = s2.a(mu0**2 * math.exp(lm))
            want = _ode(a_s * l, a_em * (l if em_running else 1), lm, order, em_running, nf, nl)
            errs_s.append(abs(got[0] - want[0]))
            errs_e.append(abs(got[1] - want[1]))
        need = ((n + 2) if not mixed else 4) if counting == "B" else (n + 1)
        ex = _scaling(errs_s, lams)
        if max(errs_s) > 1e-13 and ex < need - 0.6:
            return {"detail": "expanded a_s - ODE solution at a_ref*(1,1/2,1/4,1/8) = %r scales like a^%.2f < a^%d (order %r, em_running=%r, nf=%d, lmu=%r)" % (errs_s, ex, need, order, em_running, nf, lmu)}
        if em_running and q >= 1:
            ex = _scaling(errs_e, lams)
            if max(errs_e) > 1e-15 and ex < 4 - 0.6:
                return {"detail": "expanded a_em - ODE solution at a_ref*(1,1/2,1/4,1/8) = %r scales like a^%.2f < a^4 (order %r, nf=%d, lmu=%r)" % (errs_e, ex, order, nf, lmu)}
        elif max(errs_e) > 1e-12 * a_em:
            return {"detail": "a_em moved although it does not run: deviations %r (order %r em_running=%r)" % (errs_e, order, em_running)}
    return None


_DOMAIN_CANDIDATES = [{"a_s": Fraction(35, 100) / Fraction(1256637, 100000), "a_em": Fraction(78, 10000) / Fraction(1256637, 100000), "lmu": Fraction(921, 100), "X": Fraction(921, 100), "nf": Fraction(4), "mu0": Fraction(2)},
                      {"a_s": Fraction(21, 100) / Fraction(1256637, 100000), "a_em": Fraction(78, 10000) / Fraction(1256637, 100000), "lmu": Fraction(708, 100), "X": Fraction(708, 100), "nf": Fraction(5), "mu0": Fraction(5)}]


_MIXED_CANDIDATES = [{"a_s": Fraction(25, 1000), "a_em": Fraction(6, 10000), "lmu": Fraction(3, 2), "X": Fraction(3, 2), "nf": Fraction(4), "mu0": Fraction(10)},
                     {"a_s": Fraction(2, 100), "a_em": Fraction(7, 10000), "lmu": Fraction(-1), "X": Fraction(-1), "nf": Fraction(5), "mu0": Fraction(20)}]


def replay_mixed(point, order):
    """running alpha_em, QED order >= 1, real Couplings (expanded) inside one patch, above the tau mass.
    (1) the result must be finite wherever both couplings are positive at both ends of the exact solution;
    (2) the mixed QCDxQED correction D = a(a_s, a_em) - a(other coupling -> 0) of the expanded solution, compared with the same difference of the high-precision
        solution of the coupled truncated RGEs (literature coefficients) at (l*a_ref, lmu/l), l = 1/4, 1/8: the ratio must tend to 1 (second order in the
        couplings with a_ref*lmu fixed); a wrong function of a_ref*lmu shows as a ratio that stays away from 1."""
    import math

    order = tuple(order)
    a_s = float(point.get("a_s", point.get("alpha", 0.02)))
    a_em = float(point.get("a_em", point.get("alphaem", 0.0006)))
    lmu = float(point.get("lmu", point.get("X", point.get("u", 2.0))))
    mu0 = float(point.get("mu0", 10.0))
    if not (0.006 <= a_s <= 0.0285 and 0.0002 <= a_em <= 0.00082 and 0.3 <= abs(lmu) <= 9.5 and mu0 > 1.9):
        return None
    nfs = (int(point["nf"]),) if "nf" in point and 3 <= int(point["nf"]) <= 6 else (4, 5)
    for nf in nfs:
        if mu0**2 * math.exp(lmu) <= 1.777**2 * 1.05:
            continue
        want = _ode(a_s, a_em, lmu, order, True, nf, 3)
        if not (want[0] > 0 and want[1] > 0):
            continue  # outside the perturbative domain
        got = _real_sc(order, "expanded", True, a_s, a_em, nf, mu0).a(mu0**2 * math.exp(lmu))
        if not (math.isfinite(got[0]) and math.isfinite(got[1])):
            return {"detail": "expanded couplings %r are not finite at ln(mu^2/mu0^2)=%r from (a_s, a_em)=(%r, %r) at mu0=%r (order %r, nf=%d) although the coupled RGE solution %r is positive at both ends"
                    % (list(got), lmu, a_s, a_em, mu0, order, nf, want)}
        if abs(lmu) > 3.2:
            continue
        tiny = 1e-13
        worst = None
        for l in (0.25, 0.125):
            lm = lmu / l
            mu2 = mu0**2 * math.exp(lm)
            if mu2 <= 1.777**2 * 1.05 or mu2 > 1e30:
                worst = None
                break
            full = _real_sc(order, "expanded", True, a_s * l, a_em * l, nf, mu0).a(mu2)
            no_em = _real_sc(order, "expanded", True, a_s * l, tiny, nf, mu0).a(mu2)
            no_s = _real_sc(order, "expanded", True, tiny, a_em * l, nf, mu0).a(mu2)
            o_full = _ode(a_s * l, a_em * l, lm, order, True, nf, 3)
            o_no_em = _ode(a_s * l, tiny, lm, order, True, nf, 3)
            o_no_s = _ode(tiny, a_em * l, lm, order, True, nf, 3)
            ds, ds_o = full[0] - no_em[0], o_full[0] - o_no_em[0]
            de, de_o = full[1] - no_s[1], o_full[1] - o_no_s[1]
            if not all(math.isfinite(v) for v in (ds, de)):
                return {"detail": "expanded couplings not finite at (l*a_ref, lmu/l), l=%r: %r" % (l, list(full))}
            worst = (l, ds / ds_o, de / de_o)
        if worst is not None and (abs(worst[1] - 1) > 0.25 or abs(worst[2] - 1) > 0.25):
            return {"detail": "mixed QCDxQED term of the expanded solution over that of the coupled RGE solution at (l*a_ref, lmu/l), l=%r: a_s %.4f, a_em %.4f (must tend to 1; a_ref=(%r,%r), a_ref*lmu fixed, lmu=%r, order %r, nf=%d)"
                    % (worst[0], worst[1], worst[2], a_s, a_em, lmu, order, nf)}
    return None


def replay_expanded_fn(point, n, via, counting="A"):
    """the bare closed forms with arbitrary (non-physical) b-coefficients against the ODE with the same coefficients."""
    import eko.couplings as cpl

    alpha = float(point.get("alpha", 0.02))
    X = float(point.get("X", 1.0))
    beta0 = float(point.get("beta0", 8.0))
    bs = [float(point.get("b%d" % i, [0, 5.0, 20.0, 150.0][i])) for i in (1, 2, 3)]
    if not (0.005 <= alpha <= 0.03 and 5 <= beta0 <= 12 and 1 + beta0 * alpha * X > 0.3 and abs(X) <= 8 and all(abs(b) < 1e3 for b in bs)):
        return None

    def call(ref, l):
        if via == "expanded_qcd":
            return cpl.expanded_qcd(ref, n, beta0, [1.0] + bs, l)
        if via == "expanded_qed":
            return cpl.expanded_qed(ref, n, beta0, [1.0] + bs, l)
        return [None, lambda: cpl.exact_lo(ref, beta0, l), lambda: cpl.expanded_nlo(ref, beta0, bs[0], l),
                lambda: cpl.expanded_nnlo(ref, beta0, bs[0], bs[1], l), lambda: cpl.expanded_n3lo(ref, beta0, bs[0], bs[1], bs[2], l)][n]()

    if abs(call(alpha, 0.0) - alpha) > 1e-12 * alpha:
        return {"detail": "order-%d expanded solution at lmu=0 gives %r, reference %r" % (n, call(alpha, 0.0), alpha)}
    betas = [beta0] + [b * beta0 for b in bs]
    lams = [1.0, 0.5, 0.25, 0.125]
    errs = []
    if counting == "B":
        X = float(point.get("lmu", X))
    for l in lams:  # counting A: a_ref -> l*a_ref, lmu -> lmu/l ; counting B: lmu fixed
        lm = X / l if counting == "A" else X
        got = call(alpha * l, lm)
        want = _ode(alpha * l, 0.0, lm, (n, 0), False, 4, 3, bq=betas)[0]
        errs.append(abs(got - want))
    ex = _scaling(errs, lams)
    if counting == "B":
        if max(errs) > 1e-13 and ex < n + 2 - 0.6:
            return {"detail": "order-%d expanded solution - ODE solution at fixed lmu=%r and a_ref*(1,1/2,1/4,1/8): %r scales like a^%.2f < a^%d (a_ref=%r beta0=%r b=%r)" % (n, X, errs, ex, n + 2, alpha, beta0, bs)}
        return None
    if max(errs) > 1e-13 and ex < n + 1 - 0.6:
        return {"detail": "order-%d expanded solution - ODE solution at (l*a_ref, lmu/l), l=1,1/2,1/4,1/8: %r scales like l^%.2f < l^%d (a_ref=%r beta0=%r b=%r a_ref*lmu=%r)" % (n, errs, ex, n + 1, alpha, beta0, bs, alpha * X)}
    return None


def replay_monotone(point, order, em_running, nf):
    import math

    a_s = float(point.get("a_s", 0.0278))
    a_em = float(point.get("a_em", 0.0008))
    if not (0.001 <= a_s <= 0.0285 and 0.00001 <= a_em <= 0.00082):
        return None
    sc = _real_sc(tuple(order), "exact", em_running, a_s, a_em, nf, 10.0)
    prev = a_s
    for lmu in (0.05, 0.2, 0.5):
        cur = sc.a(100.0 * math.exp(lmu))[0]
        if not cur < prev:
            return {"detail": "a_s does not decrease with the scale: a_s(lmu=%r) = %r >= %r (order %r, em_running=%r, nf=%d, a_ref=(%r,%r))" % (lmu, cur, prev, order, em_running, nf, a_s, a_em)}
        prev = cur
    return None


# ---------------------------------------------------------------------------
# (iv) the tau-mass split inside one fixed-nf segment of Couplings.a
# ---------------------------------------------------------------------------
def _nl(q2):
    """documented meaning of matchings.lepton_number: 3 leptons above the tau mass, 2 otherwise (independent restatement)"""
    return 3 if _b(q2 > MTAU2) else 2


def case_tau_split(log, orders):
    cpl = _load()
    log.encode(cpl.Couplings.a)
    D = Decider(log)

    def mk(order, em_running):
        def run():
            mu0, s = SR.var("mu2_ref"), SR.var("mu2_to")
            for x in (mu0, s):
                assume(x - Fraction(1, 2), ">0")
                assume(10000 - x, ">0")
            sc = patch_couplings(cpl, order, em_running, mu0)
            rec = LegRecorder({})
            sc.compute = rec
            a_in = [sc.a_ref[0], sc.a_ref[1]]
            out = sc.a(s, 4)
            legs = rec.legs
            tag = "Couplings.a order %r em_running=%r inside the nf=4 patch" % (tuple(order), em_running)
            rp = (MOD, "replay_tau_split", {"order": list(order), "em_running": em_running})
            # oracle (plain model; its comparisons are decided under the path condition)
            close = _b(cpl.np.isclose(mu0, s))
            if close:
                want = []
            elif order[1] == 0 or _nl(mu0) == _nl(s):
                want = [(_nl(mu0) if order[1] != 0 else None, mu0, s)]
            else:
                want = [(_nl(mu0), mu0, MTAU2), (_nl(s), MTAU2, s)]
            v = prove_zero(SR(0 if len(legs) == len(want) else 1), "%s: %d fixed-flavour leg(s) requested, documented: %d" % (tag, len(legs), len(want)))
            D(v, key="Couplings.a:tau_split:legs", replay=rp, sampler=_sampler_tau)
            if len(legs) == len(want):
                prev = a_in
                for i, ((args, res), (nl, f, t)) in enumerate(zip(legs, want)):
                    checks = [("input a_s", args[0], prev[0]), ("input a_em", args[1], prev[1]), ("nf", args[2], 4), ("from", args[4], f), ("to", args[5], t)]
                    if nl is not None:
                        checks.append(("number of leptons", args[3], nl))
                    for nm, got, w in checks:
                        v = prove_zero(SR(0) + got - w, "%s: leg %d of %d, %s is the documented one" % (tag, i + 1, len(want), nm))
                        D(v, key="Couplings.a:tau_split:%s" % ("nl" if nm == "number of leptons" else "leg"), replay=rp, sampler=_sampler_tau)
                    prev = res
                for j in range(2):
                    v = prove_zero(SR(0) + out[j] - prev[j], "%s: returned coupling [%d] is the output of the last leg" % (tag, j))
                    D(v, key="Couplings.a:tau_split:leg", replay=rp, sampler=_sampler_tau)
            log.twin("domain")

        return run

    for order in orders:
        for em_running in (True, False):
            _r, pm = explore(mk(tuple(order), em_running), max_paths=256)
            log.path_stats(pm)


def replay_tau_split(point, order, em_running):
    """real Couplings (exact method), reference and target inside one nf=4 patch on either side of the tau mass; oracle: the truncated RGEs integrated
    piecewise with nl = 3 above m_tau and 2 below (literature coefficients)."""
    import math
    import numpy as np
    from eko.couplings import Couplings
    from eko.quantities.couplings import CouplingEvolutionMethod, CouplingsInfo
    from eko.quantities.heavy_quarks import QuarkMassScheme

    m0, m1 = float(point.get("mu2_ref", 9.0)), float(point.get("mu2_to", 2.0))
    a_s, a_em = float(point.get("a_s", 0.02)), float(point.get("a_em", 0.0006))
    if not (0.7 < m0 < 100 and 0.7 < m1 < 100 and 0.01 <= a_s <= 0.0285 and 0.0002 <= a_em <= 0.00082):
        return None
    mt2 = 1.777**2
    if abs(m0 - mt2) < 0.05 or abs(m1 - mt2) < 0.05:
        return None
    order = tuple(order)
    info = CouplingsInfo(alphas=a_s * 4 * np.pi, alphaem=a_em * 4 * np.pi, ref=(m0**0.5, 4), em_running=em_running)
    sc = Couplings(info, order, CouplingEvolutionMethod.EXACT, [1.0, 1.0, 1.0], QuarkMassScheme.POLE, [0.0, np.inf, np.inf])
    got = sc.a(m1, 4)
    nl0, nl1 = (3 if m0 > mt2 else 2), (3 if m1 > mt2 else 2)
    if nl0 == nl1:
        want = _ode(a_s, a_em, math.log(m1 / m0), order, em_running, 4, nl0)
    else:
        mid = _ode(a_s, a_em, math.log(mt2 / m0), order, em_running, 4, nl0)
        want = _ode(mid[0], mid[1], math.log(m1 / mt2), order, em_running, 4, nl1)
    if abs(got[0] - want[0]) > 3e-5 * abs(want[0]) or abs(got[1] - want[1]) > 3e-5 * abs(want[1]):
        return {"detail": "couplings %r at mu^2=%r from (%r, %r) at mu0^2=%r (order %r, em_running=%r, nf=4) differ from the RGE solution %r with %d leptons on the reference side and %d on the target side of the tau mass"
                % (list(got), m1, a_s, a_em, m0, order, em_running, want, nl0, nl1)}
    return None


# ---------------------------------------------------------------------------
def main():
    chk = H.Check("C15")
    thorough = H.tier() == "thorough"
    preimport("eko.couplings", "eko.beta", "refs.rge_literature")
    chk.bounds = ["QCD orders 1-4, QED orders 0-2, alpha_em running / fixed, methods exact and expanded: every combination is a case path",
                  "one fixed-flavour patch (no threshold, no tau-mass split: C16/C17); beta coefficients free symbols (all nf, nl) for the structural goals, "
                  "nf in {3,4,5,6} x nl in {2,3} with the real eko.beta for the literature and monotonicity goals",
                  "expanded: residual of the truncated RGE is O(a^(n+2)) with a_ref*ln(mu^2/mu0^2) = O(1) kept to all orders (series carried one order beyond); "
                  "running alpha_em with QED order >= 1: O(a^3) in that counting and O(a^4) at fixed ln(mu^2/mu0^2)",
                  "exact: the initial value problem handed to solve_ivp (right-hand side, time rescaling, initial state, result extraction) is the truncated coupled RGE; "
                  "literature comparison within 1e-10 relative on 0 < a_s <= 0.0285, 0 < a_em <= 0.00082",
                  "monotonicity: beta_QCD(a_s, a_em) < 0 on 0 < a_s <= 0.0285 (alpha_s <= 0.358), 0 <= a_em <= 0.00082, nf = 3..6, all orders"]
    chk.bounds.append("tau-mass split of Couplings.a inside one nf=4 patch: reference and target scale free symbols in (0.5, 1e4) GeV^2 on either side of m_tau^2 "
                      "(forks), Couplings.compute an uninterpreted recorder; legs, their lepton numbers (3 above m_tau, 2 below) and chaining")
    chk.out_of_claim = ["accuracy of scipy's Radau integrator (rtol 1e-6) and floating-point evaluation of the closed forms",
                        "monotonicity of the *expanded* approximations beyond LO (only their RGE residual is decided)",
                        "decoupled_running=True (never set by the constructor)", "threshold crossing inside Couplings.a (C16, C17)"]
    chk.stubs = ["scipy.integrate.solve_ivp -> records its arguments, returns fresh symbols as final state (documented contract: y[:, -1] is the state at t_span[1])",
                 "eko.couplings.{beta_qcd,b_qcd,beta_qed,b_qed} -> argument-checked symbolic coefficients (structural cases only; values are C20's subject)",
                 "builtin float() in eko.couplings -> identity on symbolic values", "np.log(scale_to/scale_from) -> the symbolic logarithm carried by the target-scale token"]
    chk.assumptions = ["log(lam) treated as an independent symbol when the code takes log of a coupling (N3LO closed form)",
                       "a C^1 function with vanishing RGE residual through O(a^(n+1)) differs from the exact solution by O(a^(n+2)) per unit evolution time (variation of constants)"]
    chk.case("expanded.functions", case_expanded_functions)
    fixed_orders = ALL_ORDERS
    chk.case("expanded.compute.fixed.qcd12", case_expanded_compute, em_running=False, orders=[o for o in fixed_orders if o[0] <= 2])
    chk.case("expanded.compute.fixed.qcd3", case_expanded_compute, em_running=False, orders=[o for o in fixed_orders if o[0] == 3])
    chk.case("expanded.compute.fixed.qcd4", case_expanded_compute, em_running=False, orders=[o for o in fixed_orders if o[0] == 4])
    chk.case("expanded.compute.running.qed0", case_expanded_compute, em_running=True, orders=[o for o in ALL_ORDERS if o[1] == 0])
    chk.case("expanded.compute.running.qed1", case_expanded_compute, em_running=True, orders=[o for o in ALL_ORDERS if o[1] == 1])
    chk.case("expanded.compute.running.qed2", case_expanded_compute, em_running=True, orders=[o for o in ALL_ORDERS if o[1] == 2])
    chk.case("exact.struct.running", case_exact_struct, em_running=True)
    chk.case("exact.struct.fixed", case_exact_struct, em_running=False)
    for nf in ((4, 5) if not thorough else (3, 4, 5, 6)):
        chk.case("exact.literature.nf%d" % nf, case_exact_literature, nf=nf)
    for nf in ((3, 6) if not thorough else (3, 4, 5, 6)):
        chk.case("monotone.nf%d" % nf, case_monotone, nf=nf)
    chk.case("tau-split", case_tau_split, orders=[(2, 0), (2, 1), (3, 2)] if not thorough else ALL_ORDERS)
    return chk.run()


if __name__ == "__main__":
    import sys

    sys.exit(main())
