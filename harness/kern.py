"""Shared pieces for the kernel properties (C08-C12, C14, C51): symbolic anomalous-dimension towers,
jets in the coupling, ODE residuals."""
import numpy as realnp

from .common import *  # noqa
from symx.jet import Jet, INF


def kernel_modules():
    ns = sym_module("eko.kernels.non_singlet")
    sg = sym_module("eko.kernels.singlet")
    ei = sym_module("eko.kernels.evolution_integrals")
    as4 = sym_module("eko.kernels.as4_evolution_integrals")
    ad = sym_module("ekore.anomalous_dimensions")
    return ns, sg, ei, as4, ad


def sym_betas(order):
    """[beta0, b1*beta0, ...] with beta0 > 0 and b_k free symbols."""
    beta0 = SR.var("beta0")
    assume(beta0, ">0")
    bs = [SR.var("b%d" % i) for i in range(1, order)]
    return [beta0] + [b * beta0 for b in bs], bs


def jet_couplings(seed=True):
    """a0 = lam*alpha0, a1 = lam*alpha1 (alpha1 optionally the AD seed), alpha_i > 0."""
    al0 = SR.var("alpha0")
    al1 = SR.var("alpha1", seed=seed)
    assume(al0, ">0")
    assume(al1, ">0")
    lam = Jet.lam()
    return lam * al0, lam * al1, al0, al1


def ns_gammas(order):
    """the tower as the callers hand it over: ONE numpy array (slices of it are views, in-place updates reach the caller)"""
    out = realnp.empty(order, dtype=object)
    for k in range(order):
        out[k] = SR.var("g%d" % k)
    return out


def singlet_gammas(order, kind="general"):
    """list of 2x2 object arrays. kind: general | diag | diag0 (gamma_0 diagonal, others general)"""
    out = []
    for k in range(order):
        m = realnp.empty((2, 2), dtype=object)
        for i in range(2):
            for j in range(2):
                if i != j and (kind == "diag" or (kind == "diag0" and k == 0)):
                    m[i, j] = SR(0)
                else:
                    m[i, j] = SR.var("g%d_%d%d" % (k, i, j))
        out.append(m)
    return realnp.array(out, dtype=object)


def jet_tangent(x):
    """Jet of AD tangents of a jet (d/d seed coefficient-wise)."""
    if isinstance(x, Jet):
        return Jet(x.v, [c.tangent() if isinstance(c, SR) else Cx(SR(c.re._dd()), SR(c.im._dd())) for c in x.c], x.prec)
    if isinstance(x, SR):
        return x.tangent()
    if isinstance(x, Cx):
        return Cx(SR(x.re._dd()), SR(x.im._dd()))
    return 0


def lamM_scalar(gam, bet, a1, al1):
    """lam * gamma(a1)/beta(a1) as a jet (valuation 0): (1/alpha1) * sum g_k a^k / sum beta_k a^k."""
    num = sum(g * a1**k for k, g in enumerate(gam))
    den = sum(b * a1**k for k, b in enumerate(bet))
    return num / den / al1


def lamM_matrix(gam, bet, a1, al1):
    den = sum(b * a1**k for k, b in enumerate(bet))
    inv = 1 / den / al1
    m = realnp.empty((2, 2), dtype=object)
    for i in range(2):
        for j in range(2):
            m[i, j] = sum(gam[k][i, j] * a1**k for k in range(len(gam))) * inv
    return m


def as_jet(x):
    return x if isinstance(x, Jet) else Jet.lift(x)


def residual_coeffs(res, n):
    """coefficients lam^0..lam^(n-1) of a jet (or scalar), each an SR/Cx; raises if precision is lower."""
    j = as_jet(res)
    if j.prec < n:
        raise EngineError("residual known only to O(lam^%d), need %d" % (j.prec, n))
    lo = min(j.v, 0) if j.c else 0
    return [(i, j._known(i)) for i in range(lo, n)]


# ---------------------------------------------------------------------------
# symbolic renormalisation-group environment for the dispatchers
# ---------------------------------------------------------------------------
class BetaProxy:
    """Stands in for the module `eko.beta` inside a kernel module: beta_qcd((k,0), nf) returns the given
    symbolic coefficients (so that one run covers every nf); everything else forwards to the real module."""

    def __init__(self, real, bet):
        self._real = real
        self._bet = bet

    def __getattr__(self, n):
        return getattr(self._real, n)

    def beta_qcd(self, k, nf):
        if k[1] == 0 and 0 <= k[0] - 2 < len(self._bet):
            # argument check: the symbolic coefficients stand for the flavour number the harness passes in as the symbol `nf`;
            # a caller asking for another one (nf + 1, ...) must not be served the same symbols
            if isinstance(nf, SR) and not (nf - SR.var("nf")).v.canon().n.is_zero():
                raise EngineError("beta_qcd(%r) asked for a flavour number other than the kernel's nf: %r" % (k, nf))
            return self._bet[k[0] - 2]
        return self._real.beta_qcd(k, nf)

    def b_qcd(self, k, nf):
        return self.beta_qcd(k, nf) / self.beta_qcd((2, 0), nf)

    def beta_qcd_as2(self, nf):
        return self.beta_qcd((2, 0), nf)

    def beta_qcd_as3(self, nf):
        return self.beta_qcd((3, 0), nf)

    def beta_qcd_as4(self, nf):
        return self.beta_qcd((4, 0), nf)

    def beta_qcd_as5(self, nf):
        return self.beta_qcd((5, 0), nf)


class ExactBetaProxy:
    """Stands in for `eko.beta` with the exact rational QCD coefficients of the literature (refs/rge_literature.py, checked against
    eko.beta by C20) *at the nf it is asked for*: unlike BetaProxy it distinguishes flavour numbers, and unlike the float values of
    eko.beta it keeps exact cancellations exact."""

    def __init__(self, real):
        self._real = real
        self.asked = []

    def __getattr__(self, n):
        return getattr(self._real, n)

    def beta_qcd(self, k, nf):
        from refs import rge_literature as lit

        if k[1] == 0 and k[0] in (2, 3, 4) and isinstance(nf, int):
            self.asked.append((k, nf))
            return SR(Q(Poly.const({2: lit.beta0, 3: lit.beta1, 4: lit.beta2}[k[0]](nf))))
        return self._real.beta_qcd(k, nf)

    def b_qcd(self, k, nf):
        return self.beta_qcd(k, nf) / self.beta_qcd((2, 0), nf)

    def beta_qcd_as2(self, nf):
        return self.beta_qcd((2, 0), nf)

    def beta_qcd_as3(self, nf):
        return self.beta_qcd((3, 0), nf)

    def beta_qcd_as4(self, nf):
        return self.beta_qcd((4, 0), nf)


class As4Proxy:
    """as4_evolution_integrals with roots() replaced by given symbolic roots (argument-checked against the
    b-coefficients the roots belong to, so the stub cannot mask a wrong argument)."""

    def __init__(self, real, roots, b_list):
        self._real = real
        self._roots = roots
        self._b = b_list

    def __getattr__(self, n):
        return getattr(self._real, n)

    def roots(self, b_list):
        for got, want in zip(b_list, self._b):
            if not (SR(0) + got - want).v.canon().n.is_zero():
                raise EngineError("roots() stub called with b-coefficients other than those of the symbolic roots")
        return list(self._roots)


def sym_rge(order, shape="complex"):
    """(bet, bs, roots): symbolic beta list; at order 4 the b's are tied to symbolic roots by Vieta."""
    beta0 = SR.var("beta0")
    assume(beta0, ">0")
    if order < 4:
        bs = [SR.var("b%d" % i) for i in range(1, order)]
        return [beta0] + [b * beta0 for b in bs], bs, None
    if shape == "complex":
        r1, u, v = SR.var("r1"), SR.var("u"), SR.var("v")
        assume(v, ">0")
        assume(r1, "<0")
        roots = [Cx.lift(r1), Cx(u, v), Cx(u, -v)]
        m2 = u * u + v * v
        c0 = -r1 * m2
        b3 = 1 / c0
        b2 = (-(r1 + 2 * u)) * b3
        b1 = (m2 + 2 * u * r1) * b3
    else:
        r1, r2, r3 = SR.var("r1"), SR.var("r2"), SR.var("r3")
        assume(r1, "<0")
        assume(r2, "<0")
        roots = [r1, r2, r3]
        c0 = -(r1 * r2 * r3)
        b3 = 1 / c0
        b2 = (-(r1 + r2 + r3)) * b3
        b1 = (r1 * r2 + r1 * r3 + r2 * r3) * b3
    bs = [b1, b2, b3]
    return [beta0] + [b * beta0 for b in bs], bs, roots


class rge_env:
    """context manager installing BetaProxy / As4Proxy into the given kernel modules."""

    def __init__(self, mods, bet, bs, roots):
        self.mods, self.bet, self.bs, self.roots = mods, bet, bs, roots
        self.saved = []

    def __enter__(self):
        for m in self.mods:
            if hasattr(m, "beta"):
                self.saved.append((m, "beta", m.beta))
                m.beta = BetaProxy(m.beta, self.bet)
            if self.roots is not None and hasattr(m, "as4_ei"):
                self.saved.append((m, "as4_ei", m.as4_ei))
                m.as4_ei = As4Proxy(m.as4_ei, self.roots, self.bs)
        return self

    def __exit__(self, *a):
        for m, n, v in reversed(self.saved):
            setattr(m, n, v)
        return False


def points_to_rge(f, order, shape="complex"):
    """numeric beta list from a replay point (floats), consistent with sym_rge."""
    import numpy as np

    b0 = f["beta0"]
    if order < 4:
        return [b0] + [f["b%d" % i] * b0 for i in range(1, order)]
    roots = [f["r1"], complex(f["u"], f["v"]), complex(f["u"], -f["v"])] if shape == "complex" else [f["r1"], f["r2"], f["r3"]]
    poly = np.poly(roots)
    c0 = poly[3]
    return [b0, (poly[2] / c0).real * b0, (poly[1] / c0).real * b0, (1 / c0).real * b0]


class NumBeta:
    """numeric stand-in for eko.beta in replays that need arbitrary (non-physical) beta coefficients."""

    def __init__(self, real, bet):
        self._real, self._bet = real, bet

    def __getattr__(self, n):
        return getattr(self._real, n)

    def beta_qcd(self, k, nf):
        if k[1] == 0 and 0 <= k[0] - 2 < len(self._bet):
            return self._bet[k[0] - 2]
        return self._real.beta_qcd(k, nf)

    def b_qcd(self, k, nf):
        return self.beta_qcd(k, nf) / self.beta_qcd((2, 0), nf)


# ---------------------------------------------------------------------------
# matrix exponential by its defining series (stub for ekore exp_matrix = LAPACK eig) and ODE series solutions
# ---------------------------------------------------------------------------
def _is_zero_entry(t):
    if isinstance(t, Jet):
        return not t.c and t.prec >= INF
    if isinstance(t, (SR, Cx)):
        return t.is_zero()
    return isinstance(t, (int, float)) and t == 0


def _all_small(term):
    """every entry is zero up to the current cap"""
    for t in term.flat:
        if isinstance(t, Jet):
            if t.c:
                return False
        elif not _is_zero_entry(t):
            return False
    return True


def mat_exp_series(A):
    """sum_k A^k/k! for a square matrix whose entries are jets of positive valuation (or exact zeros)."""
    from fractions import Fraction

    dim = A.shape[0]
    out = realnp.empty((dim, dim), dtype=object)
    for i in range(dim):
        for j in range(dim):
            out[i, j] = Jet.lift(1 if i == j else 0)
    term = out.copy()
    for k in range(1, jetmod.CAP[0] + 3):
        term = (term @ A) * Fraction(1, k)
        out = out + term
        if _all_small(term):
            break
    return out


class AdSeries:
    """ekore.anomalous_dimensions with exp_matrix (numpy.linalg.eig = LAPACK) replaced by the defining series;
    records the matrices it is called with."""

    def __init__(self, real):
        self._real = real
        self.calls = []

    def __getattr__(self, n):
        return getattr(self._real, n)

    def exp_matrix(self, m):
        self.calls.append(m)
        return mat_exp_series(m), None, None

    def exp_matrix_2D(self, m):
        """the 2x2 eigen-decomposition routine by its contract (decided in C23): the matrix exponential"""
        self.calls.append(m)
        return mat_exp_series(m), None, None, None, None


class AdRecorder:
    """ekore.anomalous_dimensions recording the arguments of exp_matrix_2D / exp_matrix and returning opaque results
    (used to compare the step exponents of two kernels exactly)."""

    def __init__(self, real):
        self._real = real
        self.calls = []

    def __getattr__(self, n):
        return getattr(self._real, n)

    def _ident(self, m):
        dim = m.shape[0]
        return realnp.array([[1 if i == j else 0 for j in range(dim)] for i in range(dim)], dtype=object)

    def exp_matrix(self, m):
        self.calls.append(m)
        return self._ident(m), None, None

    def exp_matrix_2D(self, m):
        self.calls.append(m)
        return self._ident(m), None, None, None, None


def jet_integrate(x):
    """int_0^lam x dlam' coefficient-wise"""
    from fractions import Fraction

    x = as_jet(x)
    if x.c and x.v < 0:
        raise EngineError("integration of a jet with a pole")
    return Jet(x.v + 1, [c * Fraction(1, x.v + 1 + i) for i, c in enumerate(x.c)], (x.prec + 1) if x.prec < INF else INF)


def ode_series(N, dim):
    """series solution of dE/dlam = N(lam) E, E(0) = 1 by Picard iteration (N: dim x dim object array of jets)."""
    E = realnp.empty((dim, dim), dtype=object)
    for i in range(dim):
        for j in range(dim):
            E[i, j] = Jet.lift(1 if i == j else 0)
    for _ in range(jetmod.CAP[0] + 1):
        NE = N @ E
        new = realnp.empty((dim, dim), dtype=object)
        for i in range(dim):
            for j in range(dim):
                new[i, j] = jet_integrate(NE[i, j]) + (1 if i == j else 0)
        E = new
    return E
