"""C21  Scale-variation prescriptions equal their renormalisation-group expansions.

Real functions executed symbolically
  eko.scale_variations.exponentiated.gamma_variation / gamma_variation_qed
  eko.scale_variations.expanded.variation_as1/2/3, non_singlet_variation, singlet_variation,
      non_singlet_variation_qed, singlet_variation_qed, valence_variation_qed
on symbolic anomalous dimensions (scalars, fully symbolic non-commuting 2x2 and -- where the code fixes the
dimension -- 4x4 matrices), symbolic L = ln xi^2, the coupling a' = a(xi^2 mu^2) a formal series parameter (jet) and
  * symbolic beta coefficients: the module `beta` is replaced inside the analysed modules' namespace by a proxy that
    returns one symbol per (function, arguments) -- one run covers every nf, and a call with the wrong key or with
    swapped nf/nl yields a different symbol;
  * the real eko.beta evaluated exactly at nf = 3..6 (nl = 2, 3), compared with the literature values of
    refs/rge_literature.py.

Oracle (built here from the renormalisation group, never copied from the code).  With a(L) := a(T - L) and
a' = a(T):      d a/dL = sum_k beta_k a^(k+2),  a(0) = a'        (solved order by order in a', polynomials in L)
  exponentiated:   gamma'_j = [a'^(j+1)] sum_k gamma_k a(L)^(k+1),                         j < n
  expanded:        d G/dL = gamma(a(L)) G  (gamma on the left: matrices kept in order),  G(0) = 1,
                   K = sum_{m<n} a'^m G_m(L)   (truncated path-ordered exponential)
The QED variants: the QCD axis gamma[1:, 0] follows the QCD rule; if alpha_em runs, the pure-QED axis gamma[0, 1:]
follows the same rule with d a_em/dL = beta0_qed a_em^2 through order[1]; mixed O(a_s a_em) terms are documented as
neglected.  They must return the adjusted array on every path.
"""
from fractions import Fraction

import z3

from .kern import *  # noqa
from symx.solver import explore, prove_zero, prove_formula
from symx import harness as H

MOD = "harness.C21"
DIMS = {"ns": None, "singlet": 2, "valence": 2, "singlet4": 4}


# ---------------------------------------------------------------------------
# oracle: series in a' whose coefficients are polynomials in L over a (matrix) algebra
# ---------------------------------------------------------------------------
def _is_arr(x):
    return isinstance(x, realnp.ndarray)


def _prod(x, y):
    """ordered product of two coefficients (matrix product when both are matrices)"""
    if _is_arr(x) and _is_arr(y):
        return x @ y
    return x * y


class LP:
    """polynomial in L: {power: coefficient}; coefficients are numbers, SR or square object arrays"""

    def __init__(self, d=None):
        self.d = dict(d or {})

    def __add__(self, o):
        r = dict(self.d)
        for p, c in o.d.items():
            r[p] = (r[p] + c) if p in r else c
        return LP(r)

    def __mul__(self, o):
        r = {}
        for p, c in self.d.items():
            for q, e in o.d.items():
                t = _prod(c, e)
                r[p + q] = (r[p + q] + t) if (p + q) in r else t
        return LP(r)

    def integ(self):
        """primitive in L vanishing at L = 0"""
        return LP({p + 1: c * Fraction(1, p + 1) for p, c in self.d.items()})

    def at(self, L, zero=0):
        tot = zero
        for p, c in sorted(self.d.items()):
            tot = tot + c * L**p
        return tot


def _ser_mul(x, y, n):
    """product of two series (lists indexed by the power of a', entries LP or None) through a'^n"""
    out = [None] * (n + 1)
    for i, xi in enumerate(x):
        if xi is None:
            continue
        for j, yj in enumerate(y):
            if yj is None or i + j > n:
                continue
            t = xi * yj
            out[i + j] = t if out[i + j] is None else out[i + j] + t
    return out


def _ser_pow(x, k, n):
    r = [LP({0: 1})] + [None] * n
    for _ in range(k):
        r = _ser_mul(r, x, n)
    return r


def flow_back(bet, n):
    """a(L) = a(T-L) as a series in a' = a(T) through a'^n: list A[m] of LP (A[0] = None, A[1] = 1).
    Picard: [a'^m] of da/dL = sum_k bet[k] a^(k+2) only involves A[1..m-1]."""
    A = [None, LP({0: 1})] + [None] * (n - 1)
    for m in range(2, n + 1):
        rhs = LP()
        for k, b in enumerate(bet):
            if k + 2 > m:
                break
            c = _ser_pow(A[:m], k + 2, m)[m]
            if c is not None:
                rhs = rhs + LP({0: b}) * c
        A[m] = rhs.integ()
    return A


def gamma_series(gam, A, n):
    """[a'^m] sum_k gam[k] a(L)^(k+1), m = 1..n  (list indexed by m, entry 0 = None)"""
    out = [None] * (n + 1)
    for k, g in enumerate(gam):
        if k + 1 > n:
            break
        pw = _ser_pow(A, k + 1, n)
        for m in range(1, n + 1):
            if pw[m] is None:
                continue
            t = LP({p: g * c for p, c in pw[m].d.items()})
            out[m] = t if out[m] is None else out[m] + t
    return out


def ordered_exponential(Gam, n, one):
    """G[m], m = 0..n-1, of dG/dL = (sum_i a'^i Gam[i]) G, G(0) = 1; Gam on the left."""
    G = [LP({0: one})]
    for m in range(1, n):
        rhs = LP()
        for i in range(1, m + 1):
            if Gam[i] is not None:
                rhs = rhs + Gam[i] * G[m - i]
        G.append(rhs.integ())
    return G


def ref_exponentiated(gam, bet, n, L):
    """adjusted gamma_j, j < n (entries beyond the requested order are left alone)"""
    A = flow_back(bet, n)
    Gam = gamma_series(list(gam[:n]), A, n)
    return [Gam[j + 1].at(L) for j in range(n)]


def ref_expanded_coeffs(gam, bet, n, L, dim):
    """[G_0(L), .., G_{n-1}(L)]"""
    one = _eye(dim) if dim else 1
    A = flow_back(bet, max(n, 1))
    Gam = gamma_series(list(gam[:n]), A, max(n, 1))
    G = ordered_exponential(Gam, n, one)
    return [g.at(L) for g in G]


def _eye(dim):
    m = realnp.empty((dim, dim), dtype=object)
    for i in range(dim):
        for j in range(dim):
            m[i, j] = SR(1 if i == j else 0)
    return m


# ---------------------------------------------------------------------------
# symbolic environment
# ---------------------------------------------------------------------------
class SVBeta:
    """Stand-in for the module `eko.beta` in the scale-variation modules: every coefficient is a symbol named after
    the function, its order key and whether nf / nl arrived in the right slots."""

    def __init__(self, real, nf, nl):
        self._real, self._nf, self._nl = real, nf, nl
        self.calls = []

    def __getattr__(self, n):
        return getattr(self._real, n)

    def _same(self, x, y):
        return isinstance(x, SR) and (x - y).is_zero()

    def _sym(self, name, ok):
        self.calls.append(name)
        return SR.var(name if ok else name + "_WRONGARGS")

    def beta_qcd(self, k, nf):
        return self._sym("bqcd_%d_%d" % (k[0], k[1]), self._same(nf, self._nf))

    def beta_qed(self, k, nf, nl):
        return self._sym("bqed_%d_%d" % (k[0], k[1]), self._same(nf, self._nf) and self._same(nl, self._nl))

    def beta_qcd_as2(self, nf):
        return self.beta_qcd((2, 0), nf)

    def beta_qcd_as3(self, nf):
        return self.beta_qcd((3, 0), nf)

    def beta_qcd_as4(self, nf):
        return self.beta_qcd((4, 0), nf)

    def beta_qed_aem2(self, nf, nl):
        return self.beta_qed((0, 2), nf, nl)


def _rg(mods, nf, nl):
    """returns (nf argument, nl argument, [beta0, beta1, beta2], beta0_qed, restore())"""
    if nf is None:
        nfs, nls = SR.var("nf"), SR.var("nl")
        saved = [(m, m.beta) for m in mods]
        for m in mods:
            m.beta = SVBeta(m.beta, nfs, nls)

        def restore():
            for m, b in saved:
                m.beta = b

        bet = [SR.var("bqcd_%d_0" % k) for k in (2, 3, 4)]
        return nfs, nls, bet, SR.var("bqed_0_2"), restore
    # concrete nf: the real eko.beta read exactly (floats as the rationals they denote); _lit_close ties the values
    # to the literature within 1e-11 (the float literals of eko.beta carry rounding at the 1e-16 level)
    import eko.beta as B

    bet = [SR(0) + B.beta_qcd((k, 0), SR(nf)) for k in (2, 3, 4)]
    return SR(nf), SR(nl), bet, SR(0) + B.beta_qed((0, 2), SR(nf), SR(nl)), (lambda: None)


def _lit_close(log, nf, nl):
    """the beta coefficients the concrete-nf references are built from agree with the literature (rel. 1e-11)"""
    if nf is None:
        return
    from refs import rge_literature as lit
    from symx.solver import prove_rel
    import eko.beta as B

    tol = Fraction(1, 10**11)
    pairs = [("beta0", B.beta_qcd((2, 0), SR(nf)), lit.beta0(nf)), ("beta1", B.beta_qcd((3, 0), SR(nf)), lit.beta1(nf)),
             ("beta2", B.beta_qcd((4, 0), SR(nf)), lit.beta2(nf)), ("beta0_qed", B.beta_qed((0, 2), SR(nf), SR(nl)), lit.beta_qed0(nf, nl))]
    for name, got, want in pairs:
        d = SR(0) + got - want
        v = prove_rel(d * d - (tol * want) ** 2, "<=0", "eko.beta %s(nf=%d, nl=%d) within 1e-11 of the literature value" % (name, nf, nl))
        log.decide(v, key="beta:%s" % name, replay=None)


def _scalar_gammas(n, tag="g"):
    a = realnp.empty(n, dtype=object)
    for k in range(n):
        a[k] = SR.var("%s%d" % (tag, k))
    return a


def _matrix_gammas(n, dim, tag="g"):
    a = realnp.empty((n, dim, dim), dtype=object)
    for k in range(n):
        for i in range(dim):
            for j in range(dim):
                a[k, i, j] = SR.var("%s%d_%d%d" % (tag, k, i, j))
    return a


def _qed_gammas(order, dim):
    """gamma[i, j] ~ a_s^i a_em^j, shape (order[0]+1, order[1]+1[, dim, dim]); [0,0] is zero as in ekore"""
    shape = (order[0] + 1, order[1] + 1) + ((dim, dim) if dim else ())
    a = realnp.empty(shape, dtype=object)
    for i in range(shape[0]):
        for j in range(shape[1]):
            if dim:
                for r in range(dim):
                    for c in range(dim):
                        a[i, j, r, c] = SR(0) if i == j == 0 else SR.var("g%d%d_%d%d" % (i, j, r, c))
            else:
                a[i, j] = SR(0) if i == j == 0 else SR.var("g%d%d" % (i, j))
    return a


def _copy(a):
    return realnp.array(a, dtype=object, copy=True)


def _entries(x):
    """[(index tuple, entry)] of a scalar or an object array"""
    if _is_arr(x):
        return [(idx, x[idx]) for idx in realnp.ndindex(x.shape)]
    return [((), x)]


def _decide(log, v, key, rp, **kw):
    """log.decide, but once a violation with this key has been replayed in this case further failing obligations of the
    same key are only recorded (status as answered by the solver), not replayed again."""
    if not v.holds and any(x["key"] == key for x in log.violations):
        log.obligations.append({"case": log.case, "what": v.what, "status": v.status, "time_s": round(v.time, 4), "residual_terms": v.nterms})
        return False
    return log.decide(v, key=key, replay=rp, **kw)


def _eq(log, got, want, what, key, rp):
    """got == want (both scalars or arrays of the same shape).  One solver query per call: "some entry's residual
    numerator is non-zero" must be unsat; if it is not, the entries are decided one by one to obtain the failing entry and
    a model for the replay."""
    if _is_arr(want) != _is_arr(got) or (_is_arr(got) and got.shape != want.shape):
        raise EngineError("%s: shapes differ (%r vs %r)" % (what, getattr(got, "shape", None), getattr(want, "shape", None)))
    pairs = list(zip(_entries(got), _entries(want)))
    if len(pairs) > 1:
        nz = []
        for (idx, g), (_i, w) in pairs:
            nz += [n for n in (m.reduce() for m in S.numerators(Cx.lift(g) - Cx.lift(w))) if n.t]
        goal = z3.And([S.poly_to_z3(n) == 0 for n in nz]) if nz else z3.BoolVal(True)
        v = prove_formula(goal, "%s (all %d entries)" % (what, len(pairs)))
        if v.holds:
            if not nz:
                S.STATS["trivial"] += 1
            v.nterms = sum(len(n.t) for n in nz)
            return _decide(log, v, key, rp, sampler=_sampler)
    for (idx, g), (_i, w) in pairs:
        v = prove_zero(Cx.lift(g) - Cx.lift(w), "%s%s" % (what, list(idx) if idx else ""))
        if not _decide(log, v, key, rp, sampler=_sampler):
            return False
    return True


def _returned(log, got, what, key, rp):
    """A scale-variation routine has to hand back the adjusted array.  The question put to the solver is whether the
    path that ended in `return None` is feasible under the domain and path condition.  One replayed violation per
    case and key is enough: further configurations hitting the same `return None` are listed as notes."""
    if got is not None:
        return True
    if any(v["key"] == key for v in log.violations):
        tag = "also returns None (same key %s): " % key
        prev = [i for i, n in enumerate(log.notes) if n.startswith(tag)]
        if prev:
            log.notes[prev[0]] += "; " + what.split(":")[0]
        else:
            log.notes.append(tag + what.split(":")[0])
        return False
    v = prove_formula(z3.BoolVal(False), what)
    log.decide(v, key=key, replay=rp, candidates=[{}], sampler=None)
    return False


# ---------------------------------------------------------------------------
# cases
# ---------------------------------------------------------------------------
def case_exponentiated(log, kind, nf, orders=(1, 2, 3, 4)):
    ex = sym_module("eko.scale_variations.exponentiated")
    log.encode(ex.gamma_variation)
    dim = DIMS[kind]

    def run():
        nfs, _nl, bet, _bq, restore = _rg([ex], nf, 3)
        try:
            _lit_close(log, nf, 3)
            L = SR.var("L")
            for n in orders:
                # the array is as long as the theory needs (n entries) and, once, longer: entries beyond the order stay
                for length in ((n, 4) if n < 4 else (n,)):
                    gam = _scalar_gammas(length) if dim is None else _matrix_gammas(length, dim)
                    pristine = _copy(gam)
                    got = ex.gamma_variation(gam, (n, 0), nfs, L)
                    rp = (MOD, "replay_exponentiated", {"kind": kind, "order": n, "nf": nf})
                    key = "exponentiated.gamma_variation:%d" % n
                    tag = "gamma_variation %s order %d nf %s len %d" % (kind, n, nf, length)
                    if not _returned(log, got, tag + ": returns the adjusted array", key + ":return", rp):
                        continue
                    ref = ref_exponentiated([pristine[k] for k in range(length)], bet, n, L)
                    for j in range(length):
                        want = ref[j] if j < n else pristine[j]
                        _eq(log, got[j], want, "%s: gamma'[%d] == [a'^%d] gamma(a(mu^2))" % (tag, j, j + 1), key, rp)
                        _eq(log, gam[j], want, "%s: argument updated in place, entry %d" % (tag, j), key + ":inplace", rp)
        finally:
            restore()
        log.twin("domain")
        log.collect_ctx()

    _r, pm = explore(run)
    log.path_stats(pm)
    _validate_exponentiated(log, kind)


def _qed_orders(thorough=True):
    return [(i, j) for i in (1, 2, 3, 4) for j in (1, 2)]  # QED kernels are entered only with order[1] >= 1


def case_exponentiated_qed(log, kind, nf, nl=3, running=True, orders=None):
    ex = sym_module("eko.scale_variations.exponentiated")
    log.encode(ex.gamma_variation_qed, ex.gamma_variation)
    dim = DIMS[kind]

    def run():
        nfs, nls, bet, bq, restore = _rg([ex], nf, nl)
        try:
            _lit_close(log, nf, nl)
            L = SR.var("L")
            for order in orders or _qed_orders():
                gam = _qed_gammas(order, dim)
                pristine = _copy(gam)
                got = ex.gamma_variation_qed(gam, order, nfs, nls, L, running)
                rp = (MOD, "replay_exponentiated_qed", {"kind": kind, "order": list(order), "nf": nf, "nl": nl, "running": running})
                key = "exponentiated.gamma_variation_qed"
                tag = "gamma_variation_qed %s order %s nf %s alphaem_running=%s" % (kind, order, nf, running)
                if not _returned(log, got, tag + ": returns the adjusted anomalous dimensions", key + ":return", rp):
                    continue
                want = _copy(pristine)
                qcd = ref_exponentiated([pristine[k, 0] for k in range(1, order[0] + 1)], bet, order[0], L)
                for k in range(order[0]):
                    want[k + 1, 0] = qcd[k]
                if running:
                    qed = ref_exponentiated([pristine[0, k] for k in range(1, order[1] + 1)], [bq], order[1], L)
                    for k in range(order[1]):
                        want[0, k + 1] = qed[k]
                for i in range(order[0] + 1):
                    for j in range(order[1] + 1):
                        _eq(log, got[i, j], want[i, j], "%s: gamma'[%d,%d] == RG re-expansion" % (tag, i, j), key + ":%d%d" % order, rp)
        finally:
            restore()
        log.twin("domain")
        log.collect_ctx()

    _r, pm = explore(run)
    log.path_stats(pm)


def _jet_coeffs(x, n, what):
    """coefficients a'^0..a'^(n-1) of a jet / scalar / array of jets, plus a check that nothing sits at or above a'^n"""
    def one(e):
        j = as_jet(e)
        if j.prec < INF:
            raise EngineError("%s: kernel is not an exact polynomial in the coupling (precision %d)" % (what, j.prec))
        return j
    if _is_arr(x):
        js = {idx: one(x[idx]) for idx in realnp.ndindex(x.shape)}
        deg = max([j.v + len(j.c) - 1 for j in js.values() if j.c] or [0])
        cs = []
        for m in range(max(n, deg + 1)):
            a = realnp.empty(x.shape, dtype=object)
            for idx, j in js.items():
                a[idx] = j._known(m)
            cs.append(a)
        return cs
    j = one(x)
    deg = (j.v + len(j.c) - 1) if j.c else 0
    return [j._known(m) for m in range(max(n, deg + 1))]


def _check_expanded(log, K, ref, n, zero, tag, key, rp):
    cs = _jet_coeffs(K, n, tag)
    for m, c in enumerate(cs):
        want = ref[m] if m < len(ref) else zero
        _eq(log, c, want, "%s: [a'^%d] K == %s" % (tag, m, "G_%d(L) of the ordered exponential" % m if m < len(ref) else "0 (truncation)"), key, rp)


def case_expanded(log, kind, nf, orders=(1, 2, 3, 4)):
    xp = sym_module("eko.scale_variations.expanded")
    fn = xp.non_singlet_variation if kind == "ns" else xp.singlet_variation
    log.encode(fn, xp.variation_as1, xp.variation_as2, xp.variation_as3)
    dim = DIMS[kind]
    jetmod.set_cap(8)

    def run():
        nfs, _nl, bet, _bq, restore = _rg([xp], nf, 3)
        try:
            _lit_close(log, nf, 3)
            L = SR.var("L")
            a_s = Jet.lam()
            for n in orders:
                gam = _scalar_gammas(n) if dim is None else _matrix_gammas(n, dim)
                pristine = _copy(gam)
                K = fn(gam, a_s, (n, 0), nfs, L) if dim is None else fn(gam, a_s, (n, 0), nfs, L, dim)
                rp = (MOD, "replay_expanded", {"kind": kind, "order": n, "nf": nf})
                key = "expanded.%s:%d" % (fn.__name__, n)
                tag = "%s order %d nf %s" % (fn.__name__, n, nf)
                if not _returned(log, K, tag + ": returns a kernel", key + ":return", rp):
                    continue
                ref = ref_expanded_coeffs([pristine[k] for k in range(n)], bet, n, L, dim)
                zero = (_eye(dim) * 0) if dim else SR(0)
                _check_expanded(log, K, ref, n, zero, tag, key, rp)
                _eq(log, gam, pristine, "%s: anomalous dimensions left untouched" % tag, key + ":pure", rp)
        finally:
            restore()
        log.twin("domain")
        log.collect_ctx()

    _r, pm = explore(run)
    log.path_stats(pm)
    _validate_expanded(log, kind)


def case_expanded_qed(log, kind, nf, nl=3, running=True, orders=None):
    xp = sym_module("eko.scale_variations.expanded")
    fn = {"ns": xp.non_singlet_variation_qed, "singlet4": xp.singlet_variation_qed, "valence": xp.valence_variation_qed}[kind]
    log.encode(fn, xp.non_singlet_variation, xp.singlet_variation, xp.variation_as1, xp.variation_as2, xp.variation_as3)
    dim = DIMS[kind]
    jetmod.set_cap(8)

    def run():
        nfs, nls, bet, bq, restore = _rg([xp], nf, nl)
        try:
            _lit_close(log, nf, nl)
            L = SR.var("L")
            a_s = Jet.lam()
            # a_em is tied to the same formal parameter: a_em = lam * e with e symbolic, so that the power of e
            # separates the alpha_em axis from the QCD one inside each coefficient
            e = SR.var("e_em")
            a_em = Jet.lam() * e
            for order in orders or _qed_orders():
                gam = _qed_gammas(order, dim)
                pristine = _copy(gam)
                K = fn(gam, a_s, a_em, running, order, nfs, L)
                rp = (MOD, "replay_expanded_qed", {"kind": kind, "order": list(order), "nf": nf, "nl": nl, "running": running})
                key = "expanded.%s:%d%d" % (fn.__name__, order[0], order[1])
                tag = "%s order %s nf %s alphaem_running=%s" % (fn.__name__, order, nf, running)
                if not _returned(log, K, tag + ": returns a kernel", key + ":return", rp):
                    continue
                n = order[0]
                ref = ref_expanded_coeffs([pristine[k, 0] for k in range(1, n + 1)], bet, n, L, dim)
                if running:
                    # pure-QED axis: ordered exponential in a_em through order[1], minus the unit already counted
                    em = ref_expanded_coeffs([pristine[0, k] for k in range(1, order[1] + 1)], [bq], order[1], L, dim)
                    for m in range(1, len(em)):
                        while len(ref) <= m:
                            ref.append((_eye(dim) * 0) if dim else SR(0))
                        ref[m] = ref[m] + em[m] * e**m
                zero = (_eye(dim) * 0) if dim else SR(0)
                _check_expanded(log, K, ref, n, zero, tag, key, rp)
                _eq(log, gam, pristine, "%s: anomalous dimensions left untouched" % tag, key + ":pure", rp)
        finally:
            restore()
        log.twin("domain")
        log.collect_ctx()

    _r, pm = explore(run)
    log.path_stats(pm)


def case_group(log, which, kinds, **kw):
    """several kinds (scalar / 2x2 / 4x4) of one routine family in one worker (fewer process start-ups)"""
    for kind in kinds:
        globals()[which](log, kind=kind, **kw)


def case_oracle(log):
    """Self-consistency of the oracle: flowing back by L and forth by L is the identity through a'^5, and
    d a(L)/dL == sum_k beta_k a(L)^(k+2) coefficient by coefficient (AD in L)."""
    def run():
        L = SR.var("L", seed=True)
        bet = [SR.var("beta%d" % k) for k in range(4)]
        n = 5
        A = flow_back(bet, n)
        B = flow_back([-b for b in bet], n)  # forward flow = backward flow of the reflected beta function
        comp = [None] * (n + 1)
        for m in range(1, n + 1):
            pw = _ser_pow(A, m, n)
            for q in range(1, n + 1):
                if pw[q] is None or B[m] is None:
                    continue
                t = B[m] * pw[q]
                comp[q] = t if comp[q] is None else comp[q] + t
        for q in range(1, n + 1):
            val = comp[q].at(L) - (1 if q == 1 else 0)
            v = prove_zero(SR(0) + val, "oracle: flow(+L) o flow(-L) = id at a'^%d" % q)
            log.decide(v, key="oracle:flow", replay=None)
        rhs = [None] * (n + 1)
        for k, b in enumerate(bet):
            pw = _ser_pow(A, k + 2, n)
            for q in range(1, n + 1):
                if pw[q] is not None:
                    t = LP({0: b}) * pw[q]
                    rhs[q] = t if rhs[q] is None else rhs[q] + t
        for q in range(1, n + 1):
            lhs = (SR(0) + A[q].at(L)).tangent()
            r = rhs[q].at(L) if rhs[q] is not None else 0
            v = prove_zero(lhs - r, "oracle: d a(L)/dL == sum beta_k a(L)^(k+2) at a'^%d" % q)
            log.decide(v, key="oracle:ode", replay=None)
        log.twin("domain")

    _r, pm = explore(run)
    log.path_stats(pm)


# ---------------------------------------------------------------------------
# translator validation: symbolic result evaluated at a point == the real function on floats
# ---------------------------------------------------------------------------
def _validate_exponentiated(log, kind):
    import numpy as np

    real = real_module("eko.scale_variations.exponentiated")
    ex = sym_module("eko.scale_variations.exponentiated")
    dim = DIMS[kind]
    for _ in range(3):
        pt = _sampler(log.rng)
        ctx.reset()
        n, nf = 4, 4
        gam = _scalar_gammas(n) if dim is None else _matrix_gammas(n, dim)
        got = ex.gamma_variation(gam, (n, 0), SR(nf), SR.var("L"))
        env = S.NumEnv(pt)
        f = fpoint(pt)
        g = np.zeros((n,) + ((dim, dim) if dim else ()), dtype=complex)
        for idx in np.ndindex(g.shape):
            name = ("g%d" % idx[0]) if dim is None else "g%d_%d%d" % idx
            g[idx] = f[name]
        num = real.gamma_variation(g, (n, 0), nf, f["L"])
        for idx in np.ndindex(g.shape):
            s = env.value(got[idx])
            if abs(s - num[idx]) > 1e-9 * max(1.0, abs(num[idx])):
                log.inconclusive.append("translator validation failed for gamma_variation %s at %r" % (kind, idx))
        log.validate()


def _validate_expanded(log, kind):
    import numpy as np

    real = real_module("eko.scale_variations.expanded")
    xp = sym_module("eko.scale_variations.expanded")
    dim = DIMS[kind]
    for _ in range(3):
        pt = _sampler(log.rng)
        ctx.reset()
        n, nf = 4, 5
        gam = _scalar_gammas(n) if dim is None else _matrix_gammas(n, dim)
        a = SR.var("a_s")
        got = xp.non_singlet_variation(gam, a, (n, 0), SR(nf), SR.var("L")) if dim is None else xp.singlet_variation(gam, a, (n, 0), SR(nf), SR.var("L"), dim)
        env = S.NumEnv(pt)
        f = fpoint(pt)
        g = np.zeros((n,) + ((dim, dim) if dim else ()), dtype=complex)
        for idx in np.ndindex(g.shape):
            name = ("g%d" % idx[0]) if dim is None else "g%d_%d%d" % idx
            g[idx] = f[name]
        num = real.non_singlet_variation(g, f["a_s"], (n, 0), nf, f["L"]) if dim is None else real.singlet_variation(g, f["a_s"], (n, 0), nf, f["L"], dim)
        for idx, e in _entries(got):
            s = env.value(e)
            r = num[idx] if idx else num
            if abs(s - r) > 1e-9 * max(1.0, abs(r)):
                log.inconclusive.append("translator validation failed for expanded %s at %r" % (kind, idx))
        log.validate()


# ---------------------------------------------------------------------------
# replays: the REAL functions on floats against a numerically integrated renormalisation group
# ---------------------------------------------------------------------------
def _sampler(rng):
    p = {"L": rnd(rng, -2, 2), "a_s": rnd(rng, 0.01, 0.05), "e_em": rnd(rng, 0.1, 1)}
    for k in range(5):
        p["g%d" % k] = rnd(rng, -3, 3) * 4**k
        for i in range(4):
            for j in range(4):
                p["g%d_%d%d" % (k, i, j)] = rnd(rng, -3, 3) * 4**k
        for l in range(3):
            p["g%d%d" % (k, l)] = rnd(rng, -3, 3) * 4 ** (k + l)
            for i in range(4):
                for j in range(4):
                    p["g%d%d_%d%d" % (k, l, i, j)] = rnd(rng, -3, 3) * 4 ** (k + l)
    return p


def _fval(point, name, default):
    try:
        return float(Fraction(point[name])) if name in point else default
    except (ValueError, ZeroDivisionError):
        return default


def _num_gammas(point, n, dim, pattern="g%d", mpattern="g%d_%d%d", first=0):
    import numpy as np

    g = np.zeros((n,) + ((dim, dim) if dim else ()), dtype=complex)
    for idx in np.ndindex(g.shape):
        k = idx[0] + first
        name = (pattern % k) if not dim else mpattern % ((k,) + idx[1:])
        # default: a fixed non-commuting, complex pattern
        default = (1.0 + 0.7 * k + (0.3 * idx[1] - 0.45 * idx[2] if dim else 0.0)) * 3.0**k
        g[idx] = complex(_fval(point, name, default), 0.2 * (1 + sum(idx)))
    return g


def _lit_betas(nf, nl=3):
    from refs import rge_literature as lit

    return [float(lit.beta0(nf)), float(lit.beta1(nf)), float(lit.beta2(nf))], float(lit.beta_qed0(nf, nl))


def _a_back(bet, ap, L):
    """a(T-L) for a(T) = ap: integrates da/dL = sum beta_k a^(k+2) numerically (mpmath Taylor-series ODE solver, 25
    digits, so that the oracle carries no noise at the 1e-16 level of the doubles it is compared with)."""
    import mpmath as mp

    if L == 0:
        return ap
    mp.mp.dps = 25
    sgn = 1 if L > 0 else -1
    f = mp.odefun(lambda x, y: [sgn * sum(mp.mpf(b) * y[0] ** (k + 2) for k, b in enumerate(bet))], 0, [mp.mpf(ap)], tol=mp.mpf(10) ** -22)
    return float(f(abs(mp.mpf(L)))[0])


def _clipL(point):
    """L of the candidate point mapped into 0.3 <= |L| <= 1.2 (asymptotic regime of the scaling tests below)"""
    L = _fval(point, "L", 0.7)
    if L == 0 or L != L:
        return 0.7
    return max(0.3, min(1.2, abs(L))) * (1 if L > 0 else -1)


def _exponent(errs, lams, floor=1e-25):
    import math

    pairs = [(l, e) for l, e in zip(lams, errs) if e > floor]
    if len(pairs) < 2:
        return 99.0
    (l1, e1), (l2, e2) = pairs[-2], pairs[-1]
    return math.log(e1 / e2) / math.log(l1 / l2)


LAMS = [1.0, 0.5, 0.25, 0.125]


def _exp_scaling(call, gam0, bet, n, L, what):
    """gamma(a(T-L)) - sum_j gamma'_j a'^(j+1) must vanish like a'^(n+1); returns a finding or None"""
    import numpy as np

    out = call(gam0.copy())
    if out is None:
        return {"detail": "%s returned None instead of the adjusted anomalous dimensions" % what}
    out = np.array(out, dtype=complex)
    errs = []
    for lam in LAMS:
        ap = 0.02 * lam
        a = _a_back(bet[: max(n - 1, 1)], ap, L)
        exact = sum(gam0[k] * a ** (k + 1) for k in range(n))
        approx = sum(out[j] * ap ** (j + 1) for j in range(n))
        errs.append(float(np.abs(exact - approx).max()))
    if max(errs) < 1e-15:
        return None
    ex = _exponent(errs, LAMS, floor=1e-17)
    if ex < n + 0.5:
        return {"detail": "%s: |gamma(a(mu^2)) - sum_j gamma'_j a(xi^2 mu^2)^(j+1)| at a' = 0.02*(1,1/2,1/4,1/8) = %r scales like a'^%.2f, "
                          "expected a'^%d (L=%r)" % (what, errs, ex, n + 1, L)}
    return None


def replay_exponentiated(point, kind, order, nf):
    import eko.scale_variations.exponentiated as real

    L = _clipL(point)
    dim = DIMS[kind]
    for nfx in ([nf] if nf is not None else [3, 4, 5, 6]):
        bet, _bq = _lit_betas(nfx)
        gam = _num_gammas(point, order, dim)
        r = _exp_scaling(lambda g: real.gamma_variation(g, (order, 0), nfx, L), gam, bet, order, L,
                         "gamma_variation(%s, order=(%d,0), nf=%d)" % (kind, order, nfx))
        if r:
            return r
        g = gam.copy()
        ret = real.gamma_variation(g, (order, 0), nfx, L)
        if ret is not None and not (abs(ret - g) < 1e-300).all():
            return {"detail": "gamma_variation: returned array differs from the argument updated in place"}
    return None


def _qed_num(point, order, dim):
    import numpy as np

    g = np.zeros((order[0] + 1, order[1] + 1) + ((dim, dim) if dim else ()), dtype=complex)
    for idx in np.ndindex(g.shape):
        i, j = idx[:2]
        if i == j == 0:
            continue
        name = ("g%d%d" % (i, j)) if not dim else "g%d%d_%d%d" % idx
        default = (1.0 + 0.7 * i + 0.4 * j + (0.3 * idx[2] - 0.45 * idx[3] if dim else 0.0)) * 3.0 ** (i + j)
        g[idx] = complex(_fval(point, name, default), 0.2 * (1 + sum(idx)))
    return g


def replay_exponentiated_qed(point, kind, order, nf, nl, running):
    import numpy as np
    import eko.scale_variations.exponentiated as real

    order = tuple(order)
    L = _clipL(point)
    dim = DIMS[kind]
    for nfx in ([nf] if nf is not None else [3, 4, 5, 6]):
        bet, bq = _lit_betas(nfx, nl)
        gam = _qed_num(point, order, dim)
        what = "gamma_variation_qed(%s, order=%s, nf=%d, nl=%d, alphaem_running=%s)" % (kind, order, nfx, nl, running)
        out = real.gamma_variation_qed(gam.copy(), order, nfx, nl, L, running)
        if out is None:
            return {"detail": "%s returned None instead of the adjusted anomalous dimensions (gamma.shape=%r, L=%r)" % (what, gam.shape, L)}
        out = np.array(out, dtype=complex)
        r = _exp_scaling(lambda g: real.gamma_variation_qed(_embed(gam, g, 0), order, nfx, nl, L, running)[1:, 0], gam[1:, 0].copy(), bet, order[0], L, what + " QCD axis")
        if r:
            return r
        if running:
            r = _exp_scaling(lambda g: real.gamma_variation_qed(_embed(gam, g, 1), order, nfx, nl, L, running)[0, 1:], gam[0, 1:].copy(), [bq], order[1], L, what + " QED axis")
            if r:
                return r
        else:
            if np.abs(out[0, 1:] - gam[0, 1:]).max() > 1e-12:
                return {"detail": "%s: pure-QED entries changed although alpha_em is fixed" % what}
        mixed = [(i, j) for i in range(1, order[0] + 1) for j in range(1, order[1] + 1)]
        for i, j in mixed:
            if np.abs(out[i, j] - gam[i, j]).max() > 1e-12:
                return {"detail": "%s: mixed entry [%d,%d] changed (documented as not varied)" % (what, i, j)}
    return None


def _embed(full, axis_vals, axis):
    g = full.copy()
    if axis == 0:
        g[1:, 0] = axis_vals
    else:
        g[0, 1:] = axis_vals
    return g


def _ordered_exp_num(gam, bet, ap, L, dim):
    """G(L): dG/dl = gamma(a(T-l)) G, G(0)=1, integrated together with a (scipy DOP853, complex)."""
    import numpy as np
    from scipy.integrate import solve_ivp

    d = dim or 1
    n = len(gam)

    def rhs(l, y):
        a = y[0].real
        G = y[1:].reshape(d, d)
        g = sum(np.reshape(gam[k], (d, d)) * a ** (k + 1) for k in range(n))
        da = sum(b * a ** (k + 2) for k, b in enumerate(bet))
        return np.concatenate([[da], (g @ G).reshape(-1)])

    y0 = np.concatenate([[ap], np.eye(d, dtype=complex).reshape(-1)]).astype(complex)
    sgn = 1.0 if L >= 0 else -1.0
    sol = solve_ivp(lambda l, y: sgn * rhs(l, y), (0.0, abs(L)), y0, rtol=1e-13, atol=1e-16, method="DOP853")
    return sol.y[1:, -1].reshape(d, d)


def _expanded_scaling(call, gam, bet, n, L, dim, what):
    import numpy as np

    errs = []
    for lam in LAMS:
        ap = 0.02 * lam
        K = call(ap)
        if K is None:
            return {"detail": "%s returned None" % what}
        K = np.reshape(np.array(K, dtype=complex), (dim or 1, dim or 1))
        G = _ordered_exp_num(gam, bet[: max(n - 1, 1)], ap, L, dim)
        errs.append(float(np.abs(K - G).max()))
    if max(errs) < 1e-13:
        return None
    ex = _exponent(errs, LAMS, floor=1e-14)
    if ex < n - 0.5:
        return {"detail": "%s: |K - Pexp(int gamma)| at a' = 0.02*(1,1/2,1/4,1/8) = %r scales like a'^%.2f, expected a'^%d (L=%r)" % (what, errs, ex, n, L)}
    return None


def replay_expanded(point, kind, order, nf):
    import eko.scale_variations.expanded as real

    L = _clipL(point)
    dim = DIMS[kind]
    for nfx in ([nf] if nf is not None else [3, 4, 5, 6]):
        bet, _bq = _lit_betas(nfx)
        gam = _num_gammas(point, order, dim)
        if dim is None:
            call = lambda ap: real.non_singlet_variation(gam, ap, (order, 0), nfx, L)
        else:
            call = lambda ap: real.singlet_variation(gam, ap, (order, 0), nfx, L, dim)
        r = _expanded_scaling(call, gam, bet, order, L, dim, "%s_variation(order=(%d,0), nf=%d)" % ("non_singlet" if dim is None else "singlet", order, nfx))
        if r:
            return r
    return None


def replay_expanded_qed(point, kind, order, nf, nl, running):
    import numpy as np
    import eko.scale_variations.expanded as real

    order = tuple(order)
    L = _clipL(point)
    dim = DIMS[kind]
    fn = {"ns": real.non_singlet_variation_qed, "singlet4": real.singlet_variation_qed, "valence": real.valence_variation_qed}[kind]
    for nfx in ([nf] if nf is not None else [3, 4, 5, 6]):
        bet, bq = _lit_betas(nfx, nl)
        gam = _qed_num(point, order, dim)
        what = "%s(order=%s, nf=%d, alphaem_running=%s)" % (fn.__name__, order, nfx, running)
        if fn(gam, 0.01, 0.002, running, order, nfx, L) is None:
            return {"detail": what + " returned None"}
        # QCD axis: a_em = 0
        r = _expanded_scaling(lambda ap: fn(gam, ap, 0.0, running, order, nfx, L), gam[1:, 0], bet, order[0], L, dim, what + " QCD axis (a_em=0)")
        if r:
            return r
        # QED axis: K(a_s, a_em) - K(a_s, 0) + 1 against the ordered exponential in a_em (absent for fixed alpha_em)
        a_s = 0.013

        def em_part(ap):
            return np.array(fn(gam, a_s, ap, running, order, nfx, L), dtype=complex) - np.array(fn(gam, a_s, 0.0, running, order, nfx, L), dtype=complex) + (np.eye(dim) if dim else 1.0)

        if running:
            r = _expanded_scaling(em_part, gam[0, 1:], [bq], order[1], L, dim, what + " QED axis")
            if r:
                return r
        else:
            d = em_part(0.05) - (np.eye(dim) if dim else 1.0)
            if np.abs(d).max() > 1e-12:
                return {"detail": what + ": kernel depends on a_em although alpha_em is fixed"}
    return None


# ---------------------------------------------------------------------------
def main():
    chk = H.Check("C21")
    import eko.scale_variations.expanded, eko.scale_variations.exponentiated, eko.beta  # noqa: F401  (imported once, inherited by the forked workers)

    thorough = H.tier() == "thorough"
    chk.bounds = [
        "QCD orders 1-4; QED orders (1-4, 1-2) (the QED routines are reached only with order[1] >= 1; with order[1] = 0 the QCD ones run), alphaem_running in {True, False}",
        "anomalous dimensions: scalar symbols; fully symbolic non-commuting 2x2 (singlet, QED valence) and 4x4 (QED singlet) matrices; real symbols",
        "L = ln xi^2 a free real symbol; the coupling a formal parameter (jet), kernels required to be exact polynomials of degree < n",
        "beta coefficients symbolic via a proxy for eko.beta (covers every nf, argument-checked) and the real eko.beta at nf = 4 (quick) / nf = 3..6 (thorough), nl = 3 (also 2 in thorough), against literature values",
        "arrays of exactly the length the order requires, and (QCD exponentiated) longer arrays whose surplus entries must stay untouched",
    ]
    chk.out_of_claim = [
        "floating point rounding; numba-compiled variants of the same functions",
        "mixed O(a_s a_em) variation terms (documented in the code as neglected)",
        "how Operator / quad_ker choose L, the coupling scale and the is_threshold flag (C51, C53)",
    ]
    chk.stubs = ["eko.beta -> SVBeta proxy (one symbol per coefficient key, checks the nf/nl slots) in the symbolic-beta runs; none in the concrete-nf runs"]
    chk.assumptions = ["anomalous-dimension entries real symbols: the outputs are polynomial in them, identities extend to complex values",
                       "oracle: order-by-order (Picard) solution of da/dL = sum beta_k a^(k+2) and dG/dL = gamma(a(L)) G in polynomials of L; self-checked in case `oracle`"]
    chk.case("oracle", case_oracle)
    nfs = [None, 4] + ([3, 5, 6] if thorough else [])
    for nf in nfs:
        t = "sym" if nf is None else "nf%d" % nf
        chk.case("exponentiated.%s" % t, case_group, which="case_exponentiated", kinds=["ns", "singlet"], nf=nf)
        chk.case("expanded.%s" % t, case_group, which="case_expanded", kinds=["ns", "singlet"], nf=nf)
        for running in (True, False):
            r = "run" if running else "fix"
            for nl in ((3, 2) if (thorough and nf is not None) else (3,)):
                suffix = "" if nl == 3 else ".nl2"
                for fam in ("exponentiated_qed", "expanded_qed"):
                    chk.case("%s.%s.%s%s" % (fam, r, t, suffix), case_group, which="case_" + fam, kinds=["ns", "singlet4", "valence"], nf=nf, nl=nl, running=running)
    return chk.run()


if __name__ == "__main__":
    import sys

    sys.exit(main())
