"""C19  Flavour-number paths through the matching scales are well formed.

Real functions executed symbolically (module global `np` of eko.matchings rebound to the shim):
Atlas.__init__, Atlas.normalize, Atlas.ffns, Atlas.path, Atlas.matched_path, nf_default,
is_downward_path, flavor_shift, Segment.is_downward.

Inputs: the three matching scales ("walls"), the origin scale and the target scale are symbolic
reals; the 25 combinations (nf0, nff) in {3,4,5,6,None}^2 are enumerated.  `np.inf` is modelled
by a symbol INF that is assumed larger than every finite scale of the run (the code only ever
compares it); `np.digitize` forks on the comparisons.

Goals, one obligation per clause of the statement (equalities between symbolic scales are
decided by the solver under the path condition):
  start, end (with the default nf = 3 + #{walls <= scale} when unspecified), contiguity, unit steps
  in one direction, every step exactly on the wall of the quark that is (de)activated, matched_path =
  path interleaved with one Matching per step (scale of the step, hq = heavier quark, inverse <=> nf
  decreases), is_downward_path / flavor_shift consistent with that.

The module also hosts the pieces shared with C02 and C53 (numpy facade with INF, plain path oracle).
"""
from fractions import Fraction

import z3

from .common import *  # noqa
from symx.solver import explore, prove_zero, prove_formula
from symx import harness as H
from symx import shim as _shim
from symx.val import EngineError, SymbolicEscape

MOD = "harness.C19"

# str(Atlas) formats the walls with "{w:.2e}" (only for a log line): let symbolic scales be formattable.
SR.__format__ = lambda self, spec: "<sym>"

NFS = (3, 4, 5, 6)
BIG = Fraction(10) ** 30  # numeric stand-in for INF when a symbolic result is evaluated at a point


class RunnerNumpy(_shim.SymNumpy):
    """numpy facade for the matching / runner modules: `np.inf` is the symbol INF."""

    @property
    def inf(self):
        return SR.var("INF")

    # -- finiteness: the only non-finite value of a run is the symbol INF itself -------------------------------
    @staticmethod
    def _is_inf(e):
        if isinstance(e, SR):
            if (e - SR.var("INF")).is_zero():
                return True
            from symx import poly as _P

            if "INF" in _P.INDEX and _P.INDEX["INF"] in e.v.vars():
                raise SymbolicEscape("arithmetic on the infinite wall: %r" % (e,))
            return False
        return bool(_shim.realnp.isinf(e))

    def isinf(self, x):
        if isinstance(x, (list, tuple, _shim.realnp.ndarray)):
            return _shim.realnp.array([self._is_inf(e) for e in x], dtype=bool)
        return self._is_inf(x)

    def isfinite(self, x):
        if isinstance(x, (list, tuple, _shim.realnp.ndarray)):
            return _shim.realnp.array([self.isfinite(e) for e in x], dtype=bool)
        if isinstance(x, SR):
            return not self._is_inf(x)
        return bool(_shim.realnp.isfinite(x))

    def digitize(self, x, bins, right=False):
        """numpy.digitize, including its refusal of non-monotonic bins (ValueError)."""
        if not (_shim._is_obj(x) or _shim._is_obj(bins)):
            return _shim.realnp.digitize(x, bins, right=right)
        bl = list(bins)

        def holds(c):
            return c if isinstance(c, bool) else bool(c)

        if not all(holds(_le(a, b)) for a, b in zip(bl, bl[1:])):
            if all(holds(_le(b, a)) for a, b in zip(bl, bl[1:])):
                raise SymbolicEscape("numpy.digitize with decreasing symbolic bins is not modelled")
            raise ValueError("bins must be monotonically increasing or decreasing")
        return _shim.SymNumpy.digitize(self, x, bl, right=right)


def sym_runner_module(name):
    import importlib

    mod = importlib.import_module(name)
    _shim.install(mod, np=RunnerNumpy())
    return mod


# ---------------------------------------------------------------------------
# z3 helpers
# ---------------------------------------------------------------------------
TOUCH = {"sym": False}  # set when a goal is built from symbolic values (for the non-trivial obligation count)


def touched():
    r = TOUCH["sym"]
    TOUCH["sym"] = False
    return r


def zb(c):
    """python bool / SymBool / ZBool -> z3 Bool"""
    if isinstance(c, bool):
        return z3.BoolVal(c)
    TOUCH["sym"] = True
    return S.symbool_to_z3(c)


def zeq(a, b):
    """z3 formula  a == b  for scales (SR or numbers)"""
    if not isinstance(a, SR) and not isinstance(b, SR):
        return z3.BoolVal(a == b)
    if (isinstance(a, SR) and not a.is_const()) or (isinstance(b, SR) and not b.is_const()):
        TOUCH["sym"] = True
    d = (a - b) if isinstance(a, SR) else -(b - a)
    n = d.v.n.reduce()
    if not n.t:
        return z3.BoolVal(True)
    return S.poly_to_z3(n) == 0


def zand(xs):
    xs = list(xs)
    return z3.And(xs) if xs else z3.BoolVal(True)


# ---------------------------------------------------------------------------
# deciding with bounded replay effort (a replay = one clean interpreter importing eko, ~10 s)
# ---------------------------------------------------------------------------
class Decider:
    """Wrapper around CaseLog.decide: per case, one replayed counterexample per key and at most `max_replays`
    replay processes; the model point and a few sampler points are tried inside a single replay process."""

    def __init__(self, log, max_replays=3, nextra=4):
        self.log = log
        self.hit = set()
        self.replays = 0
        self.max_replays = max_replays
        self.nextra = nextra

    def __call__(self, verdict, key, replay, sampler=None, candidates=(), nontrivial=True):
        """nontrivial: the goal was built from at least one symbolic input (counted in the evidence)"""
        log = self.log
        if verdict.holds:
            log.ok(verdict, {"nontrivial": bool(nontrivial)})
            return True
        if key in self.hit or self.replays >= self.max_replays:
            log.obligations.append({"case": log.case, "what": verdict.what, "status": verdict.status, "time_s": round(verdict.time, 4), "nontrivial": bool(nontrivial),
                                    "residual_terms": verdict.nterms, "note": "not replayed (same key already reproduced, or replay budget spent)"})
            if key not in self.hit:
                log.inconclusive.append("%s/%s: solver answered %s; replay budget of the case spent" % (log.case, verdict.what, verdict.status))
            return False
        self.replays += 1
        extra = list(candidates) + ([sampler(log.rng) for _ in range(self.nextra)] if sampler is not None else [])
        mod, fn, kw = replay
        nv = len(log.violations)
        log.decide(verdict, key=key, replay=(MOD, "replay_multi", {"mod": mod, "fn": fn, "extra": extra, "kw": kw}), candidates=[{}] if not verdict.model else ())
        if len(log.violations) > nv:
            self.hit.add(key)
        return False


def replay_multi(point, mod, fn, extra, kw):
    import importlib

    f = getattr(importlib.import_module(mod), fn)
    for p in [point] + list(extra):
        r = f(dict(p), **kw)
        if r:
            return r
    return None


# ---------------------------------------------------------------------------
# symbolic wall configurations
# ---------------------------------------------------------------------------
def wall_shapes(thorough):
    """A shape is a tuple of three tokens: '0', 'INF' or a symbol name; equal names = coincident walls;
    consecutive distinct symbols are related by `rel` ('<=' or '<')."""
    quick = [
        ("w1", "w2", "w3"),
        ("w1", "w1", "w3"), ("w1", "w2", "w2"), ("w1", "w1", "w1"),
        ("w1", "w2", "INF"), ("w1", "INF", "INF"), ("INF", "INF", "INF"),
        ("0", "w2", "w3"), ("0", "0", "INF"),
    ]
    if not thorough:
        return quick
    out = []
    for nz in range(4):
        for ni in range(4 - nz):
            m = 3 - nz - ni
            mids = {0: [()], 1: [("w1",)], 2: [("w1", "w2"), ("w1", "w1")],
                    3: [("w1", "w2", "w3"), ("w1", "w1", "w3"), ("w1", "w2", "w2"), ("w1", "w1", "w1")]}[m]
            for mid in mids:
                out.append(("0",) * nz + mid + ("INF",) * ni)
    return out


def make_walls(shape, rel="<=", free=False):
    """-> (list of three wall values for the code, assumptions installed)."""
    vals = []
    syms = []
    for tok in shape:
        if tok == "0":
            vals.append(0)
        elif tok == "INF":
            vals.append(SR.var("INF"))
        else:
            v = SR.var(tok)
            vals.append(v)
            if tok not in [s for s, _ in syms]:
                syms.append((tok, v))
    for _n, v in syms:
        assume(v, ">0")
    if not free:
        for (_a, x), (_b, y) in zip(syms, syms[1:]):
            assume(y - x, ">=0" if rel == "<=" else ">0")
    return vals


def finite_below_inf(*scales):
    inf = SR.var("INF")
    for s in scales:
        if isinstance(s, SR):
            if s is not inf and not (s - inf).is_zero():
                assume(inf - s, ">0")


def make_scale(name, spec, walls):
    """spec: 'generic' | 'wall1'..'wall3' | ('same', other)"""
    if spec == "generic":
        v = SR.var(name)
        assume(v, ">0")
        return v
    if isinstance(spec, str) and spec.startswith("wall"):
        return walls[int(spec[4:]) - 1]
    raise ValueError(spec)


def default_nf_formula(mu, W):
    """3 + #{k : W[k] <= mu}  over the three walls, as z3 Int term (W = own symbols)."""
    terms = [z3.If(zb(_ge(mu, w)), 1, 0) for w in W]
    return 3 + z3.Sum(terms)


def _ge(a, b):
    if isinstance(a, SR):
        return a >= b
    if isinstance(b, SR):
        return b <= a
    return a >= b


def _le(a, b):
    return _ge(b, a)


def _gt(a, b):
    if isinstance(a, SR):
        return a > b
    if isinstance(b, SR):
        return b < a
    return a > b


# ---------------------------------------------------------------------------
# the case
# ---------------------------------------------------------------------------
def _scale_ok(spec, shape):
    """a scale sitting on a wall must be finite and positive"""
    if isinstance(spec, str) and spec.startswith("wall"):
        return shape[int(spec[4:]) - 1] not in ("0", "INF")
    return True


def case_paths(log, shape, rel="<=", free=False, o_spec="generic", t_spec="generic", via_ffns=None, pairs=None, pre_query=False):
    m = sym_runner_module("eko.matchings")
    log.encode(m.Atlas.__init__, m.Atlas.normalize, m.Atlas.path, m.Atlas.matched_path, m.Atlas.ffns, m.nf_default,
               m.is_downward_path, m.flavor_shift)
    from eko.quantities.heavy_quarks import MatchingScales

    decide = Decider(log, max_replays=12)  # one replay per distinct failing clause
    if pairs is None:
        nfo = NFS if free else NFS + (None,)
        pairs = [(a, b) for a in nfo for b in nfo]
    for nf0, nff in pairs:
        kw = {"shape": list(shape), "nf0": nf0, "nff": nff, "o_spec": o_spec, "t_spec": t_spec, "free": free, "rel": rel,
              "via_ffns": via_ffns, "pre_query": pre_query}
        tag = "[%s|%s->%s|o=%s,t=%s%s]" % (",".join(shape), nf0, nff, o_spec, t_spec, "|after a default-nf lookup" if pre_query else "")
        cnt = {"n": 0}

        def run(nf0=nf0, nff=nff, kw=kw, tag=tag):
            walls = make_walls(shape, rel, free)
            mu0 = make_scale("mu0", o_spec, walls)
            muf = make_scale("muf", t_spec, walls)
            finite_below_inf(mu0, muf, *walls)
            W = list(walls)  # the harness' own copy: W[k-4] is the wall of quark k

            def dec(goal, what, key):
                sym = touched()  # the goal (an argument, already evaluated) was built from symbolic scales
                v = prove_formula(goal, what + " " + tag)
                decide(v, key, (MOD, "replay_path", kw), sampler=_sampler_free if free else _sampler, nontrivial=sym)

            if via_ffns is not None:
                atlas = m.Atlas.ffns(via_ffns, mu0)
            else:
                atlas = m.Atlas(MatchingScales(walls), (mu0, nf0))
            # -- origin ----------------------------------------------------------------
            o_nf = atlas.origin[1]
            if via_ffns is not None:
                dec(z3.BoolVal(o_nf == via_ffns), "ffns: origin nf is the requested one", "Atlas.ffns:origin")
                dec(zand([zeq(a, b) for a, b in zip(atlas.walls, [0] + W + [SR.var("INF")])]) if len(atlas.walls) == 5 else z3.BoolVal(False),
                    "ffns: walls are 0 below nf and infinite above", "Atlas.ffns:walls")
            elif nf0 is None:
                dec(z3.IntVal(o_nf) == default_nf_formula(mu0, W), "origin nf defaults to 3 + #{walls <= mu0}", "nf_default:origin")
            else:
                dec(z3.BoolVal(o_nf == nf0), "origin keeps the given nf", "Atlas.normalize:origin")
            dec(zeq(atlas.origin[0], mu0), "origin keeps its scale", "Atlas.normalize:origin")
            # -- target ----------------------------------------------------------------
            if pre_query:
                # an earlier default-nf lookup on the same atlas (numpy refuses unsorted walls: ValueError) must not change later answers
                try:
                    m.nf_default(muf, atlas)
                except ValueError:
                    pass
            path = m.Atlas.path(atlas, (muf, nff))
            e_nf = path[-1].nf
            if nff is None:
                dec(z3.IntVal(e_nf) == default_nf_formula(muf, W), "path ends with the default nf = 3 + #{walls <= muf}", "nf_default:target")
                t_nf = e_nf
            else:
                dec(z3.BoolVal(e_nf == nff), "path ends with the target nf", "Atlas.path:end")
                t_nf = nff
            dec(zeq(path[-1].target, muf), "path ends at the target scale", "Atlas.path:end")
            dec(zand([z3.BoolVal(path[0].nf == o_nf), zeq(path[0].origin, mu0)]), "path starts at the origin (scale, nf)", "Atlas.path:start")
            # -- contiguity, unit steps, single direction ------------------------------------
            d = 0 if t_nf == o_nf else (1 if t_nf > o_nf else -1)
            dec(z3.BoolVal(len(path) == abs(t_nf - o_nf) + 1), "number of segments is |nff-nf0|+1", "Atlas.path:unit-steps")
            dec(zand(zeq(a.target, b.origin) for a, b in zip(path, path[1:])), "consecutive segments share their boundary", "Atlas.path:contiguous")
            dec(zand(z3.BoolVal(b.nf - a.nf == d and d != 0) for a, b in zip(path, path[1:])), "nf changes by one unit in a single direction", "Atlas.path:unit-steps")
            # -- each step on the wall of the quark being (de)activated --------------------------
            goals = []
            for a, b in zip(path, path[1:]):
                hq = max(a.nf, b.nf)
                goals.append(zeq(a.target, W[hq - 4]) if 4 <= hq <= 6 else z3.BoolVal(False))
            dec(zand(goals), "each step sits on the matching scale of the (de)activated quark", "Atlas.path:on-wall")
            # -- matched path ------------------------------------------------------------------
            mp = m.Atlas.matched_path(atlas, (muf, nff))
            ok_len = len(mp) == 2 * len(path) - 1
            dec(z3.BoolVal(ok_len), "matched path has one matching per step", "Atlas.matched_path:structure")
            if ok_len:
                segs = mp[0::2]
                mats = mp[1::2]
                dec(z3.BoolVal(all(isinstance(s, m.Segment) for s in segs) and all(isinstance(x, m.Matching) for x in mats)),
                    "segments and matchings alternate", "Atlas.matched_path:structure")
                if all(isinstance(s, m.Segment) for s in segs) and all(isinstance(x, m.Matching) for x in mats):
                    dec(zand(z3.And(zeq(s.origin, p.origin), zeq(s.target, p.target), z3.BoolVal(s.nf == p.nf)) for s, p in zip(segs, path)),
                        "segments of the matched path are the path", "Atlas.matched_path:structure")
                    dec(zand(z3.And(zeq(x.scale, a.target), zeq(x.scale, b.origin)) for x, a, b in zip(mats, path, path[1:])),
                        "each matching sits on the step scale", "Atlas.matched_path:scale")
                    dec(zand(z3.BoolVal(x.hq == max(a.nf, b.nf)) for x, a, b in zip(mats, path, path[1:])),
                        "each matching names the heavier quark", "Atlas.matched_path:hq")
                    dec(zand(zb(x.inverse) == z3.BoolVal(t_nf < o_nf) for x in mats),
                        "matchings are inverse exactly on downward (nf decreasing) paths", "Atlas.matched_path:inverse")
            # -- direction helpers ---------------------------------------------------------------
            down = m.is_downward_path(path)
            if len(path) > 1:
                dec(zb(down) == z3.BoolVal(t_nf < o_nf), "is_downward_path: decided by nf on a multi-segment path", "is_downward_path")
            else:
                # documented: by scale for a single segment; nothing is claimed at mu0 == muf
                dec(z3.And(z3.Implies(zb(_gt(mu0, muf)), zb(down)), z3.Implies(zb(_gt(muf, mu0)), z3.Not(zb(down)))),
                    "is_downward_path: by scale for a single segment", "is_downward_path")
            shift = m.flavor_shift(down)  # forks for a single symbolic segment
            dec(z3.If(zb(down), z3.IntVal(4), z3.IntVal(3)) == z3.IntVal(shift), "flavor_shift is 4 downward, 3 upward", "flavor_shift")
            # index of the wall hit by each non-final segment: nf - shift (as used by the couplings / msbar code)
            goals = []
            for a in path[:-1]:
                k = a.nf - shift  # 0,1,2 -> charm, bottom, top
                goals.append(zeq(a.target, W[k]) if 0 <= k <= 2 else z3.BoolVal(False))
            dec(zand(goals), "segment nf - flavor_shift indexes the quark whose wall ends the segment", "flavor_shift")
            dec(zand(z3.And(z3.Implies(zb(_gt(s.origin, s.target)), zb(s.is_downward)), z3.Implies(zb(_gt(s.target, s.origin)), z3.Not(zb(s.is_downward))))
                     for s in path), "Segment.is_downward <=> origin > target (nothing claimed for a zero-length segment)", "Segment.is_downward")
            # -- queries leave the atlas as it was built ---------------------------------------------------------
            built = [0] + W + [SR.var("INF")]
            dec(zand([zeq(a, b) for a, b in zip(atlas.walls, built)] + [z3.BoolVal(len(atlas.walls) == 5), zeq(atlas.origin[0], mu0), z3.BoolVal(atlas.origin[1] == o_nf)]),
                "walls and origin of the atlas are unchanged by the queries", "Atlas:unchanged")
            log.twin("domain " + tag)
            log.collect_ctx()
            cnt["n"] += 1

        _r, pm = explore(run, max_paths=400)
        log.path_stats(pm)
        _validate(log, m, shape, nf0, nff, o_spec, t_spec, via_ffns, free, pre_query)


# ---------------------------------------------------------------------------
# translator validation: symbolic run at a concrete point == real code on floats
# ---------------------------------------------------------------------------
class ConcretePath:
    """Decides branches by evaluating the condition at a concrete point."""

    def __init__(self, point):
        self.env = S.NumEnv(point)
        self.pc = []

    def decide(self, b):
        if hasattr(b, "e"):
            raise EngineError("z3 condition in concrete path")
        val = self.env.value(b.p)
        r = {"<0": val < 0, "<=0": val <= 0, ">0": val > 0, ">=0": val >= 0, "==0": val == 0, "!=0": val != 0}[b.rel]
        self.pc.append(b if r else b.negate())
        return bool(r)


def _concrete(shape, pt, o_spec, t_spec):
    """floats for (walls, mu0, muf) at point pt"""
    inf = float("inf")
    walls = [0.0 if t == "0" else inf if t == "INF" else float(pt[t]) for t in shape]
    mu0 = walls[int(o_spec[4:]) - 1] if o_spec.startswith("wall") else float(pt["mu0"])
    muf = walls[int(t_spec[4:]) - 1] if t_spec.startswith("wall") else float(pt["muf"])
    return walls, mu0, muf


def _num(env, x):
    if isinstance(x, SR):
        v = float(env.value(x))
        return float("inf") if v >= 1e29 else v
    return float(x)


def _validate(log, m, shape, nf0, nff, o_spec, t_spec, via_ffns, free=False, pre_query=False):
    R = real_module("eko.matchings")  # second copy of the module with the real numpy

    for _ in range(2):
        pt = (_sampler_free if free else _sampler)(log.rng)
        pt["INF"] = BIG
        ctx.reset()
        ctx.path = ConcretePath(pt)
        try:
            walls = make_walls(shape, free=free)
            mu0 = make_scale("mu0", o_spec, walls)
            muf = make_scale("muf", t_spec, walls)
            atlas = m.Atlas.ffns(via_ffns, mu0) if via_ffns is not None else m.Atlas(list(walls), (mu0, nf0))
            if pre_query:
                try:
                    m.nf_default(muf, atlas)
                except ValueError:
                    pass
            mp = atlas.matched_path((muf, nff))
            env = S.NumEnv(pt)
            sym = [(_num(env, b.origin), _num(env, b.target), b.nf) if isinstance(b, m.Segment) else (_num(env, b.scale), b.hq, _bool(env, b.inverse))
                   for b in mp]
        finally:
            ctx.path = None
        fw, f0, ff = _concrete(shape, pt, o_spec, t_spec)
        ra = R.Atlas.ffns(via_ffns, f0) if via_ffns is not None else R.Atlas(fw, (f0, nf0))
        if pre_query:
            try:
                R.nf_default(ff, ra)
            except ValueError:
                pass
        real = [(float(b.origin), float(b.target), b.nf) if isinstance(b, R.Segment) else (float(b.scale), b.hq, bool(b.inverse))
                for b in ra.matched_path((ff, nff))]
        if sym != real:
            log.inconclusive.append("translator validation failed for %r nf %s->%s at %r: %r vs %r" % (shape, nf0, nff, pt, sym, real))
        log.validate()
    ctx.reset()


def _bool(env, b):
    if isinstance(b, (bool,)):
        return b
    val = env.value(b.p)
    return bool({"<0": val < 0, "<=0": val <= 0, ">0": val > 0, ">=0": val >= 0, "==0": val == 0, "!=0": val != 0}[b.rel])


def _sampler(rng):
    ws = sorted(rnd(rng, 1, 200, 4) for _ in range(3))
    return {"w1": ws[0], "w2": ws[1], "w3": ws[2], "mu0": rnd(rng, 0.5, 250, 4), "muf": rnd(rng, 0.5, 250, 4)}


def _sampler_free(rng):
    p = _sampler(rng)
    ws = [p["w1"], p["w2"], p["w3"]]
    rng.shuffle(ws)
    p.update(w1=ws[0], w2=ws[1], w3=ws[2])
    return p


# ---------------------------------------------------------------------------
# plain oracle (written from the statement; shared with C02 / C53)
# ---------------------------------------------------------------------------
def oracle_default_nf(mu2, walls3):
    return 3 + sum(1 for w in walls3 if w <= mu2)


def oracle_path(walls3, origin, target):
    """Expected matched path as a list of ('seg', a, b, nf) / ('match', scale, hq, inverse).
    walls3[q-4] is the matching scale of quark q."""
    mu0, nf0 = origin
    muf, nff = target
    nf0 = oracle_default_nf(mu0, walls3) if nf0 is None else nf0
    nff = oracle_default_nf(muf, walls3) if nff is None else nff
    out = []
    here, nf = mu0, nf0
    while nf != nff:
        if nff > nf:
            q, nxt, inv = nf + 1, nf + 1, False  # activate quark nf+1
        else:
            q, nxt, inv = nf, nf - 1, True  # de-activate quark nf
        w = walls3[q - 4]
        out.append(("seg", here, w, nf))
        out.append(("match", w, q, inv))
        here, nf = w, nxt
    out.append(("seg", here, muf, nf))
    return out


def point_value(point, name, default=None):
    v = point.get(name, default)
    if v is None:
        return None
    try:
        return float(Fraction(str(v))) if not isinstance(v, (int, float, Fraction)) else float(v)
    except Exception:
        return None


def concrete_walls(point, shape, free=False, rel="<="):
    """floats for a wall shape from a (possibly partial) model; None when outside the domain."""
    inf = float("inf")
    dflt = {"w1": 2.0, "w2": 20.0, "w3": 30000.0}
    vals = {}
    for t in shape:
        if t not in ("0", "INF"):
            v = point_value(point, t, dflt[t])
            if v is None or not v > 0:
                return None
            vals[t] = v
    names = []
    for t in shape:
        if t in vals and t not in names:
            names.append(t)
    if not free:
        for a, b in zip(names, names[1:]):
            if vals[b] < vals[a] or (rel == "<" and vals[b] == vals[a]):
                return None
    return [0.0 if t == "0" else inf if t == "INF" else vals[t] for t in shape]


def _close(a, b):
    if a == b:
        return True
    if a in (float("inf"), float("-inf")) or b in (float("inf"), float("-inf")):
        return False
    return abs(a - b) <= 1e-9 * max(abs(a), abs(b))


def replay_path(point, shape, nf0, nff, o_spec="generic", t_spec="generic", free=False, rel="<=", via_ffns=None, pre_query=False):
    """REAL eko.matchings on floats against the plain oracle above."""
    import numpy as np
    from eko import matchings as M
    from eko.quantities.heavy_quarks import MatchingScales

    walls = concrete_walls(point, shape, free, rel)
    if walls is None:
        return None
    mu0 = walls[int(o_spec[4:]) - 1] if o_spec.startswith("wall") else point_value(point, "mu0", 1.0)
    muf = walls[int(t_spec[4:]) - 1] if t_spec.startswith("wall") else point_value(point, "muf", 100.0)
    if mu0 is None or muf is None or not (0 < mu0 < np.inf and 0 < muf < np.inf):
        return None
    if free and (nf0 is None or nff is None):
        return None
    if via_ffns is not None:
        atlas = M.Atlas.ffns(via_ffns, mu0)
        nf0 = via_ffns
        if [float(w) for w in atlas.walls] != [0.0] + walls + [np.inf]:
            return {"detail": "Atlas.ffns(%d).walls = %r" % (via_ffns, atlas.walls)}
    else:
        atlas = M.Atlas(MatchingScales(walls), (mu0, nf0))
    want = oracle_path(walls, (mu0, nf0), (muf, nff))
    bad = []
    if pre_query:
        try:
            M.nf_default(muf, atlas)
        except ValueError:
            pass
    if atlas.origin[1] != want[0][3] or not _close(atlas.origin[0], mu0):
        bad.append("origin %r, expected (%r, %r)" % (atlas.origin, mu0, want[0][3]))
    path = atlas.path((muf, nff))
    wsegs = [b for b in want if b[0] == "seg"]
    got = [(float(s.origin), float(s.target), s.nf) for s in path]
    if len(got) != len(wsegs) or any(not (_close(g[0], w[1]) and _close(g[1], w[2]) and g[2] == w[3]) for g, w in zip(got, wsegs)):
        bad.append("path %r, expected %r" % (got, [w[1:] for w in wsegs]))
    mp = atlas.matched_path((muf, nff))
    gm = []
    for b in mp:
        gm.append(("seg", float(b.origin), float(b.target), b.nf) if isinstance(b, M.Segment) else ("match", float(b.scale), b.hq, bool(b.inverse)))
    if len(gm) != len(want) or any(g[0] != w[0] or not _close(g[1], w[1]) or (not _close(g[2], w[2]) if g[0] == "seg" else g[2] != w[2]) or g[3] != w[3]
                                   for g, w in zip(gm, want)):
        bad.append("matched path %r, expected %r" % (gm, want))
    down = M.is_downward_path(path)
    if len(path) > 1 or mu0 != muf:
        wdown = (want[1][3] if len(want) > 1 else mu0 > muf)
        if bool(down) != bool(wdown):
            bad.append("is_downward_path = %r, expected %r" % (down, wdown))
    if M.flavor_shift(True) != 4 or M.flavor_shift(False) != 3:
        bad.append("flavor_shift(True/False) = %r/%r, expected 4/3" % (M.flavor_shift(True), M.flavor_shift(False)))
    elif len(path) > 1:
        sh = M.flavor_shift(bool(down))
        for s in path[:-1]:
            k = s.nf - sh
            if not (0 <= k <= 2 and _close(float(s.target), walls[k])):
                bad.append("segment %r does not end on wall index nf - flavor_shift = %d" % (s, k))
    for s in path:
        if s.origin != s.target and bool(s.is_downward) != (s.origin > s.target):
            bad.append("Segment.is_downward wrong for %r" % (s,))
    if [float(x) for x in atlas.walls] != [0.0] + [float(x) for x in walls] + [np.inf]:
        bad.append("the queries changed atlas.walls to %r" % (list(atlas.walls),))
    if bad:
        return {"detail": "walls=%r origin=(%r,%r) target=(%r,%r)%s: %s" % (walls, mu0, nf0, muf, nff, " after a default-nf lookup" if pre_query else "", "; ".join(bad))}
    return None


# ---------------------------------------------------------------------------
def main():
    thorough = H.tier() == "thorough"
    import eko.matchings  # noqa: F401  imported once here; the forked case workers inherit it and rebind its globals privately
    chk = H.Check("C19")
    chk.exhaustive = False
    chk.bounds = [
        "all 25 combinations (nf0, nff) in {3,4,5,6,None}^2, enumerated; scales symbolic reals",
        "walls 0 < w1 <= w2 <= w3 symbolic (non-strict: coincident walls included), plus explicit shapes with coincident symbols, "
        "leading 0 walls and trailing infinite walls (%s shapes), plus Atlas.ffns(nf) for nf=3..6" % ("all monotone" if thorough else "9"),
        "unsorted walls (any three positive reals) for the 16 explicit (nf0, nff) pairs",
        "state: the same questions after a default-nf lookup on the same Atlas object (sorted and unsorted walls; the lookup raises ValueError for unsorted walls), "
        "and after every run the walls and origin of the atlas must be what it was built with",
        "origin and target scale symbolic positive finite reals; explicit cases with the target / the origin exactly on a wall",
    ]
    chk.out_of_claim = [
        "np.inf is modelled by a symbol larger than every finite scale of the run: arithmetic on infinite walls is not modelled (the code only compares them)",
        "default nf (None) with unsorted walls: numpy.digitize raises ValueError for non-monotonic bins",
        "nf outside {3,4,5,6}, non-positive or infinite origin/target scales, nan",
        "floating-point comparison effects for scales closer than rounding",
    ]
    chk.stubs = ["numpy.digitize: shim (ValueError for non-monotonic bins, else counts bins <= x by forking on each comparison; documented numpy semantics for increasing bins)",
                 "numpy.isfinite / numpy.isinf: False / True exactly for the symbol INF",
                 "numpy.inf: symbol INF with INF > every finite scale", "format(SR): constant string (Atlas.__str__ log line only)"]
    chk.assumptions = ["floats are read as exact reals"]
    for sh in wall_shapes(thorough):
        chk.case("paths." + ",".join(sh), case_paths, shape=sh)
    chk.case("paths.strict", case_paths, shape=("w1", "w2", "w3"), rel="<")
    chk.case("paths.unsorted", case_paths, shape=("w1", "w2", "w3"), free=True)
    # state: a default-nf lookup happened on the same Atlas object before the path is asked for
    chk.case("paths.unsorted.after-lookup", case_paths, shape=("w1", "w2", "w3"), free=True, pre_query=True)
    chk.case("paths.after-lookup", case_paths, shape=("w1", "w2", "w3"), pre_query=True)
    if thorough:
        for sh in wall_shapes(True)[1:]:
            chk.case("paths.after-lookup." + ",".join(sh), case_paths, shape=sh, pre_query=True)
    for nf in NFS:
        shape = ("0",) * (nf - 3) + ("INF",) * (6 - nf)
        chk.case("ffns.nf%d" % nf, case_paths, shape=shape, via_ffns=nf, pairs=[(nf, b) for b in NFS + (None,)])
    specs = [("generic", "wall%d" % k) for k in (1, 2, 3)] + [("wall%d" % k, "generic") for k in (1, 2, 3)]
    if thorough:
        specs += [("wall%d" % a, "wall%d" % b) for a in (1, 2, 3) for b in (1, 2, 3)]
    shapes_on = wall_shapes(thorough) if thorough else [("w1", "w2", "w3")]
    for sh in shapes_on:
        for o, t in specs:
            if _scale_ok(o, sh) and _scale_ok(t, sh):
                chk.case("onwall.%s.o=%s.t=%s" % (",".join(sh), o, t), case_paths, shape=sh, o_spec=o, t_spec=t)
    return chk.run()


if __name__ == "__main__":
    import sys

    sys.exit(main())
