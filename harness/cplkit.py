"""Shared pieces of the couplings / masses / matching harnesses (C15-C18, C22)."""
import importlib
from fractions import Fraction

import numpy as realnp

from .common import *  # noqa
from symx import shim as _shim
from symx.jet import Jet, INF

MOD = "harness.cplkit"


# ---------------------------------------------------------------------------
# deciding with bounded replay effort (one replay = one clean interpreter importing eko)
# ---------------------------------------------------------------------------
class Decider:
    """Wrapper around CaseLog.decide: the solver model, the candidates and a few sampler points are tried inside ONE replay
    process; per case at most `max_replays` replay processes and one reproduced counterexample per key."""

    def __init__(self, log, max_replays=3, nextra=4):
        self.log = log
        self.hit = set()
        self.replays = 0
        self.max_replays = max_replays
        self.nextra = nextra

    def __call__(self, verdict, key, replay, sampler=None, candidates=()):
        log = self.log
        if verdict.holds:
            log.ok(verdict)
            return True
        if key in self.hit or self.replays >= self.max_replays:
            log.obligations.append({"case": log.case, "what": verdict.what, "status": verdict.status, "time_s": round(verdict.time, 4),
                                    "residual_terms": verdict.nterms, "note": "not replayed (same key already reproduced, or replay budget spent)"})
            if key not in self.hit:
                log.inconclusive.append("%s/%s: solver answered %s; replay budget of the case spent" % (log.case, verdict.what, verdict.status))
            return False
        self.replays += 1
        extra = [dict(c) for c in candidates] + ([sampler(log.rng) for _ in range(self.nextra)] if sampler is not None else [])
        mod, fn, kw = replay
        nv = len(log.violations)
        log.decide(verdict, key=key, replay=(MOD, "replay_multi", {"mod": mod, "fn": fn, "extra": extra, "kw": kw}),
                   candidates=[{}] if not verdict.model else ())
        if len(log.violations) > nv:
            self.hit.add(key)
        return False


def replay_multi(point, mod, fn, extra, kw):
    f = getattr(importlib.import_module(mod), fn)
    for p in [point] + list(extra):
        r = f(dict(p), **kw)
        if r:
            return r
    return None


def preimport(*names):
    """Import heavy modules once in the parent; the forked case workers inherit them (they rebind globals in their own copy)."""
    for n in names:
        importlib.import_module(n)


def as_jet(x):
    return x if isinstance(x, Jet) else Jet.lift(x)


def lift_exact(x):
    """python number -> SR holding the exact rational the float denotes"""
    return x if isinstance(x, (SR, Jet)) else SR(Q(Poly.const(x)))


# ---------------------------------------------------------------------------
# numpy facade for the coupling modules
# ---------------------------------------------------------------------------
class CplNumpy(_shim.SymNumpy):
    """* `np.log` of a jet c*lam^v (v != 0): v*LOGLAM + log(c) with LOGLAM = log(lam) an independent symbol (sound for lam > 0;
         identities proven for an independent LOGLAM hold a fortiori).
       * `np.array([x, y])` of jets keeps an object array; `.astype(float)` / `.copy()` work on object arrays natively.
       * `np.sum` of a list of jets/SR is the plain sum."""

    def log(self, x):
        if isinstance(x, Jet):
            if not x.c:
                raise EngineError("log of a zero jet")
            v = x.v
            base = Jet(0, x.c, x.prec - v if x.prec < INF else INF) if v else x
            c0, rest = base._split()
            u = rest / c0
            s = base._series(u, lambda k: 0 if k == 0 else Fraction((-1) ** (k + 1), k))
            out = s + self._log_sr(c0)
            return out + v * SR.var("LOGLAM") if v else out
        if isinstance(x, SR):
            return self._log_sr(x)
        return _shim.SymNumpy.log(x)

    def _log_sr(self, x):
        """log of c * prod f_i^k_i (k_i of either sign) = log c + sum k_i log f_i when c > 0 and every f_i > 0 under the path condition and
        the domain (decided by the solver; otherwise the plain interned atom).  Makes log(1/D) and log(D) the same atom up to sign."""
        from symx.val import factor_simple

        if x.is_const():
            return x.log()
        q = x.v.canon()
        c, facs = factor_simple(q.n)
        facs = [(f, k) for f, k in facs] + [(f, -k) for f, k in q.den.values()]
        if c <= 0 or len(facs) + (c != 1) <= 1 and not q.den:
            return x.log()
        for f, _k in facs:
            pos = SR(Q(f)) > 0
            if not (pos is True or (pos is not False and bool(pos))):
                return x.log()
        val = SR(Q(Poly.const(c))).log().v if c != 1 else QZERO
        for f, k in facs:
            val = val + SR(Q(f)).log().v * Q(Poly.const(k))
        if x.d is None:
            return SR(val)
        return SR(val, x.d * x.v.inv())

    def power(self, x, k):
        # a ** c with a symbolic base and a (possibly symbolic) constant exponent c: exp(c*log a)
        if isinstance(k, (SR, Jet)) and not (isinstance(k, SR) and k.is_const()):
            return self.exp(k * self.log(x))
        if isinstance(x, (SR, Jet)) and isinstance(k, SR) and k.is_const() and Fraction(k.const_value()).denominator != 1:
            return self.exp(k * self.log(x))
        if isinstance(x, (SR, Jet)) and isinstance(k, float) and not float(k).is_integer():
            return self.exp(lift_exact(k) * self.log(x))
        return _shim.SymNumpy.power(self, x, k)

    def sum(self, a, *args, **k):
        if isinstance(a, (list, tuple)) and any(isinstance(e, (SR, Jet)) for e in a):
            tot = 0
            for e in a:
                tot = tot + e
            return tot
        return _shim.SymNumpy.sum(self, a, *args, **k)


class sym_float(float):
    """replacement for the builtin float inside analysed modules: numbers and numpy arrays go through the real float() (so that
    float(length-1 array) raises TypeError exactly as the installed numpy does); symbolic values and scale tokens pass unchanged.
    A float subclass so that `arr.astype(float)` inside the analysed module still works on real arrays (object dtype)."""

    def __new__(cls, x=0.0):
        if isinstance(x, (int, float, str, realnp.generic, realnp.ndarray)):
            return float(x)
        return x


class SymArr(realnp.ndarray):
    """object ndarray whose astype(float) is the identity (symbolic entries stay symbolic) -- the couplings code calls
    a_ref.astype(float) before every RGE solution."""

    def astype(self, dtype, *a, **k):
        if dtype is float or dtype is sym_float:
            return self.copy()
        return realnp.ndarray.astype(self, dtype, *a, **k)


def symarr(items):
    out = realnp.empty(len(items), dtype=object).view(SymArr)
    for i, e in enumerate(items):
        out[i] = e
    return out


def cpl_module(name="eko.couplings"):
    mod = importlib.import_module(name)
    _shim.install(mod, np=CplNumpy())
    return mod


# ---------------------------------------------------------------------------
# independent RGE coefficients (refs/rge_literature.py) as exact numbers
# ---------------------------------------------------------------------------
def lit_betas(nf, order, z3v=None):
    """[beta_0 .. beta_{order-1}] of QCD from the literature table; zeta3 as the float eko uses unless given."""
    from refs import rge_literature as L
    import mpmath as mp

    z3v = Fraction(float(mp.zeta(3))) if z3v is None else z3v
    full = [L.beta0(nf), L.beta1(nf), L.beta2(nf), L.beta3(nf, z3v)]
    return full[:order]


def lit_gammas(nf, order):
    from refs import rge_literature as L
    import mpmath as mp

    z3, z4, z5 = (Fraction(float(mp.zeta(k))) for k in (3, 4, 5))
    full = [L.gamma0(), L.gamma1(nf), L.gamma2(nf, z3), L.gamma3(nf, z3, z4, z5)]
    return full[:order]
