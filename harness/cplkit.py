"""Shared pieces of the couplings / masses / matching harnesses (C15-C18, C22)."""
import importlib
from fractions import Fraction

import numpy as realnp

from .common import *  # noqa
from symx import shim as _shim
from symx.jet import Jet, INF

MOD = "harness.cplkit"


# ---------------------------------------------------------------------------
# deciding with bounded replay effort (one replay = one clean interpreter importing eko)
# ---------------------------------------------------------------------------
class Decider:
    """Wrapper around CaseLog.decide: the solver model, the candidates and a few sampler points are tried inside ONE replay
    process; per case at most `max_replays` replay processes and one reproduced counterexample per key."""

    def __init__(self, log, max_replays=3, nextra=4):
        self.log = log
        self.hit = set()
        self.replays = 0
        self.max_replays = max_replays
        self.nextra = nextra

    def __call__(self, verdict, key, replay, sampler=None, candidates=()):
        log = self.log
        if verdict.holds:
            log.ok(verdict)
            return True
        if key in self.hit or self.replays >= self.max_replays:
            log.obligations.append({"case": log.case, "what": verdict.what, "status": verdict.status, "time_s": round(verdict.time, 4),
                                    "residual_terms": verdict.nterms, "note": "not replayed (same key already reproduced, or replay budget spent)"})
            if key not in self.hit:
                log.inconclusive.append("%s/%s: solver answered %s; replay budget of the case spent" % (log.case, verdict.what, verdict.status))
            return False
        self.replays += 1
        extra = [dict(c) for c in candidates] + ([sampler(log.rng) for _ in range(self.nextra)] if sampler is not None else [])
        mod, fn, kw = replay
        nv = len(log.violations)
        log.decide(verdict, key=key, replay=(MOD, "replay_multi", {"mod": mod, "fn": fn, "extra": extra, "kw": kw}),
                   candidates=[{}] if not verdict.model else ())
        if len(log.violations) > nv:
            self.hit.add(key)
        return False


def replay_multi(point, mod, fn, extra, kw):
    f = getattr(importlib.import_module(mod), fn)
    for p in [point] + list(extra):
        r = f(dict(p), **kw)
        if r:
            return r
    return None


def preimport(*names):
    """Import heavy modules once in the parent; the forked case workers inherit them (they rebind globals in their own copy)."""
    for n in names:
        importlib.import_module(n)


def as_jet(x):
    return x if isinstance(x, Jet) else Jet.lift(x)


def lift_exact(x):
    """python number -> SR holding the exact rational the float denotes"""
    return x if isinstance(x, (SR, Jet)) else SR(Q(Poly.const(x)))


# ---------------------------------------------------------------------------
# numpy facade for the coupling modules
# ---------------------------------------------------------------------------
class CplNumpy(_shim.SymNumpy):
    """* `np.log` of a jet c*lam^v (v != 0): v*LOGLAM + log(c) with LOGLAM = log(lam) an independent symbol (sound for lam > 0;
         identities proven for an independent LOGLAM hold a fortiori).
       * `np.array([x, y])` of jets keeps an object array; `.astype(float)` / `.copy()` work on object arrays natively.
       * `np.sum` of a list of jets/SR is the plain sum."""

    def log(self, x):
        if isinstance(x, Jet):
            if not x.c:
                raise EngineError("log of a zero jet")
            v = x.v
            base = Jet(0, x.c, x.prec - v if x.prec < INF else INF) if v else x
            c0, rest = base._split()
            u = rest / c0
            s = base._series(u, lambda k: 0 if k == 0 else Fraction((-1) ** (k + 1), k))
            out = s + self._log_sr(c0)
            return out + v * SR.var("LOGLAM") if v else out
        if isinstance(x, SR):
            return self._log_sr(x)
        return _shim.SymNumpy.log(x)

    def _log_sr(self, x):
        """log of c * prod f_i^k_i (k_i of either sign) = log c + sum k_i log f_i when c > 0 and every f_i > 0 under the path condition and
        the domain (decided by the solver; otherwise the plain interned atom).  Makes log(1/D) and log(D) the same atom up to sign."""
        from symx.val import factor_simple

        if x.is_const():
            return x.log()
        q = x.v.canon()
        c, facs = factor_simple(q.n)
        facs = [(f, k) for f, k in facs] + [(f, -k) for f, k in q.den.values()]
        if c <= 0 or len(facs) + (c != 1) <= 1 and not q.den:
            return x.log()
        for f, _k in facs:
            pos = SR(Q(f)) > 0
            if not (pos is True or (pos is not False and bool(pos))):
                return x.log()
        val = SR(Q(Poly.const(c))).log().v if c != 1 else QZERO
        for f, k in facs:
            val = val + SR(Q(f)).log().v * Q(Poly.const(k))
        if x.d is None:
            return SR(val)
        return SR(val, x.d * x.v.inv())

    def power(self, x, k):
        # a ** c with a symbolic base and a (possibly symbolic) constant exponent c: exp(c*log a)
        if isinstance(k, (SR, Jet)) and not (isinstance(k, SR) and k.is_const()):
            return self.exp(k * self.log(x))
        if isinstance(x, (SR, Jet)) and isinstance(k, SR) and k.is_const() and Fraction(k.const_value()).denominator != 1:
            return self.exp(k * self.log(x))
        if isinstance(x, (SR, Jet)) and isinstance(k, float) and not float(k).is_integer():
            return self.exp(lift_exact(k) * self.log(x))
        return _shim.SymNumpy.power(self, x, k)

    def sum(self, a, *args, **k):
        if isinstance(a, (list, tuple)) and any(isinstance(e, (SR, Jet)) for e in a):
            tot = 0
            for e in a:
                tot = tot + e
            return tot
        return _shim.SymNumpy.sum(self, a, *args, **k)


class sym_float(float):
    """replacement for the builtin float inside analysed modules: numbers and numpy arrays go through the real float() (so that
    float(length-1 array) raises TypeError exactly as the installed numpy does); symbolic values and scale tokens pass unchanged.
    A float subclass so that `arr.astype(float)` inside the analysed module still works on real arrays (object dtype)."""

    def __new__(cls, x=0.0):
        if isinstance(x, (int, float, str, realnp.generic, realnp.ndarray)):
            return float(x)
        return x


class SymArr(realnp.ndarray):
    """object ndarray whose astype(float) is the identity (symbolic entries stay symbolic) -- the couplings code calls
    a_ref.astype(float) before every RGE solution."""

    def astype(self, dtype, *a, **k):
        if dtype is float or dtype is sym_float:
            return self.copy()
        return realnp.ndarray.astype(self, dtype, *a, **k)


def symarr(items):
    out = realnp.empty(len(items), dtype=object).view(SymArr)
    for i, e in enumerate(items):
        out[i] = e
    return out


def cpl_module(name="eko.couplings"):
    mod = importlib.import_module(name)
    _shim.install(mod, np=CplNumpy())
    return mod


# ---------------------------------------------------------------------------
# independent RGE coefficients (refs/rge_literature.py) as exact numbers
# ---------------------------------------------------------------------------
def lit_betas(nf, order, z3v=None):
    """[beta_0 .. beta_{order-1}] of QCD from the literature table; zeta3 as the float eko uses unless given."""
    from refs import rge_literature as L
    import mpmath as mp

    z3v = Fraction(float(mp.zeta(3))) if z3v is None else z3v
    full = [L.beta0(nf), L.beta1(nf), L.beta2(nf), L.beta3(nf, z3v)]
    return full[:order]


def lit_gammas(nf, order):
    from refs import rge_literature as L
    import mpmath as mp

    z3, z4, z5 = (Fraction(float(mp.zeta(k))) for k in (3, 4, 5))
    full = [L.gamma0(), L.gamma1(nf), L.gamma2(nf, z3), L.gamma3(nf, z3, z4, z5)]
    return full[:order]


# ---------------------------------------------------------------------------
# Couplings.a inside one fixed-nf patch: legs around the tau mass (used by C15 and C55)
# ---------------------------------------------------------------------------
MTAU2 = Fraction(1777, 1000) ** 2


class LegRecorder:
    """stands for Couplings.compute: an uninterpreted function of (a_ref, nf, nl, from, to) (same arguments -> same result symbols, shared
    between the executions that are compared); records the legs requested."""

    memo = None

    def __init__(self, memo):
        self.memo = memo
        self.legs = []

    def __call__(self, a_ref, nf, nl, scale_from, scale_to):
        args = [SR(0) + a_ref[0], SR(0) + a_ref[1], SR(0) + nf, SR(0) + nl, SR(0) + scale_from, SR(0) + scale_to]
        key = tuple(x.v.key() for x in args)
        res = self.memo.get(key)
        if res is None:
            k = len(self.memo)
            res = self.memo[key] = (SR.var("LEG%d_s" % k), SR.var("LEG%d_em" % k))
        self.legs.append((args, res))
        return symarr(list(res))


def patch_couplings(cpl, order, em_running, mu0, nf=4, method="expanded"):
    """real Couplings object in an FFNS-like atlas (no matching scale between reference and target), symbolic reference scale and couplings"""
    from eko.quantities.couplings import CouplingEvolutionMethod, CouplingsInfo
    from eko.quantities.heavy_quarks import QuarkMassScheme

    info = CouplingsInfo(alphas=0.25, alphaem=0.0075, ref=(3.0, nf), em_running=bool(em_running) if isinstance(em_running, bool) else False)
    meth = CouplingEvolutionMethod.EXACT if method == "exact" else CouplingEvolutionMethod.EXPANDED
    thr = [0.0] * (nf - 3) + [realnp.inf] * (6 - nf)
    sc = cpl.Couplings(info, order, meth, [1.0, 1.0, 1.0], QuarkMassScheme.POLE, thr)
    sc.alphaem_running = em_running
    sc.atlas.origin = (mu0, nf)
    sc.a_ref = symarr([SR.var("aref_s"), SR.var("aref_em")])
    return sc


def _b(c):
    return c if isinstance(c, bool) else bool(c)


def case_c55_em_flag(log, orders=(2, 3, 4)):
    """C55 site C': the real Couplings.a at QED order 0 with the alpha_em-running flag a symbolic Boolean in two executions: the fixed-flavour legs
    requested from `compute` and the returned couplings must be identical (in particular no split at the tau mass decided by the flag).
    Orders >= 2: at LO the closed form is exactly transitive, so a flag-dependent split would not change the result (Couplings.compute at LO: site C)."""
    from symx.solver import explore, prove_zero, ZBool
    import z3

    cpl = cpl_module("eko.couplings")
    cpl.float = sym_float
    log.encode(cpl.Couplings.a)
    D = Decider(log)
    MODK = "harness.cplkit"

    def mk(o):
        def run():
            mu0, s = SR.var("mu2_ref"), SR.var("mu2_to")
            for x in (mu0, s):
                assume(x - Fraction(1, 2), ">0")
                assume(10000 - x, ">0")
            memo = {}
            outs = []
            for tag in ("em_A", "em_B"):
                sc = patch_couplings(cpl, (o, 0), ZBool(z3.Bool(tag)), mu0)
                rec = LegRecorder(memo)
                sc.compute = rec
                r = sc.a(s, 4)
                outs.append((rec.legs, [r[0], r[1]]))
            (la, ra), (lb, rb) = outs
            rp = (MODK, "replay_c55_em_flag", {"order": o})
            what = "Couplings.a order (%d,0): em_running on/off" % o
            v = prove_zero(SR(0 if len(la) == len(lb) else 1), "%s requests the same number of fixed-flavour legs (%d vs %d)" % (what, len(la), len(lb)))
            D(v, key="Couplings.a:em_running", replay=rp, sampler=_sampler_tau)
            if len(la) == len(lb):
                for (xa, _r1), (xb, _r2) in zip(la, lb):
                    for i, nm in ((0, "a_s in"), (1, "a_em in"), (2, "nf"), (4, "from"), (5, "to")):
                        v = prove_zero(xa[i] - xb[i], "%s: leg argument %s identical" % (what, nm))
                        D(v, key="Couplings.a:em_running", replay=rp, sampler=_sampler_tau)
            for j in range(2):
                v = prove_zero(SR(0) + ra[j] - rb[j], "%s gives the same couplings (entry %d)" % (what, j))
                D(v, key="Couplings.a:em_running", replay=rp, sampler=_sampler_tau)
            log.twin("domain")

        return run

    for o in orders:
        _r, pm = explore(mk(o), max_paths=256)
        log.path_stats(pm)


def _sampler_tau(rng):
    lo, hi = rnd(rng, 0.8, 3.0), rnd(rng, 3.3, 60)
    a, b = (lo, hi) if rng.random() < 0.5 else (hi, lo)
    return {"mu2_ref": a, "mu2_to": b, "a_s": rnd(rng, 0.012, 0.027), "a_em": rnd(rng, 0.0004, 0.0008, den=100000)}


def replay_c55_em_flag(point, order):
    """real Couplings, pure QCD, FFNS nf=4: em_running True vs False must give bit-comparable results (same code path)."""
    import numpy as np
    from eko.couplings import Couplings
    from eko.quantities.couplings import CouplingEvolutionMethod, CouplingsInfo
    from eko.quantities.heavy_quarks import QuarkMassScheme

    m0, m1 = float(point.get("mu2_ref", 9.0)), float(point.get("mu2_to", 2.0))
    if not (0.5 < m0 < 1e4 and 0.5 < m1 < 1e4):
        return None
    for meth in (CouplingEvolutionMethod.EXPANDED, CouplingEvolutionMethod.EXACT):
        res = []
        for flag in (True, False):
            info = CouplingsInfo(alphas=0.25, alphaem=0.0075, ref=(m0**0.5, 4), em_running=flag)
            sc = Couplings(info, (order, 0), meth, [1.0, 1.0, 1.0], QuarkMassScheme.POLE, [0.0, np.inf, np.inf])
            res.append(sc.a(m1, 4))
        if not np.allclose(res[0], res[1], rtol=1e-12, atol=0):
            return {"detail": "pure QCD order (%d,0), %s, nf=4, mu0^2=%r -> mu^2=%r: em_running=True gives %r, em_running=False gives %r" % (order, meth.value, m0, m1, list(res[0]), list(res[1]))}
    return None
