"""C33  Threshold flavour rotations are mutually inverse and flavour-consistent.

Real code executed (exactly, floats read as rationals): eko.evolution_operator.flavors.rotate_matching,
rotate_matching_inverse, qed_rotation_parameters for every crossing nf in {4,5,6}, QCD and QED.

rotate_matching(nf) is a sparse matrix in dot notation "X.Y": X an element of the new intrinsic (unified) evolution
basis with nf light flavours, Y an element of the matching basis = intrinsic basis with nf-1 light flavours (the
heavy quark enters through h+ and h-).  The universally quantified objects are a flavour-basis vector f (14 symbols)
and vectors of coordinates over the two bases.  Goals
  content : sum_Y m[X.Y] (r_Y^(nf-1) . f) == r_X^(nf) . f      for every X of the new basis   (and the same for the inverse)
  inverse : minv(m(y)) == y  and  m(minv(x)) == x
  params  : the six numbers of qed_rotation_parameters satisfy their docstring
with r the documented flavour content (harness.flavour_model, from FlavorSpace.rst / Matching.rst).
"""
import importlib
from fractions import Fraction

import z3

from .common import *  # noqa
from symx.solver import explore, prove_formula
from symx import harness as H
from . import flavour_model as M
from .flavour_sym import fr, box, symvec, prove_small, failed, lin, evalf, decide_once

MOD = "harness.C33"


def _fl():
    return importlib.import_module("eko.evolution_operator.flavors")


def _tag(qed):
    return "qed" if qed else "qcd"


def _parse(m, rows_, cols_):
    """dot-notation dict -> {(row, col): Fraction}; labels outside the bases are returned separately"""
    out, alien = {}, []
    for k, v in m.items():
        parts = k.split(".")
        if len(parts) != 2 or parts[0] not in rows_ or parts[1] not in cols_:
            alien.append(k)
            continue
        out[(parts[0], parts[1])] = fr(v)
    return out, alien


def _apply(mat, rows_, cols_, vec):
    """(mat . vec)_X = sum_Y mat[X,Y] vec_Y"""
    return {x: sum((vec[y] * mat[(x, y)] for y in cols_ if (x, y) in mat), SR(0)) for x in rows_}


def case_matching(log, nf, qed):
    fl = _fl()
    log.encode(fl.rotate_matching, fl.rotate_matching_inverse, fl.qed_rotation_parameters)
    old, new = M.basis(nf - 1, qed), M.basis(nf, qed)
    kw = {"nf": nf, "qed": qed}
    key = "rotate_matching[%s]" % _tag(qed)

    def run():
        f = symvec("f", M.PIDS)
        y = dict(zip(old, symvec("y", old)))
        x = dict(zip(new, symvec("x", new)))
        box(f)
        box(y.values())
        box(x.values())
        try:
            m_raw, minv_raw = fl.rotate_matching(nf, qed), fl.rotate_matching_inverse(nf, qed)
            m, alien = _parse(m_raw, new, old)
            minv, alien2 = _parse(minv_raw, old, new)
        except Exception as e:  # noqa
            v = failed("rotate_matching(%d, %s) / inverse return finite maps: raised %s: %s" % (nf, qed, type(e).__name__, e))
            decide_once(log, v, key=key + ":available", replay=(MOD, "replay", dict(kw, what="available")), candidates=[{}])
            return
        v = failed("labels of rotate_matching(%d, %s) outside the two bases: %r" % (nf, qed, alien + alien2)) if alien + alien2 else \
            prove_formula(z3.BoolVal(True), "every label of rotate_matching(%d, %s) and its inverse belongs to the matching / new evolution basis" % (nf, _tag(qed)))
        log.ok(v, {"nontrivial": False}) if v.holds else decide_once(log, v, key=key + ":labels", replay=(MOD, "replay", dict(kw, what="labels")), candidates=[{}])
        c_old = {l: lin(M.row(l, nf - 1, qed), f) for l in old}
        c_new = {l: lin(M.row(l, nf, qed), f) for l in new}
        # flavour content of every new-basis distribution
        got = _apply(m, new, old, c_old)
        for X in new:
            v = prove_small([got[X] - c_new[X]], "sum_Y rotate_matching(%d,%s)[%s.Y] Y(f) == %s(f) with %d flavours, for every flavour vector f" % (nf, _tag(qed), X, X, nf))
            decide_once(log, v, key=key + ":content", replay=(MOD, "replay", dict(kw, what="content", X=X)), sampler=_sampler(old, new))
        back = _apply(minv, old, new, c_new)
        for Y in old:
            v = prove_small([back[Y] - c_old[Y]], "sum_X rotate_matching_inverse(%d,%s)[%s.X] X(f) == %s(f) in the matching basis, for every f" % (nf, _tag(qed), Y, Y))
            decide_once(log, v, key=key + ":inverse-content", replay=(MOD, "replay", dict(kw, what="content", X=Y, inverse=True)), sampler=_sampler(old, new))
        # composition with the inverse
        yy = _apply(minv, old, new, _apply(m, new, old, y))
        v = prove_small([yy[l] - y[l] for l in old], "rotate_matching_inverse(%d,%s) o rotate_matching == identity on the matching basis" % (nf, _tag(qed)))
        decide_once(log, v, key=key + ":inverse", replay=(MOD, "replay", dict(kw, what="inverse")), sampler=_sampler(old, new))
        xx = _apply(m, new, old, _apply(minv, old, new, x))
        v = prove_small([xx[l] - x[l] for l in new], "rotate_matching(%d,%s) o rotate_matching_inverse == identity on the new evolution basis" % (nf, _tag(qed)))
        decide_once(log, v, key=key + ":inverse", replay=(MOD, "replay", dict(kw, what="inverse", right=True)), sampler=_sampler(old, new))
        if qed:
            try:
                a, b, c, d, e, ff = [fr(t) for t in fl.qed_rotation_parameters(nf)]
            except Exception as ex:  # noqa
                v = failed("qed_rotation_parameters(%d) returns six finite numbers: %s: %s" % (nf, type(ex).__name__, ex))
                decide_once(log, v, key="qed_rotation_parameters:available", replay=(MOD, "replay", dict(kw, what="params")), candidates=[{}])
            else:
                h = M.QNAME[nf] + "+"
                T = "T" + M.QED_NS_BY_NF[nf]
                v = prove_small([c_old["S"] * a + c_old["Sdelta"] * b + c_old[h] * c - c_new["Sdelta"],
                                 c_old["S"] * d + c_old["Sdelta"] * e + c_old[h] * ff - c_new[T]],
                                "qed_rotation_parameters(%d): Sdelta' = a S + b Sdelta + c %s and %s = d S + e Sdelta + f %s for every f" % (nf, h, T, h))
                decide_once(log, v, key="qed_rotation_parameters:content", replay=(MOD, "replay", dict(kw, what="params")), sampler=_sampler(old, new))
        log.twin("domain")
        log.collect_ctx()
        # translator validation: symbolic contraction evaluated at a point == plain float contraction
        pt = _sampler(old, new)(log.rng)
        for X in new[:4]:
            num = sum(float(val) * sum(float(w) * float(pt[M.vname("f", p)]) for w, p in zip(M.row(k.split(".")[1], nf - 1, qed), M.PIDS))
                      for k, val in m_raw.items() if k.split(".")[0] == X)
            if abs(evalf(got[X], pt) - num) > 1e-10:
                log.inconclusive.append("translator validation failed for rotate_matching(%d,%s) row %s" % (nf, qed, X))
            log.validate()

    _r, pm = explore(run)
    log.path_stats(pm)


def case_chain(log, qed):
    """thorough: the three crossings composed, 3 -> 4 -> 5 -> 6 flavours and back"""
    fl = _fl()
    log.encode(fl.rotate_matching, fl.rotate_matching_inverse)

    def run():
        f = symvec("f", M.PIDS)
        box(f)
        cur = {l: lin(M.row(l, 3, qed), f) for l in M.basis(3, qed)}
        start = dict(cur)
        for nf in (4, 5, 6):
            m, _al = _parse(fl.rotate_matching(nf, qed), M.basis(nf, qed), M.basis(nf - 1, qed))
            cur = _apply(m, M.basis(nf, qed), M.basis(nf - 1, qed), cur)
        v = prove_small([cur[l] - lin(M.row(l, 6, qed), f) for l in M.basis(6, qed)],
                        "rotate_matching(6) o rotate_matching(5) o rotate_matching(4) applied to the nf=3 intrinsic basis gives the %s evolution basis with 6 flavours, for every f" % _tag(qed))
        decide_once(log, v, key="rotate_matching[%s]:content" % _tag(qed), replay=(MOD, "replay", {"nf": 6, "qed": qed, "what": "content", "X": "S"}), sampler=_sampler(M.basis(5, qed), M.basis(6, qed)))
        for nf in (6, 5, 4):
            minv, _al = _parse(fl.rotate_matching_inverse(nf, qed), M.basis(nf - 1, qed), M.basis(nf, qed))
            cur = _apply(minv, M.basis(nf - 1, qed), M.basis(nf, qed), cur)
        v = prove_small([cur[l] - start[l] for l in M.basis(3, qed)], "the three inverse rotations bring the %s basis back to the nf=3 intrinsic basis, for every f" % _tag(qed))
        decide_once(log, v, key="rotate_matching[%s]:inverse" % _tag(qed), replay=(MOD, "replay", {"nf": 6, "qed": qed, "what": "inverse"}), sampler=_sampler(M.basis(5, qed), M.basis(6, qed)))
        log.twin("domain")

    _r, pm = explore(run)
    log.path_stats(pm)


def _sampler(old, new):
    def s(rng):
        p = {M.vname("f", q): rnd(rng, -1, 1) for q in M.PIDS}
        p.update({M.vname("y", l): rnd(rng, -1, 1) for l in old})
        p.update({M.vname("x", l): rnd(rng, -1, 1) for l in new})
        return p

    return s


# ---------------------------------------------------------------------------
# replay: the real module on floats against the documented flavour content
# ---------------------------------------------------------------------------
def replay(point, nf, qed, what, X=None, inverse=False, right=False):
    import numpy as np

    M.light_eko("evolution_operator")
    import eko.evolution_operator.flavors as fl

    old, new = M.basis(nf - 1, qed), M.basis(nf, qed)
    f = np.array([float(Fraction(point.get(M.vname("f", p), 0))) for p in M.PIDS])
    row_old = {l: np.array([float(t) for t in M.row(l, nf - 1, qed)]) for l in old}
    row_new = {l: np.array([float(t) for t in M.row(l, nf, qed)]) for l in new}

    def far(a, b):
        a, b = np.atleast_1d(np.asarray(a, float)), np.atleast_1d(np.asarray(b, float))
        return (not np.all(np.isfinite(a))) or bool(np.max(np.abs(a - b)) > 1e-8 * max(1.0, float(np.max(np.abs(b)))))

    if what == "params":
        a, b, c, d, e, ff = fl.qed_rotation_parameters(nf)
        h, T = M.QNAME[nf] + "+", "T" + M.QED_NS_BY_NF[nf]
        g1 = a * row_old["S"] + b * row_old["Sdelta"] + c * row_old[h]
        g2 = d * row_old["S"] + e * row_old["Sdelta"] + ff * row_old[h]
        if far(g1, row_new["Sdelta"]) or far(g2, row_new[T]):
            return {"detail": "qed_rotation_parameters(%d) = %r: a S + b Sdelta + c %s has flavour content %r (Sdelta with %d flavours is %r); d S + e Sdelta + f %s has %r (%s is %r)"
                              % (nf, (a, b, c, d, e, ff), h, g1.tolist(), nf, row_new["Sdelta"].tolist(), h, g2.tolist(), T, row_new[T].tolist())}
        return None
    try:
        m, minv = fl.rotate_matching(nf, qed), fl.rotate_matching_inverse(nf, qed)
    except Exception as ex:  # noqa
        return {"detail": "rotate_matching(%d, %s) raises %s: %s" % (nf, qed, type(ex).__name__, ex)}
    alien = [k for k in m if len(k.split(".")) != 2 or k.split(".")[0] not in new or k.split(".")[1] not in old]
    alien += [k for k in minv if len(k.split(".")) != 2 or k.split(".")[0] not in old or k.split(".")[1] not in new]
    if what in ("labels", "available"):
        return {"detail": "rotate_matching(%d, %s) uses labels outside the matching / new evolution bases: %r" % (nf, qed, alien)} if alien else None

    def mat(d, rows_, cols_):
        A = np.zeros((len(rows_), len(cols_)))
        for k, v in d.items():
            if k in alien:
                continue
            r, c = k.split(".")
            A[rows_.index(r), cols_.index(c)] = v
        return A

    A, Ainv = mat(m, new, old), mat(minv, old, new)
    if what == "content":
        if inverse:
            got = Ainv[old.index(X)] @ np.array([row_new[l] for l in new])
            want = row_old[X]
        else:
            got = A[new.index(X)] @ np.array([row_old[l] for l in old])
            want = row_new[X]
        if far(got @ f, want @ f):
            return {"detail": "%s(%d, %s): row %s has flavour content %r over %r, but %s %s is %r; at f = %r: %r vs %r"
                              % ("rotate_matching_inverse" if inverse else "rotate_matching", nf, qed, X, got.tolist(), list(M.NAMES), X,
                                 "in the matching basis" if inverse else "with %d flavours" % nf, want.tolist(), f.tolist(), float(got @ f), float(want @ f))}
        return None
    if what == "inverse":
        if right:
            v = np.array([float(Fraction(point.get(M.vname("x", l), 0))) for l in new])
            got = A @ (Ainv @ v)
        else:
            v = np.array([float(Fraction(point.get(M.vname("y", l), 0))) for l in old])
            got = Ainv @ (A @ v)
        if far(got, v):
            return {"detail": "rotate_matching(%d, %s) and rotate_matching_inverse do not compose to the identity (%s): %r -> %r"
                              % (nf, qed, "m o minv" if right else "minv o m", v.tolist(), got.tolist())}
        return None
    return None


def main():
    chk = H.Check("C33")
    chk.exhaustive = True
    chk.bounds = ["nf crossing in {4,5,6} x {QCD, QED} enumerated (exhaustive)",
                  "flavour vector f: 14 real symbols; coordinates over matching basis and new basis: 14 real symbols each; |.| <= 1 (goals are linear)",
                  "float entries (1/nf, a..f) read as exact rationals; goals hold within 1e-12"]
    chk.bounds.append("thorough: additionally the composition of the three crossings 3 -> 4 -> 5 -> 6 and back")
    chk.out_of_claim = ["rounding beyond 1e-12", "rotate_matching(3, .) (no nf=3 crossing exists)"]
    chk.stubs = []
    chk.assumptions = ["harness/flavour_model.py transcribes FlavorSpace.rst (intrinsic bases) correctly (trusted base)",
                       "dot notation 'X.Y' = matrix element (row X of the new basis, column Y of the matching basis), as in tests/eko/evolution_operator/test_flavors.py"]
    _fl()
    for qed in (False, True):
        for nf in (4, 5, 6):
            chk.case("matching.%s.nf%d" % (_tag(qed), nf), case_matching, nf=nf, qed=qed)
        if H.tier() == "thorough":
            chk.case("chain.%s" % _tag(qed), case_chain, qed=qed)
    return chk.run()


if __name__ == "__main__":
    import sys

    sys.exit(main())
