"""C25  Anomalous dimensions obey momentum and fermion-number sum rules (within the documented accuracy).

Mode b: the real ekore functions are run at the concrete moments N=2 (momentum) and N=1 (number / axial charge) with nf
a real symbol (QED: (nf, nu) symbols ranging over the physical configurations); the harmonic sums are computed by the
real float code, every sum-rule combination is a polynomial in nf and z3 proves |combination| <= tolerance for all nf
of the stated range.  FHMRUVV: central == mean(upper, lower) as an identity in N (mode a: N a real symbol, psi atoms).

The tolerance table TOL below is the repo's own documentation of the accuracy of each parametrisation (the atol/rtol
or the documented residuals of its unit tests for the same combination); it is copied into the evidence.
"""
from fractions import Fraction

import numpy as realnp
import z3

from .common import *  # noqa
from . import ekoresym as E
from symx.solver import explore, prove_zero, prove_rel, assume_z3
from symx import harness as H

MOD = "harness.C25"
SL = "ekore.anomalous_dimensions.unpolarized.space_like"
TL = "ekore.anomalous_dimensions.unpolarized.time_like"
POL = "ekore.anomalous_dimensions.polarized.space_like"
ZERO7 = (0, 0, 0, 0, 0, 0, 0)
N1EPS = 1.0 + 1e-8  # "N -> 1" where the code has a removable pole at N=1 (the offset the repo's own test uses)
T = "tests/ekore/anomalous_dimensions/"

# ---------------------------------------------------------------------------
# tolerance table: id -> (tolerance as a function of nf (python expression string in nf), source)
# ---------------------------------------------------------------------------
TOL = {
    # unpolarised space-like
    "sl.1.mom": ("1e-9", "closed form (as1.py); " + T + "unpolarized/space_like/test_as1.py uses assert_almost_equal (1.5e-7); harmonic sums accurate to 1e-12"),
    "sl.1.num": ("1e-9", "closed form; test_as1.py::test_number_conservation"),
    "sl.2.q": ("2e-6", T + "unpolarized/space_like/test_as2.py: quark momentum atol=2e-6"),
    "sl.2.g": ("4e-5", "test_as2.py: gluon momentum atol=4e-5 ('the CA*NF term seems to be tough to compute')"),
    "sl.2.num": ("2e-6", "test_as2.py: gamma_nsm(1) atol=2e-6"),
    "sl.3.mom": ("6.5e-3", T + "unpolarized/space_like/test_as3.py documents the residuals of the MVV parametrisations at nf=5 (0.00169375, -0.00388726; "
                 "'each is 0 on its own'); tolerance = 1.67 x the largest documented NNLO residual, to cover nf in [3,6]"),
    "sl.3.num": ("1.6e-3", "test_as3.py documents gamma_nsv(1) = -0.000960586, gamma_nsm(1) = 0.000594225 at nf=5; tolerance = 1.67 x the largest"),
    "sl.4.q": ("1e-9 + 7e-11*nf + 6e-8*nf**2 + 3e-15*nf**3", T + "unpolarized/space_like/test_as4.py::test_momentum_conservation: per-nf-power atol of the quark column (1e-9, 7e-11, 6e-8, 3e-15)"),
    "sl.4.g": ("6e-10 + 2e-10*nf + 3e-11*nf**2 + 2e-7*nf**3", "test_as4.py::test_momentum_conservation: per-nf-power atol of the gluon column (6e-10, 2e-10, 3e-11, 2e-7)"),
    "sl.4.nsm": ("2e-10 + 2e-11*nf + 4e-13*nf**2 + 3e-15*nf**3", "test_as4.py::test_quark_number_conservation: per-nf-power atol (2e-10, 2e-11, 4e-13, 3e-15)"),
    "sl.4.nsv": ("2e-4 + 4.03e-4*nf + 9e-6*nf**2", "test_as4.py: gamma_nss_nf1(1) = 0.000400625 (atol 2e-6), gamma_nss_nf2(1+1e-8) atol 9e-6 (non-physical pole at N=1, "
                 "evaluated at N=1+1e-8 as the test does); 2e-4 allows for the slope of gamma_nsm between N=1 and 1+1e-8"),
    "fh.q": ("4e-5*|nsp| + 4e-4*|ps| + 4e-4*|gq|", T + "unpolarized/space_like/test_as4_fhmv.py: rtol of each entry against the exact moments N=2..20 (ps, gq: 4e-4; nsp: 4e-5); "
             "the exact moments conserve momentum, so |sum| <= sum rtol_i |entry_i|"),
    "fh.g": ("8e-4*|qg| + 4e-4*|gg|", "test_as4_fhmv.py::test_vogt_parametriztions: rtol qg 8e-4, gg 4e-4"),
    "fh.nsm": ("0.12", "test_as4_fhmv.py::test_quark_number_conservation documents gamma_nsm(1) in {0.0678, 0.0648, 0.0707} at nf=5; tolerance 1.7 x the largest, to cover nf in {3,4,5}"),
    "fh.nsv": ("0.14", "test_as4_fhmv.py documents gamma_nss(1) in {-0.0110, -0.0078, -0.0142} at nf=5 on top of gamma_nsm(1); tolerance 1.7 x (0.0707 + 0.0142)"),
    # time-like (no sum-rule test in the repo: tolerance of the space-like combination of the same order / parametrisation class)
    "tl.1": ("1e-9", "closed form (time_like/as1.py)"),
    "tl.1.eps": ("1e-7", "closed form evaluated at N=1+1e-8 (slope of gamma_ns at N=1 is ~5.4)"),
    "tl.2.row0": ("2e-6*2*nf", "no repo test; space-like NLO quark-column tolerance 2e-6 (test_as2.py) per unit of the weight 2 nf of the fragmentation convention"),
    "tl.2.row1": ("4e-5", "no repo test; space-like NLO gluon-column tolerance 4e-5 (test_as2.py)"),
    "tl.2.num": ("2e-6", "no sum-rule test; test_as2.py (time-like) documents gamma_nsm(1) = 1.585785642e-06; space-like NLO tolerance 2e-6"),
    "tl.3.row0": ("6.5e-3*2*nf", "no repo test; NNLO parametrisation class tolerance 6.5e-3 (see sl.3.mom) per unit of the weight 2 nf"),
    "tl.3.row1": ("6.5e-3", "no repo test; NNLO parametrisation class tolerance 6.5e-3 (see sl.3.mom)"),
    "tl.3.num": ("6.5e-3", "time_like/test_as3.py documents gamma_nsm(1) = 0.000593360 at nf=5; NNLO class tolerance 6.5e-3 (valence: 4-digit fitted coefficients)"),
    # polarised
    "pol.1": ("1e-9", "closed form; " + T + "polarized/space_like/test_ad_as1.py"),
    "pol.1.gg": ("1e-7*(11 + 2/3*nf)", "test_ad_as1.py::test_axial_anomaly: assert_allclose default rtol=1e-7 against beta0; scale = sum of |terms| of beta0"),
    "pol.2.qg": ("1.5e-7", "test_ad_as2.py::test_qg_helicity_conservation assert_almost_equal (decimal 7)"),
    "pol.2.gg": ("9e-7*(102 + 38/3*nf)", "test_ad_as2.py::test_axial_anomaly rtol=9e-7 against beta1; scale = sum of |terms| of beta1"),
    "pol.2.nsp": ("2e-6", "same function as unpolarised gamma_nsm at NLO (test_as2.py atol=2e-6)"),
    "pol.3.qg": ("5e-3", "test_ad_as3.py::test_qg_helicity_conservation documents gamma_qg(1) = 0.00294317 at nf=5; tolerance 1.7 x, to cover nf in [3,6]"),
    "pol.3.gg": ("2e-5*(2857/2 + 5033/18*nf + 325/54*nf**2)", "test_ad_as3.py::test_axial_anomaly rtol=2e-5 against beta2; scale = sum of |terms| of beta2"),
    "pol.3.nsp": ("1.6e-3", "same function as unpolarised NNLO gamma_nsm (test_ad_as3.py::test_ns); see sl.3.num"),
    # QED
    "qed.exact": ("1.5e-7", T + "unpolarized/space_like/test_aem1.py, test_as1aem1.py, test_aem2.py: gluon/photon columns assert_almost_equal (decimal 7)"),
    "qed.ns": ("1.5e-4", "test_as1aem1.py / test_aem2.py: quark momentum and number conservation assert_almost_equal(decimal=4) (fitted g3 in gamma_ns^(1,1))"),
}


def tol_value(tid, nf, parts=None):
    """tolerance as SR / number for symbolic or numeric nf"""
    expr = TOL[tid][0]
    if "|" in expr:
        tot = 0
        for term in expr.split("+"):
            c, name = term.strip().split("*")
            tot = tot + Fraction(c) * abs(parts[name.strip("|")])
        return tot
    e = expr
    import re

    e = re.sub(r"(?<![\w.])(\d+\.?\d*(?:e-?\d+)?)", r"Fraction('\1')", e)
    return eval(e, {"Fraction": Fraction, "nf": nf})


def tol_float(tid, nf, parts=None):
    expr = TOL[tid][0]
    if "|" in expr:
        tot = 0.0
        for term in expr.split("+"):
            c, name = term.strip().split("*")
            tot += float(c) * abs(parts[name.strip("|")])
        return tot
    return float(eval(expr, {"nf": nf}))


# ---------------------------------------------------------------------------
def _sr(x):
    return E.as_sr(x)


def _check(log, expr, tid, what, nf, key, rkw, parts=None, cands=None):
    tol = tol_value(tid, nf, parts)
    E.prove_abs_le(_sr(expr), tol, "|%s| <= %s" % (what, TOL[tid][0]), log, key, (MOD, "replay_sumrule", rkw),
                   candidates=cands or [{"nf": Fraction(k)} for k in (5, 3, 4, 6)], sampler=None)
    im = E.im_sr(expr)
    if not im.is_zero():
        E.prove_abs_le(im, Fraction(1, 10**9), "|Im %s| <= 1e-9" % what, log, key, (MOD, "replay_sumrule", rkw), candidates=cands or [{"nf": Fraction(5)}])


def case_qcd(log, sector, lo, hi, orders):
    """pure-QCD sectors: sl (as4 = eko approximations), tl, pol; nf real in [lo, hi]"""
    name = {"sl": SL, "tl": TL, "pol": POL}[sector]
    ad = E.mod(name)
    log.encode(ad.gamma_singlet, ad.gamma_ns)
    for t, (e, s) in TOL.items():
        if t.startswith(sector + "."):
            log.assume("tolerance %s: %s  [%s]" % (t, e, s))

    def run():
        E.unpatch()
        E.patch()
        nf = SR.var("nf")
        E.box(nf, lo, hi)
        beta = E.mod("eko.beta")
        kmax = max(orders)
        if sector == "sl":
            g2 = ad.gamma_singlet((kmax, 0), 2.0, nf, ZERO7, False)
            nsm = ad.gamma_ns((kmax, 0), 10201, 1.0, nf, ZERO7, False)
            nsv = ad.gamma_ns((min(kmax, 3), 0), 10200, 1.0, nf, ZERO7, False)
        elif sector == "tl":
            g2 = ad.gamma_singlet((kmax, 0), 2.0, nf)
            nsm = ad.gamma_ns((kmax, 0), 10201, 1.0, nf)
            nsv = ad.gamma_ns((kmax, 0), 10200, complex(N1EPS), nf)
        else:
            g2 = ad.gamma_singlet((kmax, 0), 2.0, nf)
            g1 = ad.gamma_singlet((kmax, 0), 1.0, nf)
            nsp = ad.gamma_ns((kmax, 0), 10101, 1.0, nf)
        for k in orders:
            rkw = {"sector": sector, "order": k}
            K = k - 1
            if sector == "sl":
                q, g = g2[K][0, 0] + g2[K][1, 0], g2[K][0, 1] + g2[K][1, 1]
                tq, tg = ("sl.%d.mom" % k,) * 2 if k in (1, 3) else ("sl.%d.q" % k, "sl.%d.g" % k)
                _check(log, q, tq, "gamma_qq+gamma_gq (N=2, a_s^%d)" % k, nf, "sl.as%d:momentum.q" % k, dict(rkw, combo="q"))
                _check(log, g, tg, "gamma_qg+gamma_gg (N=2, a_s^%d)" % k, nf, "sl.as%d:momentum.g" % k, dict(rkw, combo="g"))
                tn = "sl.4.nsm" if k == 4 else "sl.%d.num" % k
                _check(log, nsm[K], tn, "gamma_ns,-(N=1, a_s^%d)" % k, nf, "sl.as%d:number.nsm" % k, dict(rkw, combo="nsm"))
                if k <= 3:
                    _check(log, nsv[K], "sl.%d.num" % k, "gamma_ns,v(N=1, a_s^%d)" % k, nf, "sl.as%d:number.nsv" % k, dict(rkw, combo="nsv"))
                else:
                    v4 = ad.gamma_ns((4, 0), 10200, N1EPS, nf, ZERO7, False)[3]
                    _check(log, v4, "sl.4.nsv", "gamma_ns,v(N=1+1e-8, a_s^4)", nf, "sl.as4:number.nsv", dict(rkw, combo="nsv"))
            elif sector == "tl":
                r0 = g2[K][0, 0] * 2 * nf + g2[K][0, 1]
                r1 = g2[K][1, 0] * 2 * nf + g2[K][1, 1]
                t0, t1, tn = ("tl.1", "tl.1", "tl.1") if k == 1 else ("tl.%d.row0" % k, "tl.%d.row1" % k, "tl.%d.num" % k)
                _check(log, r0, t0, "2nf*gamma_qq+gamma_gq (N=2, time-like a_s^%d)" % k, nf, "tl.as%d:momentum.q" % k, dict(rkw, combo="q"))
                _check(log, r1, t1, "2nf*gamma_qg+gamma_gg (N=2, time-like a_s^%d)" % k, nf, "tl.as%d:momentum.g" % k, dict(rkw, combo="g"))
                _check(log, nsm[K], tn, "gamma_ns,-(N=1, time-like a_s^%d)" % k, nf, "tl.as%d:number.nsm" % k, dict(rkw, combo="nsm"))
                _check(log, nsv[K], "tl.1.eps" if k == 1 else tn, "gamma_ns,v(N=1+1e-8, time-like a_s^%d)" % k, nf, "tl.as%d:number.nsv" % k, dict(rkw, combo="nsv"))
            else:
                b = beta.beta_qcd((k + 1, 0), nf)
                _check(log, nsp[K], "pol.1" if k == 1 else "pol.%d.nsp" % k, "Delta gamma_ns,+(N=1, a_s^%d)" % k, nf, "pol.as%d:axial.ns" % k, dict(rkw, combo="nsp"))
                _check(log, g1[K][0, 1], "pol.1" if k == 1 else "pol.%d.qg" % k, "Delta gamma_qg(N=1, a_s^%d)" % k, nf, "pol.as%d:qg" % k, dict(rkw, combo="qg"))
                _check(log, g1[K][1, 1] + b, "pol.%d.gg" % k, "Delta gamma_gg(N=1)+beta_%d (a_s^%d)" % (k - 1, k), nf, "pol.as%d:gg" % k, dict(rkw, combo="gg"))
        E.twin(log)
        log.collect_ctx()

    _r, pm = explore(run)
    log.path_stats(pm)
    _validate_qcd(log, sector, lo, hi, max(orders))


def _validate_qcd(log, sector, lo, hi, kmax):
    """translator validation: the polynomial in nf evaluated at points == the real float code"""
    name = {"sl": SL, "tl": TL, "pol": POL}[sector]
    E.unpatch()
    ad = E.mod(name)
    pts = [Fraction(k) for k in range(lo, hi + 1)] + [rnd(log.rng, lo, hi)]

    def call(nf):
        if sector == "sl":
            return ad.gamma_singlet((kmax, 0), 2.0, nf, ZERO7, False)
        return ad.gamma_singlet((kmax, 0), 2.0, nf)

    ref = [call(float(p)) for p in pts]
    ctx.reset()
    E.patch()
    sym = call(SR.var("nf"))
    for p, r in zip(pts, ref):
        env = S.NumEnv({"nf": p})
        for idx in realnp.ndindex(r.shape):
            got = complex(env.value(sym[idx] if isinstance(sym[idx], (SR, Cx)) else Cx.lift(complex(sym[idx]))))
            if abs(got - r[idx]) > 1e-9 * max(1.0, abs(r[idx])):
                log.inconclusive.append("translator validation failed: %s gamma_singlet%r at nf=%s: %r vs %r" % (sector, idx, p, got, r[idx]))
        log.validate()
    E.unpatch()


def case_tl_nsv_n1(log):
    """time-like NNLO valence at exactly N=1 (the moment the sum rule is about; the code special-cases |N-1| < 1e-5)"""
    from symx.solver import prove_formula

    ad = E.mod(TL)
    log.encode(ad.as3.gamma_nsv)

    def run():
        E.unpatch()
        E.patch()
        nf = SR.var("nf")
        E.box(nf, 3, 6)
        c = E.mod("ekore.harmonics.cache")
        try:
            val = ad.as3.gamma_nsv(complex(1.0), nf, c.reset())
            err = None
        except ZeroDivisionError as e:
            val, err = None, e
        v = prove_formula(z3.BoolVal(err is None), "time_like.as3.gamma_nsv is defined at N=1 (no ZeroDivisionError before its N=1 special case)")
        E.decide(log, v, "tl.as3.gamma_nsv:N=1", replay=(MOD, "replay_tl_nsv_n1", {}), candidates=[{"nf": Fraction(5)}])
        if val is not None:
            _check(log, val, "tl.3.num", "gamma_ns,v(N=1, time-like a_s^3)", nf, "tl.as3:number.nsv", {"sector": "tl", "order": 3, "combo": "nsv1"})
        E.twin(log)

    _r, pm = explore(run)
    log.path_stats(pm)


def replay_tl_nsv_n1(point):
    import ekore.anomalous_dimensions.unpolarized.time_like.as3 as as3
    from ekore.harmonics import cache as c

    nf = int(round(float(point.get("nf", 5))))
    for N in (complex(1.0, 0.0), 1.0):
        try:
            val = as3.gamma_nsv(N, nf, c.reset())
        except ZeroDivisionError as e:
            return {"detail": "time_like.as3.gamma_nsv(N=%r, nf=%d) raises ZeroDivisionError (%s): `NMI = 1 / NM` is evaluated before the "
                              "`abs(N.real - 1) < 0.00001` special case that replaces the only use of NMI; the quark-number moment N=1 cannot be evaluated" % (N, nf, e)}
        except AttributeError:
            continue
        if abs(val) > tol_float("tl.3.num", nf):
            return {"detail": "time_like.as3.gamma_nsv(N=1, nf=%d) = %r exceeds %s" % (nf, val, TOL["tl.3.num"][0])}
    return None


# ---------------------------------------------------------------------------
AS4_NVAR = {"gg": 19, "gq": 15, "qg": 15, "qq": 6}


def case_as4_variations(log, full):
    """eko N3LO approximations: every variation index of gg, gq, qg, qq (one at a time; thorough: all products per column)"""
    ad = E.mod(SL)
    log.encode(ad.as4.gamma_singlet, ad.as4.gamma_gg, ad.as4.gamma_gq, ad.as4.gamma_qg, ad.as4.gamma_ps)
    for t in ("sl.4.q", "sl.4.g"):
        log.assume("tolerance %s: %s  [%s]" % (t, TOL[t][0], TOL[t][1]))

    def run():
        E.unpatch()
        E.patch()
        nf = SR.var("nf")
        E.box(nf, 3, 5)
        c = E.mod("ekore.harmonics.cache")
        if full:
            combos = [(vg, 0, vq, 0) for vg in range(20) for vq in range(16)] + [(0, vgq, 0, vps) for vgq in range(16) for vps in range(7)]
        else:
            combos = [(v, 0, 0, 0) for v in range(1, 20)] + [(0, v, 0, 0) for v in range(1, 16)] + [(0, 0, v, 0) for v in range(1, 16)] + [(0, 0, 0, v) for v in range(1, 7)]
        for var in combos:
            g = ad.as4.gamma_singlet(2.0, nf, c.reset(), var)
            rkw = {"sector": "sl", "order": 4, "variation": list(var) + [0, 0, 0]}
            if full or var[1] or var[3]:
                if not full or (var[0] == 0 and var[2] == 0):
                    _check(log, g[0, 0] + g[1, 0], "sl.4.q", "gamma_qq+gamma_gq (N=2, a_s^4, variation %r)" % (var,), nf, "sl.as4:momentum.q", dict(rkw, combo="q"))
            if full or var[0] or var[2]:
                if not full or (var[1] == 0 and var[3] == 0):
                    _check(log, g[0, 1] + g[1, 1], "sl.4.g", "gamma_qg+gamma_gg (N=2, a_s^4, variation %r)" % (var,), nf, "sl.as4:momentum.g", dict(rkw, combo="g"))
        E.twin(log)

    _r, pm = explore(run)
    log.path_stats(pm)


def case_fhmruvv(log, variations):
    """FHMRUVV N3LO: nf symbolic in [3,5]; the code forks on nf == 3 / 4 / 5 and refuses everything else."""
    ad = E.mod(SL)
    fh = ad.as4.fhmruvv
    log.encode(fh.gamma_singlet, fh.gamma_gg, fh.gamma_gq, fh.gamma_qg, fh.gamma_ps, fh.gamma_nsp, fh.gamma_nsm, fh.gamma_nsv)
    for t in ("fh.q", "fh.g", "fh.nsm", "fh.nsv"):
        log.assume("tolerance %s: %s  [%s]" % (t, TOL[t][0], TOL[t][1]))
    seen = set()

    def run():
        E.unpatch()
        E.patch()
        nf = SR.var("nf")
        E.box(nf, 3, 5)
        c = E.mod("ekore.harmonics.cache")
        try:
            for var in variations:
                v7 = tuple(var)
                g = ad.gamma_singlet((4, 0), 2.0, nf, v7, True)[3]
                cands = [{"nf": Fraction(k)} for k in (3, 4, 5)]
                rkw = {"sector": "fh", "order": 4, "variation": list(v7)}
                parts = {"nsp": _sr(fh.gamma_nsp(2.0, nf, c.reset(), v7[3])), "ps": _sr(fh.gamma_ps(2.0, nf, c.reset(), v7[3])),
                         "gq": _sr(g[1, 0]), "qg": _sr(g[0, 1]), "gg": _sr(g[1, 1])}
                _check(log, g[0, 0] + g[1, 0], "fh.q", "gamma_qq+gamma_gq (N=2, FHMRUVV, variation %r)" % (v7,), nf, "fh:momentum.q", dict(rkw, combo="q"), parts, cands)
                _check(log, g[0, 1] + g[1, 1], "fh.g", "gamma_qg+gamma_gg (N=2, FHMRUVV, variation %r)" % (v7,), nf, "fh:momentum.g", dict(rkw, combo="g"), parts, cands)
                m = ad.gamma_ns((4, 0), 10201, 1.0, nf, v7, True)[3]
                v = ad.gamma_ns((4, 0), 10200, 1.0, nf, v7, True)[3]
                _check(log, m, "fh.nsm", "gamma_ns,-(N=1, FHMRUVV, variation %d)" % v7[5], nf, "fh:number.nsm", dict(rkw, combo="nsm"), None, cands)
                _check(log, v, "fh.nsv", "gamma_ns,v(N=1, FHMRUVV, variation %d)" % v7[6], nf, "fh:number.nsv", dict(rkw, combo="nsv"), None, cands)
            seen.add("ok")
        except NotImplementedError as e:
            # the code refuses nf outside {3,4,5}: outside the claim (property quantifier: N3LO nf 3-5)
            log.assume("FHMRUVV: nf outside {3,4,5} raises NotImplementedError (%s)" % e)
            seen.add("refused")
        E.twin(log)

    _r, pm = explore(run)
    log.path_stats(pm)
    if "ok" not in seen:
        log.inconclusive.append("FHMRUVV: no path with an accepted nf")


def case_fhmruvv_mean(log, names):
    """central variation == mean(upper, lower), identity in N (mode a) and nf (symbolic; the code forks on nf == 3, 4, 5:
    keeping nf symbolic keeps the decimal coefficients exact instead of rounding their products with nf in floats)"""
    ad = E.mod(SL)
    fh = ad.as4.fhmruvv
    log.encode(*[getattr(fh, n) for n in names])
    seen = set()

    def run():
        E.unpatch()
        E.patch()
        stub = E.install_psi()
        c = E.mod("ekore.harmonics.cache")
        N = SR.var("N")
        nf = SR.var("nf")
        assume(N - 2, ">=0")
        E.box(nf, 3, 5)
        try:
            for n in names:
                f = getattr(fh, n)
                v0, v1, v2 = (f(N, nf, c.reset(), i) for i in (0, 1, 2))
                v = prove_zero(_sr(v0) - (_sr(v1) + _sr(v2)) / 2, "fhmruvv.%s: variation 0 == mean(variation 1, variation 2) for all N, nf in {3,4,5}" % n)
                E.decide(log, v, "fhmruvv.%s:mean" % n, replay=(MOD, "replay_mean", {"name": n}), sampler=_mean_sampler)
                # any other index is the central one
                v9 = f(N, nf, c.reset(), 7)
                v = prove_zero(_sr(v9) - _sr(v0), "fhmruvv.%s: an unknown variation index falls back to the central value" % n)
                E.decide(log, v, "fhmruvv.%s:mean" % n, replay=(MOD, "replay_mean", {"name": n}), sampler=_mean_sampler)
            seen.add("ok")
        except NotImplementedError as e:
            log.assume("FHMRUVV: nf outside {3,4,5} raises NotImplementedError (%s)" % e)
        E.twin(log)
        log.collect_ctx()
        for s_ in sorted(stub.instances):
            log.assume("axiom instance: " + s_)

    _r, pm = explore(run)
    log.path_stats(pm)
    if "ok" not in seen:
        log.inconclusive.append("FHMRUVV mean: no accepted path")


def _mean_sampler(rng):
    return {"N": rnd(rng, 2.1, 30), "nf": Fraction(rng.choice([3, 4, 5]))}


# ---------------------------------------------------------------------------
PHYS = {3: 1, 4: 2, 5: 2, 6: 3}  # nf -> number of up-like flavours


def case_qed(log, order, fh, nfs):
    """QED-extended grids: (nf, nu) symbols over the physical configurations (z3 disjunction)."""
    ad = E.mod(SL)
    cst = E.mod("eko.constants")
    log.encode(ad.gamma_singlet_qed, ad.gamma_valence_qed, ad.gamma_ns_qed, cst.charge_combinations)
    for t in ("qed.exact", "qed.ns"):
        log.assume("tolerance %s: %s  [%s]" % (t, TOL[t][0], TOL[t][1]))
    seen = set()

    def run():
        E.unpatch()
        E.patch()
        nf = SR.var("nf")
        nu = SR.var("nu")
        znf, znu = z3.Real("nf"), z3.Real("nu")
        assume_z3(z3.Or([z3.And(znf == k, znu == PHYS[k]) for k in nfs]))

        def uplike(n):
            if n > 6:
                raise NotImplementedError("Selected nf is not implemented")
            if (n - nf).is_zero() if isinstance(n, SR) else False:
                return nu
            raise SymbolicEscape("uplike_flavors called with %r" % (n,))

        E.rebind(cst, "uplike_flavors", uplike)
        cands = [{"nf": Fraction(k), "nu": Fraction(PHYS[k])} for k in nfs]
        try:
            gs = ad.gamma_singlet_qed(order, 2.0, nf, ZERO7, fh)
            gv = ad.gamma_valence_qed(order, 1.0, nf, ZERO7, fh) if (order[0] < 4 or fh) else None
            for i in range(order[0] + 1):
                for j in range(order[1] + 1):
                    if i + j == 0:
                        continue
                    rkw = {"sector": "qed", "order": [i, j], "fh": fh, "grid": list(order)}
                    for col, cname in enumerate(("g", "ph", "S", "Sdelta")):
                        tot = gs[i, j][0, col] + gs[i, j][1, col] + gs[i, j][2, col]
                        if j == 0:
                            if cname in ("ph", "Sdelta"):
                                tid = "qed.exact"
                            elif i == 4 and fh:
                                tid = None
                            else:
                                tid = {1: "sl.1.mom", 2: "sl.2.q" if cname == "S" else "sl.2.g", 3: "sl.3.mom", 4: "sl.4.q" if cname == "S" else "sl.4.g"}[i]
                        else:
                            tid = "qed.ns" if cname in ("S", "Sdelta") else "qed.exact"
                        what = "(gamma_g%s + gamma_ph%s + gamma_S%s)(N=2) at a_s^%d a_em^%d" % (cname, cname, cname, i, j)
                        if tid is None:
                            c = E.mod("ekore.harmonics.cache")
                            f4 = ad.as4.fhmruvv
                            parts = {"nsp": _sr(f4.gamma_nsp(2.0, nf, c.reset(), 0)), "ps": _sr(f4.gamma_ps(2.0, nf, c.reset(), 0)),
                                     "gq": _sr(gs[i, j][0, 2]), "qg": _sr(gs[i, j][2, 0]), "gg": _sr(gs[i, j][0, 0])}
                            _check(log, tot, "fh.q" if cname == "S" else "fh.g", what, nf, "qed:momentum.%s" % cname, dict(rkw, combo=cname), parts, cands)
                        else:
                            _check(log, tot, tid, what, nf, "qed:momentum.%s" % cname, dict(rkw, combo=cname), None, cands)
                    if gv is not None:
                        for a in range(2):
                            for b in range(2):
                                if j == 0:
                                    tid = {1: "sl.1.num", 2: "sl.2.num", 3: "sl.3.num"}.get(i, ("fh.nsv" if a == 0 else "fh.nsm") if fh else "sl.4.nsm")
                                else:
                                    tid = "qed.ns" if (i, j) != (0, 1) else "qed.exact"
                                _check(log, gv[i, j][a, b], tid, "gamma_valence_qed[%d,%d][%d,%d](N=1)" % (i, j, a, b), nf, "qed:number.valence", dict(rkw, combo="V%d%d" % (a, b)), None, cands)
            for mode in (10202, 10203):
                gn = ad.gamma_ns_qed(order, mode, 1.0, nf, ZERO7, fh)
                for i in range(gn.shape[0]):
                    for j in range(gn.shape[1]):
                        if i + j == 0:
                            continue
                        if j == 0:
                            tid = {1: "sl.1.num", 2: "sl.2.num", 3: "sl.3.num", 4: "fh.nsm" if fh else "sl.4.nsm"}[i]
                        else:
                            tid = "qed.ns" if (i, j) != (0, 1) else "qed.exact"
                        _check(log, gn[i, j], tid, "gamma_ns_qed(%d)[%d,%d](N=1)" % (mode, i, j), nf, "qed:number.ns", {"sector": "qed", "order": [i, j], "fh": fh, "grid": list(gn.shape), "combo": "ns%d" % mode}, None, cands)
            seen.add("ok")
        except NotImplementedError as e:
            log.assume("QED grid: refused configuration (%s)" % e)
        E.twin(log)

    _r, pm = explore(run)
    log.path_stats(pm)
    if "ok" not in seen:
        log.inconclusive.append("QED: no accepted path")


# ---------------------------------------------------------------------------
# replays
# ---------------------------------------------------------------------------
def _combo_real(sector, order, combo, nf, variation=None, fh=False, grid=None):
    """(value, tolerance id, parts) from the REAL code at float nf"""
    from ekore.harmonics import cache as c

    variation = tuple(variation) if variation else ZERO7
    if sector in ("sl", "fh"):
        import ekore.anomalous_dimensions.unpolarized.space_like as ad

        use_fh = sector == "fh"
        K = order - 1
        if combo in ("q", "g"):
            g = ad.gamma_singlet((order, 0), 2.0, nf, variation, use_fh)[K]
            val = g[0, 0] + g[1, 0] if combo == "q" else g[0, 1] + g[1, 1]
            parts = None
            if use_fh:
                f4 = ad.as4.fhmruvv
                parts = {"nsp": f4.gamma_nsp(2.0, nf, c.reset(), variation[3]), "ps": f4.gamma_ps(2.0, nf, c.reset(), variation[3]), "gq": g[1, 0], "qg": g[0, 1], "gg": g[1, 1]}
                return val, "fh." + combo, parts
            tid = "sl.%d.mom" % order if order in (1, 3) else "sl.%d.%s" % (order, combo)
            return val, tid, None
        mode = 10201 if combo == "nsm" else 10200
        n = N1EPS if (order == 4 and combo == "nsv" and not use_fh) else 1.0
        val = ad.gamma_ns((order, 0), mode, n, nf, variation, use_fh)[K]
        if use_fh:
            return val, "fh." + combo, None
        return val, ("sl.4." + combo) if order == 4 else "sl.%d.num" % order, None
    if sector == "tl":
        import ekore.anomalous_dimensions.unpolarized.time_like as ad

        K = order - 1
        if combo in ("q", "g"):
            g = ad.gamma_singlet((order, 0), 2.0, nf)[K]
            val = g[0, 0] * 2 * nf + g[0, 1] if combo == "q" else g[1, 0] * 2 * nf + g[1, 1]
            return val, "tl.1" if order == 1 else "tl.%d.row%d" % (order, 0 if combo == "q" else 1), None
        if combo == "nsm":
            return ad.gamma_ns((order, 0), 10201, 1.0, nf)[K], "tl.1" if order == 1 else "tl.%d.num" % order, None
        if combo == "nsv1":
            return ad.as3.gamma_nsv(complex(1.0), nf, c.reset()), "tl.3.num", None
        return ad.gamma_ns((order, 0), 10200, complex(N1EPS), nf)[K], "tl.1.eps" if order == 1 else "tl.%d.num" % order, None
    if sector == "pol":
        import ekore.anomalous_dimensions.polarized.space_like as ad
        from eko import beta

        K = order - 1
        if combo == "nsp":
            return ad.gamma_ns((order, 0), 10101, 1.0, nf)[K], "pol.1" if order == 1 else "pol.%d.nsp" % order, None
        g = ad.gamma_singlet((order, 0), 1.0, nf)[K]
        if combo == "qg":
            return g[0, 1], "pol.1" if order == 1 else "pol.%d.qg" % order, None
        # independent oracle for beta: literature values (refs/rge_literature.py)
        from refs import rge_literature as L

        b = [L.beta0, L.beta1, L.beta2][K](Fraction(nf).limit_denominator(1000))
        return g[1, 1] + float(b), "pol.%d.gg" % order, None
    raise KeyError(sector)


def replay_sumrule(point, sector, order, combo, variation=None, fh=False, grid=None):
    nf = float(point.get("nf", 5))
    if sector == "qed":
        return _replay_qed(point, order, combo, fh, grid)
    if sector == "fh":
        nf = int(round(nf))
        if nf not in (3, 4, 5):
            return None
    elif not (3 <= nf <= 6) or (order == 4 and nf > 5):
        return None
    val, tid, parts = _combo_real(sector, order, combo, nf, variation, fh, grid)
    tol = tol_float(tid, nf, parts)
    if abs(val) > tol * (1 + 1e-6) + 1e-13:
        return {"detail": "%s order %d combination %s at nf=%r (variation %r): |%r| exceeds the documented tolerance %s = %.3g [%s]"
                % (sector, order, combo, nf, variation, val, TOL[tid][0], tol, tid)}
    return None


def _replay_qed(point, order, combo, fh, grid):
    import ekore.anomalous_dimensions.unpolarized.space_like as ad
    from ekore.harmonics import cache as c

    nf = int(round(float(point.get("nf", 5))))
    if nf not in PHYS or (fh and max(grid) >= 4 and grid[0] >= 4 and nf == 6):
        return None
    i, j = order
    if combo.startswith("ns"):
        mode = int(combo[2:])
        g = ad.gamma_ns_qed((grid[0] - 1, grid[1] - 1), mode, 1.0, nf, ZERO7, fh)
        val = g[i, j]
        tid = {1: "sl.1.num", 2: "sl.2.num", 3: "sl.3.num", 4: "fh.nsm" if fh else "sl.4.nsm"}[i] if j == 0 else ("qed.ns" if (i, j) != (0, 1) else "qed.exact")
        parts = None
    elif combo.startswith("V"):
        a, b = int(combo[1]), int(combo[2])
        val = ad.gamma_valence_qed(tuple(grid), 1.0, nf, ZERO7, fh)[i, j][a, b]
        if j == 0:
            tid = {1: "sl.1.num", 2: "sl.2.num", 3: "sl.3.num"}.get(i, ("fh.nsv" if a == 0 else "fh.nsm") if fh else "sl.4.nsm")
        else:
            tid = "qed.ns" if (i, j) != (0, 1) else "qed.exact"
        parts = None
    else:
        col = ("g", "ph", "S", "Sdelta").index(combo)
        gs = ad.gamma_singlet_qed(tuple(grid), 2.0, nf, ZERO7, fh)[i, j]
        val = gs[0, col] + gs[1, col] + gs[2, col]
        parts = None
        if j == 0:
            if combo in ("ph", "Sdelta"):
                tid = "qed.exact"
            elif i == 4 and fh:
                f4 = ad.as4.fhmruvv
                parts = {"nsp": f4.gamma_nsp(2.0, nf, c.reset(), 0), "ps": f4.gamma_ps(2.0, nf, c.reset(), 0), "gq": gs[0, 2], "qg": gs[2, 0], "gg": gs[0, 0]}
                tid = "fh.q" if combo == "S" else "fh.g"
            else:
                tid = {1: "sl.1.mom", 2: "sl.2.q" if combo == "S" else "sl.2.g", 3: "sl.3.mom", 4: "sl.4.q" if combo == "S" else "sl.4.g"}[i]
        else:
            tid = "qed.ns" if combo in ("S", "Sdelta") else "qed.exact"
    tol = tol_float(tid, nf, parts)
    if abs(val) > tol * (1 + 1e-6) + 1e-13:
        return {"detail": "QED grid %r entry (%d,%d) combination %s at nf=%d: |%r| exceeds the documented tolerance %s = %.3g [%s]" % (grid, i, j, combo, nf, val, TOL[tid][0], tol, tid)}
    return None


def replay_mean(point, name):
    import ekore.anomalous_dimensions.unpolarized.space_like.as4.fhmruvv as fh
    from ekore.harmonics import cache as c

    x = float(point.get("N", 4.4))
    nf = int(round(float(point.get("nf", 4))))
    if x < 2 or nf not in (3, 4, 5):
        return None
    f = getattr(fh, name)
    for N in (complex(x), complex(x, 3.5), complex(x + 1, -17.0)):
        v0, v1, v2, v7 = (f(N, nf, c.reset(), i) for i in (0, 1, 2, 7))
        if abs(v0 - (v1 + v2) / 2) > 1e-9 * max(1.0, abs(v0)):
            return {"detail": "fhmruvv.%s(N=%r, nf=%d): central %r != mean(upper %r, lower %r) = %r" % (name, N, nf, v0, v1, v2, (v1 + v2) / 2)}
        if abs(v7 - v0) > 1e-9 * max(1.0, abs(v0)):
            return {"detail": "fhmruvv.%s(N=%r, nf=%d): variation 7 gives %r, central is %r" % (name, N, nf, v7, v0)}
    return None


# ---------------------------------------------------------------------------
def main():
    chk = H.Check("C25")
    tier = H.tier()
    chk.bounds = ["moments N=2 (momentum) and N=1 (number / axial charge) concrete; N=1+1e-8 where the expression has a removable pole at N=1 "
                  "(N3LO valence of the eko approximations, time-like valence)",
                  "nf a real symbol in [3,6] (N3LO: [3,5]; FHMRUVV: the code forks on nf in {3,4,5} and refuses the rest); "
                  "QED: (nf, nu) symbols over the physical configurations {(3,1),(4,2),(5,2),(6,3)}",
                  "orders: unpolarised space-like a_s^1..4 (eko N3LO approximations: all variation indices one at a time; thorough: all products per column; "
                  "FHMRUVV: variation tuples (v,..,v), v=0,1,2, thorough: mixed), time-like a_s^1..3, polarised a_s^1..3, QED grids up to (4,2)",
                  "tolerances: table TOL in harness/C25.py (listed in `assumptions`)"]
    chk.out_of_claim = ["the exact moment N=1 of the eko N3LO approximation of gamma_ns,v (as4.gnsv nf^2 part has a non-physical pole at N=1, documented in tests/: evaluated at 1+1e-8); "
                        "time-like NNLO gamma_ns,v is checked both at N=1+1e-8 and at exactly N=1 (case tl.as3.nsv.N1; ZeroDivisionError there was defect 6d98ac99)",
                        "accuracy of the parametrisations beyond the tolerance table; rounding of the float harmonic sums (read as the rationals they denote)",
                        "colour factors other than NC=3"]
    chk.stubs = ["QED cases: eko.constants.uplike_flavors(nf) -> symbol nu tied to nf by the disjunction of the physical configurations"]
    chk.assumptions = ["float literals and float harmonic sums are read as the simplest rational that rounds to them"]
    chk.case("sl.qcd.as123", case_qcd, sector="sl", lo=3, hi=6, orders=[1, 2, 3])
    chk.case("sl.qcd.as4", case_qcd, sector="sl", lo=3, hi=5, orders=[4])
    chk.case("tl.qcd", case_qcd, sector="tl", lo=3, hi=6, orders=[1, 2, 3])
    chk.case("pol.qcd", case_qcd, sector="pol", lo=3, hi=6, orders=[1, 2, 3])
    chk.case("tl.as3.nsv.N1", case_tl_nsv_n1)
    chk.case("sl.as4.variations", case_as4_variations, full=False)
    fhv = [(v,) * 7 for v in (0, 1, 2)]
    chk.case("sl.fhmruvv", case_fhmruvv, variations=fhv)
    chk.case("fhmruvv.mean.singlet", case_fhmruvv_mean, names=["gamma_gg", "gamma_gq", "gamma_qg", "gamma_ps"])
    chk.case("fhmruvv.mean.ns", case_fhmruvv_mean, names=["gamma_nsp", "gamma_nsm", "gamma_nsv"])
    chk.case("qed.o32", case_qed, order=(3, 2), fh=True, nfs=[3, 4, 5, 6])
    chk.case("qed.o42.fhmruvv", case_qed, order=(4, 2), fh=True, nfs=[3, 4, 5])
    chk.case("qed.o42.as4", case_qed, order=(4, 2), fh=False, nfs=[3, 4, 5])
    if tier == "thorough":
        chk.case("sl.as4.variations.full", case_as4_variations, full=True)
        chk.case("sl.fhmruvv.mixed", case_fhmruvv, variations=[(1, 2, 1, 2, 2, 1, 2), (2, 1, 2, 1, 1, 2, 1), (0, 1, 2, 0, 0, 1, 2), (2, 0, 1, 2, 2, 0, 1), (1, 0, 0, 1, 1, 0, 0)])
        for o in ((1, 1), (1, 2), (2, 1), (2, 2), (3, 1)):
            chk.case("qed.o%d%d" % o, case_qed, order=o, fh=True, nfs=[3, 4, 5, 6])
    E.load()
    return chk.run(workers=6)


if __name__ == "__main__":
    import sys

    sys.exit(main())
