"""C12  Exact singlet methods converge to the path-ordered solution (the decidable core of a limit statement).

Real functions executed on jets: singlet.eko_iterate (one step), singlet.r_vec / u_vec / sum_u / eko_perturbative,
singlet_qed.eko_iterate and valence_qed.dispatcher (exp_matrix = LAPACK eig stubbed by its defining series).

Decided:
  (i)   local order of eko_iterate: one step a0 -> a0(1+eps) equals the Taylor solution of dE/da = gamma(a)/beta(a) E
        through eps^2 for non-commuting symbolic gamma (midpoint rule => local error eps^3, global error 1/n^2: the documented rate);
  (ii)  u_vec satisfies  k U_k = [R_0, U_k] + sum_{j=1..k} R_j U_{k-j}  for general symbolic R_k, and r_vec(is_exact=True)
        reproduces a*gamma(a)/beta(a) as a series through the requested order, so eko_perturbative's truncation error is O(a^max_order);
  (iii) QED: one step of singlet_qed.eko_iterate (dim 4 and, through valence_qed, dim 2) along couplings a_s(t), a_em(t) that solve
        arbitrary smooth RGEs, with the half-step couplings taken at the arithmetic mu^2 midpoint as the caller does, equals the
        path-ordered solution of dE/dt = -gamma(a_s,a_em) E through h^2 (h = step in ln mu^2).
Not decided: the limit n -> infinity itself and error constants (numerical).
"""
from fractions import Fraction

from .kern import *  # noqa
from symx.solver import explore, prove_zero
from symx import harness as H

MOD = "harness.C12"


def case_iterate_local(log, order, its=1):
    ns, sg, ei, as4, ad = kernel_modules()
    log.encode(sg.eko_iterate, ad.exp_matrix_2D)
    rp = (MOD, "replay_iterate", {"order": order, "its": its})
    log.register_replay("fallback:replay_iterate", rp, _sampler)

    def run():
        jetmod.set_cap(5)
        a0 = SR.var("a0")
        assume(a0, ">0")
        eps = Jet.lam()
        a1 = a0 * (1 + eps)
        bet, bs, _roots = sym_rge(order) if order < 4 else sym_rge(3)
        if order == 4:
            b3 = SR.var("b3")
            bet = bet + [b3 * bet[0]]
        gs = singlet_gammas(order, "general")
        # exp_matrix_2D by its contract (the matrix exponential, decided in C23) as a power series in the step: the
        # eigen-decomposition of a series-valued matrix is what made this case too deep for the quick tier
        saved = sg.ad
        sg.ad = AdSeries(saved)
        try:
            E = sg.eko_iterate(gs, a1, a0, bet, (order, 0), its)
        finally:
            sg.ad = saved
        # exact series: dE/deps = a0 * gamma(a)/beta(a) E at a = a0 (1+eps)
        den = sum(b * a1 ** (k + 2) for k, b in enumerate(bet))
        inv = a0 / den
        N = realnp.empty((2, 2), dtype=object)
        for i in range(2):
            for j in range(2):
                N[i, j] = sum(gs[k][i, j] * a1 ** (k + 1) for k in range(order)) * inv
        Eex = ode_series(N, 2)
        for i in range(2):
            for j in range(2):
                d = as_jet(E[i, j]) - Eex[i, j]
                for k, c in residual_coeffs(d, 3):
                    v = prove_zero(c, "eko_iterate order %d, %d step(s) over a0 -> a0(1+eps): [%d,%d] eps^%d coefficient of (kernel - exact)" % (order, its, i, j, k), timeout_ms=60000)
                    log.decide(v, key="singlet.eko_iterate:%d:local-order" % order, replay=rp, sampler=_sampler)
        log.twin("domain")
        log.collect_ctx()

    _r, pm = explore(run)
    log.path_stats(pm)


def case_iterate_rate(log, order, its=(1, 2, 3)):
    """Documented rate of eko_iterate: over a0 -> a0(1+eps) the leading (eps^3) error of n midpoint steps is exactly 1/n^2 of the
    one-step error -- in particular it contains the path-ordering commutator with the right sign and step widths/midpoints that
    follow the geometric nodes (an anti-ordered product or uniform widths leave an n-independent eps^3 remainder)."""
    ns, sg, ei, as4, ad = kernel_modules()
    log.encode(sg.eko_iterate, ad.exp_matrix_2D)
    rp = (MOD, "replay_iterate_rate", {"order": order})
    key = "singlet.eko_iterate:%d:rate" % order
    log.register_replay(key, rp, _sampler)

    def run():
        jetmod.set_cap(5)
        a0 = SR.var("a0")
        assume(a0, ">0")
        eps = Jet.lam()
        a1 = a0 * (1 + eps)
        bet, bs, _roots = sym_rge(order)
        gs = singlet_gammas(order, "general")
        saved = sg.ad
        sg.ad = AdSeries(saved)
        try:
            Es = {n: sg.eko_iterate(gs, a1, a0, bet, (order, 0), n) for n in its}
        finally:
            sg.ad = saved
        den = sum(b * a1 ** (k + 2) for k, b in enumerate(bet))
        inv = a0 / den
        N = realnp.empty((2, 2), dtype=object)
        for i in range(2):
            for j in range(2):
                N[i, j] = sum(gs[k][i, j] * a1 ** (k + 1) for k in range(order)) * inv
        Eex = ode_series(N, 2)
        for i in range(2):
            for j in range(2):
                err = {}
                for n in its:
                    d = as_jet(Es[n][i, j]) - Eex[i, j]
                    cs = dict(residual_coeffs(d, 4))
                    err[n] = cs[3]
                for n in its[1:]:
                    v = prove_zero(Cx.lift(err[n]) * (n * n) - Cx.lift(err[its[0]]), "eko_iterate order %d [%d,%d]: eps^3 error of %d steps == 1/%d of the one-step error" % (order, i, j, n, n * n), timeout_ms=60000)
                    log.decide(v, key=key, replay=rp, sampler=_sampler)
        log.twin("domain")
        log.collect_ctx()

    _r, pm = explore(run)
    log.path_stats(pm)


def replay_iterate_rate(point, order):
    """real eko_iterate vs a high-precision solution of the matrix ODE: the error must fall like 1/n^2 (n = 4, 8, 16 steps)"""
    import numpy as np
    import mpmath as mp
    import eko.kernels.singlet as sg
    from eko import beta as B

    nf = 4
    rng = np.random.default_rng(11)
    g = rng.normal(size=(order, 2, 2)) * 3 + 0.2j
    bet = [B.beta_qcd((2 + k, 0), nf) for k in range(order)]
    a0, a1 = 0.05, 0.02
    mp.mp.dps = 30

    def rhs(t, y):
        a = a0 + t * (a1 - a0)
        den = sum(b * a ** (k + 2) for k, b in enumerate(bet)) / (a1 - a0)
        G = [[sum(mp.mpc(complex(g[k][i][j])) * a ** (k + 1) for k in range(order)) / den for j in range(2)] for i in range(2)]
        return [G[0][0] * y[0] + G[0][1] * y[2], G[0][0] * y[1] + G[0][1] * y[3], G[1][0] * y[0] + G[1][1] * y[2], G[1][0] * y[1] + G[1][1] * y[3]]

    sol = mp.odefun(rhs, 0, [1, 0, 0, 1], tol=1e-18)(1)
    exact = np.array([[complex(sol[0]), complex(sol[1])], [complex(sol[2]), complex(sol[3])]])
    errs = []
    for n in (4, 8, 16, 32):
        E = sg.eko_iterate(g, a1, a0, np.array(bet), (order, 0), n)
        errs.append(np.abs(E - exact).max())
    rate = np.log(errs[-2] / errs[-1]) / np.log(2)
    if rate < 1.7:
        return {"detail": "eko_iterate order %d (a0=0.05 -> a1=0.02, nf=4, non-commuting gamma): errors %r for 4, 8, 16, 32 steps, rate %.2f instead of 2" % (order, errs, rate)}
    return None


def case_perturbative_combination(log, order, extra, its, is_exact):
    """eko_perturbative's own combination: r_vec is asked for the series through the *expansion* order (and told the perturbative
    order and the fill mode), u_vec for U through the expansion order, and each step is U(a_h) E_LO(a_h, a_l) U(a_l)^-1 with
    U(a) = sum_{k < expansion order} U_k a^k, steps multiplied later-on-the-left over the geometric nodes (r_vec, u_vec, lo_exact
    replaced by recorders returning symbolic non-commuting matrices; they are decided in their own cases)."""
    ns, sg, ei, as4, ad = kernel_modules()
    log.encode(sg.eko_perturbative, sg.sum_u)
    rp = (MOD, "replay_perturbative", {"order": order, "extra": extra, "its": its, "is_exact": is_exact})
    key = "singlet.eko_perturbative:%d:combination" % order
    log.register_replay(key, rp, _sampler)
    M = order + extra

    def Z(x, what):
        v = prove_zero(Cx.lift(x), what, timeout_ms=60000)
        log.decide(v, key=key, replay=rp, sampler=_sampler)

    def run():
        a0, a1 = SR.var("a0"), SR.var("a1")
        assume(a0, ">0")
        assume(a1, ">0")
        calls = {"r": [], "u": [], "lo": []}
        I2 = realnp.array([[1, 0], [0, 1]], dtype=object)
        U = [I2] + [realnp.array([[SR.var("u%d_%d%d" % (k, i, j)) for j in range(2)] for i in range(2)], dtype=object) for k in range(1, M)]
        rtok = realnp.array(["r-token"], dtype=object)
        gtok, btok = object(), object()

        def r_vec(g, b, mo, o, ex):
            calls["r"].append((g, b, tuple(mo), tuple(o), ex))
            return rtok

        def u_vec(r, mo):
            calls["u"].append((r, tuple(mo)))
            return realnp.array(U, dtype=object)

        def lo_exact(g, ah, al, b):
            k = len(calls["lo"])
            calls["lo"].append((g, ah, al, b))
            return realnp.array([[SR.var("e%d_%d%d" % (k, i, j)) for j in range(2)] for i in range(2)], dtype=object)

        saved = (sg.r_vec, sg.u_vec, sg.lo_exact)
        sg.r_vec, sg.u_vec, sg.lo_exact = r_vec, u_vec, lo_exact
        sg.np.geomspace_roots = True
        try:
            E = sg.eko_perturbative(gtok, a1, a0, btok, (order, 0), its, (M, 0), is_exact)
        finally:
            sg.r_vec, sg.u_vec, sg.lo_exact = saved
        tag = "order %d, expansion order %d, %d step(s), exact fill=%s" % (order, M, its, is_exact)
        ok_r = len(calls["r"]) == 1 and calls["r"][0][0] is gtok and calls["r"][0][1] is btok and calls["r"][0][2] == (M, 0) and calls["r"][0][3] == (order, 0) and calls["r"][0][4] is is_exact
        Z(SR(0 if ok_r else 1), "r_vec asked with (gamma, beta, expansion order, perturbative order, fill mode) [%s]" % tag)
        ok_u = len(calls["u"]) == 1 and calls["u"][0][0] is rtok and calls["u"][0][1] == (M, 0)
        Z(SR(0 if ok_u else 1), "u_vec asked with r and the expansion order [%s]" % tag)
        Z(SR(0 if len(calls["lo"]) == its and all(c[0] is gtok and c[3] is btok for c in calls["lo"]) else 1), "one LO factor per step with (gamma, beta) [%s]" % tag)
        if len(calls["lo"]) == its:
            nodes = [calls["lo"][0][2]] + [c[1] for c in calls["lo"]]
            Z(nodes[0] - a0, "first node a0 [%s]" % tag)
            Z(nodes[-1] - a1, "last node a1 [%s]" % tag)
            for k in range(1, its):
                Z(nodes[k] * nodes[k] - nodes[k - 1] * nodes[k + 1], "nodes geometric [%s]" % tag)
                Z(calls["lo"][k][2] - calls["lo"][k - 1][1], "steps contiguous [%s]" % tag)
            want = I2
            for k in range(its):
                ah, al = nodes[k + 1], nodes[k]
                Uh = sum(U[j] * ah**j for j in range(M))
                Ul = sum(U[j] * al**j for j in range(M))
                e0 = realnp.array([[SR.var("e%d_%d%d" % (k, i, j)) for j in range(2)] for i in range(2)], dtype=object)
                want = (Uh @ e0 @ sg.np.linalg.inv(Ul)) @ want
            for i in range(2):
                for j in range(2):
                    Z(E[i, j] - want[i, j], "eko_perturbative == ordered product of U(a_h) E_LO U(a_l)^-1 over the nodes, entry [%d,%d] [%s]" % (i, j, tag))
        log.twin("domain")
        log.collect_ctx()

    _r, pm = explore(run)
    log.path_stats(pm)


def replay_perturbative(point, order, extra, its, is_exact):
    """real eko_perturbative vs the same formula assembled from the real r_vec / u_vec / lo_exact with the documented arguments"""
    import numpy as np
    import eko.kernels.singlet as sg
    from eko import beta as B

    nf = 4
    rng = np.random.default_rng(5)
    g = rng.normal(size=(order, 2, 2)) * 2 + 0.3j
    bet = [B.beta_qcd((2 + k, 0), nf) for k in range(order)]
    a0, a1 = 0.04, 0.015
    M = order + extra
    got = sg.eko_perturbative(g, a1, a0, bet, (order, 0), its, (M, 0), is_exact)
    r = sg.r_vec(g, bet, (M, 0), (order, 0), is_exact)
    u = sg.u_vec(r, (M, 0))
    nodes = np.geomspace(a0, a1, its + 1)
    want = np.eye(2, dtype=complex)
    for k in range(its):
        ah, al = nodes[k + 1], nodes[k]
        Uh = sum(u[j] * ah**j for j in range(M))
        Ul = sum(u[j] * al**j for j in range(M))
        want = (Uh @ sg.lo_exact(g, ah, al, bet) @ np.linalg.inv(Ul)) @ want
    if np.abs(got - want).max() > 1e-10 * np.abs(want).max():
        return {"detail": "eko_perturbative (order %d, expansion order %d, %d steps, exact fill=%s) differs from the product of U(a_h) E_LO U(a_l)^-1 built from r_vec/u_vec at the expansion order by %r" % (order, M, its, is_exact, np.abs(got - want).max())}
    return None


def case_uvec(log, K):
    ns, sg, ei, as4, ad = kernel_modules()
    log.encode(sg.u_vec, ad.exp_matrix_2D)
    rp = (MOD, "replay_uvec", {"K": K})
    log.register_replay("fallback:replay_uvec", rp, _sampler)

    def run():
        r = realnp.empty((K + 1, 2, 2), dtype=object)
        for k in range(K + 1):
            for i in range(2):
                for j in range(2):
                    r[k, i, j] = SR.var("r%d_%d%d" % (k, i, j))
        u = sg.u_vec(r, (K, 0))
        for k in range(1, K):
            lhs = u[k] * k - (r[0] @ u[k] - u[k] @ r[0])
            rhs = sum(r[j] @ u[k - j] for j in range(1, k + 1))
            D = lhs - rhs
            for i in range(2):
                for j in range(2):
                    v = prove_zero(Cx.lift(D[i, j]), "u_vec recursion k=%d: [k U_k - [R0,U_k] - sum R_j U_(k-j)][%d,%d]" % (k, i, j), timeout_ms=60000)
                    log.decide(v, key="singlet.u_vec:recursion", replay=rp, sampler=_sampler)
        for i in range(2):
            for j in range(2):
                v = prove_zero(Cx.lift(u[0][i, j]) - (1 if i == j else 0), "u_vec: U_0 == 1 [%d,%d]" % (i, j))
                log.decide(v, key="singlet.u_vec:recursion", replay=rp, sampler=_sampler)
        log.twin("domain")
        log.collect_ctx()

    _r, pm = explore(run)
    log.path_stats(pm)


def case_rvec(log, order, M, is_exact):
    ns, sg, ei, as4, ad = kernel_modules()
    log.encode(sg.r_vec)
    rp = (MOD, "replay_rvec", {"order": order, "M": M, "is_exact": is_exact})
    log.register_replay("fallback:replay_rvec", rp, _sampler)

    def run():
        jetmod.set_cap(M + 1)
        bet, bs, _ = sym_rge(order) if order < 4 else sym_rge(3)
        if order == 4:
            bet = bet + [SR.var("b3") * bet[0]]
        gs = singlet_gammas(order, "general")
        r = sg.r_vec(gs, bet, (M, 0), (order, 0), is_exact)
        a = Jet.lam()
        den = sum(b * a**k for k, b in enumerate(bet))
        # entries r[k] used by u_vec are k < M
        top = M if is_exact else order
        for i in range(2):
            for j in range(2):
                ratio = sum(gs[k][i, j] * a**k for k in range(order)) / den
                for k in range(M):
                    want = ratio.coef(k) if k < top else SR(0)
                    v = prove_zero(Cx.lift(r[k][i, j]) - Cx.lift(want), "r_vec(order %d, max_order %d, exact=%s): R_%d[%d,%d] == series coefficient of gamma/beta" % (order, M, is_exact, k, i, j))
                    log.decide(v, key="singlet.r_vec:%d:%s" % (order, "exact" if is_exact else "expanded"), replay=rp, sampler=_sampler)
        log.twin("domain")
        log.collect_ctx()

    _r, pm = explore(run)
    log.path_stats(pm)


def case_routing(log, order):
    """singlet.dispatcher hands each method to the documented kernel with the documented flags (kernels replaced by recorders)."""
    ns, sg, ei, as4, ad = kernel_modules()
    from eko.kernels import EvoMethods

    log.encode(sg.dispatcher)
    rp = (MOD, "replay_routing", {"order": order})
    log.register_replay("singlet.dispatcher:routing", rp, _sampler)
    names = ["lo_exact", "eko_iterate", "eko_perturbative", "eko_truncated", "nlo_decompose_exact", "nlo_decompose_expanded",
             "nnlo_decompose_exact", "nnlo_decompose_expanded", "n3lo_decompose_exact", "n3lo_decompose_expanded"]
    dec = {2: "nlo", 3: "nnlo", 4: "n3lo"}

    def run():
        a0, a1 = SR.var("a0"), SR.var("a1")
        assume(a1 - a0, "!=0")
        gs = singlet_gammas(order, "general")
        calls = []
        saved = {n: getattr(sg, n) for n in names}
        for n in names:
            setattr(sg, n, (lambda nm: (lambda *a: calls.append((nm, a)) or ("result", nm)))(n))
        try:
            for m in EvoMethods:
                del calls[:]
                out = sg.dispatcher((order, 0), m, gs, a1, a0, SR(4), 7, (order + 2, 0))
                if order == 1:
                    want = ("lo_exact", None)
                elif m in (EvoMethods.ITERATE_EXACT, EvoMethods.ITERATE_EXPANDED):
                    want = ("eko_iterate", {5: 7})
                elif m == EvoMethods.PERTURBATIVE_EXACT:
                    want = ("eko_perturbative", {5: 7, 6: (order + 2, 0), 7: True})
                elif m == EvoMethods.PERTURBATIVE_EXPANDED:
                    want = ("eko_perturbative", {5: 7, 6: (order + 2, 0), 7: False})
                elif m in (EvoMethods.TRUNCATED, EvoMethods.ORDERED_TRUNCATED):
                    want = ("eko_truncated", None)
                elif m == EvoMethods.DECOMPOSE_EXACT:
                    want = (dec[order] + "_decompose_exact", None)
                else:
                    want = (dec[order] + "_decompose_expanded", None)
                ok = len(calls) == 1 and calls[0][0] == want[0] and out == ("result", want[0])
                if ok and want[1]:
                    ok = all(calls[0][1][i] == v for i, v in want[1].items())
                if ok:
                    # couplings in the documented slots (target first, then initial)
                    ok = calls[0][1][1] is a1 and calls[0][1][2] is a0 and calls[0][1][0] is gs
                v = S.Verdict("unsat" if ok else "sat", "dispatcher(order %d, %s) -> %s with the documented arguments" % (order, m.name, want[0]), None, {}, 0.0, None, 1)
                log.decide(v, key="singlet.dispatcher:routing", replay=rp, sampler=_sampler)
        finally:
            for n, f in saved.items():
                setattr(sg, n, f)
        log.twin("domain")

    _r, pm = explore(run)
    log.path_stats(pm)


def case_qed_step(log, order, dim, steps=1):
    """`steps` steps of the QED iterate along symbolic RG trajectories."""
    sq = sym_module("eko.kernels.singlet_qed")
    vq = sym_module("eko.kernels.valence_qed")
    from eko.kernels import EvoMethods

    log.encode(sq.eko_iterate, vq.dispatcher, sq.dispatcher)
    oq, oe = order
    rp = (MOD, "replay_qed", {"order": list(order), "dim": dim, "steps": steps})
    log.register_replay("fallback:replay_qed", rp, _sampler)

    def run():
        jetmod.set_cap(5)
        h = Jet.lam()  # step in t = ln mu^2
        a0 = SR.var("a0")
        e0 = SR.var("aem0")
        assume(a0, ">0")
        assume(e0, ">0")
        # beta coefficients: QCD beta_(i+1,0), i=1..oq and the mixed beta_(2,1) as the code uses them; a_em running with an arbitrary
        # smooth RGE  d aem/dt = -(c2 aem^2 + c21 aem^2 as)  (the kernel never uses the QED beta function itself)
        bq = [SR.var("bq%d" % i) for i in range(1, oq + 1)]
        b21 = SR.var("b21")
        c2, c21 = SR.var("c2"), SR.var("c21")

        def beta_s(a, e):
            return sum(b * a ** (i + 1) for i, b in enumerate(bq, start=1)) + b21 * a * a * e

        def beta_e(a, e):
            return c2 * e * e + c21 * e * e * a

        # trajectories by Picard: a(t0+s), e(t0+s) as jets in s (s in [0,h]); we need them at s=h and at the mu^2 midpoint
        def traj(n=6):
            a = Jet.lift(a0)
            e = Jet.lift(e0)
            for _ in range(n):
                a, e = jet_integrate(-beta_s(a, e)) + a0, jet_integrate(-beta_e(a, e)) + e0
            return a, e

        a_s, a_e = traj()  # jets in the running variable (formal parameter = elapsed t)

        def at(j, s):
            """evaluate trajectory jet j (in elapsed t) at elapsed time s (a jet in h)"""
            tot = Jet.lift(0)
            p = Jet.lift(1)
            for k in range(jetmod.CAP[0]):
                ck = j._known(k) if k < j.prec else None
                if ck is None:
                    break
                tot = tot + p * ck
                p = p * s
            return tot

        # mu^2 midpoint of a step of length h: ln((1+e^h)/2) = h/2 + h^2/8 - h^4/192 ... after the step start
        t_half = ((1 + h.exp()) / 2).log()
        as_list = [Jet.lift(a0)] + [at(a_s, h * k) for k in range(1, steps + 1)]
        G = realnp.empty((oq + 1, oe + 1, dim, dim), dtype=object)
        for i in range(oq + 1):
            for j in range(oe + 1):
                for k in range(dim):
                    for l in range(dim):
                        G[i, j, k, l] = SR.var("G%d%d_%d%d" % (i, j, k, l)) if (i, j) != (0, 0) else SR(0)
        a_half = realnp.empty((steps, 2), dtype=object)
        for k in range(steps):
            a_half[k, 0], a_half[k, 1] = at(a_s, h * k + t_half), at(a_e, h * k + t_half)

        class Beta:
            @staticmethod
            def beta_qcd(k, nf):
                if k == (2, 1):
                    return b21
                return bq[k[0] - 2]

        saved_ad, saved_beta = sq.ad, sq.beta
        sq.ad = AdSeries(saved_ad)
        sq.beta = Beta()
        try:
            if dim == 4:
                E = sq.dispatcher(order, EvoMethods.ITERATE_EXACT, G, as_list, a_half, SR.var("nf"), steps, (1, 0))
            else:
                E = vq.dispatcher(order, EvoMethods.ITERATE_EXACT, G, as_list, a_half, SR.var("nf"), steps, (1, 0))
        finally:
            sq.ad, sq.beta = saved_ad, saved_beta
        # exact: dE/ds = -gamma(a(s), e(s)) E  (ds = d ln mu^2;  sign: da/dt = -beta  and the kernel integrates gamma/beta da)
        N = realnp.empty((dim, dim), dtype=object)
        for k in range(dim):
            for l in range(dim):
                N[k, l] = -sum(G[i, j, k, l] * a_s**i * a_e**j for i in range(oq + 1) for j in range(oe + 1))
        Eex_s = ode_series(N, dim)  # as jets in elapsed t; evaluated at the end of the last step
        for k in range(dim):
            for l in range(dim):
                d = as_jet(E[k, l]) - (Eex_s[k, l] if steps == 1 else at(Eex_s[k, l], h * steps))
                for m, c in residual_coeffs(d, 3):
                    v = prove_zero(c, "QED iterate %d step(s) (order %r, dim %d): [%d,%d] h^%d coefficient of (kernel - path-ordered)" % (steps, order, dim, k, l, m), timeout_ms=60000)
                    log.decide(v, key="singlet_qed.eko_iterate:dim%d:local-order" % dim, replay=rp, sampler=_sampler)
        log.twin("domain")
        log.collect_ctx()

    _r, pm = explore(run)
    log.path_stats(pm)


# ---------------------------------------------------------------------------
def _sampler(rng):
    p = {"a0": rnd(rng, 0.01, 0.04), "beta0": rnd(rng, 7, 9), "b1": rnd(rng, 2, 6), "b2": rnd(rng, 5, 30), "b3": rnd(rng, 20, 200)}
    for k in range(4):
        for i in range(2):
            for j in range(2):
                p["g%d_%d%d" % (k, i, j)] = rnd(rng, -3, 3) * 4**k
    return p


def _gam(point, order):
    import numpy as np

    g = np.zeros((order, 2, 2), dtype=complex)
    for k in range(order):
        for i in range(2):
            for j in range(2):
                g[k, i, j] = complex(float(point.get("g%d_%d%d" % (k, i, j), 1.0 + i - 2 * j + k)), 0.2 * (i + 1))
    return g


def _exact(gam, bet, a0, a1):
    import numpy as np
    from scipy.integrate import solve_ivp

    def rhs(a, y):
        E = y.reshape(2, 2)
        g = sum(gam[k] * a ** (k + 1) for k in range(len(gam)))
        b = sum(bet[k] * a ** (k + 2) for k in range(len(bet)))
        return ((g / b) @ E).reshape(-1)

    sol = solve_ivp(rhs, (a0, a1), np.eye(2, dtype=complex).reshape(-1), rtol=1e-12, atol=1e-14, method="DOP853")
    return sol.y[:, -1].reshape(2, 2)


def replay_iterate(point, order, its=1):
    import math
    import numpy as np
    import eko.kernels.singlet as sg

    f = fpoint({k: v for k, v in point.items() if k in ("a0", "beta0", "b1", "b2", "b3")})
    a0 = f.get("a0", 0.02)
    if not 0 < a0 < 0.05:
        return None
    b0 = f.get("beta0", 8.0)
    bet = [b0] + [f.get("b%d" % i, [0, 4.0, 20.0, 100.0][i]) * b0 for i in range(1, order)]
    g = _gam(point, order)
    epss = [0.4, 0.2, 0.1, 0.05]
    errs = []
    for e in epss:
        a1 = a0 * (1 + e)
        errs.append(float(np.abs(np.array(sg.eko_iterate(g, a1, a0, bet, (order, 0), its), dtype=complex) - _exact(g, bet, a0, a1)).max()))
    pairs = [(e, x) for e, x in zip(epss, errs) if x > 1e-12]
    if len(pairs) < 2:
        return None
    ex = math.log(pairs[-2][1] / pairs[-1][1]) / math.log(pairs[-2][0] / pairs[-1][0])
    if ex < 2.5:
        return {"detail": "eko_iterate order %d one step vs exact ODE: errors %r at eps=%r scale like eps^%.2f < 3" % (order, errs, epss, ex)}
    # global rate: n steps -> error ~ 1/n^2
    a1 = a0 * 1.8
    ref = _exact(g, bet, a0, a1)
    e10 = float(np.abs(np.array(sg.eko_iterate(g, a1, a0, bet, (order, 0), 10), dtype=complex) - ref).max())
    e40 = float(np.abs(np.array(sg.eko_iterate(g, a1, a0, bet, (order, 0), 40), dtype=complex) - ref).max())
    if e40 > 1e-11 and e10 / e40 < 8:
        return {"detail": "eko_iterate order %d: error with 10 steps %r, 40 steps %r: ratio %.1f < 8 (expected ~16)" % (order, e10, e40, e10 / e40)}
    return None


def replay_routing(point, order):
    """real dispatcher vs direct calls of the documented kernels"""
    import numpy as np
    import eko.kernels.singlet as sg
    from eko.kernels import EvoMethods
    from eko import beta as B

    rng = np.random.default_rng(41)
    g = rng.normal(size=(order, 2, 2)) + 0.2j * rng.normal(size=(order, 2, 2))
    a0, a1, nf = 0.03, 0.02, 4
    bet = [B.beta_qcd((2 + i, 0), nf) for i in range(order)]
    o, its, mo = (order, 0), 7, (order + 2, 0)
    dec = {2: "nlo", 3: "nnlo", 4: "n3lo"}
    for m in EvoMethods:
        got = np.array(sg.dispatcher(o, m, g, a1, a0, nf, its, mo), dtype=complex)
        if order == 1:
            want = sg.lo_exact(g, a1, a0, bet)
        elif m in (EvoMethods.ITERATE_EXACT, EvoMethods.ITERATE_EXPANDED):
            want = sg.eko_iterate(g, a1, a0, bet, o, its)
        elif m == EvoMethods.PERTURBATIVE_EXACT:
            want = sg.eko_perturbative(g, a1, a0, bet, o, its, mo, True)
        elif m == EvoMethods.PERTURBATIVE_EXPANDED:
            want = sg.eko_perturbative(g, a1, a0, bet, o, its, mo, False)
        elif m in (EvoMethods.TRUNCATED, EvoMethods.ORDERED_TRUNCATED):
            want = sg.eko_truncated(g, a1, a0, bet, o)
        else:
            f = getattr(sg, dec[order] + ("_decompose_exact" if m == EvoMethods.DECOMPOSE_EXACT else "_decompose_expanded"))
            want = f(g, a1, a0, nf) if order == 4 else f(g, a1, a0, bet)
        if np.abs(got - np.array(want, dtype=complex)).max() > 1e-10 * max(1, np.abs(got).max()):
            return {"detail": "singlet.dispatcher(order %d, %s) does not return the documented kernel: max deviation %r" % (order, m.name, np.abs(got - np.array(want, dtype=complex)).max())}
    return None


def replay_uvec(point, K):
    import numpy as np
    import eko.kernels.singlet as sg

    rng = np.random.default_rng(3)
    r = rng.normal(size=(K + 1, 2, 2)) + 1j * rng.normal(size=(K + 1, 2, 2))
    u = sg.u_vec(r, (K, 0))
    for k in range(1, K):
        lhs = k * u[k] - (r[0] @ u[k] - u[k] @ r[0])
        rhs = sum(r[j] @ u[k - j] for j in range(1, k + 1))
        if np.abs(lhs - rhs).max() > 1e-8 * max(1, np.abs(rhs).max()):
            return {"detail": "u_vec violates its recursion at k=%d: %r" % (k, np.abs(lhs - rhs).max())}
    return None


def replay_rvec(point, order, M, is_exact):
    import numpy as np
    import eko.kernels.singlet as sg

    rng = np.random.default_rng(5)
    g = rng.normal(size=(order, 2, 2)) + 1j * rng.normal(size=(order, 2, 2))
    bet = [8.0, 30.0, 200.0, 1500.0][:order]
    r = sg.r_vec(g, bet, (M, 0), (order, 0), is_exact)
    # independent series division
    b = [x / bet[0] for x in bet]
    inv = [1.0]
    for k in range(1, M):
        inv.append(-sum(b[i] * inv[k - i] for i in range(1, min(k, order - 1) + 1)))
    for k in range(M):
        want = sum(g[j] * inv[k - j] for j in range(min(k, order - 1) + 1)) / bet[0] if (is_exact or k < order) else 0 * g[0]
        if np.abs(r[k] - want).max() > 1e-8 * max(1, np.abs(want).max()):
            return {"detail": "r_vec(order %d, max %d, exact=%s): R_%d differs from the series of gamma/beta by %r" % (order, M, is_exact, k, np.abs(r[k] - want).max())}
    return None


def replay_qed(point, order, dim, steps=1):
    """one QED step vs numerically integrated path-ordered solution along numerically integrated couplings."""
    import math
    import numpy as np
    from scipy.integrate import solve_ivp
    import eko.kernels.singlet_qed as sq
    import eko.kernels.valence_qed as vq
    from eko import beta as B
    from eko.kernels import EvoMethods

    oq, oe = order
    nf, nl = 5, 3
    rng = np.random.default_rng(7)
    G = rng.normal(size=(oq + 1, oe + 1, dim, dim)) + 0.3j * rng.normal(size=(oq + 1, oe + 1, dim, dim))
    G[0, 0] = 0
    bq = [B.beta_qcd((i + 1, 0), nf) for i in range(1, oq + 1)]
    b21 = B.beta_qcd((2, 1), nf)
    # the kernel takes the coupling path as an argument: the replay supplies a path along which a_em runs visibly
    # (a smooth RGE with an exaggerated coefficient), so that per-step use of the half-step couplings matters numerically
    c2 = -30.0

    def rge(t, y):
        a, e = y
        return [-(sum(b * a ** (i + 1) for i, b in enumerate(bq, start=1)) + b21 * a * a * e), -c2 * e * e]

    a0, e0 = 0.03, 0.01
    hs = [0.8, 0.4, 0.2, 0.1]
    errs = []
    for h in hs:
        th = math.log((1 + math.exp(h)) / 2)
        sol = solve_ivp(rge, (0, h * steps), [a0, e0], rtol=1e-12, atol=1e-15, dense_output=True, method="DOP853")
        a_half = np.array([sol.sol(h * k + th) for k in range(steps)])
        as_list = np.array([sol.sol(h * k)[0] for k in range(steps + 1)])

        def ode(t, y):
            a, e = sol.sol(t)
            gm = sum(G[i, j] * a**i * e**j for i in range(oq + 1) for j in range(oe + 1))
            return (-(gm @ y.reshape(dim, dim))).reshape(-1)

        ref = solve_ivp(ode, (0, h * steps), np.eye(dim, dtype=complex).reshape(-1), rtol=1e-12, atol=1e-14, method="DOP853").y[:, -1].reshape(dim, dim)
        mod = sq if dim == 4 else vq
        got = np.array(mod.dispatcher(tuple(order), EvoMethods.ITERATE_EXACT, G, as_list, a_half, nf, steps, (1, 0)), dtype=complex)
        errs.append(float(np.abs(got - ref).max()))
    pairs = [(e, x) for e, x in zip(hs, errs) if x > 1e-12]
    if len(pairs) < 2:
        return None
    ex = math.log(pairs[-2][1] / pairs[-1][1]) / math.log(pairs[-2][0] / pairs[-1][0])
    if ex < 2.5:
        return {"detail": "QED iterate (order %r, dim %d) one step vs path-ordered solution: errors %r at h=%r scale like h^%.2f < 3" % (order, dim, errs, hs, ex)}
    return None


def main():
    chk = H.Check("C12", level="other")
    thorough = H.tier() == "thorough"
    chk.explanation = ("C12 is a limit statement; the check decides its algebraic core: the local order of the iterated kernels (QCD and QED) "
                       "and the recursion/series identities that make the perturbative kernel's truncation error O(a^max_order). The limit itself "
                       "and error constants are numerical and outside the claim.")
    chk.bounds = ["eko_iterate: one step, orders 2-3 (quick) and 4 (thorough), general non-commuting symbolic 2x2 gamma, symbolic beta",
                  "u_vec: K=4 (quick), 6 (thorough), fully symbolic R_k; r_vec: orders 2-4, max_order n..n+2, exact and expanded fill",
                  "QED step: orders (1,1),(2,1) (quick), (2,2),(3,2) (thorough); dim 4 and dim 2; couplings follow symbolic smooth RGEs; series through h^2"]
    chk.stubs = ["ekore.anomalous_dimensions.exp_matrix (numpy.linalg.eig) and exp_matrix_2D (in the series-valued iterate cases) -> defining power series of the matrix exponential (C23 decides that both compute it)",
                 "eko.beta inside singlet_qed -> symbolic coefficients"]
    chk.out_of_claim = ["the limit n->infinity, measured error constants, floating point", "4x4 QED singlet step at alpha_em order 2 (orders (2,2), (3,2)): the residual polynomials exceed the memory/time bound (90 min, > 35 GB); decided for the 2x2 valence sector at those orders"]
    for o in ((2, 3, 4) if thorough else (2, 3)):
        chk.case("iterate.local.o%d" % o, case_iterate_local, order=o)
    for o in (2, 3):
        chk.case("iterate.local.2steps.o%d" % o, case_iterate_local, order=o, its=2)
        chk.case("iterate.rate.o%d" % o, case_iterate_rate, order=o, its=(1, 2, 3) if (thorough or o == 2) else (1, 2))
    for o in (1, 2, 3, 4):
        chk.case("dispatcher.routing.o%d" % o, case_routing, order=o)
    for (o, extra, its, ex) in ((2, 2, 1, True), (3, 1, 2, False), (2, 0, 2, True)) + (((4, 2, 1, True), (3, 3, 2, True)) if thorough else ()):
        chk.case("perturbative.combination.o%d.M%d.its%d.%s" % (o, o + extra, its, "exact" if ex else "expanded"), case_perturbative_combination, order=o, extra=extra, its=its, is_exact=ex)
    chk.case("u_vec.K4", case_uvec, K=4)
    chk.case("u_vec.K5", case_uvec, K=5)
    if thorough:
        chk.case("u_vec.K6", case_uvec, K=6)
    for o in (2, 3, 4):
        for extra in ((0, 2) if thorough else (1,)):
            for ex in (True, False):
                chk.case("r_vec.o%d.M%d.%s" % (o, o + extra, "exact" if ex else "expanded"), case_rvec, order=o, M=o + extra, is_exact=ex)
    for od in ([(1, 1), (2, 1)] if not thorough else [(1, 1), (2, 1), (2, 2), (3, 2)]):
        for dim in (2, 4):
            if not thorough and od == (2, 1) and dim == 4:
                continue  # ~8 min: thorough tier only
            if dim == 4 and od[1] >= 2:
                continue  # (2,2): ~90 min, (3,2): > 35 GB of residual polynomials -- outside the bound (stated in the evidence)
            chk.case("qed.step.o%d%d.dim%d" % (od[0], od[1], dim), case_qed_step, order=od, dim=dim)
    # the caller side of the "supplied coupling steps": geometric a_s nodes and half-step couplings at the mu^2 midpoints
    from . import opwire

    for its in ((2, 3) if not thorough else (1, 2, 3)):
        for running in (True, False):
            chk.case("caller.aem_list.its%d.run%d" % (its, running), opwire.case_wiring, pid="C12", order=(2, 1), mode="unvaried", thr=False, its=its, running=running)
    # two steps: each step must use its own half-step couplings (running alpha_em) and its own interval
    chk.case("qed.2steps.o11.dim2", case_qed_step, order=(1, 1), dim=2, steps=2)
    if thorough:
        chk.case("qed.2steps.o21.dim4", case_qed_step, order=(2, 1), dim=4, steps=2)
    return chk.run()


if __name__ == "__main__":
    import sys

    sys.exit(main())
