"""Helpers shared by the ekobox harnesses (C43, C44, C45, C46)."""
import numpy as rnp
import z3

from symx import poly as P
from symx import shim, solver as S
from symx.poly import Poly
from symx.val import SR, Cx, Q, ctx, QZERO


def symarr(name, shape):
    """object array of fresh real symbols  <name>_<i>_<j>..."""
    a = rnp.empty(shape, dtype=object)
    for idx in rnp.ndindex(*shape):
        a[idx] = SR.var(name + "_" + "_".join(map(str, idx)))
    return a


def lift(x):
    return x if isinstance(x, (SR, Cx)) else SR(Q(Poly.const(x.item() if isinstance(x, rnp.generic) else x)))


def prove_all_zero(exprs, what, timeout_ms=20000):
    """One obligation: every expression of the list is identically zero (Or of the numerators != 0)."""
    nz = []
    for e in exprs:
        for n in S.numerators(lift(e)):
            n = n.reduce()
            if n.t:
                nz.append(n)
    if not nz:
        return S.prove_zero(SR(QZERO), what, timeout_ms=timeout_ms)
    base = S.context_constraints()
    goal = z3.Or([S.poly_to_z3(n) != 0 for n in nz[:400]])
    rs, m, dt = S.check(base + [goal], timeout_ms)
    return S.Verdict(rs, what, nz, S.model_point(m) if m is not None else None, dt, None, sum(len(n.t) for n in nz))


def prove_concrete(ok, what):
    """A structural (non-numeric) fact observed on the current symbolic path, turned into a verdict:
    the solver is asked for a model of  path-condition & not ok."""
    return S.prove_formula(z3.BoolVal(bool(ok)), what)


def sabs(x):
    """|x| as an interned algebraic atom a with a >= 0, a^2 = x^2 (no forking on the sign of x)."""
    if not isinstance(x, SR):
        if isinstance(x, Cx):
            raise shim.SymbolicEscape("abs of complex")
        return abs(x)
    if x.is_const():
        return SR(Q(Poly.const(abs(x.const_value()))))
    q = x.v.canon()
    # normalise the sign so that x and -x share the atom
    lm, lc = q.n.lead()
    if lc < 0:
        q = -q
    key = ("abs", q.key())
    rec = ctx.atoms.get(key)
    if rec is None:
        if q.den:
            raise shim.SymbolicEscape("abs of a rational function")
        name = ctx.fresh("abs")
        a = Poly.var(name)
        P.add_relation(P.INDEX[name], 2, q.n * q.n)
        ctx.side.append((a, ">=0"))
        ctx.atom_info[P.INDEX[name]] = {"fn": "sqrt", "arg": Q(q.n * q.n)}
        rec = ctx.atoms[key] = Q(a)
    return SR(rec)


class AbsNumpy(shim.SymNumpy):
    """numpy facade whose abs() does not fork: |x| is an algebraic atom."""

    def abs(self, x):
        if shim._is_obj(x):
            return shim.emap(sabs, x)
        return rnp.abs(x)

    absolute = abs


def getv(point, name, default):
    v = point.get(name)
    return float(v) if v is not None else default


def decide(log, verdict, key, **kw):
    """log.decide, except that once a replayed violation exists for `key` in this case, further failing
    obligations with the same key are recorded (undischarged) without spending another replay on them."""
    if not verdict.holds and any(v["key"] == key for v in log.violations):
        log.obligations.append({"case": log.case, "what": verdict.what, "status": verdict.status, "time_s": round(verdict.time, 4),
                                "residual_terms": verdict.nterms, "note": "same key already violated in this case"})
        return False
    return log.decide(verdict, key, **kw)
