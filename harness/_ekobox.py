"""Helpers shared by the ekobox harnesses (C43, C44, C45, C46)."""
import numpy as rnp
import z3

from symx import poly as P
from symx import shim, solver as S
from symx.poly import Poly
from symx.val import SR, Cx, Q, ctx, QZERO


def symarr(name, shape):
    """object array of fresh real symbols  <name>_<i>_<j>..."""
    a = rnp.empty(shape, dtype=object)
    for idx in rnp.ndindex(*shape):
        a[idx] = SR.var(name + "_" + "_".join(map(str, idx)))
    return a


def lift(x):
    return x if isinstance(x, (SR, Cx)) else SR(Q(Poly.const(x.item() if isinstance(x, rnp.generic) else x)))


def prove_all_zero(exprs, what, timeout_ms=20000):
    """One obligation: every expression of the list is identically zero (Or of the numerators != 0)."""
    nz = []
    for e in exprs:
        for n in S.numerators(lift(e)):
            n = n.reduce()
            if n.t:
                nz.append(n)
    if not nz:
        return S.prove_zero(SR(QZERO), what, timeout_ms=timeout_ms)
    base = S.context_constraints()
    nterms = sum(len(n.t) for n in nz)
    if len(nz) > 4:
        # cheap first attempt at a counterexample: the few smallest residuals only (a model of one non-zero
        # residual already refutes the goal; an unsat answer here proves nothing and the full query follows)
        small = sorted(nz, key=lambda n: len(n.t))[:4]
        rs, m, dt = S.check(base + [z3.Or([S.poly_to_z3(n) != 0 for n in small])], timeout_ms)
        if rs == "sat":
            return S.Verdict(rs, what, nz, S.model_point(m), dt, None, nterms)
    goal = z3.Or([S.poly_to_z3(n) != 0 for n in nz])
    rs, m, dt = S.check(base + [goal], timeout_ms)
    return S.Verdict(rs, what, nz, S.model_point(m) if m is not None else None, dt, None, nterms)


def prove_concrete(ok, what):
    """A structural (non-numeric) fact observed on the current symbolic path, turned into a verdict:
    the solver is asked for a model of  path-condition & not ok."""
    return S.prove_formula(z3.BoolVal(bool(ok)), what)


def sabs(x):
    """|x| as an interned algebraic atom a with a >= 0, a^2 = x^2 (no forking on the sign of x)."""
    if not isinstance(x, SR):
        if isinstance(x, Cx):
            raise shim.SymbolicEscape("abs of complex")
        return abs(x)
    if x.is_const():
        return SR(Q(Poly.const(abs(x.const_value()))))
    q = x.v.canon()
    # normalise the sign so that x and -x share the atom
    lm, lc = q.n.lead()
    if lc < 0:
        q = -q
    key = ("abs", q.key())
    rec = ctx.atoms.get(key)
    if rec is None:
        if q.den:
            raise shim.SymbolicEscape("abs of a rational function")
        name = ctx.fresh("abs")
        a = Poly.var(name)
        P.add_relation(P.INDEX[name], 2, q.n * q.n)
        ctx.side.append((a, ">=0"))
        ctx.atom_info[P.INDEX[name]] = {"fn": "sqrt", "arg": Q(q.n * q.n)}
        rec = ctx.atoms[key] = Q(a)
    return SR(rec)


class AbsNumpy(shim.SymNumpy):
    """numpy facade whose abs() does not fork: |x| is an algebraic atom."""

    def abs(self, x):
        if shim._is_obj(x):
            return shim.emap(sabs, x)
        return rnp.abs(x)

    absolute = abs


def getv(point, name, default):
    v = point.get(name)
    if v is None:
        return default
    try:
        return float(v)
    except (TypeError, ValueError):
        try:
            from fractions import Fraction

            return float(Fraction(str(v).rstrip("?")))
        except (TypeError, ValueError, ZeroDivisionError):
            return default


def _marker(key):
    import hashlib
    import os

    d = "/tmp/symx_markers_%d" % os.getppid()
    return d, os.path.join(d, hashlib.sha1(key.encode()).hexdigest()[:16])


def decide(log, verdict, key, **kw):
    """log.decide, except that once a replayed violation exists for `key` (in this case, or in another case of the same
    check run: marker file keyed by the parent pid), further failing obligations with the same key are recorded as
    undischarged without spending another replay + clean-interpreter confirmation on them."""
    import os

    if not verdict.holds:
        d, mk = _marker(key)
        if any(v["key"] == key for v in log.violations) or os.path.exists(mk):
            log.obligations.append({"case": log.case, "what": verdict.what, "status": verdict.status, "time_s": round(verdict.time, 4),
                                    "residual_terms": verdict.nterms, "note": "same key already violated (replayed) in this run"})
            return False
    r = log.decide(verdict, key, **kw)
    if not r and any(v["key"] == key for v in log.violations):
        try:
            os.makedirs(d, exist_ok=True)
            open(mk, "w").close()
        except OSError:
            pass
    return r


def cleanup_markers():
    import os
    import shutil

    shutil.rmtree("/tmp/symx_markers_%d" % os.getpid(), ignore_errors=True)


def explore(fn, max_paths=512, timeout_ms=15000):
    """symx.solver.explore with two differences: a longer feasibility timeout (the host is shared), and a path that the
    path manager entered only because a feasibility query came back `unknown` (timeout) and that later turns out to have
    an unsatisfiable path condition ("infeasible path reached") is dropped instead of aborting the whole exploration.
    Dropping is sound: the path condition of such a path is unsat, so no input follows it."""
    from symx.val import EngineError

    pm = S.PathManager(max_paths, timeout_ms)
    pm.pending = [[]]
    pm.dropped = 0
    results = []
    while pm.pending:
        if pm.paths >= pm.max_paths:
            raise S.PathBudgetExceeded("more than %d paths" % pm.max_paths)
        pm.prefix = pm.pending.pop()
        pm.trace = []
        pm.pos = 0
        pm.pc = []
        ctx.reset()
        ctx.path = pm
        try:
            r = fn()
        except EngineError as e:
            if "infeasible path" in str(e) and pm.unknown_feas > 0 and pm.prefix:
                pm.dropped += 1
                continue
            raise
        finally:
            ctx.path = None
        pm.paths += 1
        results.append(r)
    return results, pm
