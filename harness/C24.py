"""C24  Harmonic sums equal their definitions and satisfy their recurrences; the cache returns direct values.

Real functions executed symbolically (N a real symbol): ekore.harmonics.w1..w5 (S1..S5, Sm1..Sm5),
ekore.harmonics.polygamma.recursive_harmonic_sum, ekore.harmonics.cache.{get,update,update_Sm1,update_Sm2}.

`cern_polygamma` is replaced by uninterpreted, interned atoms psi_k(z) with instances of the documented contract of
the polygamma functions (recurrence, values at 1, real on the real axis; harness/ekoresym.py:PsiStub); zeta(2..5) and
euler_gamma are opaque symbols shared by the code and the axioms.  In the cache case the fitted Mellin transforms
mellin_g3..g22 are uninterpreted functions interned by the normal form of their arguments.

Decided:
  * S_k(N+1) - S_k(N) = (N+1)^-k and S_k(0) = 0, k = 1..5   (=> S_k(N) = sum_{j<=N} j^-k at every positive integer N)
  * S_-k with the parity flag flipped across the step: even N -> odd N+1: -(N+1)^-k, odd N -> even N+1: +(N+1)^-k,
    S_-k(0) = 0 (flag even), through cache.get (the path the anomalous dimensions use)
  * recursive_harmonic_sum(base, n, it, w) = it applications of the one-step recurrence; started from S_w(n) it is S_w(n+it)
  * cache.get(key, cache, N, flag) from an arbitrary valid cache (each of the 31 slots symbolically empty or holding the
    directly computed value) returns the directly computed value and leaves the cache valid  (=> any lookup order)
"""
from fractions import Fraction

import numpy as realnp
import z3

from .common import *  # noqa
from . import ekoresym as E
from symx.solver import explore, prove_zero, prove_formula, ZBool
from symx import harness as H
from symx import shim

MOD = "harness.C24"
CONSTS = ("zeta2", "zeta3", "zeta4", "zeta5", "log2", "li4half")


class _NP(shim.SymNumpy):
    """numpy facade with euler_gamma opaque"""

    euler_gamma = None


def _setup(opaque_consts=True):
    """patch ekore.harmonics for symbolic N; returns (modules dict, stub). Must be called inside run() (fresh ctx)."""
    np_ = _NP(True)
    consts = {}
    if opaque_consts:
        for n in CONSTS + ("euler_gamma",):
            consts[n] = SR.var(n)
        np_.euler_gamma = consts["euler_gamma"]
    else:
        np_.euler_gamma = float(realnp.euler_gamma)
    E.unpatch()
    E.patch(np_)
    for m in E.load():
        for n in CONSTS:
            if n in vars(m) and m.__name__.startswith("ekore.harmonics") and opaque_consts:
                E.rebind(m, n, consts[n])
    stub = E.PsiStub(consts)
    E.install_psi(stub)
    h = {n: E.mod("ekore.harmonics." + n) for n in ("w1", "w2", "w3", "w4", "w5", "cache", "polygamma", "g_functions")}
    return h, stub, consts


class SymN(SR):
    """the Mellin variable as a real symbol that also supports the code's generic continuation of (-1)^N:
    (-1)**N = exp(i pi N) = cos(pi N) + i sin(pi N)  (interned cos/sin atoms with cos^2 + sin^2 = 1)."""

    __slots__ = ()

    def __rpow__(self, base):
        if isinstance(base, (int, float)) and base == -1:
            import math

            return Cx(SR(QZERO), self * math.pi).exp()
        return SR.__rpow__(self, base)


def _symN(name="N"):
    return SymN(Q(Poly.var(name)))


SIMPLE = {1: ("w1", "S1"), 2: ("w2", "S2"), 3: ("w3", "S3"), 4: ("w4", "S4"), 5: ("w5", "S5")}


def _encode(log, *names):
    for n in names:
        modn, fn = n.rsplit(".", 1)
        log.encode(getattr(E.mod("ekore.harmonics." + modn), fn))


def _note_axioms(log, stub):
    for s in sorted(stub.instances):
        log.assume("axiom instance: " + s)


# ---------------------------------------------------------------------------
def case_simple(log, k):
    _encode(log, "%s.%s" % SIMPLE[k])
    log.register_replay("S%d:recurrence" % k, (MOD, "replay_simple", {"k": k, "conj": True}), _sampler)

    def run():
        h, stub, consts = _setup()
        f = getattr(h[SIMPLE[k][0]], SIMPLE[k][1])
        N = SR.var("N")
        assume(N, ">=0")
        d = f(N + 1) - f(N) - 1 / (N + 1) ** k
        v = prove_zero(d, "S%d(N+1) - S%d(N) == (N+1)^-%d for all real N >= 0 (psi_%d recurrence axiom)" % (k, k, k, k - 1))
        E.decide(log, v, "S%d:recurrence" % k, replay=(MOD, "replay_simple", {"k": k}), sampler=_sampler)
        # the same step written with complex() arguments as the kernels pass them
        v = prove_zero(f(N + 2) - f(N) - 1 / (N + 1) ** k - 1 / (N + 2) ** k, "S%d(N+2) - S%d(N) == two steps" % (k, k))
        E.decide(log, v, "S%d:recurrence" % k, replay=(MOD, "replay_simple", {"k": k}), sampler=_sampler)
        v = prove_zero(f(0), "S%d(0) == 0 (value psi_%d(1) axiom)" % (k, k - 1))
        E.decide(log, v, "S%d:zero" % k, replay=(MOD, "replay_simple", {"k": k, "zero": True}), candidates=[{"N": Fraction(0)}])
        v = prove_zero(E.im_sr(f(N)), "Im S%d(N) == 0 for real N (axiom: psi_%d real on the real axis; with Schwarz reflection S(conj N) = conj S(N))" % (k, k - 1))
        E.decide(log, v, "S%d:real" % k, replay=(MOD, "replay_simple", {"k": k, "conj": True}), sampler=_sampler)
        v = prove_zero(f(1) - 1, "S%d(1) == 1" % k)
        E.decide(log, v, "S%d:zero" % k, replay=(MOD, "replay_simple", {"k": k, "zero": True}), candidates=[{"N": Fraction(1)}])
        E.twin(log)
        log.collect_ctx()
        _note_axioms(log, stub)

    _r, pm = explore(run)
    log.path_stats(pm)
    _validate_simple(log, k)


def case_alternating(log, k):
    """S_-k through cache.get with the parity flag flipped across the step."""
    _encode(log, "cache.get", "cache.update", "cache.update_Sm1", "cache.update_Sm2", "w%d.Sm%d" % (k, k))
    log.register_replay("Sm%d:recurrence" % k, (MOD, "replay_alt", {"k": k}), _sampler)

    def run():
        h, stub, consts = _setup()
        c = h["cache"]
        wk = h["w%d" % k]
        key = getattr(c, "Sm%d" % k)
        N = SR.var("N")
        assume(N, ">=0")

        def sm(n, flag):
            return c.get(key, c.reset(), n, flag)

        # even N (flag True) -> odd N+1 (flag False): + (-1)^(N+1)/(N+1)^k = -(N+1)^-k
        d = sm(N + 1, False) - sm(N, True) + 1 / (N + 1) ** k
        v = prove_zero(d, "S_-%d(N+1)|odd - S_-%d(N)|even == -(N+1)^-%d" % (k, k, k))
        E.decide(log, v, "Sm%d:recurrence" % k, replay=(MOD, "replay_alt", {"k": k}), sampler=_sampler)
        # odd N (flag False) -> even N+1 (flag True): +(N+1)^-k
        d = sm(N + 1, True) - sm(N, False) - 1 / (N + 1) ** k
        v = prove_zero(d, "S_-%d(N+1)|even - S_-%d(N)|odd == +(N+1)^-%d" % (k, k, k))
        E.decide(log, v, "Sm%d:recurrence" % k, replay=(MOD, "replay_alt", {"k": k}), sampler=_sampler)
        v = prove_zero(sm(0, True), "S_-%d(0)|even == 0" % k)
        E.decide(log, v, "Sm%d:zero" % k, replay=(MOD, "replay_alt", {"k": k, "zero": True}), candidates=[{"N": Fraction(0)}])
        v = prove_zero(sm(1, False) + 1, "S_-%d(1)|odd == -1" % k)
        E.decide(log, v, "Sm%d:zero" % k, replay=(MOD, "replay_alt", {"k": k, "zero": True}), candidates=[{"N": Fraction(1)}])
        # direct call of the w-function with the documented arguments agrees with the cache
        S = getattr(h[SIMPLE[k][0]], SIMPLE[k][1])
        Smf = getattr(wk, "Sm%d" % k)
        for flag in (True, False):
            d = sm(N, flag) - Smf(N, S(N), S((N - 1) / 2), S(N / 2), flag)
            v = prove_zero(d, "cache.get(Sm%d, flag=%s) == Sm%d(N, S(N), S((N-1)/2), S(N/2), flag)" % (k, flag, k))
            E.decide(log, v, "Sm%d:cache" % k, replay=(MOD, "replay_alt", {"k": k}), sampler=_sampler)
        E.twin(log)
        log.collect_ctx()
        _note_axioms(log, stub)

    _r, pm = explore(run)
    log.path_stats(pm)


def case_recursive(log, w, iters):
    _encode(log, "polygamma.recursive_harmonic_sum")
    log.register_replay("recursive_harmonic_sum:w%d" % w, (MOD, "replay_rec", {"w": w, "it": iters[-1]}), _sampler)

    def run():
        h, stub, consts = _setup()
        rhs = h["polygamma"].recursive_harmonic_sum
        base = SR.var("base")
        n = SR.var("n")
        assume(n, ">=0")
        for it in iters:
            got = rhs(base, n, it, w)
            # `it` applications of  (s, m) -> (s + (m+1)^-w, m+1)
            s, m = base, n
            for _ in range(it):
                s = s + 1 / (m + 1) ** w
                m = m + 1
            v = prove_zero(got - s, "recursive_harmonic_sum(base, n, %d, %d) == %d applications of the recurrence" % (it, w, it))
            E.decide(log, v, "recursive_harmonic_sum:w%d" % w, replay=(MOD, "replay_rec", {"w": w, "it": it}), sampler=_sampler)
            S = getattr(h[SIMPLE[w][0]], SIMPLE[w][1])
            v = prove_zero(rhs(S(n), n, it, w) - S(n + it), "recursive_harmonic_sum(S%d(n), n, %d, %d) == S%d(n+%d)" % (w, it, w, w, it))
            E.decide(log, v, "recursive_harmonic_sum:w%d" % w, replay=(MOD, "replay_rec", {"w": w, "it": it, "fromS": True}), sampler=_sampler)
        E.twin(log)
        log.collect_ctx()
        _note_axioms(log, stub)

    _r, pm = explore(run)
    log.path_stats(pm)


# ---------------------------------------------------------------------------
# cache
# ---------------------------------------------------------------------------
KEYS = ["S1", "S2", "S3", "S4", "S5", "Sm1", "Sm2", "Sm3", "Sm4", "Sm5", "S21", "S2m1", "Sm21", "Sm2m1", "S31", "Sm31", "Sm22",
        "S211", "Sm211", "S1h", "S2h", "S3h", "S1mh", "S2mh", "S3mh", "S1ph", "S2ph", "S3ph", "g3", "S1p2", "g3p2"]
NEEDS_FLAG = {"Sm1", "Sm2", "Sm3", "Sm4", "Sm5", "S2m1", "Sm21", "Sm2m1", "Sm31", "Sm22", "Sm211"}


class UF:
    """uninterpreted function: interned real atom per (name, normal forms of the arguments)"""

    def __init__(self, name, table):
        self.name = name
        self.table = table

    def __call__(self, *args):
        if any(isinstance(a, float) and a != a for a in args):
            # an empty (nan) slot flows into the function: the real code returns nan; model it as a fresh unknown value
            ctx.notes.append("%s called with a nan argument (empty cache slot used as a value)" % self.name)
            return SR.var(ctx.fresh("nan_" + self.name))
        key = (self.name,) + tuple(a.v.key() if isinstance(a, SR) else ("c", Fraction(a).limit_denominator(10**12)) for a in map(_real, args))
        at = self.table.get(key)
        if at is None:
            at = self.table[key] = SR.var(ctx.fresh(self.name))
        return at


def _real(x):
    if isinstance(x, Cx):
        if not x.im.is_zero():
            raise SymbolicEscape("complex argument of an uninterpreted function")
        return x.re
    return x


GFUNCS = ["mellin_g3", "mellin_g4", "mellin_g5", "mellin_g6", "mellin_g8", "mellin_g18", "mellin_g19", "mellin_g21", "mellin_g22"]


def _direct(h, name, N, flag):
    """directly computed value of the cached quantity `name` (documented meaning of the cache keys; the same table as
    tests/ekore/harmonics/test_cache.py)"""
    w1, w2, w3, w4, w5, gf = h["w1"], h["w2"], h["w3"], h["w4"], h["w5"], h["g_functions"]
    S = {1: w1.S1, 2: w2.S2, 3: w3.S3, 4: w4.S4, 5: w5.S5}
    Sm = {1: w1.Sm1, 2: w2.Sm2, 3: w3.Sm3, 4: w4.Sm4, 5: w5.Sm5}
    if len(name) == 2 and name[0] == "S":
        return S[int(name[1])](N)
    if name.endswith("mh"):
        return S[int(name[1])]((N - 1) / 2)
    if name.endswith("ph"):
        return S[int(name[1])]((N + 1) / 2)
    if name == "S1p2":
        return w1.S1(N + 2)
    if name.endswith("h"):
        return S[int(name[1])](N / 2)
    if len(name) == 3 and name.startswith("Sm"):
        k = int(name[2])
        return Sm[k](N, S[k](N), S[k]((N - 1) / 2), S[k](N / 2), flag)
    if name == "g3":
        return gf.mellin_g3(N, w1.S1(N))
    if name == "g3p2":
        return gf.mellin_g3(N + 2, w1.S1(N + 2))
    S1, S2 = w1.S1(N), w2.S2(N)
    if name == "S21":
        return w3.S21(N, S1, S2)
    if name == "S31":
        return w4.S31(N, S1, S2, w3.S3(N), w4.S4(N))
    if name == "S211":
        return w4.S211(N, S1, S2, w3.S3(N))
    Sm1 = w1.Sm1(N, S1, w1.S1((N - 1) / 2), w1.S1(N / 2), flag)
    Sm2 = w2.Sm2(N, S2, w2.S2((N - 1) / 2), w2.S2(N / 2), flag)
    if name == "Sm21":
        return w3.Sm21(N, S1, Sm1, flag)
    if name == "Sm211":
        return w4.Sm211(N, S1, S2, Sm1, flag)
    if name == "S2m1":
        return w3.S2m1(N, S2, Sm1, Sm2, flag)
    if name == "Sm2m1":
        return w3.Sm2m1(N, S1, S2, Sm2)
    Sm31 = w4.Sm31(N, S1, Sm1, Sm2, flag)
    if name == "Sm31":
        return Sm31
    if name == "Sm22":
        return w4.Sm22(N, S1, S2, Sm2, Sm31, flag)
    raise KeyError(name)


class SymCache:
    """31 slots, each symbolically empty (nan) or holding the directly computed value.  An access forks on the
    emptiness of the slot the first time it is read on a path."""

    def __init__(self, direct):
        self.direct = direct  # idx -> value
        self.state = {}  # idx -> ("empty",) | ("val", v)
        self.written = {}
        self.read_prefilled = []

    def __len__(self):
        return len(KEYS)

    def __getitem__(self, k):
        k = int(k)
        st = self.state.get(k)
        if st is None:
            empty = bool(ZBool(z3.Bool("empty_%s" % KEYS[k])))
            if empty:
                st = ("empty",)
            else:
                st = ("val", self.direct(k))
                self.read_prefilled.append(k)
            self.state[k] = st
        return float("nan") if st[0] == "empty" else st[1]

    def __setitem__(self, k, v):
        k = int(k)
        self.state[k] = ("val", v)
        self.written[k] = v


def case_cache(log, names, flag):
    _encode(log, "cache.get", "cache.update", "cache.update_Sm1", "cache.update_Sm2", "cache.reset")
    for name in names:
        _case_cache_one(log, name, flag)


def _case_cache_one(log, name, flag):
    def run():
        h, stub, consts = _setup()
        c = h["cache"]
        table = {}
        for g in GFUNCS:
            uf = UF(g, table)
            E.rebind(h["g_functions"], g, uf)
            if g in vars(c):
                E.rebind(c, g, uf)
        N = _symN()
        assume(N - 1, ">=0")
        memo = {}

        def direct(idx):
            if idx not in memo:
                memo[idx] = _direct(h, KEYS[idx], N, flag)
            return memo[idx]

        idx = getattr(c, name)
        assert KEYS[idx] == name, "cache index table changed"
        cache = SymCache(direct)
        got = c.get(idx, cache, N, flag)
        filled = sorted(KEYS[i] for i in cache.read_prefilled)
        kw = {"name": name, "flag": flag, "filled": filled}
        tagp = "[prefilled: %s]" % (",".join(filled) or "-")
        v = prove_zero(got - direct(idx), "cache.get(%s, valid cache, N, %s) == direct value %s" % (name, flag, tagp))
        E.decide(log, v, "cache.get:%s" % name, replay=(MOD, "replay_cache", kw), sampler=_sampler)
        # real-analyticity: with psi_k real on the real axis the value is real for real N; in particular a value requested with a
        # parity flag must not contain the generic continuation (-1)^N = exp(i pi N)
        for lab, val in (("cache.get(%s)" % name, got), ("direct %s" % name, direct(idx))):
            v = prove_zero(E.im_sr(val), "Im %s == 0 for real N (is_singlet=%s) %s" % (lab, flag, tagp))
            E.decide(log, v, "cache.get:%s:real" % name, replay=(MOD, "replay_cache", dict(kw, conj=True)), sampler=_sampler)
        # validity is preserved: every slot written holds the directly computed value
        for i, val in sorted(cache.written.items()):
            v = prove_zero(val - direct(i), "cache.get(%s, .., %s) leaves the cache valid: slot %s written holds its direct value %s" % (name, flag, KEYS[i], tagp))
            E.decide(log, v, "cache.get:%s:validity" % name, replay=(MOD, "replay_cache", dict(kw, check_slots=True)), sampler=_sampler)
        # the requested slot is stored
        st = cache.state.get(idx)
        ok = st is not None and st[0] == "val"
        v = prove_formula(z3.BoolVal(bool(ok)), "cache.get(%s) leaves slot %s filled [prefilled: %s]" % (name, name, ",".join(filled) or "-"))
        E.decide(log, v, "cache.get:%s:stored" % name, replay=(MOD, "replay_cache", dict(kw, check_slots=True)), sampler=_sampler)
        E.twin(log)
        log.collect_ctx()
        _note_axioms(log, stub)

    log.register_replay("cache.get:%s" % name, (MOD, "replay_cache", {"name": name, "flag": flag, "filled": [], "check_slots": True, "conj": True}), _sampler)
    _r, pm = explore(run, max_paths=4096)
    log.path_stats(pm)


def case_generic(log, names):
    """is_singlet=None (generic continuation): every alternating / flagged sum equals the interpolation of its two parity versions
    with eta = (-1)^N:  S(N; None) = (1+eta)/2 S(N; True) + (1-eta)/2 S(N; False)  (it reduces to the flagged sum at every integer),
    through cache.get on an empty cache and through the direct w-functions."""
    _encode(log, "cache.get", "cache.update_Sm1", "cache.update_Sm2", "polygamma.symmetry_factor")
    for name in names:
        log.register_replay("generic:%s" % name, (MOD, "replay_generic", {"name": name}), _sampler)

        def run(name=name):
            h, stub, consts = _setup()
            c = h["cache"]
            table = {}
            for g in GFUNCS:
                uf = UF(g, table)
                E.rebind(h["g_functions"], g, uf)
                if g in vars(c):
                    E.rebind(c, g, uf)
            N = _symN()
            assume(N - 1, ">=0")
            eta = (-1) ** N
            idx = getattr(c, name)
            vals = {f: c.get(idx, c.reset(), N, f) for f in (None, True, False)}
            want = (1 + eta) / 2 * vals[True] + (1 - eta) / 2 * vals[False]
            v = prove_zero(Cx.lift(vals[None]) - want, "cache.get(%s, N, is_singlet=None) == (1+eta)/2 * value(True) + (1-eta)/2 * value(False), eta = (-1)^N" % name)
            E.decide(log, v, "generic:%s" % name, replay=(MOD, "replay_generic", {"name": name}), sampler=_sampler)
            d = {f: _direct(h, name, N, f) for f in (None, True, False)}
            want = (1 + eta) / 2 * d[True] + (1 - eta) / 2 * d[False]
            v = prove_zero(Cx.lift(d[None]) - want, "direct %s(N, is_singlet=None) == (1+eta)/2 * value(True) + (1-eta)/2 * value(False), eta = (-1)^N" % name)
            E.decide(log, v, "generic:%s" % name, replay=(MOD, "replay_generic", {"name": name, "direct": True}), sampler=_sampler)
            v = prove_zero(Cx.lift(vals[None]) - d[None], "cache.get(%s, empty cache, N, None) == direct value" % name)
            E.decide(log, v, "generic:%s" % name, replay=(MOD, "replay_generic", {"name": name}), sampler=_sampler)
            E.twin(log)
            _note_axioms(log, stub)

        _r, pm = explore(run)
        log.path_stats(pm)


def replay_generic(point, name, direct=False):
    from ekore.harmonics import cache as c

    x = float(point.get("N", 3))
    if x < 1:
        return None
    for N in (complex(round(x)), complex(round(x) + 1), complex(x), complex(x, 1.25)):
        eta = (-1 + 0j) ** N
        if direct:
            v = {f: complex(_direct_real(name, N, f)) for f in (None, True, False)}
        else:
            v = {f: complex(c.get(getattr(c, name), c.reset(), N, f)) for f in (None, True, False)}
        want = (1 + eta) / 2 * v[True] + (1 - eta) / 2 * v[False]
        if abs(v[None] - want) > 1e-8 * max(1.0, abs(want)):
            return {"detail": "%s %s at N=%r: is_singlet=None gives %r but the continuation with eta=(-1)^N=%r of the parity versions (True: %r, False: %r) is %r"
                    % ("direct" if direct else "cache.get", name, N, v[None], eta, v[True], v[False], want)}
    return None


def _same(a, b):
    try:
        return (a - b).is_zero()
    except Exception:
        return False


def case_cache_bounds(log):
    """key outside [0, CACHE_SIZE) raises RuntimeError for a symbolic integer key"""
    from symx.solver import ZInt, assume_z3

    _encode(log, "cache.get")

    def run():
        h, stub, consts = _setup()
        c = h["cache"]
        key = ZInt("key")
        cache = [float("nan")] * c.CACHE_SIZE
        raised = False
        try:
            # only the guard is executed symbolically: a key that passes it is left to the per-key cases
            if key < 0 or key >= len(cache):
                raise RuntimeError
        except RuntimeError:
            raised = True
        goal = z3.Or(key.e < 0, key.e >= c.CACHE_SIZE) if raised else z3.And(key.e >= 0, key.e < c.CACHE_SIZE)
        v = prove_formula(goal, "guard of cache.get: raised=%s <=> key outside [0,%d)" % (raised, c.CACHE_SIZE))
        E.decide(log, v, "cache.get:guard", replay=(MOD, "replay_guard", {}), candidates=[{"key": -1}, {"key": 31}])
        v = prove_formula(z3.BoolVal(c.CACHE_SIZE == len(KEYS) and all(getattr(c, n) == i for i, n in enumerate(KEYS))),
                          "cache index table: 31 distinct keys in the documented order")
        E.decide(log, v, "cache:index", replay=(MOD, "replay_guard", {"index": True}), candidates=[{}])

    _r, pm = explore(run)
    log.path_stats(pm)


# ---------------------------------------------------------------------------
def _sampler(rng):
    return {"N": rnd(rng, 1, 30), "n": rnd(rng, 1, 30), "base": rnd(rng, -3, 3)}


def _validate_simple(log, k):
    """translator validation: symbolic S_k(N) with psi atoms evaluated by mpmath == the real float function"""
    import mpmath as mp

    E.unpatch()
    real = getattr(E.mod("ekore.harmonics." + SIMPLE[k][0]), SIMPLE[k][1])
    pts = [rnd(log.rng, 0.5, 40) for _ in range(6)]
    ref = [complex(real(complex(float(p)))) for p in pts]
    ctx.reset()
    h, stub, consts = _setup(opaque_consts=False)
    f = getattr(h[SIMPLE[k][0]], SIMPLE[k][1])
    N = SR.var("N")
    val = f(N)
    for p, r in zip(pts, ref):
        got = E.PsiNumEnv({"N": p}).value(val)
        if abs(complex(got) - r) > 1e-9 * max(1, abs(r)):
            log.inconclusive.append("translator validation failed for S%d at N=%s: %s vs %s" % (k, p, got, r))
        log.validate()
    E.unpatch()


# ---------------------------------------------------------------------------
# replays (clean interpreter, real code)
# ---------------------------------------------------------------------------
def _exact_S(k, n):
    return sum(Fraction(1, j**k) for j in range(1, n + 1))


def _exact_Sm(k, n):
    return sum(Fraction((-1) ** j, j**k) for j in range(1, n + 1))


def _real_S(k):
    import ekore.harmonics as h

    return {1: h.S1, 2: h.S2, 3: h.S3, 4: h.S4, 5: h.S5}[k]


def replay_simple(point, k, zero=False, conj=False):
    """S_k at every integer 0..60 against exact rational sums, and the one-step recurrence at the given (real) point
    and at complex points of the Talbot range against (N+1)^-k"""
    f = _real_S(k)
    for n in range(0, 61):
        got = complex(f(complex(n)))
        want = float(_exact_S(k, n))
        if abs(got - want) > 1e-9 * max(1.0, abs(want)):
            return {"detail": "S%d(%d) = %r but the finite sum is %r" % (k, n, got, want)}
    if zero:
        return None
    x = float(point.get("N", 2))
    pts = [complex(x), complex(x, 7.5), complex(0.5 + x, -31.0), complex(1.0, 60.0)]
    for z in pts:
        if z.real < 0:
            continue
        a, b = complex(f(z)), complex(f(z.conjugate()))
        if abs(b - a.conjugate()) > 1e-9 * max(1.0, abs(a)) or (z.imag == 0 and abs(a.imag) > 1e-12):
            return {"detail": "S%d(conj N) = %r but conj S%d(N) = %r at N=%r" % (k, b, k, a.conjugate(), z)}
        got = complex(f(z + 1)) - complex(f(z))
        want = 1 / (z + 1) ** k
        if abs(got - want) > 1e-9 * max(1.0, abs(want)):
            return {"detail": "S%d(N+1)-S%d(N) at N=%r is %r, expected (N+1)^-%d = %r" % (k, k, z, got, k, want)}
    return None


def replay_alt(point, k, zero=False):
    import ekore.harmonics as h
    from ekore.harmonics import cache as c

    key = getattr(c, "Sm%d" % k)
    for n in range(0, 61):
        got = complex(c.get(key, c.reset(), complex(n), n % 2 == 0))
        want = float(_exact_Sm(k, n))
        if abs(got - want) > 1e-9 * max(1.0, abs(want)):
            return {"detail": "cache.get(Sm%d, N=%d, is_singlet=%s) = %r but the finite alternating sum is %r" % (k, n, n % 2 == 0, got, want)}
        # direct w-function
        S = _real_S(k)
        Smf = getattr(h, "Sm%d" % k)
        d = complex(Smf(complex(n), S(complex(n)), S(complex(n - 1) / 2), S(complex(n) / 2), n % 2 == 0)) if n >= 1 else 0.0
        if n >= 1 and abs(d - want) > 1e-9 * max(1.0, abs(want)):
            return {"detail": "Sm%d(N=%d) direct = %r but the finite alternating sum is %r" % (k, n, d, want)}
    return None


def replay_rec(point, w, it, fromS=False):
    import mpmath as mp
    from ekore.harmonics.polygamma import recursive_harmonic_sum

    n = float(point.get("n", 3))
    base = float(point.get("base", 1))
    if n < 0:
        return None
    for z in (complex(n), complex(n, 4.25)):
        if fromS:
            S = _real_S(w)
            got = complex(recursive_harmonic_sum(S(z), z, it, w))
            zz = mp.mpc(z) + it
            want = complex((-1) ** (w - 1) / mp.factorial(w - 1) * (mp.polygamma(w - 1, zz + 1) - mp.polygamma(w - 1, 1)))
        else:
            got = complex(recursive_harmonic_sum(base, z, it, w))
            want = base + sum(1 / (z + i) ** w for i in range(1, it + 1))
        if abs(got - want) > 1e-9 * max(1.0, abs(want)):
            return {"detail": "recursive_harmonic_sum(%s, n=%r, it=%d, w=%d) = %r, expected %r" % ("S(n)" if fromS else base, z, it, w, got, want)}
    return None


def _direct_real(name, N, flag):
    import importlib

    h = {n: importlib.import_module("ekore.harmonics." + n) for n in ("w1", "w2", "w3", "w4", "w5", "g_functions")}
    return _direct(h, name, N, flag)


def replay_cache(point, name, flag, filled, check_slots=False, conj=False):
    """real cache: prefill the given slots with directly computed values, call get, compare with direct evaluation
    (weights 1-5 additionally against mpmath polygamma)."""
    import numpy as np
    import mpmath as mp
    from ekore.harmonics import cache as c

    x = float(point.get("N", 3))
    if x < 1:
        return None
    for N in (complex(x), complex(x, 3.75)):
        cache = c.reset()
        for f in filled:
            cache[getattr(c, f)] = _direct_real(f, N, flag)
        got = complex(c.get(getattr(c, name), cache, N, flag))
        want = complex(_direct_real(name, N, flag))
        if got != got:
            return {"detail": "cache.get(%s, N=%r, is_singlet=%s) with prefilled %s returns nan (an empty slot was used as a value)" % (name, N, flag, filled)}
        # real-analyticity (independent of the w-functions used as 'direct' reference): S(conj N) = conj S(N), real on the real axis
        if name not in NEEDS_FLAG or flag is not None:
            cache2 = c.reset()
            for f in filled:
                cache2[getattr(c, f)] = _direct_real(f, N.conjugate(), flag)
            got2 = complex(c.get(getattr(c, name), cache2, N.conjugate(), flag))
            if abs(got2 - got.conjugate()) > 1e-8 * max(1.0, abs(got)):
                return {"detail": "cache.get(%s, is_singlet=%s) [prefilled %s] is not real-analytic: value at conj N = %r, conj of value at N=%r is %r" % (name, flag, filled, got2, N, got.conjugate())}
            d1, d2 = complex(_direct_real(name, N, flag)), complex(_direct_real(name, N.conjugate(), flag))
            if abs(d2 - d1.conjugate()) > 1e-8 * max(1.0, abs(d1)):
                return {"detail": "direct %s(N, is_singlet=%s) is not real-analytic: value at conj N = %r, conj of value at N=%r is %r" % (name, flag, d2, N, d1.conjugate())}
        if len(name) == 2:
            k = int(name[1])
            want = complex((-1) ** (k - 1) / mp.factorial(k - 1) * (mp.polygamma(k - 1, mp.mpc(N) + 1) - mp.polygamma(k - 1, 1)))
        if abs(got - want) > 1e-8 * max(1.0, abs(want)):
            return {"detail": "cache.get(%s, N=%r, is_singlet=%s) with prefilled %s = %r, direct evaluation %r" % (name, N, flag, filled, got, want)}
        if check_slots:
            if np.isnan(cache[getattr(c, name)]):
                return {"detail": "cache.get(%s) did not store its result" % name}
            for i, kn in enumerate(KEYS):
                if np.isnan(cache[i]):
                    continue
                if kn in NEEDS_FLAG and flag is None:
                    continue
                w = complex(_direct_real(kn, N, flag))
                if abs(complex(cache[i]) - w) > 1e-8 * max(1.0, abs(w)):
                    return {"detail": "after cache.get(%s, N=%r, is_singlet=%s) [prefilled %s] slot %s holds %r, direct value %r"
                            % (name, N, flag, filled, kn, complex(cache[i]), w)}
    return None


def replay_guard(point, index=False):
    from ekore.harmonics import cache as c

    if index:
        if c.CACHE_SIZE != len(KEYS) or any(getattr(c, n) != i for i, n in enumerate(KEYS)):
            return {"detail": "cache index table is not the documented one"}
        return None
    key = int(point.get("key", -1))
    try:
        c.get(key, c.reset(), 2.0)
        raised = False
    except RuntimeError:
        raised = True
    except IndexError:
        raised = "IndexError"
    outside = key < 0 or key >= c.CACHE_SIZE
    if raised is not outside:
        return {"detail": "cache.get(key=%d): raised=%r but key outside range is %r" % (key, raised, outside)}
    return None


# ---------------------------------------------------------------------------
def main():
    chk = H.Check("C24")
    chk.bounds = [
        "N a real symbol (N >= 0; N >= 1 in the cache cases); the identities are between rational expressions in N and the psi atoms, "
        "so they hold wherever the axioms do (all complex N off the poles)",
        "weights 1..5, alternating sums with is_singlet in {True, False} flipped across the step; recursive_harmonic_sum with 1..4 iterations",
        "generic continuation is_singlet=None of all 11 flagged sums: equals the eta = (-1)^N interpolation of the two parity versions (cos/sin(pi N) atoms)",
        "cache: all 31 keys, is_singlet in {True, False} (None for keys that do not use the flag), one get() from an arbitrary valid cache "
        "(each slot read is symbolically empty or holds the directly computed value; paths = emptiness patterns of the slots read)",
        "replay: integers 0..60 against exact rational sums, complex points up to |Im N| = 60 against (N+1)^-k / mpmath polygamma",
    ]
    chk.out_of_claim = [
        "cern_polygamma itself (numerical approximation of psi_k): replaced by its contract",
        "the fitted Mellin transforms mellin_g3..g22 and the nested sums built on them as numbers (accuracy of the fits), the log_functions "
        "lm1x vs their defining integrals",
        "rounding of the float evaluation",
    ]
    chk.stubs = [
        "ekore.harmonics.polygamma.cern_polygamma -> uninterpreted real atoms psi_k(z), k=0..4, interned by the normal form of z",
        "axiom: psi_k(z+1) = psi_k(z) + (-1)^k k!/z^(k+1) (used to shift arguments into a canonical unit strip)",
        "axiom: psi_0(1) = -euler_gamma, psi_k(1) = (-1)^(k+1) k! zeta(k+1)",
        "axiom: psi_k real on the real axis (atoms are real symbols)",
        "zeta2..zeta5, log2, li4half, euler_gamma -> opaque real symbols shared by code and axioms",
        "cache cases: g_functions.mellin_g3..g22 -> uninterpreted functions interned by argument normal forms",
    ]
    chk.assumptions = ["induction: recurrence + value at 0 give S_k(N) = sum_{j=1..N} j^-k at every positive integer N; "
                       "one valid-cache step gives any lookup order"]
    for k in range(1, 6):
        chk.case("simple.S%d" % k, case_simple, k=k)
        chk.case("alt.Sm%d" % k, case_alternating, k=k)
        chk.case("rec.w%d" % k, case_recursive, w=k, iters=[1, 2] if H.tier() == "quick" else [1, 2, 3, 4])
    chk.case("cache.guard", case_cache_bounds)
    noflag = [n for n in KEYS if n not in NEEDS_FLAG]
    flagged = [n for n in KEYS if n in NEEDS_FLAG]

    def groups(lst, n):
        return [lst[i::n] for i in range(n)]

    for i, g in enumerate(groups(noflag, 3)):
        chk.case("cache.noflag.%d" % i, case_cache, names=g, flag=None)
    for flag in (True, False):
        for i, g in enumerate(groups(flagged, 4)):
            chk.case("cache.flag.%s.%d" % ("even" if flag else "odd", i), case_cache, names=g, flag=flag)
    for i, g in enumerate(groups(flagged, 2)):
        chk.case("generic.%d" % i, case_generic, names=g)
    if H.tier() == "thorough":
        for flag in (True, False):
            for i, g in enumerate(groups(noflag, 3)):
                chk.case("cache.noflag.%d.%s" % (i, "even" if flag else "odd"), case_cache, names=g, flag=flag)
    E.load()  # import ekore once in the parent: the forked workers inherit the modules
    return chk.run(workers=8)


if __name__ == "__main__":
    import sys

    sys.exit(main())
