"""C08  Approximate solution methods agree with the exact one to the working order.

Real functions executed on jets (a0 = lam*alpha0, a1 = lam*alpha1) with AD in alpha1:
  non-singlet: eko_truncated, eko_ordered_truncated, nlo/nnlo/n3lo_expanded, U_vec
  singlet:     eko_truncated, eko_perturbative (1 iteration; exact and expanded fill), r_vec, u_vec, sum_u, lo_exact,
               ekore.anomalous_dimensions.exp_matrix_2D; decompose methods in the commuting (diagonal) limit.

Goal at order n (N^(n-1)LO):   lam * [ dE~/da1 - gamma(a1)/beta(a1) E~ ] = O(lam^n)   and   E~(a0,a0) = 1,
i.e. the coefficients of lam^0..lam^(n-1) vanish identically.  By variation of constants
E~ - E = int_{a0}^{a1} E(a1<-a') rho(a') da' with rho = O(lam^(n-1)) on an interval of length O(lam), so E~ - E = O(lam^n).
"""
from fractions import Fraction

from .kern import *  # noqa
from symx.solver import explore, prove_zero
from symx import harness as H

MOD = "harness.C08"


def _check_residual(log, res, n, what, key, replay):
    """res: jet/scalar or 2x2 object array of them; all coefficients below lam^n must vanish."""
    items = [((), res)] if not isinstance(res, realnp.ndarray) else [((i, j), res[i, j]) for i in range(res.shape[0]) for j in range(res.shape[1])]
    ok = True
    for idx, r in items:
        for k, c in residual_coeffs(r, n):
            v = prove_zero(c, "%s%s: lam^%d coefficient of the ODE residual == 0" % (what, list(idx) if idx else "", k), timeout_ms=60000)
            ok = log.decide(v, key=key, replay=replay, sampler=_sampler) and ok
            if not ok:
                return False
    return ok


def _check_unit(log, E1, what, key, replay):
    if isinstance(E1, realnp.ndarray):
        for i in range(2):
            for j in range(2):
                d = as_jet(E1[i, j]) - (1 if i == j else 0)
                for k, c in residual_coeffs(d, min(d.prec, jetmod.CAP[0])):
                    v = prove_zero(c, "%s[%d,%d] at a1=a0: lam^%d coefficient of E-1" % (what, i, j, k))
                    log.decide(v, key=key + ":unit", replay=replay, sampler=_sampler)
    else:
        d = as_jet(E1) - 1
        for k, c in residual_coeffs(d, min(d.prec, jetmod.CAP[0])):
            v = prove_zero(c, "%s at a1=a0: lam^%d coefficient of E-1" % (what, k))
            log.decide(v, key=key + ":unit", replay=replay, sampler=_sampler)


# ---------------------------------------------------------------------------
def case_ns(log, method, order):
    ns, sg, ei, as4, ad = kernel_modules()
    n = order
    jetmod.set_cap(n + 1)
    fn = {"truncated": ns.eko_truncated, "ordered-truncated": ns.eko_ordered_truncated,
          "expanded": {2: ns.nlo_expanded, 3: ns.nnlo_expanded, 4: ns.n3lo_expanded}[order]}[method]
    log.encode(fn, ns.U_vec, ns.lo_exact)
    rp = (MOD, "replay_ns", {"method": method, "order": order})
    log.register_replay("fallback:replay_ns", rp, _sampler)

    def run():
        a0, a1, al0, al1 = jet_couplings()
        bet, bs = sym_betas(order)
        gam = ns_gammas(order)
        if method == "expanded":
            E = fn(gam, a1, a0, bet)
            E1 = fn(gam, a0, a0, bet)
        else:
            E = fn(gam, a1, a0, bet, (order, 0))
            E1 = fn(gam, a0, a0, bet, (order, 0))
        E = as_jet(E)
        res = jet_tangent(E) - lamM_scalar(gam, bet, a1, al1) * Jet(E.v, [c.novar() for c in E.c], E.prec)
        _check_residual(log, res, n, "non-singlet %s order %d" % (method, order), "ns.%s:%d" % (method, order), rp)
        _check_unit(log, E1, "non-singlet %s order %d" % (method, order), "ns.%s:%d" % (method, order), rp)
        log.twin("domain")
        log.collect_ctx()

    _r, pm = explore(run)
    log.path_stats(pm)


def _novar_jet(x):
    x = as_jet(x)
    return Jet(x.v, [c.novar() if isinstance(c, SR) else Cx(c.re.novar(), c.im.novar()) for c in x.c], x.prec)


def case_singlet(log, method, order, kind="general", max_order_extra=0):
    ns, sg, ei, as4, ad = kernel_modules()
    n = order
    jetmod.set_cap(n + 1)
    log.encode(sg.eko_truncated, sg.eko_perturbative, sg.r_vec, sg.u_vec, sg.sum_u, sg.lo_exact, ad.exp_matrix_2D)
    rp = (MOD, "replay_singlet", {"method": method, "order": order, "max_order_extra": max_order_extra})
    log.register_replay("fallback:replay_singlet", rp, _sampler)
    tag = "singlet %s order %d (%s gamma)" % (method, order, kind)
    key = "singlet.%s:%d" % (method, order)

    def call(gam, x1, x0, bet):
        o = (order, 0)
        if method == "truncated":
            return sg.eko_truncated(gam, x1, x0, bet, o)
        mo = (order + max_order_extra, 0)
        return sg.eko_perturbative(gam, x1, x0, bet, o, 1, mo, method == "perturbative-exact")

    def run():
        a0, a1, al0, al1 = jet_couplings()
        bet, bs = sym_betas(order)
        gam = singlet_gammas(order, kind)
        E = call(gam, a1, a0, bet)
        M = lamM_matrix(gam, bet, a1, al1)
        T = realnp.empty((2, 2), dtype=object)
        En = realnp.empty((2, 2), dtype=object)
        for i in range(2):
            for j in range(2):
                T[i, j] = jet_tangent(as_jet(E[i, j]))
                En[i, j] = _novar_jet(E[i, j])
        res = T - M @ En
        _check_residual(log, res, n, tag, key, rp)
        # (the identity at a1 == a0 is decided through the dispatcher's fast path in C10: the bare singlet
        #  kernels divide by the vanishing eigenvalue gap there)
        log.twin("domain")
        log.collect_ctx()

    _r, pm = explore(run)
    log.path_stats(pm)


def case_truncated_formula(log, order):
    """eko_truncated against the truncated product U(a1) E0 U(a0)^-1 for *non-commuting* symbolic U_k and E0 (u_vec, r_vec and
    lo_exact replaced by symbolic matrices; their own correctness is decided in C12 / C23): an exact polynomial identity."""
    ns, sg, ei, as4, ad = kernel_modules()
    log.encode(sg.eko_truncated)
    rp = (MOD, "replay_singlet", {"method": "truncated", "order": order})
    log.register_replay("singlet.truncated:%d" % order, rp, _sampler)

    def run():
        a0, a1 = SR.var("a0"), SR.var("a1")
        u = [realnp.array([[1, 0], [0, 1]], dtype=object)]
        for k in range(1, order):
            u.append(realnp.array([[SR.var("u%d_%d%d" % (k, i, j)) for j in range(2)] for i in range(2)], dtype=object))
        e0 = realnp.array([[SR.var("e0_%d%d" % (i, j)) for j in range(2)] for i in range(2)], dtype=object)
        saved = (sg.u_vec, sg.r_vec, sg.lo_exact)
        sg.u_vec = lambda r, o: realnp.array(u, dtype=object)
        sg.r_vec = lambda *a: None
        sg.lo_exact = lambda *a: e0.copy()
        try:
            E = sg.eko_truncated(None, a1, a0, None, (order, 0))
        finally:
            sg.u_vec, sg.r_vec, sg.lo_exact = saved
        # U(a0)^-1 = sum W_k a0^k with W_0 = 1, W_k = - sum_{j=1..k} u_j W_{k-j}
        W = [u[0]]
        for k in range(1, order):
            W.append(-sum(u[j] @ W[k - j] for j in range(1, k + 1)))
        want = realnp.zeros((2, 2), dtype=object)
        for i in range(order):
            for j in range(order - i):
                want = want + (u[i] @ e0 @ W[j]) * (a1**i * a0**j)
        for i in range(2):
            for j in range(2):
                v = prove_zero(Cx.lift(E[i, j]) - Cx.lift(want[i, j]), "eko_truncated order %d == [U(a1) E0 U(a0)^-1] truncated at total degree %d, entry [%d,%d] (non-commuting U_k)" % (order, order - 1, i, j))
                log.decide(v, key="singlet.truncated:%d" % order, replay=rp, sampler=_sampler)
        log.twin("domain")

    _r, pm = explore(run)
    log.path_stats(pm)


def case_decompose_commuting(log, method, order):
    """decompose-{exact,expanded} with diagonal gamma: held to O(a^n) only in the commuting limit."""
    ns, sg, ei, as4, ad = kernel_modules()
    n = order
    jetmod.set_cap(n + 1)
    fn = {("decompose-exact", 2): sg.nlo_decompose_exact, ("decompose-expanded", 2): sg.nlo_decompose_expanded,
          ("decompose-exact", 3): sg.nnlo_decompose_exact, ("decompose-expanded", 3): sg.nnlo_decompose_expanded}[(method, order)]
    log.encode(fn, ad.exp_matrix_2D)
    rp = (MOD, "replay_singlet", {"method": method, "order": order, "diag": True})
    log.register_replay("fallback:replay_singlet", rp, _sampler)
    tag = "singlet %s order %d (diagonal gamma)" % (method, order)
    key = "singlet.%s:%d" % (method, order)

    def run():
        a0, a1, al0, al1 = jet_couplings()
        bet, bs = sym_betas(order)
        for a in (al0, al1):
            pass
        gam = singlet_gammas(order, "diag")
        E = fn(gam, a1, a0, bet)
        M = lamM_matrix(gam, bet, a1, al1)
        T = realnp.empty((2, 2), dtype=object)
        En = realnp.empty((2, 2), dtype=object)
        for i in range(2):
            for j in range(2):
                T[i, j] = jet_tangent(as_jet(E[i, j]))
                En[i, j] = _novar_jet(E[i, j])
        res = T - M @ En
        _check_residual(log, res, n, tag, key, rp)
        log.twin("domain")
        log.collect_ctx()

    _r, pm = explore(run)
    log.path_stats(pm)


# ---------------------------------------------------------------------------
def _sampler(rng):
    p = {"alpha0": rnd(rng, 0.01, 0.05), "alpha1": rnd(rng, 0.01, 0.05), "beta0": rnd(rng, 7, 9), "b1": rnd(rng, 2, 6), "b2": rnd(rng, 5, 30), "b3": rnd(rng, 20, 200)}
    for k in range(4):
        p["g%d" % k] = rnd(rng, -3, 3) * 4**k
        for i in range(2):
            for j in range(2):
                p["g%d_%d%d" % (k, i, j)] = rnd(rng, -3, 3) * 4**k
    return p


def _scaling_exponent(errs, lams):
    """local exponent between the two smallest scalings whose errors are above the noise floor"""
    import math

    pairs = [(l, e) for l, e in zip(lams, errs) if e > 1e-12]
    if len(pairs) < 2:
        return 99.0
    (l1, e1), (l2, e2) = pairs[-2], pairs[-1]
    return math.log(e1 / e2) / math.log(l1 / l2)


def _betas(f, order):
    return [f["beta0"]] + [f["b%d" % i] * f["beta0"] for i in range(1, order)]


def replay_ns(point, method, order):
    import eko.kernels.non_singlet as ns
    import mpmath as mp

    need = ["alpha0", "alpha1", "beta0"] + ["b%d" % i for i in range(1, order)]
    if not all(k in point for k in need):
        return None
    f = fpoint(point)
    if not (0 < f["alpha0"] < 0.06 and 0 < f["alpha1"] < 0.06 and f["beta0"] > 1 and abs(f["alpha0"] - f["alpha1"]) > 1e-3):
        return None
    bet = _betas(f, order)
    gam = [complex(float(point.get("g%d" % k, 1.0)), 0.3) for k in range(order)]
    fn = {"truncated": lambda a1, a0: ns.eko_truncated(gam, a1, a0, bet, (order, 0)),
          "ordered-truncated": lambda a1, a0: ns.eko_ordered_truncated(gam, a1, a0, bet, (order, 0)),
          "expanded": lambda a1, a0: {2: ns.nlo_expanded, 3: ns.nnlo_expanded, 4: ns.n3lo_expanded}[order](gam, a1, a0, bet)}[method]
    lams = [1.0, 0.5, 0.25, 0.125]
    errs = []
    mp.mp.dps = 30
    for l in lams:
        a0, a1 = l * f["alpha0"], l * f["alpha1"]
        integrand = lambda a: sum(mp.mpc(g) * a ** (k + 1) for k, g in enumerate(gam)) / sum(b * a ** (k + 2) for k, b in enumerate(bet))
        exact = mp.exp(mp.quad(integrand, [a0, a1]))
        errs.append(float(abs(complex(fn(a1, a0)) - complex(exact))))
    if max(errs) < 1e-13:
        return None
    ex = _scaling_exponent(errs, lams)
    if ex < order - 0.5:
        return {"detail": "non-singlet %s order %d: |E~-E| at lam=1,1/2,1/4,1/8 = %r scales like lam^%.2f < %d" % (method, order, errs, ex, order)}
    if abs(complex(fn(f["alpha0"], f["alpha0"])) - 1) > 1e-10:
        return {"detail": "non-singlet %s order %d not the identity at equal couplings" % (method, order)}
    return None


def _exact_singlet(gam, bet, a0, a1):
    import numpy as np
    from scipy.integrate import solve_ivp

    def rhs(a, y):
        E = y.reshape(2, 2)
        g = sum(gam[k] * a ** (k + 1) for k in range(len(gam)))
        b = sum(bet[k] * a ** (k + 2) for k in range(len(bet)))
        return ((g / b) @ E).reshape(-1)

    sol = solve_ivp(rhs, (a0, a1), np.eye(2, dtype=complex).reshape(-1), rtol=1e-12, atol=1e-14, method="DOP853")
    return sol.y[:, -1].reshape(2, 2)


def replay_singlet(point, method, order, max_order_extra=0, diag=False):
    import numpy as np
    import eko.kernels.singlet as sg

    need = ["alpha0", "alpha1", "beta0"] + ["b%d" % i for i in range(1, order)]
    if not all(k in point for k in need):
        return None
    f = fpoint(point)
    if not (0 < f["alpha0"] < 0.06 and 0 < f["alpha1"] < 0.06 and f["beta0"] > 1 and abs(f["alpha0"] - f["alpha1"]) > 1e-3):
        return None
    bet = _betas(f, order)
    gam = np.zeros((order, 2, 2), dtype=complex)
    for k in range(order):
        for i in range(2):
            for j in range(2):
                if diag and i != j:
                    continue
                gam[k, i, j] = complex(float(point.get("g%d_%d%d" % (k, i, j), 1.0 + i - j)), 0.2 * (i + 1))
    o = (order, 0)

    def fn(a1, a0):
        if method == "truncated":
            return sg.eko_truncated(gam, a1, a0, bet, o)
        if method.startswith("perturbative"):
            return sg.eko_perturbative(gam, a1, a0, bet, o, 1, (order + max_order_extra, 0), method == "perturbative-exact")
        tab = {("decompose-exact", 2): sg.nlo_decompose_exact, ("decompose-expanded", 2): sg.nlo_decompose_expanded,
               ("decompose-exact", 3): sg.nnlo_decompose_exact, ("decompose-expanded", 3): sg.nnlo_decompose_expanded}
        return tab[(method, order)](gam, a1, a0, bet)

    lams = [1.0, 0.5, 0.25, 0.125]
    errs = []
    for l in lams:
        a0, a1 = l * f["alpha0"], l * f["alpha1"]
        errs.append(float(np.abs(np.array(fn(a1, a0), dtype=complex) - _exact_singlet(gam, bet, a0, a1)).max()))
    if max(errs) < 1e-11:
        return None
    ex = _scaling_exponent(errs, lams)
    if ex < order - 0.5:
        return {"detail": "singlet %s order %d: max|E~-E| at lam=1,1/2,1/4,1/8 = %r scales like lam^%.2f < %d" % (method, order, errs, ex, order)}
    return None


def main():
    chk = H.Check("C08")
    thorough = H.tier() == "thorough"
    chk.bounds = ["non-singlet: truncated, ordered-truncated, expanded at orders 2-4, fully symbolic gamma_k, beta_k",
                  "singlet: truncated and perturbative (exact and expanded fill, ev_op_iterations=1, ev_op_max_order=n) with fully symbolic "
                  "non-commuting 2x2 gamma_k at order 2 (quick) and order 3 (thorough); order 4 with gamma_0 diagonal (thorough)",
                  "decompose-exact/expanded at orders 2-3 in the commuting limit (diagonal gamma_k), as the statement says",
                  "series carried to lam^n (one order more than asserted) with tracked precision"]
    chk.out_of_claim = ["floating point; eko_iterate (C12); N3LO decompose (needs concrete nf: covered by C09)",
                        "order-4 singlet with non-diagonal gamma_0 (cost)"]
    chk.assumptions = ["gamma entries real symbols (polynomial identities extend to complex values)",
                       "variation-of-constants argument turning the ODE residual bound into E~-E = O(a^n)"]
    for o in (2, 3, 4):
        for m in ("truncated", "ordered-truncated", "expanded"):
            chk.case("ns.%s.o%d" % (m, o), case_ns, method=m, order=o)
    for m in ("truncated", "perturbative-exact", "perturbative-expanded"):
        chk.case("singlet.%s.o2" % m, case_singlet, method=m, order=2)
    for m in ("decompose-exact", "decompose-expanded"):
        for o in (2, 3):
            chk.case("singlet.%s.o%d.diag" % (m, o), case_decompose_commuting, method=m, order=o)
    if thorough:
        for m in ("truncated", "perturbative-exact", "perturbative-expanded"):
            chk.case("singlet.%s.o3" % m, case_singlet, method=m, order=3)
            chk.case("singlet.%s.o4.diag0" % m, case_singlet, method=m, order=4, kind="diag0")
        chk.case("singlet.perturbative-exact.o2.max+2", case_singlet, method="perturbative-exact", order=2, max_order_extra=2)
    else:
        chk.case("singlet.truncated.o3.diag0", case_singlet, method="truncated", order=3, kind="diag0")
    for o in (2, 3, 4):
        chk.case("singlet.truncated.formula.o%d" % o, case_truncated_formula, order=o)
    # order 4 with diagonal gamma: cheap, and sensitive to anything that spoils the a^2, a^3 terms of the truncated kernel
    chk.case("singlet.truncated.o4.diag", case_singlet, method="truncated", order=4, kind="diag")
    chk.case("singlet.perturbative-exact.o4.diag", case_singlet, method="perturbative-exact", order=4, kind="diag")
    return chk.run()


if __name__ == "__main__":
    import sys

    sys.exit(main())
