"""C45  LHAPDF export of evolved PDFs is self-consistent (info-file and block logic; partial claim).

Real functions executed symbolically: ekobox.evol_pdf.evolve_pdfs / collect_blocks, ekobox.utils.regroup_evolgrid,
ekobox.genpdf.generate_block, ekobox.info_file.build / build_alphas, eko.runner.commons.couplings, eko.io.runcards.masses,
eko.msbar_masses.compute (own-scale branch) on REAL Theory/Operator cards whose numeric fields are symbols: an unsorted
mugrid (<= 3 points over two nf), the x grids, quark masses, matching ratios, xif.  Stand-ins: the EKO archive
(EKO.read -> object exposing evolgrid), apply.apply_pdf (property C43; returns symbolic evolved values, rejects what the
real one rejects), genpdf.export.dump_set (recorder: what would be written), Couplings (recorder of constructor
arguments; a_s(scale, nf) uninterpreted).

Goals
  blocks     per nf one block; x grid == target grid (or card grid), Q^2 knots sorted, pids == flavour basis,
             data[x_i, Q_j][pid] == x_i * evolved[(Q_j^2, nf)][pid][i]
  ranges     QMin/QMax == min/max of the written Q knots; XMin/XMax == min/max of the written x grid; the XMin/XMax that
             evolve_pdfs hands to build() for an explicit target grid survive in the info file
  target     an explicit target grid is accepted and reaches apply_pdf / the blocks
  meta       NumMembers, Flavors (as a set) and NumFlavors match the data; AlphaS_Qs == the written Q knots (per nf,
             ascending) and AlphaS_Vals[i] == 4 pi a_s(Q_i^2, nf_i) of a Couplings object
  alphas     that Couplings object is constructed with the same (couplings, order, method, masses, scheme, thresholds)
             as eko.runner.commons.couplings builds for the evolution: POLE / MSBAR, every scale-variation scheme
  overlap    evolve_pdfs raises ValueError iff the Q ranges of consecutive nf blocks overlap
"""
import itertools
import random
from fractions import Fraction

import numpy as rnp
import z3

from .common import *  # noqa
from ._ekobox import explore, cleanup_markers, symarr, prove_all_zero, prove_concrete, getv, decide, lift
from symx.solver import prove_zero, prove_rel
from symx.val import SymbolicEscape
from symx import harness as H
from . import C43 as A  # stand-ins shared with the apply harness: Elem, SymPDF (scale-dependent), content-addressed FakeDispatcher

MOD = "harness.C45"
PIDS = [22, -6, -5, -4, -3, -2, -1, 21, 1, 2, 3, 4, 5, 6]


class _NS:
    def __init__(self, **kw):
        self.__dict__.update(kw)


class XG:
    """interpolation.XGrid stand-in: .raw (array), len() and == ; like the real class it is NOT iterable.
    `==` is the real eko.interpolation.XGrid.__eq__ (bound in _modules, numpy rebound to the shim: allclose forks)."""

    def __init__(self, raw):
        self.raw = rnp.array(raw, dtype=object)

    def __len__(self):
        return len(self.raw)

    __hash__ = object.__hash__


class CouplingsRec:
    """recorder for eko.couplings.Couplings: constructor arguments by name; a_s uninterpreted"""

    made = []

    def __init__(self, *a, **kw):
        names = ["couplings", "order", "method", "masses", "hqm_scheme", "thresholds_ratios"]
        self.args = dict(zip(names, a))
        self.args.update(kw)
        self.calls = []
        CouplingsRec.made.append(self)

    def a_s(self, scale_to, nf_to=None):
        v = SR.var("as_%d_%d" % (len(CouplingsRec.made), len(self.calls)))
        self.calls.append((scale_to, nf_to, v))
        return v


def _ident_float(x):
    return x if isinstance(x, SR) else float(x)


def _ident_round(x, n=None):
    return x if isinstance(x, SR) else round(x, n)


def _modules():
    m = _NS()
    m.info = sym_module("ekobox.info_file")
    m.evol = sym_module("ekobox.evol_pdf")
    m.utils = sym_module("ekobox.utils")
    m.genpdf = sym_module("ekobox.genpdf")
    m.commons = sym_module("eko.runner.commons")
    m.runcards = sym_module("eko.io.runcards")
    m.msbar = sym_module("eko.msbar_masses")
    m.interp = sym_module("eko.interpolation")
    m.apply = sym_module("ekobox.apply")
    XG.__eq__ = m.interp.XGrid.__eq__
    import eko.couplings as real_couplings

    m.info.float = _ident_float
    m.info.round = _ident_round
    m.info.couplings = _NS(Couplings=CouplingsRec, couplings_mod_ev=real_couplings.couplings_mod_ev)
    m.commons.Couplings = CouplingsRec
    return m


def _cards(nfs, alias=None):
    """real cards; mugrid = [(mu_i, nf_i)] with mu_i symbolic > 0 in the given (listing) order.
    alias {j: i}: entry j (another nf) carries the very same scale as entry i -- the same symbol *object*, because Python
    dictionaries hash symbolic values by identity: a scale shared by two nf patches has to be one object to behave like two
    equal floats do in the real code (equality of distinct symbols decided by the solver cannot reach dict lookups)."""
    from ekobox import cards

    alias = alias or {}
    th = cards.example.theory()
    op = cards.example.operator()
    mus = [SR.var("mu%d" % i) for i in range(len(nfs))]
    for j, i in alias.items():
        assert nfs[i] != nfs[j]
        mus[j] = mus[i]
    for mu in mus:
        assume(mu - 1, ">0")  # scales between 1 GeV and 10 TeV
        assume(10000 - mu, ">0")
    # lemma (valid for positive reals, redundant): order of the squares == order of the scales; spares the solver a
    # non-linear feasibility question each time the code compares mu_i^2 with mu_j^2
    for i in range(len(mus)):
        for j in range(i + 1, len(mus)):
            if mus[i] is mus[j]:
                continue
            zi, zj = z3.Real(str_name(mus[i])), z3.Real(str_name(mus[j]))
            S.assume_z3((zi < zj) == (zi * zi < zj * zj))
            S.assume_z3((zi == zj) == (zi * zi == zj * zj))
    for i in range(len(mus)):
        for j in range(i + 1, len(mus)):
            if nfs[i] == nfs[j]:
                assume(mus[i] - mus[j], "!=0")  # evolution points are distinct (they are the keys of the EKO)
    op.mugrid = [(mu, nf) for mu, nf in zip(mus, nfs)]
    op.init = (1.65, 4)
    return th, op, mus


def _sym_sorted(vals):
    """own insertion sort on symbolic values (forks through the path manager where the order is not yet decided)"""
    out = []
    for v in vals:
        k = 0
        while k < len(out) and bool(out[k] <= v):
            k += 1
        out.insert(k, v)
    return out


def _alphas_obligations(log, info, blocks_q, rk, _sampler_mu=None):
    _sampler_mu = _sampler_mu or _mk_sampler(rk["nfs"])
    """AlphaS_Qs / AlphaS_Vals against the written knots; blocks_q: list of (nf, [Q ascending])"""
    rec = CouplingsRec.made[-1] if CouplingsRec.made else None
    flatq = [(nf, q) for nf, qs in blocks_q for q in qs]
    ok = rec is not None and len(info.get("AlphaS_Qs", [])) == len(flatq) == len(info.get("AlphaS_Vals", [])) == len(rec.calls)
    if not ok:
        v = prove_concrete(False, "AlphaS_Qs / AlphaS_Vals have one entry per written Q knot")
        decide(log, v, key="build_alphas:scales", replay=(MOD, "replay_build", rk), sampler=_sampler_mu)
        return
    diffs = []
    nf_ok = True
    for (nf, q), aq, av, (sc, nfto, sym) in zip(flatq, info["AlphaS_Qs"], info["AlphaS_Vals"], rec.calls):
        diffs += [aq - q, sc - q * q, av - 4.0 * rnp.pi * sym]
        nf_ok = nf_ok and nfto == nf
    v = prove_all_zero(diffs, "AlphaS_Qs == written Q knots (per nf, ascending); AlphaS_Vals[i] == 4 pi a_s(Q_i^2) of the recorded Couplings")
    decide(log, v, key="build_alphas:scales", replay=(MOD, "replay_build", rk), sampler=_sampler_mu)
    v = prove_concrete(nf_ok, "a_s evaluated with nf_to == nf of the block the knot belongs to")
    decide(log, v, key="build_alphas:nf", replay=(MOD, "replay_build", rk), sampler=_sampler_mu)


def _range_obligations(log, info, lo_key, hi_key, written, key, what, rk, sampler):
    lo, hi = info[lo_key], info[hi_key]
    prod_lo, prod_hi = SR(QONE), SR(QONE)
    for w in written:
        prod_lo, prod_hi = prod_lo * (w - lo), prod_hi * (w - hi)
    vs = [prove_rel(w - lo, ">=0", "%s <= every written %s" % (lo_key, what)) for w in written]
    vs += [prove_rel(hi - w, ">=0", "%s >= every written %s" % (hi_key, what)) for w in written]
    vs += [prove_zero(prod_lo, "%s is one of the written %s values" % (lo_key, what)), prove_zero(prod_hi, "%s is one of the written %s values" % (hi_key, what))]
    for v in vs:
        decide(log, v, key=key, replay=rk, sampler=sampler)


# ---------------------------------------------------------------------------
def case_build(log, nfs):
    """info_file.build on an unsorted symbolic mugrid: Q range, member/flavour entries, alpha_s knots, x range handed over"""
    m = _modules()
    log.encode(m.info.build, m.info.build_alphas, m.utils.regroup_evolgrid)
    rk = (MOD, "replay_build", {"nfs": list(nfs)})
    _sampler_mu = _mk_sampler(nfs)  # noqa: F841 (shadows the generic sampler for this case)

    def run():
        CouplingsRec.made = []
        th, op, mus = _cards(nfs)
        xs = [SR.var("x0"), SR.var("x1")]
        ts = [SR.var("t0"), SR.var("t1")]
        for a, b in ((xs[0], xs[1]), (ts[0], ts[1])):
            assume(a, ">0")
            assume(b - a, ">0")
        op.xgrid = XG(xs)
        # valid inputs of evolve_pdfs: Q ranges of consecutive nf blocks do not overlap
        by_nf = {}
        for mu, nf in zip(mus, nfs):
            by_nf.setdefault(nf, []).append(mu)
        keys = sorted(by_nf)
        for a, b in zip(keys, keys[1:]):
            for p in by_nf[a]:
                for q in by_nf[b]:
                    assume(q - p, ">=0")
        info = m.info.build(th, op, 3, info_update={"XMin": ts[0], "XMax": ts[1], "SetDesc": "x"})
        blocks_q = [(nf, _sym_sorted(by_nf[nf])) for nf in keys]
        _range_obligations(log, info, "QMin", "QMax", mus, "build:Q-range", "Q", rk, _sampler_mu)
        v = prove_all_zero([info["XMin"] - ts[0], info["XMax"] - ts[1]], "XMin/XMax handed over by evolve_pdfs (range of the explicit target grid) are kept by build()")
        decide(log, v, key="build:X-range", replay=(MOD, "replay_build", {"nfs": list(nfs), "what": "x"}), sampler=_sampler_mu)
        v = prove_concrete(info["NumMembers"] == 3 and sorted(info["Flavors"]) == sorted(PIDS) and info["NumFlavors"] == max(nfs) and info["SetDesc"] == "x",
                           "NumMembers as given, Flavors == the 14 flavour-basis pids, NumFlavors == max nf, info_update applied")
        decide(log, v, key="build:members-flavors", replay=rk, sampler=_sampler_mu)
        _alphas_obligations(log, info, blocks_q, {"nfs": list(nfs)})
        log.twin("domain")
        log.collect_ctx()

    _r, pm = explore(run)
    log.path_stats(pm)
    _validate(log, m, nfs)


def _validate(log, m, nfs):
    """translator validation: the shimmed build() on float cards == the untouched module on the same cards (non-alpha_s entries),
    and regroup_evolgrid / generate_block shimmed == untouched"""
    from eko import interpolation
    from ekobox import cards

    import eko.couplings as real_couplings

    real = real_module("ekobox.info_file")
    real_utils = real_module("ekobox.utils")
    m.commons.Couplings = real_couplings.Couplings  # (the symbolic part of this case is over)
    rng = log.rng
    for _ in range(2):
        th = cards.example.theory()
        op = cards.example.operator()
        op.mugrid = [(round(rng.uniform(2, 80), 3), nf) for nf in nfs]
        op.xgrid = interpolation.XGrid([0.1, 0.5, 1.0])
        CouplingsRec.made = []
        ctx.reset()
        b = real.build(th, op, 2, info_update={"XMin": 0.2})
        m.commons.Couplings = CouplingsRec
        a = m.info.build(th, op, 2, info_update={"XMin": 0.2})
        m.commons.Couplings = real_couplings.Couplings
        for k in ("QMin", "QMax", "XMin", "XMax", "NumFlavors", "NumMembers", "AlphaS_Qs", "Flavors"):
            if a[k] != b[k]:
                log.inconclusive.append("translator validation failed for info_file.build key %s: %r vs %r" % (k, a[k], b[k]))
        if m.utils.regroup_evolgrid(op.mugrid) != real_utils.regroup_evolgrid(op.mugrid):
            log.inconclusive.append("translator validation failed for regroup_evolgrid")
        log.validate()


def case_evolve(log, nfs, target, shuffle, members, alias=None, nx=2):
    """evolve_pdfs end to end on stand-ins; target: None | number of explicit target-grid points"""
    m = _modules()
    log.encode(m.evol.evolve_pdfs, m.evol.collect_blocks, m.utils.regroup_evolgrid, m.genpdf.generate_block, m.info.build, m.info.build_alphas,
               m.apply.apply_pdf, m.apply.apply_pdf_flavor, m.apply.apply_grids, m.apply.rotate_result)
    rk = {"nfs": list(nfs), "target": target, "members": members, "alias": alias, "nx": nx}
    seed0 = log.rng.randint(0, 10**9)
    outcomes = {}
    _sampler_mu = _mk_sampler(nfs, alias)  # noqa: F841

    def run():
        CouplingsRec.made = []
        th, op, mus = _cards(nfs, alias)
        xs = [SR.var("x%d" % i) for i in range(nx)]
        ts = [SR.var("t%d" % i) for i in range(target)] if target else None
        for g in (xs, ts) if ts else (xs,):
            assume(g[0], ">0")
            for a, b in zip(g, g[1:]):
                assume(b - a, ">0")
        op.xgrid = XG(xs)
        tg = XG(ts) if target else None
        wx = ts if target else xs
        q2_of = {}  # one Q^2 object per scale symbol: a scale shared by two nf patches is the same dictionary key, as equal floats are
        evolgrid = [(q2_of.setdefault(id(mu), mu * mu), nf) for mu, nf in zip(mus, nfs)]
        if shuffle:
            random.Random(seed0).shuffle(evolgrid)
        dumped = []
        applied = []  # target grids handed to ekobox.apply by evolve_pdfs
        # --- stand-in EKO with real content: symbolic operators acting on the flavours IN (other columns zero), every view of
        #     the initial scale consistent: mu20 == operator_card.mu20 == operator_card.init[0]**2 == metadata.origin[0]
        muI = SR.var("muI")
        assume(muI, ">0")
        op.init = (muI, 4)
        IN = [21, 1, 2]
        Os = []
        for k in range(len(evolgrid)):
            O = rnp.zeros((14, nx, 14, nx), dtype=object)
            for a in range(14):
                for j in range(nx):
                    for b in IN:
                        for kk in range(nx):
                            O[a, j, PIDS.index(b), kk] = SR.var("O%d_%d_%d_%d_%d" % (k, a, j, PIDS.index(b), kk))
            Os.append(O)

        class FakeEKO:
            def __init__(self):
                self.evolgrid = evolgrid
                self.xgrid = op.xgrid
                self.mu20 = muI * muI
                self.operator_card = op
                self.theory_card = th
                self.metadata = _NS(origin=(self.mu20, 4), xgrid=op.xgrid)

            def __iter__(self):
                return iter(evolgrid)

            def items(self):
                for ep, O in zip(evolgrid, Os):
                    yield ep, A.Elem(O, None)

            def __getitem__(self, ep):
                return A.Elem(Os[[id(e[0]) for e in evolgrid if e[1] == ep[1]].index(id(ep[0]))], None)

            def __enter__(self):
                return self

            def __exit__(self, *a):
                return False

            @classmethod
            def read(cls, path):
                return cls()

        eko_obj = FakeEKO()
        X = symarr("X", (target, nx)) if target else None
        A.FakeDispatcher.reset()
        if target:
            A.FakeDispatcher.register(eko_obj, ts, X)
        m.apply.interpolation = _NS(InterpolatorDispatcher=A.FakeDispatcher)

        class ApplyProxy:
            """the real (shimmed) ekobox.apply; the target grid evolve_pdfs hands over is recorded"""

            def __getattr__(self, name):
                f = getattr(m.apply, name)
                pos = {"apply_pdf": 2, "apply_pdf_flavor": 3, "rotate_result": 3}.get(name)
                if pos is None:
                    return f

                def wrapped(*a, **kw):
                    applied.append(kw["targetgrid"] if "targetgrid" in kw else (a[pos] if len(a) > pos else None))
                    return f(*a, **kw)

                return wrapped

        m.evol.EKO = FakeEKO
        m.evol.apply = ApplyProxy()
        m.evol.genpdf = _NS(generate_block=m.genpdf.generate_block, install_pdf=lambda name: None,
                            export=_NS(dump_set=lambda name, info, blocks: dumped.append((name, info, blocks))))
        # scale-dependent symbolic PDFs: xf_m(pid, x_k, Q2) = F + G (Q2 - muI^2); member m lacks flavour IN[m] if m > 0
        pdfs, present = [], []
        for mi in range(members):
            has = {pid: (pid in IN or pid == -3) and not (mi > 0 and pid == IN[mi % len(IN)]) for pid in PIDS}
            F = {pid: [SR.var("F%d_%s_%d" % (mi, str(pid).replace("-", "m"), k)) for k in range(nx)] for pid in PIDS}
            G = {pid: [SR.var("G%d_%s_%d" % (mi, str(pid).replace("-", "m"), k)) for k in range(nx)] for pid in PIDS}
            pdfs.append(A.SymPDF(eko_obj, has, F, G))
            present.append(has)
        # expected verdict of the overlap check, from the block structure
        by_nf = {}
        for mu, nf in zip(mus, nfs):
            by_nf.setdefault(nf, []).append(mu)
        keys = sorted(by_nf)
        try:
            m.evol.evolve_pdfs(pdfs, th, op, path="/nonexistent_c45/e.tar", targetgrid=tg, name="Out")
            res = "ok"
        except ValueError as e:
            res = "overlap" if "is bigger" in str(e) else "ValueError: %s" % e
        except (TypeError, AttributeError) as e:
            res = "%s: %s" % (type(e).__name__, e)
        outcomes[res] = outcomes.get(res, 0) + 1
        zover = z3.Or([z3.Real(str_name(p)) > z3.Real(str_name(q)) for a, b in zip(keys, keys[1:]) for p in by_nf[a] for q in by_nf[b]] + [z3.BoolVal(False)])
        if res == "overlap":
            v = S.prove_formula(zover, "ValueError('... is bigger ...') only if the Q ranges of consecutive nf blocks overlap")
            decide(log, v, key="evolve_pdfs:overlap-check", replay=(MOD, "replay_evolve", dict(rk, what="overlap")), sampler=_sampler_mu)
            log.twin("domain")
            return
        if res != "ok":
            v = prove_concrete(False, "evolve_pdfs runs with %s (got %s)" % ("an explicit target grid" if target else "the card grid", res[:80]))
            decide(log, v, key="evolve_pdfs:targetgrid", replay=(MOD, "replay_evolve", dict(rk, what="run")), sampler=_sampler_mu)
            log.twin("domain")
            return
        v = S.prove_formula(z3.Not(zover), "no ValueError only if the Q ranges of consecutive nf blocks do not overlap")
        decide(log, v, key="evolve_pdfs:overlap-check", replay=(MOD, "replay_evolve", dict(rk, what="overlap")), sampler=_sampler_mu)
        ok = len(dumped) == 1 and dumped[0][0] == "Out" and len(dumped[0][2]) == members and all(p.q2 and not p.bad for p in pdfs) and len(applied) >= 1
        v = prove_concrete(ok, "one set written, one block list per member, every PDF sampled (on the nodes of the operator grid only)")
        decide(log, v, key="evolve_pdfs:members", replay=(MOD, "replay_evolve", dict(rk, what="run")), sampler=_sampler_mu)
        if not ok:
            return
        # the x nodes the evolved PDFs are delivered on: those handed to apply_pdf, or the EKO/card grid for None
        v = prove_all_zero([q - muI * muI for p in pdfs for q in p.q2], "the initial PDFs are sampled at Q2 = mu0^2, the squared initial scale of the operator (mu0 symbolic)")
        decide(log, v, key="evolve_pdfs:scale", replay=(MOD, "replay_evolve", dict(rk, what="run")), sampler=_sampler_mu)
        gdiffs = []
        for g in applied:
            used = list(g) if g is not None else xs
            gdiffs += [SR(QONE)] if len(used) != len(wx) else [u - w for u, w in zip(used, wx)]
        v = prove_all_zero(gdiffs, "the PDFs are applied on the explicit target grid when one is given (also when it is close to the operator grid), else on the operator grid")
        decide(log, v, key="evolve_pdfs:targetgrid", replay=(MOD, "replay_evolve", dict(rk, what="run")), sampler=_sampler_mu, candidates=_near_grid_candidates(nfs, alias, target, nx))
        _name, info, member_blocks = dumped[0]
        sorted_q2 = {nf: _sym_sorted([mu * mu for mu in by_nf[nf]]) for nf in keys}
        struct_ok = True
        diffs = []

        def evolved(mi, k, a, i):
            """(X . O_k . xf_mi(., mu0^2)/x)[pid a, written node i] by explicit loops"""
            tot = SR(QZERO)
            for j in range(nx):
                w = X[i, j] if target else (1 if i == j else 0)
                if isinstance(w, int) and w == 0:
                    continue
                c = SR(QZERO)
                for b in IN:
                    if not present[mi][b]:
                        continue
                    for kk in range(nx):
                        c = c + Os[k][a, j, PIDS.index(b), kk] * pdfs[mi].F[b][kk] / xs[kk]
                tot = tot + w * c
            return tot

        for mi, blocks in enumerate(member_blocks):
            struct_ok = struct_ok and len(blocks) == len(keys)
            if not struct_ok:
                break
            for b, nf in zip(blocks, keys):
                struct_ok = struct_ok and len(b["xgrid"]) == len(wx) and len(b["mu2grid"]) == len(sorted_q2[nf]) and [int(p) for p in b["pids"]] == PIDS
                struct_ok = struct_ok and tuple(rnp.shape(b["data"])) == (len(wx) * len(sorted_q2[nf]), 14)
                if not struct_ok:
                    break
                diffs += [bx - x for bx, x in zip(b["xgrid"], wx)]
                diffs += [bq - q for bq, q in zip(b["mu2grid"], sorted_q2[nf])]
                # evolved values: keys of the stand-in result are the EKO's evolution points
                for i, x in enumerate(wx):
                    for j, q2 in enumerate(sorted_q2[nf]):
                        # find the evolution point with this Q^2 and nf (same symbolic value)
                        row = b["data"][i * len(sorted_q2[nf]) + j]
                        for a, pid in enumerate(PIDS):
                            want = None
                            for k, (e2, enf) in enumerate(evolgrid):
                                if enf == nf and (e2 - q2).is_zero():
                                    want = x * evolved(mi, k, a, i)
                            diffs.append(row[a] - want if want is not None else SR(QONE))
        v = prove_concrete(struct_ok, "per member one block per nf (ascending), each with the written x grid, the nf's Q^2 knots and the 14 pids")
        decide(log, v, key="collect_blocks:structure", replay=(MOD, "replay_evolve", dict(rk, what="run")), sampler=_sampler_mu)
        if not struct_ok:
            return
        v = prove_all_zero(diffs, "block x grid == written grid, Q^2 knots ascending, data[x_i,Q_j][pid] == x_i * (X . O_(Q_j^2,nf) . xf(., mu0^2)/x)[pid][i]: the applied evolved PDF of the input sampled at mu0^2")
        decide(log, v, key="collect_blocks:data", replay=(MOD, "replay_evolve", dict(rk, what="run")), sampler=_sampler_mu)
        # ranges against what is written
        wq = [q2 for nf in keys for q2 in sorted_q2[nf]]
        sq = {"QMin2": info["QMin"] * info["QMin"], "QMax2": info["QMax"] * info["QMax"]}
        for v in (prove_rel(lift(info["QMin"]), ">0", "QMin > 0"),):
            decide(log, v, key="build:Q-range", replay=(MOD, "replay_evolve", dict(rk, what="run")), sampler=_sampler_mu)
        _range_obligations(log, sq, "QMin2", "QMax2", wq, "build:Q-range", "Q^2 knots", (MOD, "replay_evolve", dict(rk, what="run")), _sampler_mu)
        _range_obligations(log, info, "XMin", "XMax", wx, "build:X-range", "x", (MOD, "replay_evolve", dict(rk, what="run")), _sampler_mu)
        v = prove_concrete(info["NumMembers"] == members and sorted(info["Flavors"]) == sorted(PIDS) and info["NumFlavors"] == max(nfs),
                           "NumMembers == number of written members, Flavors == pids of the blocks (as a set), NumFlavors == max nf")
        decide(log, v, key="build:members-flavors", replay=(MOD, "replay_evolve", dict(rk, what="run")), sampler=_sampler_mu)
        blocks_q = [(nf, _sym_sorted(by_nf[nf])) for nf in keys]
        _alphas_obligations(log, info, blocks_q, {"nfs": list(nfs)})
        log.twin("domain")
        log.collect_ctx()

    _r, pm = explore(run)
    log.path_stats(pm)
    if not outcomes:
        log.inconclusive.append("no path completed")


# ---------------------------------------------------------------------------
# dump_blocks -> load_blocks_from_file round trip with symbolic values
# ---------------------------------------------------------------------------
class Tok(SR):
    """A symbolic real that can be printed: float()/format() give a unique tag number (1 + k/1000, exact at the printed
    precision %.6e / %.8e) under which the symbolic value is registered; parsing the text back (TagNumpy) yields the
    symbolic value again.  Models "a number survives printing and re-reading" -- the printed precision itself is not
    claimed -- while every decision the real dump/load code takes about *where* a number goes is executed for real."""

    __slots__ = ("code",)
    registry = {}

    @classmethod
    def of(cls, v):
        v = lift(v)
        t = cls(v.v)
        t.code = 1.0 + (len(cls.registry) + 1) / 1000.0
        cls.registry[len(cls.registry) + 1] = SR(v.v)
        return t

    @classmethod
    def back(cls, f):
        k = int(round((float(f) - 1.0) * 1000.0))
        if k not in cls.registry or abs(1.0 + k / 1000.0 - float(f)) > 1e-9:
            raise SymbolicEscape("number %r read from the file is not a printed tag" % (f,))
        return cls.registry[k]

    def __float__(self):
        return self.code

    def __format__(self, spec):
        return format(self.code, spec)


class TagNumpy(shim.SymNumpy):
    """numpy facade for export/load: sqrt of printable values stays printable; arrays parsed from text map tags back"""

    def sqrt(self, x):
        r = super().sqrt(x)
        if isinstance(r, rnp.ndarray) and r.dtype == object:
            return rnp.array([Tok.of(e) if isinstance(e, SR) else e for e in r.flat], dtype=object).reshape(r.shape)
        return Tok.of(r) if isinstance(r, SR) else r

    def array(self, a, dtype=None, **k):
        if dtype in (rnp.float64, float) and isinstance(a, (list, tuple)) and a and all(isinstance(e, str) for e in a):
            return rnp.array([Tok.back(float(e)) for e in a], dtype=object)
        return super().array(a, dtype=dtype, **k)

    def fromstring(self, string, dtype=float, sep=""):
        return rnp.array([Tok.back(float(e)) for e in string.split(sep if sep.strip() else None)], dtype=object)


def _rt_blocks(shapes, rng):
    """blocks with their own x grid (length and values), Q grid and pid list each; every number a fresh symbol"""
    blocks = []
    for bi, (nxb, nq, npid) in enumerate(shapes):
        xs = [SR.var("bx%d_%d" % (bi, i)) for i in range(nxb)]
        qs = [SR.var("bq%d_%d" % (bi, j)) for j in range(nq)]
        for v in xs + qs:
            assume(v, ">0")
        pids = PIDS if npid == 14 else rng.sample(PIDS, npid)
        data = symarr("bd%d" % bi, (nxb * nq, len(pids)))
        blocks.append(dict(xgrid=xs, mu2grid=[q * q for q in qs], pids=list(pids), data=data, _q=qs))
    return blocks


def case_roundtrip(log, shapes, member):
    import pathlib
    import shutil
    import sys
    import tempfile
    import types

    export = sym_module("ekobox.genpdf.export", np=TagNumpy())
    load = sym_module("ekobox.genpdf.load", np=TagNumpy())
    log.encode(export.dump_blocks, export.list_to_str, export.array_to_str, load.load_blocks_from_file)
    rk = {"shapes": [list(sh) for sh in shapes], "member": member}
    seed0 = log.rng.randint(0, 10**9)

    def run():
        Tok.registry = {}
        blocks = _rt_blocks(shapes, random.Random(seed0))
        printable = [dict(xgrid=[Tok.of(x) for x in b["xgrid"]], mu2grid=list(b["mu2grid"]), pids=list(b["pids"]),
                          data=rnp.array([Tok.of(e) for e in b["data"].flat], dtype=object).reshape(b["data"].shape)) for b in blocks]
        tmp = pathlib.Path(tempfile.mkdtemp(prefix="c45rt_", dir="/tmp"))
        fake = types.ModuleType("lhapdf")
        fake.paths = lambda: [str(tmp)]
        saved = sys.modules.get("lhapdf")
        sys.modules["lhapdf"] = fake
        try:
            (tmp / "Set").mkdir()
            export.dump_blocks(str(tmp / "Set"), member, printable)
            head, got = load.load_blocks_from_file("Set", member)
        finally:
            if saved is None:
                sys.modules.pop("lhapdf", None)
            else:
                sys.modules["lhapdf"] = saved
            shutil.rmtree(tmp, ignore_errors=True)
        ok = head == ("PdfType: central\n" if member == 0 else "PdfType: replica\n") and len(got) == len(blocks)
        ok = ok and all(len(g["xgrid"]) == len(b["xgrid"]) and len(g["mu2grid"]) == len(b["mu2grid"]) and [int(p) for p in g["pids"]] == [int(p) for p in b["pids"]]
                        and tuple(rnp.shape(g["data"])) == tuple(b["data"].shape) for g, b in zip(got, blocks))
        v = prove_concrete(ok, "re-read member: head line, number of blocks, per block the lengths of its own x and Q grids, its pids and data shape")
        decide(log, v, key="roundtrip:structure", replay=(MOD, "replay_roundtrip", rk), sampler=_sampler_rt)
        if not ok:
            return
        for bi, (g, b) in enumerate(zip(got, blocks)):
            for name, diffs in (("x grid", [u - w for u, w in zip(g["xgrid"], b["xgrid"])]), ("Q^2 grid", [u - w for u, w in zip(g["mu2grid"], b["mu2grid"])]),
                                ("data", [g["data"][i] - b["data"][i] for i in rnp.ndindex(b["data"].shape)])):
                v = prove_all_zero(diffs, "re-read block %d of %d: %s equals what was written (its own, not another block's)" % (bi + 1, len(blocks), name))
                decide(log, v, key="roundtrip:%s" % name.split()[0], replay=(MOD, "replay_roundtrip", rk), sampler=_sampler_rt)
        log.twin("domain")
        log.collect_ctx()

    _r, pm = explore(run)
    log.path_stats(pm)


def _sampler_rt(rng):
    return {"seed": Fraction(rng.randint(1, 10**6))}


def replay_roundtrip(point, shapes, member):
    """real dump_blocks + load_blocks_from_file on float blocks, compared at the printed precision"""
    import pathlib
    import shutil
    import sys
    import tempfile
    import types

    from ekobox.genpdf import export, load

    rng = rnp.random.default_rng(int(getv(point, "seed", 3)))
    blocks = []
    for bi, (nxb, nq, npid) in enumerate(shapes):
        xs = sorted(getv(point, "bx%d_%d" % (bi, i), float(rng.uniform(1e-3, 1))) for i in range(nxb))
        qs = sorted(getv(point, "bq%d_%d" % (bi, j), float(rng.uniform(1.5, 100))) for j in range(nq))
        if any(v <= 0 for v in xs + qs):
            return None
        pids = PIDS if npid == 14 else [int(p) for p in rng.permutation(PIDS)[:npid]]
        data = rng.normal(size=(nxb * nq, len(pids)))
        blocks.append(dict(xgrid=xs, mu2grid=[q * q for q in qs], pids=pids, data=data))
    tmp = pathlib.Path(tempfile.mkdtemp(prefix="c45rt_", dir="/tmp"))
    fake = types.ModuleType("lhapdf")
    fake.paths = lambda: [str(tmp)]
    sys.modules["lhapdf"] = fake
    try:
        (tmp / "Set").mkdir()
        export.dump_blocks(str(tmp / "Set"), member, blocks)
        head, got = load.load_blocks_from_file("Set", member)
        if head.strip() != ("PdfType: central" if member == 0 else "PdfType: replica") or len(got) != len(blocks):
            return {"detail": "head %r, %d blocks read, %d written" % (head, len(got), len(blocks))}
        for bi, (g, b) in enumerate(zip(got, blocks)):
            for name, u, w, tol in (("x grid", g["xgrid"], b["xgrid"], 1e-6), ("Q^2 grid", g["mu2grid"], b["mu2grid"], 3e-6)):
                if len(u) != len(w) or any(abs(a - c) > tol * abs(c) for a, c in zip(u, w)):
                    return {"detail": "block %d of %d: %s read back %r, written %r (x grids of the blocks: %r)" % (bi + 1, len(blocks), name, [float(a) for a in u], w, [b_["xgrid"] for b_ in blocks])}
            if [int(p) for p in g["pids"]] != b["pids"] or g["data"].shape != b["data"].shape or not rnp.allclose(g["data"], b["data"], rtol=2e-8, atol=1e-12):
                return {"detail": "block %d of %d: pids/data read back differ from what was written" % (bi + 1, len(blocks))}
        return None
    finally:
        sys.modules.pop("lhapdf", None)
        shutil.rmtree(tmp, ignore_errors=True)


def str_name(sr):
    """name of the variable an SR symbol consists of"""
    from symx import poly as P

    (i,) = sr.v.n.vars()
    return P.NAMES[i]


def case_alphas(log, scheme, scvar, evmeths):
    """differential: arguments of the Couplings built by build_alphas == arguments of the one built by commons.couplings"""
    m = _modules()
    log.encode(m.info.build_alphas, m.commons.couplings, m.runcards.masses, m.msbar.compute)
    from eko.io.types import EvolutionMethod, ScaleVariationsMethod
    from eko.quantities.heavy_quarks import QuarkMassScheme

    def run():
        from ekobox import cards

        for evm in evmeths:
            CouplingsRec.made = []
            th = cards.example.theory()
            op = cards.example.operator()
            op.mugrid = [(3.0, 4), (10.0, 5)]
            op.configs.evolution_method = EvolutionMethod(evm)
            op.configs.scvar_method = None if scvar is None else ScaleVariationsMethod(scvar)
            xif = SR.var("xif")
            assume(xif, ">0")
            th.xif = xif
            ms = [SR.var("m_" + q) for q in "cbt"]
            rs = [SR.var("r_" + q) for q in "cbt"]
            for a in ms + rs:
                assume(a, ">0")
            assume(ms[1] - ms[0], ">0")
            assume(ms[2] - ms[1], ">0")
            for a, b in ((0, 1), (1, 2), (0, 2)):  # redundant lemma: the squares are ordered like the masses
                assume(ms[b] * ms[b] - ms[a] * ms[a], ">0")
            for i, q in enumerate("cbt"):
                getattr(th.heavy.masses, q).value = ms[i]
                setattr(th.heavy.matching_ratios, q, rs[i])
            if scheme == "POLE":
                th.heavy.masses_scheme = QuarkMassScheme.POLE
            else:
                th.heavy.masses_scheme = QuarkMassScheme.MSBAR
                if scheme == "MSBAR-own-scale":
                    for i, q in enumerate("cbt"):
                        getattr(th.heavy.masses, q).scale = ms[i]  # m(m) = m given: no running needed
                else:
                    # masses given at another scale: msbar_masses.compute solves m(m)=m (fsolve/solve_ivp: not encodable) ->
                    # stubbed by its contract "returns the three squared MSbar masses", as uninterpreted symbols
                    Ms = rnp.array([SR.var("M2_" + q) for q in "cbt"], dtype=object)
                    m.runcards.msbar_masses = _NS(compute=lambda *a, **k: Ms)
                    for i, q in enumerate("cbt"):
                        getattr(th.heavy.masses, q).scale = SR.var("s_" + q)
            m.info.build_alphas(th, op)
            if len(CouplingsRec.made) != 1:
                v = prove_concrete(False, "build_alphas constructs one Couplings object")
                decide(log, v, key="build_alphas:couplings-args", replay=(MOD, "replay_alphas", {"scheme": scheme, "scvar": scvar, "evm": evm}), sampler=_sampler_th)
                continue
            got = CouplingsRec.made[0].args
            m.commons.couplings(th, op)
            want = CouplingsRec.made[-1].args
            same = (got.get("couplings") is want["couplings"] and tuple(got.get("order", ())) == tuple(want["order"]) and got.get("method") == want["method"]
                    and got.get("hqm_scheme") == want["hqm_scheme"] and len(list(got.get("masses", []))) == 3 and len(list(got.get("thresholds_ratios", []))) == 3)
            v = prove_concrete(same, "same reference couplings, order, coupling-evolution method (%s) and mass scheme as the evolution" % evm)
            decide(log, v, key="build_alphas:couplings-args", replay=(MOD, "replay_alphas", {"scheme": scheme, "scvar": scvar, "evm": evm}), sampler=_sampler_th)
            if not same:
                continue
            v = prove_all_zero([lift(a) - lift(b) for a, b in zip(list(got["masses"]), list(want["masses"]))],
                               "threshold masses handed to Couplings == masses used by the evolution (%s)" % scheme)
            decide(log, v, key="build_alphas:masses", replay=(MOD, "replay_alphas", {"scheme": scheme, "scvar": scvar, "evm": evm}), sampler=_sampler_th)
            v = prove_all_zero([lift(a) - lift(b) for a, b in zip(list(got["thresholds_ratios"]), list(want["thresholds_ratios"]))],
                               "threshold ratios handed to Couplings == those of the evolution (scale variation %s)" % scvar)
            decide(log, v, key="build_alphas:thresholds", replay=(MOD, "replay_alphas", {"scheme": scheme, "scvar": scvar, "evm": evm}), sampler=_sampler_th)
        log.twin("domain")
        log.collect_ctx()

    _r, pm = explore(run)
    log.path_stats(pm)


# ---------------------------------------------------------------------------
def _sampler_mu(rng):
    p = {"mu%d" % i: rnd(rng, 2, 90) for i in range(3)}
    p.update({"t0": Fraction(1, 5), "t1": Fraction(4, 5), "t2": Fraction(9, 10)})
    return p


def _near_grid_candidates(nfs, alias, target, nx):
    """candidate points with an explicit target grid at the edge of / inside numpy's allclose tolerance around the operator grid
    (relative 6e-6; small nodes moved by a few 1e-9), and one clearly different grid"""
    if not target:
        return []
    base = _mk_sampler(nfs, alias)(random.Random(1))
    out = []
    for xs_, ts_ in (([Fraction(1, 10), Fraction(1)], [Fraction(1, 10) * (1 + Fraction(6, 10**6)), Fraction(1) - Fraction(6, 10**6)]),
                     ([Fraction(1, 10**9), Fraction(1, 10**7), Fraction(1)], [Fraction(6, 10**9), Fraction(108, 10**9), Fraction(1)]),
                     ([Fraction(1, 10), Fraction(1, 2), Fraction(1)], [Fraction(1, 10), Fraction(1, 2) * (1 + Fraction(5, 10**6)), Fraction(1)]),
                     ([Fraction(1, 10), Fraction(1)], [Fraction(1, 5), Fraction(4, 5)])):
        if len(xs_) != nx or len(ts_) != target:
            continue
        p = dict(base)
        p.update({"x%d" % i: v for i, v in enumerate(xs_)})
        p.update({"t%d" % i: v for i, v in enumerate(ts_)})
        out.append(p)
    return out


def _mk_sampler(nfs, alias=None):
    """candidate points inside the domain: scales consistent with the nf blocks (no overlap), listed in a random order within
    each block -- every second candidate in descending order, the arrangement the listing-order obligations are sensitive to"""
    state = {"n": 0}

    def sampler(rng):
        state["n"] += 1
        keys = sorted(set(nfs))
        cuts = sorted(rnd(rng, 3, 80) for _ in range(len(keys) - 1))
        lo = [Fraction(3, 2)] + cuts
        hi = cuts + [Fraction(150)]
        p = {"t0": Fraction(1, 5), "t1": Fraction(4, 5), "t2": Fraction(9, 10)}
        for k, (a, b) in zip(keys, zip(lo, hi)):
            idx = [i for i, nf in enumerate(nfs) if nf == k]
            vals = sorted({a + (b - a) * Fraction(rng.randint(1, 999), 1000) for _ in idx})
            while len(vals) < len(idx):
                vals = sorted(set(vals) | {a + (b - a) * Fraction(rng.randint(1, 999), 1000)})
            vals = vals[::-1] if state["n"] % 2 else rng.sample(vals, len(vals))
            for i, v in zip(idx, vals):
                p["mu%d" % i] = v
        for j, i in (alias or {}).items():
            # the shared scale sits on the boundary between the two nf blocks
            a, b = sorted((nfs[i], nfs[j]))
            p["mu%d" % i] = p["mu%d" % j] = cuts[keys.index(a)]
        return p

    return sampler


def _sampler_th(rng):
    return {"xif": rnd(rng, 0.5, 2.0), "r_c": rnd(rng, 0.8, 1.5), "r_b": rnd(rng, 0.8, 1.5), "r_t": rnd(rng, 0.8, 1.2)}


# ---------------------------------------------------------------------------
# replays on the REAL code
# ---------------------------------------------------------------------------
def _real_cards(point, nfs, alias=None):
    from eko import interpolation
    from ekobox import cards

    th = cards.example.theory()
    op = cards.example.operator()
    mus = [getv(point, "mu%d" % i, None) for i in range(len(nfs))]
    for j, i in (alias or {}).items():
        mus[j] = mus[i]
    if any(mu is None or not (1.0 < mu < 1e4) for mu in mus):
        return None
    mus = [round(mu, 3) for mu in mus]
    by_nf = {}
    for mu, nf in zip(mus, nfs):
        by_nf.setdefault(nf, []).append(mu)
    keys = sorted(by_nf)
    overlap = any(max(by_nf[a]) > min(by_nf[b]) for a, b in zip(keys, keys[1:]))
    if any(len(set(v)) != len(v) for v in by_nf.values()):
        return None  # repeated knot inside one nf block
    op.init = (1.5, 3)  # mu0 != 1, so that mu0 and mu0^2 differ
    op.mugrid = list(zip(mus, nfs))
    op.xgrid = interpolation.XGrid([0.1, 0.5, 1.0])
    op.configs.interpolation_polynomial_degree = 1
    return th, op, mus, by_nf, keys, overlap


def replay_build(point, nfs, what="q"):
    from ekobox import info_file

    r = _real_cards(point, nfs)
    if r is None:
        return None
    th, op, mus, by_nf, keys, overlap = r
    if overlap:
        return None
    t0, t1 = getv(point, "t0", 0.2), getv(point, "t1", 0.8)
    if not 0 < t0 < t1 <= 1:
        t0, t1 = 0.2, 0.8
    info = info_file.build(th, op, 3, info_update={"XMin": t0, "XMax": t1, "SetDesc": "x"})
    if what == "x":
        if abs(info["XMin"] - t0) > 1e-12 or abs(info["XMax"] - t1) > 1e-12:
            return {"detail": "build(..., info_update={'XMin': %r, 'XMax': %r}) as evolve_pdfs calls it for an explicit target grid returns XMin=%r XMax=%r (x range of the operator card)"
                    % (t0, t1, info["XMin"], info["XMax"])}
        return None
    if abs(info["QMin"] - min(mus)) > 1e-4 or abs(info["QMax"] - max(mus)) > 1e-4:
        return {"detail": "mugrid %r: QMin=%r QMax=%r but the Q knots written for this grid span [%r, %r]" % (op.mugrid, info["QMin"], info["QMax"], min(mus), max(mus))}
    wantq = [q for nf in keys for q in sorted(by_nf[nf])]
    if list(info["AlphaS_Qs"]) != wantq or len(info["AlphaS_Vals"]) != len(wantq):
        return {"detail": "AlphaS_Qs %r, written knots %r" % (info["AlphaS_Qs"], wantq)}
    if info["NumMembers"] != 3 or sorted(info["Flavors"]) != sorted(PIDS) or info["NumFlavors"] != max(nfs):
        return {"detail": "NumMembers/Flavors/NumFlavors = %r %r %r" % (info["NumMembers"], info["Flavors"], info["NumFlavors"])}
    # alpha_s knots against the coupling object of the evolution (independent of build_alphas)
    from eko.runner import commons

    sc = commons.couplings(th, op)
    i = 0
    for nf in keys:
        for q in sorted(by_nf[nf]):
            ref = 4 * rnp.pi * sc.a_s(q * q, nf_to=nf)
            if abs(info["AlphaS_Vals"][i] - ref) > 1e-8 * ref:
                return {"detail": "AlphaS_Vals[%d]=%r at Q=%r nf=%d, evolution coupling gives %r" % (i, info["AlphaS_Vals"][i], q, nf, ref)}
            i += 1
    return None


class _ToyPDF:
    def __init__(self, k):
        self.k = k

    def hasFlavor(self, pid):
        return pid != 6

    def xfxQ2(self, pid, x, q2):
        import math

        # depends on the scale it is asked at, as any real set does
        return (x ** 0.5 * (1 - x) ** 2 * (1 + 0.1 * abs(pid) + 0.3 * self.k) + 0.01 * self.k) * (1 + 0.25 * math.log(q2))


def _grid_from(point, prefix, n, default):
    g = [getv(point, "%s%d" % (prefix, i), None) for i in range(n)]
    if any(v is None for v in g) or not all(0 < a < b for a, b in zip(g, g[1:])) or not (1e-12 < g[0] and g[-1] < 1e3):
        return list(default)
    return g


def replay_evolve(point, nfs, target, members, what="run", alias=None, nx=2):
    """real evolve_pdfs on a real (synthetic) EKO archive; the written files are parsed back"""
    import os
    import pathlib
    import shutil
    import tempfile

    import yaml

    from eko import interpolation
    from eko.io.struct import EKO, Operator
    from ekobox import apply, evol_pdf

    r = _real_cards(point, nfs, alias)
    if r is None:
        return None
    th, op, mus, by_nf, keys, overlap = r
    tmp = pathlib.Path(tempfile.mkdtemp(prefix="c45_", dir="/tmp"))
    cwd = os.getcwd()
    try:
        os.chdir(tmp)
        xs = _grid_from(point, "x", nx, [0.1, 1.0] if nx == 2 else [0.1, 0.5, 1.0])
        op.xgrid = interpolation.XGrid(xs)
        eko = EKO.create(tmp / "e.tar").load_cards(th, op).build()
        rng = rnp.random.default_rng(5)
        for ep in op.evolgrid:
            eko[ep] = Operator(rng.normal(size=(14, nx, 14, nx)))
        eko.close()
        tgs = [None]
        raw = None
        if target:
            raw = _grid_from(point, "t", target, [0.2, 0.8] if target == 2 else [0.2, 0.6, 0.8])
            tgs = [interpolation.XGrid(raw), raw]  # the two documented ways to give a grid: XGrid / list of floats
        pdfs = [_ToyPDF(k) for k in range(members)]
        errors = []
        for tg in tgs:
            try:
                evol_pdf.evolve_pdfs(pdfs, th, op, path=tmp / "e.tar", targetgrid=tg, name="Out")
                errors.append(None)
            except ValueError as e:
                if "is bigger" in str(e):
                    errors.append("overlap")
                else:
                    errors.append("%s: %s" % (type(e).__name__, e))
            except Exception as e:  # noqa
                errors.append("%s: %s" % (type(e).__name__, e))
        if what == "overlap":
            got = any(e == "overlap" for e in errors)  # the check precedes everything that depends on the target grid
            return None if got == overlap else {"detail": "mugrid %r: overlap ValueError raised=%r, blocks overlap=%r" % (op.mugrid, got, overlap)}
        if overlap:
            return None
        if target and all(e is not None for e in errors):
            return {"detail": "evolve_pdfs with an explicit target grid fails: XGrid -> %s ; list -> %s" % (errors[0], errors[1])}
        if errors[0] is not None and not target:
            return {"detail": "evolve_pdfs failed: %s" % errors[0]}
        # parse what was written (last successful run)
        info = yaml.safe_load(open(tmp / "Out" / "Out.info").read())
        wx = [float(v) for v in op.xgrid.raw] if not target else raw
        # the info file keeps full precision: its x range must be the one of the requested grid
        if abs(info["XMin"] - wx[0]) > 1e-13 * wx[0] or abs(info["XMax"] - wx[-1]) > 1e-13 * wx[-1]:
            return {"detail": "operator x grid %r, %s: info XMin=%r XMax=%r" % (xs, "explicit target grid %r" % (raw,) if target else "no target grid", info["XMin"], info["XMax"])}
        files = sorted((tmp / "Out").glob("Out_*.dat"))
        if info["NumMembers"] != members or len(files) != members:
            return {"detail": "NumMembers=%r, %d member files, %d PDFs" % (info["NumMembers"], len(files), members)}
        allq, allx = [], []
        with EKO.read(tmp / "e.tar") as ek:
            for k, f in enumerate(files):
                txt = open(f).read().split("---\n")[1:]
                blocks = [b for b in txt if b.strip()]
                if len(blocks) != len(keys):
                    return {"detail": "%d blocks written for %d nf values" % (len(blocks), len(keys))}
                ref = apply.apply_pdf(ek, pdfs[k], None if not target else wx)[0]
                for b, nf in zip(blocks, keys):
                    lines = b.strip().split("\n")
                    bx = [float(v) for v in lines[0].split()]
                    bq = [float(v) for v in lines[1].split()]
                    bp = [int(v) for v in lines[2].split()]
                    allq += bq
                    allx += bx
                    if bp != PIDS or len(bx) != len(wx) or any(abs(a - b_) > 1e-6 * b_ for a, b_ in zip(bx, wx)):
                        return {"detail": "block nf=%d: written x grid %r pids %r, requested grid %r (operator grid %r)" % (nf, bx, bp, wx, xs)}
                    wq = sorted(by_nf[nf])
                    if len(bq) != len(wq) or any(abs(a - b_) > 1e-6 * b_ for a, b_ in zip(bq, wq)):
                        return {"detail": "block nf=%d: Q knots %r, expected %r" % (nf, bq, wq)}
                    rows = [[float(v) for v in ln.split()] for ln in lines[3:]]
                    for i, x in enumerate(wx):
                        for j, q in enumerate(wq):
                            ep = min((e for e in ref if e[1] == nf), key=lambda e: abs(e[0] - q * q))
                            for a, pid in enumerate(PIDS):
                                want = x * ref[ep][pid][i]
                                got = rows[i * len(wq) + j][a]
                                if abs(got - want) > 2e-8 * abs(want) + 1e-12:
                                    return {"detail": "member %d nf=%d x=%r Q=%r pid=%d: written %r, x*applied = %r" % (k, nf, x, q, pid, got, want)}
        if abs(info["QMin"] - min(allq)) > 1e-4 or abs(info["QMax"] - max(allq)) > 1e-4:
            return {"detail": "mugrid %r: info QMin=%r QMax=%r but the written Q knots span [%r, %r]" % (op.mugrid, info["QMin"], info["QMax"], min(allq), max(allq))}
        if abs(info["XMin"] - min(allx)) > 1e-6 * min(allx) or abs(info["XMax"] - max(allx)) > 1e-6 * max(allx):
            return {"detail": "info XMin=%r XMax=%r but the written x grid spans [%r, %r]" % (info["XMin"], info["XMax"], min(allx), max(allx))}
        if sorted(info["Flavors"]) != sorted(PIDS) or info["NumFlavors"] != max(nfs):
            return {"detail": "Flavors %r NumFlavors %r" % (info["Flavors"], info["NumFlavors"])}
        wantq = [q for nf in keys for q in sorted(by_nf[nf])]
        if len(info["AlphaS_Qs"]) != len(wantq) or any(abs(a - b_) > 1e-9 for a, b_ in zip(info["AlphaS_Qs"], wantq)):
            return {"detail": "AlphaS_Qs %r, written knots %r" % (info["AlphaS_Qs"], wantq)}
        return None
    finally:
        os.chdir(cwd)
        shutil.rmtree(tmp, ignore_errors=True)


def _bisect(f, lo, hi, n=200):
    flo = f(lo)
    for _ in range(n):
        mid = 0.5 * (lo + hi)
        fm = f(mid)
        if (fm > 0) == (flo > 0):
            lo, flo = mid, fm
        else:
            hi = mid
    return 0.5 * (lo + hi)


def replay_alphas(point, scheme, scvar, evm):
    """AlphaS_Vals of the real build_alphas vs the coupling object the evolution uses (commons.couplings); for MSBAR masses
    given at another scale, where msbar_masses.solve cannot run on this numpy, the evolution's masses are obtained by bisection
    on eko's own MSbar running kernel (m(m) = m)."""
    from eko import msbar_masses
    from eko.couplings import Couplings, couplings_mod_ev
    from eko.io.types import EvolutionMethod, ScaleVariationsMethod
    from eko.quantities.heavy_quarks import QuarkMassScheme
    from eko.runner import commons
    from ekobox import cards, info_file

    th = cards.example.theory()
    th.order = (2, 0)
    op = cards.example.operator()
    op.configs.evolution_method = EvolutionMethod(evm)
    op.configs.scvar_method = None if scvar is None else ScaleVariationsMethod(scvar)
    xif = getv(point, "xif", 2.0)
    rs = [getv(point, "r_" + q, d) for q, d in zip("cbt", (1.2, 0.9, 1.0))]
    if not (0.3 <= xif <= 3 and all(0.5 <= r <= 2 for r in rs)):
        return None
    th.xif = xif
    for q, r in zip("cbt", rs):
        setattr(th.heavy.matching_ratios, q, r)
    masses = {"c": 1.51, "b": 4.92, "t": 172.5}
    for q, v in masses.items():
        getattr(th.heavy.masses, q).value = v
    op.mugrid = [(1.2, 3), (1.6, 3), (2.5, 4), (4.0, 4), (4.6, 4), (6.0, 5), (30.0, 5), (200.0, 5)]
    if scheme == "POLE":
        th.heavy.masses_scheme = QuarkMassScheme.POLE
        sc = commons.couplings(th, op)
    else:
        th.heavy.masses_scheme = QuarkMassScheme.MSBAR
        for q, v in masses.items():
            getattr(th.heavy.masses, q).scale = v
        if scheme == "MSBAR-own-scale":
            sc = commons.couplings(th, op)
        else:
            # bottom mass given at 10 GeV: m_b(10 GeV) = 3.6 -> m_b(m_b) from the real running kernel
            th.heavy.masses.b.value = 3.6
            th.heavy.masses.b.scale = 10.0
            evmeth = couplings_mod_ev(op.configs.evolution_method)
            ratios2 = [r * r for r in rs]
            xif2 = xif**2

            def mk(ms):
                return Couplings(th.couplings, th.order, evmeth, ms, hqm_scheme=QuarkMassScheme.MSBAR, thresholds_ratios=[r * xif2 for r in ratios2])

            trial = mk([masses["c"] ** 2, rnp.inf, masses["t"] ** 2])  # what compute() hands to solve() for the bottom quark (nf_ref = 5)
            m2 = _bisect(lambda m2_: 3.6**2 * msbar_masses.ker_dispatcher(m2_, 100.0, trial, xif2, 5) ** 2 - m2_, 3.0, 60.0)
            ms = [masses["c"] ** 2, m2, masses["t"] ** 2]
            thr = [r * (xif2 if scvar == "exponentiated" else 1.0) for r in ratios2]
            sc = Couplings(th.couplings, th.order, evmeth, ms, hqm_scheme=QuarkMassScheme.MSBAR, thresholds_ratios=thr)
    al = info_file.build_alphas(th, op)
    by_nf = {}
    for mu, nf in op.mugrid:
        by_nf.setdefault(nf, []).append(mu)
    i = 0
    for nf in sorted(by_nf):
        for q in sorted(by_nf[nf]):
            ref = 4 * rnp.pi * sc.a_s(q * q, nf_to=nf)
            got = al["AlphaS_Vals"][i]
            if abs(got - ref) > 1e-7 * ref:
                return {"detail": "%s masses, scale variation %s, xif=%r, matching ratios %r: AlphaS_Vals at Q=%r (nf=%d) = %r but the coupling used by the evolution gives %r "
                        "(build_alphas thresholds^2 = %r, evolution thresholds^2 = %r)" % (scheme, scvar, xif, rs, q, nf, got, ref, "masses^2*ratios^2 without xif^2 / MSbar running", [float(w) for w in sc.atlas.walls[1:-1]])}
            i += 1
    return None


# ---------------------------------------------------------------------------
def main():
    chk = H.Check("C45", level="other")
    thorough = H.tier() == "thorough"
    chk.explanation = ("Partial claim: decided are the info-file / block logic of evolve_pdfs (which grids, ranges, members, flavours and alpha_s knots are written, "
                       "and with which arguments the alpha_s provider is built) by symbolic execution of the real functions on symbolic cards. Not decided: the %.8e/%.6e text "
                       "round trip of dump_blocks/load, YAML layout of the info file, LHAPDF parsing, the numerical alpha_s values themselves, QMin/QMax rounding to 4 digits.")
    chk.bounds = ["mugrid: 1-3 points over nf in {4,5} (quick: 6 listing patterns, thorough: all 14 of length <= 3), scales symbolic in (1, 10^4) GeV in arbitrary listing order, distinct within one nf; a scale shared by the nf=4 and nf=5 patches (allowed by LHAPDF) in dedicated cases, as one shared symbol",
                  "x grids: card grid 2 points, explicit target grid 2-3 points, symbolic increasing; 1-2 members; EKO evolution points = card evolution points (listing order shuffled)",
                  "alpha_s differential: masses, matching ratios, xif symbolic > 0 (masses increasing); schemes POLE, MSBAR with m(m) given, MSBAR with masses at another scale; "
                  "scale variation None / exponentiated / expanded; %s" % ("all 8 evolution methods" if thorough else "3 evolution methods")]
    chk.out_of_claim = ["text formatting and re-reading of data blocks (%.8e), YAML dump of the info file, LHAPDF itself", "round(.,4) of QMin/QMax and float() casts (stubbed as identity)",
                        "values of a_s (Couplings.a_s is uninterpreted; only the scales/nf it is asked at and the constructor arguments are compared)",
                        "the operators stored in the EKO archive (computed by managed.solve when no path is given); entries of the re-interpolation matrix (C34)"]
    chk.stubs = ["EKO.read -> in-memory EKO with symbolic operators (columns of the flavours 21, 1, 2 symbolic, the others zero), xgrid, evolgrid, items(), and consistent views of the initial scale: mu20 == operator_card.mu20 == operator_card.init[0]^2 == metadata.origin[0] with mu0 symbolic",
                 "ekobox.apply runs for real (shimmed) inside evolve_pdfs; InterpolatorDispatcher -> content-addressed symbolic matrix per (x nodes, degree, target nodes) as in C43",
                 "initial PDFs -> scale-dependent symbolic PDFs xf(pid, x_k, Q2) = F + G (Q2 - mu0^2), flavours 21, 1, 2, -3 present (later members lack one)",
                 "genpdf.export.dump_set -> recorder (what would be written)", "Couplings -> recorder of constructor arguments, a_s uninterpreted",
                 "msbar_masses.compute (masses given away from their own scale) -> three uninterpreted squared masses; with m(m) given the real function runs",
                 "float / round in info_file -> identity on symbols"]
    chk.assumptions = ["the EKO read by evolve_pdfs was computed from the same operator card (its evolution points are the card's)"]
    pats = [p for n in (1, 2, 3) for p in itertools.product((4, 5), repeat=n)]
    if not thorough:
        pats = [(4,), (5, 5), (5, 4), (4, 5, 4), (5, 5, 4), (4, 4, 5)]
    for p in pats:
        chk.case("build.%s" % "".join(map(str, p)), case_build, nfs=list(p))
    ev = [((5, 4, 4), None, True, 2, None), ((4, 5), None, False, 1, None), ((5, 4), 2, True, 1, None), ((4, 4), 3, False, 2, None),
          ((4, 5), None, False, 1, {1: 0}), ((4, 4, 5), None, True, 1, {2: 1})]  # the last two: one scale shared by the nf=4 and nf=5 patches
    if thorough:
        ev += [((4, 5, 4), None, True, 1, None), ((5, 5, 4), 2, False, 2, None), ((5,), None, False, 1, None), ((4, 5, 5), 3, True, 1, None),
               ((5, 4, 4), 2, True, 2, {0: 2}), ((4, 5, 5), None, False, 1, {1: 0}), ((5, 4), 3, True, 1, {0: 1})]
    for p, tg, sh, mem, al in ev:
        chk.case("evolve.%s.%s.m%d%s" % ("".join(map(str, p)), "t%d" % tg if tg else "cardgrid", mem, ".shared%s" % "".join("%d%d" % kv for kv in al.items()) if al else ""),
                 case_evolve, nfs=list(p), target=tg, shuffle=sh, members=mem, alias=al)
    rts = [([(2, 1, 14), (3, 2, 14)], 0), ([(2, 2, 3), (2, 1, 5), (2, 1, 14)], 1), ([(3, 2, 14)], 0)]
    if thorough:
        rts += [([(3, 1, 14), (2, 2, 14), (4, 1, 2)], 2), ([(2, 1, 14), (2, 1, 14)], 0)]
    for sh, mem in rts:
        chk.case("roundtrip.%s.m%d" % ("_".join("%dx%dx%d" % t for t in sh), mem), case_roundtrip, shapes=sh, member=mem)
    if thorough:
        chk.case("evolve.54.t3.m1.nx3", case_evolve, nfs=[5, 4], target=3, shuffle=False, members=1, alias=None, nx=3)
    evm = ["iterate-exact", "truncated", "perturbative-expanded"]
    if thorough:
        evm = ["iterate-exact", "iterate-expanded", "perturbative-exact", "perturbative-expanded", "truncated", "ordered-truncated", "decompose-exact", "decompose-expanded"]
    for scheme in ("POLE", "MSBAR-own-scale", "MSBAR-running"):
        for scvar in (None, "exponentiated", "expanded"):
            chk.case("alphas.%s.%s" % (scheme, scvar), case_alphas, scheme=scheme, scvar=scvar, evmeths=evm)
    import ekobox.evol_pdf  # noqa: F401  imported before the workers fork
    import ekobox.info_file  # noqa: F401

    try:
        return chk.run()
    finally:
        cleanup_markers()


if __name__ == "__main__":
    import sys

    sys.exit(main())
