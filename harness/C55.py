"""C55  Settings that do not apply to a configuration do not change its result (non-interference).

Each obligation compares two symbolic executions of the REAL code that differ only in one "irrelevant" setting.  Where the
setting can be made symbolic it is: iteration count, expansion order and N3LO variation entries are z3 integers, the
parametrisation choice and the alpha_em-running flag z3 Booleans, the inversion method an opaque token.  The numeric inputs
(Mellin N, couplings, scales, L_sv, every anomalous dimension / matrix element) are symbolic in both executions and shared.
  * outputs must be identical (prove_zero on the difference; kernels and per-order ekore functions are *uninterpreted
    functions of their arguments*, so a setting that reaches one of them changes the output symbol);
  * a branch on the setting forks the path (both executions are compared on every feasible combination);
  * an attempt to convert / iterate over / index with the symbolic setting (SymbolicEscape, TypeError on the token) is a
    dependency: it is examined with pairs of concrete values (outputs compared symbolically again).

Sites
  A  quad_ker_ad -> quad_ker_qcd -> singlet / non-singlet dispatcher: ev_op_iterations for methods that do not iterate,
     ev_op_max_order for non-perturbative methods, N3LO variation tuple + use_fhmruvv below N3LO (through the real
     ekore entry points gamma_ns / gamma_singlet), alphaem_running + a_half + mu2 without QED
  B  quad_ker_ad -> quad_ker_qed (iterate-exact): ev_op_max_order; N3LO variation + use_fhmruvv below N3LO
     (gamma_ns_qed, gamma_singlet_qed, gamma_valence_qed)
  C  Couplings.compute with QED order 0: em_running True vs False, expanded and exact method
  D  OperatorMatrixElement.__init__ / quad_ker / quad_ker_ome / build_ome: inversion method for forward matching
  E  Operator.compute_aem_list + Operator.quad_ker with QED order 0: iteration count (shape of an unused array)
  F  runner.parts._evolve_configs / _matching_configs: every card field lands under its own config key, untouched
  G  runner.parts.match: for every combination of (recipe.inverse, matching scale below / above the initial scale, heavy
     quark, mass scheme) with symbolic scales the direction handed to OperatorMatrixElement is the recipe's flag; with
     inverse=False two runs differing in inversion_method hand identical arguments to the operator computation
"""
import hashlib
import importlib
from fractions import Fraction

import z3

from .common import *  # noqa
from symx.solver import explore, prove_zero, prove_formula, ZInt, ZBool, assume_z3
from symx import harness as H
import numpy as realnp

MOD = "harness.C55"
METHODS = ["ITERATE_EXACT", "ITERATE_EXPANDED", "PERTURBATIVE_EXACT", "PERTURBATIVE_EXPANDED", "TRUNCATED", "ORDERED_TRUNCATED",
           "DECOMPOSE_EXACT", "DECOMPOSE_EXPANDED"]
SVS = ["unvaried", "exponentiated", "expanded"]


class Dependency(Exception):
    """the code tried to use an opaque setting token"""


class Token:
    """opaque stand-in for a setting value (an enum member, None, ...): any use is a dependency"""

    def __init__(self, name):
        object.__setattr__(self, "_name", name)

    def __getattr__(self, a):
        raise Dependency("attribute %r of the setting %s read" % (a, self._name))

    def __bool__(self):
        raise Dependency("truth value of the setting %s taken" % self._name)

    def __eq__(self, o):
        raise Dependency("setting %s compared" % self._name)

    __hash__ = object.__hash__

    def __repr__(self):
        return "Token(%s)" % self._name


# ---------------------------------------------------------------------------
# uninterpreted functions: value symbols named after (function, canonical arguments)
# ---------------------------------------------------------------------------
def canon(x):
    if isinstance(x, SR):
        c = x.v.canon() if hasattr(x.v, "canon") else x.v
        return "SR(%r)" % (c,)
    if isinstance(x, Cx):
        return "Cx(%s,%s)" % (canon(x.re), canon(x.im))
    if isinstance(x, realnp.ndarray):
        if x.dtype != object:
            return "nd%r" % (x.shape,)  # numeric work arrays (harmonics cache): content irrelevant
        return "[" + ",".join(canon(e) for e in x.flat) + "]%r" % (x.shape,)
    if isinstance(x, (list, tuple)):
        return "(" + ",".join(canon(e) for e in x) + ")"
    if isinstance(x, (ZInt, ZBool)):
        return "Z(%s)" % x.e
    if isinstance(x, float):
        return repr(Fraction(x))
    return repr(x)


def uf(name, args, shape, real=False):
    h = hashlib.sha1((name + "|" + canon(args)).encode()).hexdigest()[:12]

    def one(i):
        if real:
            return SR.var("u%s_%d" % (h, i))
        return Cx(SR.var("u%s_%dr" % (h, i)), SR.var("u%s_%di" % (h, i)))

    if not shape:
        return one(0)
    a = realnp.empty(shape, dtype=object)
    for i, idx in enumerate(realnp.ndindex(shape)):
        a[idx] = one(i)
    return a


def _leaf_shape(modname, name):
    if name.startswith("A_"):
        return (3, 3) if "singlet" in name and "non" not in name else (2, 2)
    qed_mod = modname in ("aem1", "as1aem1", "aem2")
    if name.endswith("singlet_qed") or (qed_mod and name == "gamma_singlet"):
        return (4, 4)
    if name.endswith("valence_qed") or (qed_mod and name == "gamma_valence"):
        return (2, 2)
    if name == "gamma_singlet":
        return (2, 2)
    return ()


class Leaves:
    """per-order ekore module -> uninterpreted functions of the arguments they are given"""

    def __init__(self, real, path):
        self._real, self._path = real, path

    def __getattr__(self, name):
        real = getattr(self._real, name)
        if not callable(real):
            return Leaves(real, self._path + "." + name)
        modname = self._path.split(".")[-1]
        shape = _leaf_shape(modname if modname != "fhmruvv" else "as4", name)
        path = self._path

        def leaf(*args, **kw):
            return uf(path + "." + name, (args, sorted(kw.items())), shape, real=True)

        return leaf


def _kernel(name, shape):
    def stub(*args):
        return uf(name, args, shape)

    stub.__name__ = name
    return stub


_ENV = {}


def env():
    if _ENV:
        return _ENV
    qk = sym_module("eko.evolution_operator.quad_ker")
    ns = sym_module("eko.kernels.non_singlet")
    sg = sym_module("eko.kernels.singlet")
    qns = sym_module("eko.kernels.non_singlet_qed")
    qs = sym_module("eko.kernels.singlet_qed")
    qv = sym_module("eko.kernels.valence_qed")
    sym_module("eko.scale_variations.exponentiated")
    sym_module("eko.scale_variations.expanded")
    mods = {}
    for key, name in (("ad_us", "ekore.anomalous_dimensions.unpolarized.space_like"), ("ad_ut", "ekore.anomalous_dimensions.unpolarized.time_like"),
                      ("ad_ps", "ekore.anomalous_dimensions.polarized.space_like"), ("ome_us", "ekore.operator_matrix_elements.unpolarized.space_like"),
                      ("ome_ut", "ekore.operator_matrix_elements.unpolarized.time_like"), ("ome_ps", "ekore.operator_matrix_elements.polarized.space_like")):
        m = sym_module(name)
        for sub in ("as1", "as2", "as3", "as4", "aem1", "aem2", "as1aem1"):
            if hasattr(m, sub):
                setattr(m, sub, Leaves(getattr(m, sub), key + "." + sub))
        mods[key] = m
    for name in ("lo_exact", "nlo_exact", "nlo_expanded", "nnlo_exact", "nnlo_expanded", "n3lo_exact", "n3lo_expanded", "eko_ordered_truncated", "eko_truncated"):
        setattr(ns, name, _kernel("non_singlet." + name, ()))
    for name in ("lo_exact", "nlo_decompose_exact", "nlo_decompose_expanded", "nnlo_decompose_exact", "nnlo_decompose_expanded", "n3lo_decompose_exact",
                 "n3lo_decompose_expanded", "eko_iterate", "eko_perturbative", "eko_truncated"):
        setattr(sg, name, _kernel("singlet." + name, (2, 2)))
    # QED kernels: the whole iterated solution is an uninterpreted function of its arguments (it legitimately takes the iteration count)
    qs.eko_iterate = _kernel("singlet_qed.eko_iterate[4]", (4, 4))
    qv.eko_iterate = _kernel("singlet_qed.eko_iterate[2]", (2, 2))
    qns.exact = _kernel("non_singlet_qed.exact", ())

    class KerBase(qk.QuadKerBase):
        @property
        def n(self):
            return Cx(SR.var("N_re"), SR.var("N_im"))

        def integrand(self, areas):
            x = SR.var("integrand")
            assume(x, "!=0")
            return x

    qk.QuadKerBase = KerBase
    _ENV.update(qk=qk, ns=ns, sg=sg, qns=qns, qs=qs, qv=qv, **mods)
    return _ENV


def encoded(log):
    e = env()
    qk = e["qk"]
    log.encode(qk.quad_ker_ad, qk.quad_ker_qcd, qk.quad_ker_qed, qk.quad_ker_ome, qk.build_ome, e["ns"].dispatcher, e["sg"].dispatcher,
               e["qns"].dispatcher, e["qs"].dispatcher, e["qv"].dispatcher, e["ad_us"].gamma_ns, e["ad_us"].gamma_singlet, e["ad_us"].gamma_ns_qed,
               e["ad_us"].gamma_singlet_qed, e["ad_us"].gamma_valence_qed, e["ome_us"].A_singlet, e["ome_us"].A_non_singlet)


# ---------------------------------------------------------------------------
# which settings are irrelevant where (the oracle: eko documentation of the operator card)
# ---------------------------------------------------------------------------
def irrelevant_settings(cfg, label):
    """subset of {it, mo, var, fhm, em} that the documentation ties to other configurations than cfg (for this label's sector)"""
    o = cfg["order"]
    out = set()
    if o[1] == 0:
        singlet = label[0] in (100, 21)
        iterates = singlet and o[0] > 1 and cfg["method"] in ("ITERATE_EXACT", "ITERATE_EXPANDED", "PERTURBATIVE_EXACT", "PERTURBATIVE_EXPANDED")
        perturbative = singlet and o[0] > 1 and cfg["method"] in ("PERTURBATIVE_EXACT", "PERTURBATIVE_EXPANDED")
        if not iterates:
            out.add("it")  # ev_op_iterations: only iterate-* and perturbative-* solve in steps (LO and non-singlet are closed forms)
        if not perturbative:
            out.add("mo")  # ev_op_max_order: order of the U expansion of perturbative-*
        out.add("em")  # alphaem_running (and the alpha_em lists) without QED
    else:
        out.add("mo")  # QED: only iterate-exact exists, no U expansion
    if o[0] < 4 or cfg.get("pol") or cfg.get("tl"):
        out |= {"var", "fhm"}  # N3LO variation / parametrisation choice below N3LO (and where no N3LO exists)
    return out


class Settings:
    """one assignment of the settings: tainted ones symbolic (suffix distinguishes the two executions)"""

    def __init__(self, cfg, taint, tag, concrete=None):
        c = dict(it=2, mo=(10, 0), var=(0, 0, 0, 0, 0, 0, 0), fhm=True, em=True)
        c.update(concrete or {})
        self.sym = {}
        if "it" in taint:
            c["it"] = ZInt("it_" + tag)
            assume_z3(c["it"] >= 1)
        if "mo" in taint:
            m = ZInt("mo_" + tag)
            assume_z3(m >= 1)
            c["mo"] = (m, 0)
        if "var" in taint:
            c["var"] = tuple(ZInt("var%d_%s" % (i, tag)) for i in range(7))
        if "fhm" in taint:
            c["fhm"] = ZBool(z3.Bool("fhm_" + tag))
        if "em" in taint:
            c["em"] = ZBool(z3.Bool("em_" + tag))
        self.c = c


def _sym_inputs(tag=""):
    n = 3
    as_list = realnp.empty(n, dtype=object)
    for i in range(n):
        as_list[i] = SR.var("as%d" % i)
        assume(as_list[i], ">0")
    a_half = realnp.empty((n - 1, 2), dtype=object)
    for i in range(n - 1):
        for j in range(2):
            a_half[i, j] = SR.var("ah%d_%d%s" % (i, j, tag))
    return as_list, a_half


def _call_ad(cfg, label, st, em_inputs_tag=""):
    e = env()
    qk = e["qk"]
    from eko.kernels import EvoMethods
    from eko.scale_variations import Modes

    as_list, a_half = _sym_inputs(em_inputs_tag)
    m0, m1 = SR.var("mu_from" + em_inputs_tag), SR.var("mu_to" + em_inputs_tag)
    if cfg["order"][1] > 0:
        assume(m0, ">0")
        assume(m1, ">0")
    c = st.c
    return qk.quad_ker_ad(
        u=SR.var("u"), order=tuple(cfg["order"]), mode0=label[0], mode1=label[1], ev_method=EvoMethods[cfg["method"]], is_log=True, logx=SR.var("logx"),
        areas=None, as_list=as_list, mu2_from=m0 * m0, mu2_to=m1 * m1, a_half=a_half, alphaem_running=c["em"], nf=SR(cfg["nf"]), Lsv=SR.var("Lsv"),
        ev_op_iterations=c["it"], ev_op_max_order=c["mo"], sv_mode=Modes[cfg["sv"]], is_threshold=cfg["thr"], n3lo_ad_variation=c["var"],
        is_polarized=cfg.get("pol", False), is_time_like=cfg.get("tl", False), use_fhmruvv=c["fhm"])


def _guard(call):
    """('value', x) | ('raised', 'Type: msg') | ('dependency', msg)"""
    try:
        return "value", call()
    except (SymbolicEscape, Dependency) as e:
        return "dependency", "%s: %s" % (type(e).__name__, e)
    except (EngineError, S.PathBudgetExceeded):
        raise
    except (NotImplementedError, ValueError) as e:
        return "raised", "%s: %s" % (type(e).__name__, e)
    except TypeError as e:
        # arithmetic / indexing with a z3-valued setting that the engine's value classes do not accept
        if any(k in str(e) for k in ("ZInt", "ZBool", "ArithRef", "BoolRef", "Token")):
            return "dependency", "TypeError: %s" % e
        return "raised", "TypeError: %s" % e
    except z3.Z3Exception as e:
        return "dependency", "z3: %s" % e


def _same(log, a, b, what, key, rp, decide):
    """two guarded outcomes agree: both values and identical, or both raise the same error"""
    (ka, xa), (kb, xb) = a, b
    if ka == "raised" and kb == "raised":
        v = prove_formula(z3.BoolVal(xa.split(":")[0] == xb.split(":")[0]), what + " (both executions refuse: %s)" % xa[:80])
        return decide(v, key, rp)
    if ka != "value" or kb != "value":
        v = prove_formula(z3.BoolVal(False), what + " (one execution ends in %s, the other in %s)" % (xa if ka != "value" else "a value", xb if kb != "value" else "a value"))
        return decide(v, key, rp)
    d = Cx.lift(xa) - Cx.lift(xb) if not isinstance(xa, realnp.ndarray) else None
    if d is not None:
        return decide(prove_zero(d, what), key, rp)
    ok = True
    if xa.shape != xb.shape:
        return decide(prove_formula(z3.BoolVal(False), what + " (shapes %r vs %r)" % (xa.shape, xb.shape)), key, rp)
    for idx in realnp.ndindex(xa.shape):
        ok = decide(prove_zero(Cx.lift(xa[idx]) - Cx.lift(xb[idx]), "%s%s" % (what, list(idx))), key, rp) and ok
    return ok


class Decider:
    """one replay per key and case; further failing obligations of the key are recorded only"""

    def __init__(self, log):
        self.log = log

    def __call__(self, v, key, rp):
        log = self.log
        if v.holds:
            log.ok(v)
            return True
        if any(x["key"] == key for x in log.violations):
            log.obligations.append({"case": log.case, "what": v.what, "status": v.status, "time_s": round(v.time, 4), "residual_terms": v.nterms})
            return False
        return log.decide(v, key=key, replay=rp, candidates=[{}], sampler=None)


PAIRS = {"it": (1, 7), "mo": ((2, 0), (10, 0)), "var": ((0,) * 7, (1, 2, 3, 1, 2, 3, 1)), "fhm": (True, False), "em": (True, False)}


def check_site_AB(log, cfg, label, decide):
    """both executions inside one path exploration; symbolic settings first, concrete pairs if the code tries to use them"""
    taint = irrelevant_settings(cfg, label)
    tag = ",".join("%s=%s" % (k, cfg[k]) for k in sorted(cfg))
    fn = "quad_ker_ad"
    for s in sorted(taint):
        key = "%s:%s" % (fn, {"it": "ev_op_iterations", "mo": "ev_op_max_order", "var": "n3lo_ad_variation", "fhm": "use_fhmruvv", "em": "alphaem_running"}[s])
        rp = (MOD, "replay_AB", {"cfg": cfg, "label": list(label), "setting": s})
        what = "%s %s label %s: result independent of %s" % (fn, tag, label, key.split(":")[1])
        state = {}

        def run():
            sa, sb = Settings(cfg, {s}, "A"), Settings(cfg, {s}, "B")
            a = _guard(lambda: _call_ad(cfg, label, sa, "A" if s == "em" else ""))
            b = _guard(lambda: _call_ad(cfg, label, sb, "B" if s == "em" else ""))
            if a[0] == "dependency" or b[0] == "dependency":
                state["dep"] = a[1] if a[0] == "dependency" else b[1]
                return
            _same(log, a, b, what + " (symbolic setting)", key, rp, decide)

        _r, pm = explore(run, max_paths=64)
        log.path_stats(pm)
        if "dep" in state:
            # the code reads the setting: examine with concrete pairs (finite sample of the setting, symbolic numeric inputs)
            log.notes.append("%s: symbolic %s is used by the code (%s) -> compared on concrete pairs %r" % (what, s, state["dep"][:160], PAIRS[s]))
            va, vb = PAIRS[s]

            def run2():
                sa, sb = Settings(cfg, set(), "A", {s: va}), Settings(cfg, set(), "B", {s: vb})
                a = _guard(lambda: _call_ad(cfg, label, sa, "A" if s == "em" else ""))
                b = _guard(lambda: _call_ad(cfg, label, sb, "B" if s == "em" else ""))
                _same(log, a, b, what + " (values %r vs %r)" % (va, vb), key, rp, decide)

            _r, pm = explore(run2, max_paths=64)
            log.path_stats(pm)


def evolution_labels(order):
    from eko.evolution_operator import Operator

    op = Operator.__new__(Operator)
    op.order = tuple(order)
    op.config = {"debug_skip_singlet": False, "debug_skip_non_singlet": False}
    return list(op.labels)


def case_AB(log, cfgs, quick):
    encoded(log)
    decide = Decider(log)
    for cfg in cfgs:
        labels = evolution_labels(cfg["order"])
        if cfg["order"][1] > 0:
            keep = {(21, 21), (100, 101), (10200, 10204)} if quick else {(21, 21), (22, 101), (100, 22), (101, 100), (10200, 10204), (10204, 10200)}
            labels = [l for l in labels if l[0] not in (21, 22, 100, 101, 10200, 10204) or l in keep]
        else:
            labels = [l for l in labels if l not in ((100, 21), (21, 100))] if quick else labels
        for label in labels:
            check_site_AB(log, cfg, label, decide)
    ctx.reset()
    x = SR.var("as0")
    assume(x, ">0")
    log.twin("domain")


# ---------------------------------------------------------------------------
# C  Couplings.compute, QED order 0, em_running on / off
# ---------------------------------------------------------------------------
class SymArr(realnp.ndarray):
    def astype(self, dtype, *a, **k):
        return self.copy()


class NoCache(dict):
    """Couplings.cache switched off: its key does not contain the flag (constant per object), and symbolic keys do not hash"""

    def __getitem__(self, k):
        raise KeyError(k)

    def __setitem__(self, k, v):
        pass


class _Scipy:
    """scipy.integrate.solve_ivp as an uninterpreted function of (interval, initial value, extra args, method, rtol)"""

    class integrate:
        @staticmethod
        def solve_ivp(fun, t_span, y0, args=(), method=None, rtol=None, **kw):
            n = len(y0)
            out = uf("solve_ivp", (t_span, list(y0), args, method, rtol, sorted(kw.items())), (n,), real=True)

            class R:
                y = [[out[i]] for i in range(n)]

            return R


def case_couplings(log, orders=(1, 2, 3, 4), nfs=(3, 4, 5, 6)):
    cpl = sym_module("eko.couplings")
    cpl.float = lambda x: x if isinstance(x, (SR, Cx)) else float(x)
    cpl.scipy = _Scipy
    log.encode(cpl.Couplings.compute, cpl.Couplings.compute_exact_alphaem_running, cpl.Couplings.compute_exact_fixed_alphaem,
               cpl.Couplings.unidimensional_exact, cpl.couplings_expanded_alphaem_running, cpl.couplings_expanded_fixed_alphaem,
               cpl.expanded_qcd, cpl.expanded_qed)
    decide = Decider(log)
    for method in ("expanded", "exact"):
        for o in orders:
            for nf in nfs:
                def run():
                    def compute(flag):
                        sc = cpl.Couplings.__new__(cpl.Couplings)
                        sc.order, sc.method, sc.alphaem_running, sc.decoupled_running, sc.cache = (o, 0), method, flag, False, NoCache()
                        a_ref = realnp.empty(2, dtype=object).view(SymArr)
                        a_ref[0], a_ref[1] = SR.var("as_ref"), SR.var("aem_ref")
                        m0, m1 = SR.var("mu_from"), SR.var("mu_to")
                        return sc.compute(a_ref, SR(nf), SR(3), m0 * m0, m1 * m1)

                    for v in ("as_ref", "aem_ref", "mu_from", "mu_to"):
                        assume(SR.var(v), ">0")
                    what = "Couplings.compute order (%d,0) method %s nf %d: em_running on/off gives the same couplings" % (o, method, nf)
                    rp = (MOD, "replay_couplings", {"order": o, "method": method, "nf": nf})
                    # the flag as a symbolic Boolean in both executions: every feasible combination of branches is compared
                    fa, fb = ZBool(z3.Bool("em_A")), ZBool(z3.Bool("em_B"))
                    a = _guard(lambda: compute(fa))
                    b = _guard(lambda: compute(fb))
                    _same(log, a, b, what, "Couplings.compute:em_running", rp, decide)

                _r, pm = explore(run, max_paths=16)
                log.path_stats(pm)
    ctx.reset()
    assume(SR.var("as_ref"), ">0")
    log.twin("domain")
    log.assume("Couplings.cache bypassed; scipy.integrate.solve_ivp an uninterpreted function of its arguments; float() the identity on symbols")


# ---------------------------------------------------------------------------
# D  forward matching does not read the inversion method
# ---------------------------------------------------------------------------
class _Cfg(dict):
    def __init__(self, d, reads):
        dict.__init__(self, d)
        self._reads = reads

    def __getitem__(self, k):
        self._reads.append(k)
        return dict.__getitem__(self, k)


def case_matching(log, quick):
    e = env()
    encoded(log)
    qk = e["qk"]
    om = sym_module("eko.evolution_operator.operator_matrix_element")
    evo = importlib.import_module("eko.evolution_operator")
    from eko.scale_variations import Modes
    from eko.io.types import ScaleVariationsMethod

    log.encode(om.OperatorMatrixElement.__init__, om.OperatorMatrixElement.quad_ker, om.matching_method, evo.Operator.__init__)
    decide = Decider(log)

    class Cpl:
        alphaem_running = False

        def a_s(self, scale, nf_to=None):
            return uf("couplings.a_s", (scale, nf_to), (), real=True)

    class Interp:
        log = True

    def build(inv, k, sv, reads):
        cfg = _Cfg(dict(order=(k + 1, 0), matching_order=(k, 0), xif2=SR.var("xif2"), ModSV=sv, polarized=False, time_like=False,
                        backward_inversion=inv, debug_skip_singlet=False, debug_skip_non_singlet=False), reads)
        man = evo.Managers(atlas=None, couplings=Cpl(), interpolator=Interp())
        q = SR.var("q")
        return om.OperatorMatrixElement(cfg, man, 4, q * q, False, SR.var("L"), True)

    om.np = shim.SymNumpy()
    labels = None
    for k in (1, 2, 3):
        for sv in (None, ScaleVariationsMethod.EXPONENTIATED, ScaleVariationsMethod.EXPANDED):
            def run():
                assume(SR.var("xif2"), ">0")
                assume(SR.var("q"), ">0")
                ra, rb = [], []
                A = _guard(lambda: build(Token("inversion_A"), k, sv, ra))
                B = _guard(lambda: build(Token("inversion_B"), k, sv, rb))
                tag = "matching order (%d,0) sv %s" % (k, sv.value if sv else None)
                rp = (MOD, "replay_matching", {"k": k, "sv": sv.value if sv else None})
                key = "OperatorMatrixElement:backward_inversion"
                if A[0] != "value" or B[0] != "value":
                    v = prove_formula(z3.BoolVal(False), "forward OperatorMatrixElement %s builds without touching the inversion method (%s)" % (tag, A[1] if A[0] != "value" else B[1]))
                    decide(v, key, rp)
                    return
                v = prove_formula(z3.BoolVal("backward_inversion" not in ra + rb and A[1].backward_method is qk.MatchingMethods.FORWARD
                                             and B[1].backward_method is qk.MatchingMethods.FORWARD),
                                  "forward OperatorMatrixElement %s: config['backward_inversion'] never read, method FORWARD" % tag)
                decide(v, key, rp)
                labs = A[1].labels if not quick else [(200, 200), (100, 21), (90, 100), (21, 90)]
                for lab in labs:
                    pa = A[1].quad_ker(lab, SR.var("logx"), None)
                    pb = B[1].quad_ker(lab, SR.var("logx"), None)
                    a = _guard(lambda: pa(SR.var("u")))
                    b = _guard(lambda: pb(SR.var("u")))
                    _same(log, a, b, "forward quad_ker_ome %s label %s: identical for two inversion-method tokens" % (tag, lab), key, rp, decide)

            _r, pm = explore(run, max_paths=16)
            log.path_stats(pm)
    ctx.reset()
    assume(SR.var("q"), ">0")
    log.twin("domain")


# ---------------------------------------------------------------------------
# E  Operator plumbing without QED: the iteration count only shapes an unused array
# ---------------------------------------------------------------------------
def case_operator(log, quick):
    e = env()
    encoded(log)
    evo = sym_module("eko.evolution_operator")
    from eko.matchings import Segment

    log.encode(evo.Operator.__init__, evo.Operator.compute_aem_list, evo.Operator.compute_a, evo.Operator.quad_ker, evo.Operator.mu2)
    decide = Decider(log)

    class Cpl:
        def __init__(self, em):
            self.alphaem_running = em

        def a(self, scale, nf_to=None):
            return uf("couplings.a", (scale, nf_to), (2,), real=True)

        def a_s(self, scale_to, nf_to=None):
            return self.a(scale_to, nf_to)[0]

    class Interp:
        log = True

    def build(it, mo, em, cfg):
        c = dict(order=tuple(cfg["order"]), xif2=SR.var("xif2"), method=cfg["method"].lower().replace("_", "-"), ev_op_iterations=it, ev_op_max_order=mo,
                 polarized=False, time_like=False, debug_skip_singlet=False, debug_skip_non_singlet=False, n_integration_cores=1,
                 ModSV=cfg["svm"], n3lo_ad_variation=(0,) * 7, use_fhmruvv=True, matching_order=(cfg["order"][0] - 1, 0))
        man = evo.Managers(atlas=None, couplings=Cpl(em), interpolator=Interp())
        q0, q1 = SR.var("q_from"), SR.var("q_to")
        return evo.Operator(c, man, Segment(q0 * q0, q1 * q1, 4), is_threshold=cfg["thr"])

    from eko.io.types import ScaleVariationsMethod

    cfgs = []
    for o in (1, 2, 3, 4):
        for m in ("TRUNCATED", "DECOMPOSE_EXACT", "ORDERED_TRUNCATED", "DECOMPOSE_EXPANDED") + (("ITERATE_EXACT",) if o == 1 else ()):
            for svm in (None, ScaleVariationsMethod.EXPONENTIATED, ScaleVariationsMethod.EXPANDED):
                for thr in (False, True):
                    cfgs.append(dict(order=(o, 0), method=m, svm=svm, thr=thr))
    if quick:
        cfgs = cfgs[::5]
    for cfg in cfgs:
        tag = "order %s %s sv %s thr %s" % (cfg["order"], cfg["method"], cfg["svm"].value if cfg["svm"] else None, cfg["thr"])
        for setting, (va, vb) in (("ev_op_iterations", ((1, (10, 0), True), (7, (10, 0), True))), ("ev_op_max_order", ((2, (2, 0), True), (2, (10, 0), True))),
                                  ("alphaem_running", ((2, (10, 0), True), (2, (10, 0), False)))):
            labels = [(10101, 0), (100, 100), (21, 100)] if quick else evolution_labels(cfg["order"])

            def run():
                for v in ("xif2", "q_from", "q_to"):
                    assume(SR.var(v), ">0")
                A = _guard(lambda: build(*va, cfg))
                B = _guard(lambda: build(*vb, cfg))
                key = "Operator:%s" % setting
                rp = (MOD, "replay_operator", {"order": list(cfg["order"]), "method": cfg["method"], "sv": cfg["svm"].value if cfg["svm"] else None, "thr": cfg["thr"], "setting": setting})
                if A[0] != "value" or B[0] != "value":
                    decide(prove_formula(z3.BoolVal(False), "Operator %s builds for both values of %s (%s)" % (tag, setting, A[1] if A[0] != "value" else B[1])), key, rp)
                    return
                for lab in labels:
                    pa = A[1].quad_ker(lab, SR.var("logx"), None)
                    pb = B[1].quad_ker(lab, SR.var("logx"), None)
                    a = _guard(lambda: pa(SR.var("u")))
                    b = _guard(lambda: pb(SR.var("u")))
                    _same(log, a, b, "Operator(%s).quad_ker label %s: identical for %s = %r / %r" % (tag, lab, setting, va, vb), key, rp, decide)

            _r, pm = explore(run, max_paths=32)
            log.path_stats(pm)
    ctx.reset()
    assume(SR.var("q_from"), ">0")
    log.twin("domain")


# ---------------------------------------------------------------------------
# F  cards -> config dictionaries: every setting lands under its own key (tokens travel untouched)
# ---------------------------------------------------------------------------
PLUMBING = {"order": ("t", "order"), "method": None, "xif2": None, "ev_op_iterations": ("o.configs", "ev_op_iterations"), "ev_op_max_order": ("o.configs", "ev_op_max_order"),
            "polarized": ("o.configs", "polarized"), "time_like": ("o.configs", "time_like"), "debug_skip_singlet": ("o.debug", "skip_singlet"),
            "debug_skip_non_singlet": ("o.debug", "skip_non_singlet"), "n_integration_cores": ("o.configs", "n_integration_cores"), "ModSV": ("o.configs", "scvar_method"),
            "n3lo_ad_variation": ("t", "n3lo_ad_variation"), "use_fhmruvv": ("t", "use_fhmruvv"), "matching_order": ("t", "matching_order"),
            "backward_inversion": ("o.configs", "inversion_method")}


def _fake_eko(xif):
    import types
    from eko.io.types import EvolutionMethod

    t = types.SimpleNamespace(order=Token("order"), xif=xif, n3lo_ad_variation=Token("n3lo_ad_variation"), use_fhmruvv=Token("use_fhmruvv"), matching_order=Token("matching_order"))
    cfgs = types.SimpleNamespace(evolution_method=EvolutionMethod.TRUNCATED, ev_op_iterations=Token("ev_op_iterations"), ev_op_max_order=Token("ev_op_max_order"),
                                 polarized=Token("polarized"), time_like=Token("time_like"), n_integration_cores=Token("n_integration_cores"),
                                 scvar_method=Token("scvar_method"), inversion_method=Token("inversion_method"))
    o = types.SimpleNamespace(configs=cfgs, debug=types.SimpleNamespace(skip_singlet=Token("skip_singlet"), skip_non_singlet=Token("skip_non_singlet")))
    return types.SimpleNamespace(theory_card=t, operator_card=o), {"t": t, "o.configs": cfgs, "o.debug": o.debug}


def case_plumbing(log):
    parts = importlib.import_module("eko.runner.parts")
    log.encode(parts._evolve_configs, parts._matching_configs)
    decide = Decider(log)

    def run():
        xif = SR.var("xif")
        assume(xif, ">0")
        eko, src = _fake_eko(xif)
        for fn, keys in ((parts._evolve_configs, [k for k in PLUMBING if k != "backward_inversion"]), (parts._matching_configs, list(PLUMBING))):
            out = _guard(lambda: fn(eko))
            rp = (MOD, "replay_plumbing", {"fn": fn.__name__})
            key = "parts.%s" % fn.__name__
            if out[0] != "value":
                decide(prove_formula(z3.BoolVal(False), "%s copies the card fields without using them (%s)" % (fn.__name__, out[1])), key, rp)
                continue
            d = out[1]
            wrong = [k for k in keys if PLUMBING[k] is not None and d.get(k) is not getattr(src[PLUMBING[k][0]], PLUMBING[k][1])]
            extra = sorted(set(d) - set(keys))
            ok = not wrong and not extra and d.get("method") == "truncated"
            decide(prove_formula(z3.BoolVal(ok), "%s: every setting lands under its own key%s" % (fn.__name__, "" if ok else " -- misplaced %r, unexpected keys %r" % (wrong, extra))), key, rp)
            decide(prove_zero(d["xif2"] - xif * xif, "%s: xif2 == xif^2" % fn.__name__), key, rp)
        log.twin("domain")

    _r, pm = explore(run, max_paths=4)
    log.path_stats(pm)


def replay_plumbing(point, fn):
    import types
    from eko.io.types import EvolutionMethod, InversionMethod

    parts = importlib.import_module("eko.runner.parts")
    vals = dict(order=(3, 0), n3lo_ad_variation=(1, 2, 3, 4, 5, 6, 7), use_fhmruvv="FH", matching_order=(2, 0), ev_op_iterations=17, ev_op_max_order=(9, 0), polarized="POL",
                time_like="TL", n_integration_cores=5, scvar_method="SV", inversion_method=InversionMethod.EXACT, skip_singlet="SS", skip_non_singlet="SNS")
    t = types.SimpleNamespace(order=vals["order"], xif=1.5, n3lo_ad_variation=vals["n3lo_ad_variation"], use_fhmruvv=vals["use_fhmruvv"], matching_order=vals["matching_order"])
    cfgs = types.SimpleNamespace(evolution_method=EvolutionMethod.TRUNCATED, **{k: vals[k] for k in ("ev_op_iterations", "ev_op_max_order", "polarized", "time_like", "n_integration_cores", "scvar_method", "inversion_method")})
    o = types.SimpleNamespace(configs=cfgs, debug=types.SimpleNamespace(skip_singlet="SS", skip_non_singlet="SNS"))
    d = getattr(parts, fn)(types.SimpleNamespace(theory_card=t, operator_card=o))
    want = {"order": vals["order"], "method": "truncated", "xif2": 2.25, "ev_op_iterations": 17, "ev_op_max_order": (9, 0), "polarized": "POL", "time_like": "TL",
            "debug_skip_singlet": "SS", "debug_skip_non_singlet": "SNS", "n_integration_cores": 5, "ModSV": "SV", "n3lo_ad_variation": vals["n3lo_ad_variation"],
            "use_fhmruvv": "FH", "matching_order": (2, 0)}
    if fn == "_matching_configs":
        want["backward_inversion"] = InversionMethod.EXACT
    if d != want:
        diff = {k: (d.get(k), want.get(k)) for k in set(d) | set(want) if d.get(k) != want.get(k)}
        return {"detail": "real runner.parts.%s: config differs from the card fields (got, expected): %r" % (fn, diff)}
    return None


# ---------------------------------------------------------------------------
# G  runner.parts.match: the direction handed to OperatorMatrixElement is the recipe's `inverse` flag, never the scales
# ---------------------------------------------------------------------------
def _match_cards(inv, hq, inverse, rel, order=(3, 0), scheme="POLE"):
    """stand-in for the EKO object parts.match reads: symbolic initial scale, matching scale ratios; inversion method `inv`"""
    import types
    from eko.io.types import EvolutionMethod
    from eko.quantities.heavy_quarks import QuarkMassScheme

    k = [SR.var("kthr%d" % i) for i in (4, 5, 6)]
    heavy = types.SimpleNamespace(squared_ratios=k, masses_scheme=QuarkMassScheme[scheme])
    t = types.SimpleNamespace(order=tuple(order), xif=SR.var("xif"), n3lo_ad_variation=(0,) * 7, use_fhmruvv=True, matching_order=(order[0] - 1, 0), heavy=heavy)
    cfgs = types.SimpleNamespace(evolution_method=EvolutionMethod.TRUNCATED, ev_op_iterations=2, ev_op_max_order=(10, 0), polarized=False, time_like=False,
                                 n_integration_cores=1, scvar_method=None, inversion_method=inv)
    o = types.SimpleNamespace(configs=cfgs, debug=types.SimpleNamespace(skip_singlet=False, skip_non_singlet=False), mu20=SR.var("mu20"), init=(SR.var("mu0"), hq - 1))
    return types.SimpleNamespace(theory_card=t, operator_card=o)


def case_match(log):
    """every combination of (recipe.inverse, matching scale below / above the initial scale, heavy quark); scales symbolic"""
    e = env()
    qk = e["qk"]
    parts = sym_module("eko.runner.parts")
    om = sym_module("eko.evolution_operator.operator_matrix_element")
    evo = importlib.import_module("eko.evolution_operator")
    from eko.io.items import Matching
    from eko.io.types import InversionMethod

    log.encode(parts.match, parts._matching_configs, parts._evolve_configs, om.OperatorMatrixElement.__init__, om.matching_method)
    decide = Decider(log)
    records = []

    class Cpl:
        alphaem_running = False

        def a_s(self, scale, nf_to=None):
            return uf("couplings.a_s", (scale, nf_to), (), real=True)

    class Interp:
        log = True

    class RecOME(om.OperatorMatrixElement):
        """the real constructor, its arguments recorded; compute() (quadrature) is where the claim stops"""

        def __init__(self, config, managers, nf, q2, is_backward, L, is_msbar):
            rec = {"is_backward": is_backward, "nf": nf, "q2": q2, "L": L, "is_msbar": is_msbar, "reads": []}
            records.append(rec)
            om.OperatorMatrixElement.__init__(self, _Cfg(config, rec["reads"]), managers, nf, q2, is_backward, L, is_msbar)
            rec["backward_method"] = self.backward_method

        def compute(self):
            self.op_members = ("op_members", self.backward_method.name)

    class _Map:
        def __init__(self, *a):
            self.a = a

        def to_flavor_basis_tensor(self, qed):
            return uf("matching.res", (self.a, qed), (2,), real=True), uf("matching.err", (self.a, qed), (2,), real=True)

    class _MC:
        class MatchingCondition:
            split_ad_to_evol_map = staticmethod(lambda members, nf, scale, qed: _Map(members, nf, scale, qed))

    class _OmeMod:
        OperatorMatrixElement = RecOME

    parts.ome, parts.matching_condition = _OmeMod, _MC
    parts._managers = lambda eko: evo.Managers(atlas=None, couplings=Cpl(), interpolator=Interp())
    parts.Operator = lambda res, err: (res, err)
    WANT = {None: qk.MatchingMethods.FORWARD, InversionMethod.EXACT: qk.MatchingMethods.BACKWARD_EXACT, InversionMethod.EXPANDED: qk.MatchingMethods.BACKWARD_EXPANDED}

    for hq in (4, 5, 6):
        for scheme in ("POLE", "MSBAR"):
            for rel in ("<0", ">0"):  # matching scale below / above the initial scale mu0^2
                for inverse in (False, True):
                    tag = "parts.match hq=%d %s, matching scale %s initial scale, recipe.inverse=%s" % (hq, scheme, "below" if rel == "<0" else "above", inverse)
                    rp = (MOD, "replay_match", {"hq": hq, "inverse": inverse, "rel": rel, "scheme": scheme})
                    key = "parts.match:is_backward"

                    def run():
                        del records[:]
                        scale, mu20 = SR.var("scale"), SR.var("mu20")
                        for v in (scale, mu20, SR.var("xif"), SR.var("kthr4"), SR.var("kthr5"), SR.var("kthr6")):
                            assume(v, ">0")
                        assume(scale - mu20, rel)
                        recipe = Matching(scale, hq, inverse)
                        invs = (Token("inversion_A"), Token("inversion_B")) if not inverse else (InversionMethod.EXACT, InversionMethod.EXPANDED, None)
                        outs = [_guard(lambda: parts.match(_match_cards(inv, hq, inverse, rel, scheme=scheme), recipe)) for inv in invs]
                        bad = [o for o in outs if o[0] != "value"]
                        if bad:
                            decide(prove_formula(z3.BoolVal(False), "%s: the operator is set up without %s (%s)" % (
                                tag, "touching the inversion method" if not inverse else "an error", bad[0][1])), key, rp)
                            return
                        recs = list(records)
                        good = len(recs) == len(invs) and all(r["is_backward"] is inverse for r in recs)
                        decide(prove_formula(z3.BoolVal(good), "%s: is_backward handed to OperatorMatrixElement is the recipe's flag (got %r)" % (tag, [r["is_backward"] for r in recs])), key, rp)
                        if not inverse:
                            ok = all(r["backward_method"] is qk.MatchingMethods.FORWARD and "backward_inversion" not in r["reads"] for r in recs)
                            decide(prove_formula(z3.BoolVal(ok), "%s: forward method, config['backward_inversion'] never read" % tag), key, rp)
                            ra, rb = recs[0], recs[1]
                            for name in ("q2", "L"):
                                decide(prove_zero(SR(0) + ra[name] - rb[name], "%s: argument %s identical for two inversion methods" % (tag, name)), key, rp)
                            decide(prove_formula(z3.BoolVal(ra["nf"] == rb["nf"] == hq - 1 and ra["is_msbar"] is rb["is_msbar"] and ra["is_msbar"] is (scheme == "MSBAR")),
                                                 "%s: nf / is_msbar identical for two inversion methods" % tag), key, rp)
                            _same(log, ("value", outs[0][1][0]), ("value", outs[1][1][0]), "%s: operator identical for two inversion methods" % tag, key, rp, decide)
                            _same(log, ("value", outs[0][1][1]), ("value", outs[1][1][1]), "%s: error estimate identical for two inversion methods" % tag, key, rp, decide)
                        else:
                            ok = all(r["backward_method"] is WANT[inv] for r, inv in zip(recs, invs))
                            decide(prove_formula(z3.BoolVal(ok), "%s: the configured inversion method is the one applied (got %r)" % (tag, [r["backward_method"].name for r in recs])), key, rp)
                        decide(prove_zero(SR(0) + recs[0]["q2"] - scale, "%s: matching scale passed on unchanged" % tag), key, rp)
                        log.twin(tag)

                    _r, pm = explore(run, max_paths=16)
                    log.path_stats(pm)
                    v = prove_formula(z3.BoolVal(pm.paths == 1), "%s: no branch on the scales (%d paths)" % (tag, pm.paths))
                    decide(v, key, rp)
    log.assume("site G: OperatorMatrixElement.compute (quadrature) and the flavour-basis blow-up replaced by uninterpreted functions of the recorded operator; managers stubbed")


def replay_match(point, hq, inverse, rel, scheme):
    """the REAL parts.match (real cards, managers, quadrature on a 3-point grid) for inversion_method None / exact / expanded"""
    import copy
    import logging
    import types

    import numpy as np
    from eko.io import runcards
    from eko.io.items import Matching
    from eko.runner import commons
    from ekobox.cards import example

    logging.disable(logging.CRITICAL)
    parts = importlib.import_module("eko.runner.parts")
    res = {}
    for inv in (None, "exact", "expanded"):
        th, op = copy.deepcopy(example.raw_theory()), copy.deepcopy(example.raw_operator())
        th["order"], th["matching_order"] = [2, 0], [1, 0]
        th["couplings"]["ref"] = [91.2, 5]
        if scheme == "MSBAR":
            th["heavy"]["masses_scheme"] = "msbar"
            th["heavy"]["masses"] = [[1.51, 1.51], [4.92, 4.92], [172.5, 172.5]]
        mass = th["heavy"]["masses"][hq - 4][0]
        op["init"] = [mass * (2.0 if rel == "<0" else 0.6), hq if inverse else hq - 1]
        op["mugrid"] = [[mass * 3.0, hq - 1 if inverse else hq]]
        op["xgrid"] = [0.05, 0.4, 1.0]
        op["configs"]["interpolation_polynomial_degree"] = 1
        op["configs"]["n_integration_cores"] = 1
        op["configs"]["inversion_method"] = inv
        tc, oc = runcards.TheoryCard.from_dict(th), runcards.OperatorCard.from_dict(op)
        scale = commons.atlas(tc, oc).walls[hq - 3]
        if not ((scale < oc.mu20) == (rel == "<0")):
            return None
        out = parts.match(types.SimpleNamespace(theory_card=tc, operator_card=oc), Matching(scale, hq, inverse))
        res[inv] = np.array(out.operator)
    same = {k: bool(np.array_equal(res[None], res[k])) for k in ("exact", "expanded")}
    where = "matching scale %s the initial scale mu0^2" % ("below" if rel == "<0" else "above")
    if not inverse and not all(same.values()):
        d = max(float(np.nanmax(np.abs(res[None] - res[k]))) for k in ("exact", "expanded"))
        return {"detail": "real runner.parts.match, hq=%d, recipe.inverse=False (no downward matching), %s: operators differ between inversion_method None / exact / expanded (max |diff| %.3e)" % (hq, where, d)}
    if inverse and any(same.values()):
        return {"detail": "real runner.parts.match, hq=%d, recipe.inverse=True, %s: inversion_method %s gives the forward operator (the recipe's flag is ignored)" % (hq, where, [k for k, v in same.items() if v])}
    return None


# ---------------------------------------------------------------------------
# replays: the REAL code twice, results must be bitwise identical
# ---------------------------------------------------------------------------
def _real_ad(cfg, label, it, mo, var, fhm, em):
    import numpy as np
    from eko.interpolation import InterpolatorDispatcher, XGrid
    from eko.kernels import EvoMethods
    from eko.scale_variations import Modes

    qk = importlib.import_module("eko.evolution_operator.quad_ker")
    xg = XGrid(np.array([0.1, 0.4, 1.0]), log=True)
    areas = list(InterpolatorDispatcher(xg, 1))[1].areas_representation
    if cfg["order"][1] == 0:
        as_list, a_half = np.array([0.030, 0.021]), np.zeros((it, 2))
    else:
        as_list = np.linspace(0.030, 0.021, it + 1)
        a_half = np.array([[0.5 * (as_list[i] + as_list[i + 1]), 0.00062] for i in range(it)])
    try:
        return qk.quad_ker_ad(u=0.6, order=tuple(cfg["order"]), mode0=label[0], mode1=label[1], ev_method=EvoMethods[cfg["method"]], is_log=True,
                              logx=float(np.log(0.3)), areas=areas, as_list=as_list, mu2_from=10.0, mu2_to=100.0, a_half=a_half, alphaem_running=em,
                              nf=cfg["nf"], Lsv=0.69, ev_op_iterations=it, ev_op_max_order=mo, sv_mode=Modes[cfg["sv"]], is_threshold=cfg["thr"],
                              n3lo_ad_variation=var, is_polarized=cfg.get("pol", False), is_time_like=cfg.get("tl", False), use_fhmruvv=fhm)
    except (NotImplementedError, ValueError) as e:
        return "refused: %s" % type(e).__name__


def replay_AB(point, cfg, label, setting):
    base = dict(it=2, mo=(10, 0), var=(0,) * 7, fhm=True, em=True)
    outs = []
    for val in PAIRS[setting]:
        kw = dict(base)
        kw[setting] = val
        outs.append(_real_ad(cfg, tuple(label), **kw))
    if repr(outs[0]) != repr(outs[1]):
        return {"detail": "real quad_ker_ad(%s, label=%s): %s=%r gives %r, %s=%r gives %r" % (cfg, tuple(label), setting, PAIRS[setting][0], outs[0], setting, PAIRS[setting][1], outs[1])}
    return None


def replay_couplings(point, order, method, nf):
    import numpy as np
    from eko import couplings as real

    outs = []
    for flag in (True, False):
        sc = real.Couplings.__new__(real.Couplings)
        sc.order, sc.method, sc.alphaem_running, sc.decoupled_running, sc.cache = (order, 0), method, flag, False, {}
        outs.append(sc.compute(np.array([0.118 / 4 / np.pi, 0.0078 / 4 / np.pi]), nf, 3, 8.0, 91.0**2))
    if not (outs[0] == outs[1]).all():
        return {"detail": "Couplings.compute(order=(%d,0), method=%s, nf=%d): em_running=True gives %r, em_running=False gives %r" % (order, method, nf, list(outs[0]), list(outs[1]))}
    return None


def replay_matching(point, k, sv):
    from eko.io.types import InversionMethod, ScaleVariationsMethod

    evo = importlib.import_module("eko.evolution_operator")
    om = importlib.import_module("eko.evolution_operator.operator_matrix_element")
    qk = importlib.import_module("eko.evolution_operator.quad_ker")

    class Cpl:
        alphaem_running = False

        def a_s(self, scale, nf_to=None):
            return 0.02

    outs = []
    for inv in (InversionMethod.EXACT, InversionMethod.EXPANDED, None):
        cfg = dict(order=(k + 1, 0), matching_order=(k, 0), xif2=2.0, ModSV=ScaleVariationsMethod(sv) if sv else None, polarized=False, time_like=False,
                   backward_inversion=inv, debug_skip_singlet=False, debug_skip_non_singlet=False)
        try:
            o = om.OperatorMatrixElement(cfg, evo.Managers(atlas=None, couplings=Cpl(), interpolator=None), 4, 25.0, False, 0.3, True)
            outs.append(o.backward_method)
        except Exception as e:  # noqa: BLE001
            outs.append("%s: %s" % (type(e).__name__, e))
    if any(o is not qk.MatchingMethods.FORWARD for o in outs):
        return {"detail": "forward OperatorMatrixElement(matching_order=(%d,0)) with backward_inversion = exact / expanded / None -> backward_method %r" % (k, outs)}
    return None


def replay_operator(point, order, method, sv, thr, setting):
    import numpy as np
    from eko.io.types import ScaleVariationsMethod
    from eko.interpolation import InterpolatorDispatcher, XGrid
    from eko.matchings import Segment

    evo = importlib.import_module("eko.evolution_operator")

    class Cpl:
        def __init__(self, em):
            self.alphaem_running = em

        def a(self, scale, nf_to=None):
            return np.array([0.3 / np.log(scale / 0.04) / 4, 0.0006])

        def a_s(self, scale_to, nf_to=None):
            return self.a(scale_to, nf_to)[0]

    xg = XGrid(np.array([0.1, 0.4, 1.0]), log=True)
    disp = InterpolatorDispatcher(xg, 1)
    vals = {"ev_op_iterations": ((1, (10, 0), True), (7, (10, 0), True)), "ev_op_max_order": ((2, (2, 0), True), (2, (10, 0), True)),
            "alphaem_running": ((2, (10, 0), True), (2, (10, 0), False))}[setting]
    res = []
    for it, mo, em in vals:
        c = dict(order=tuple(order), xif2=2.0, method=method.lower().replace("_", "-"), ev_op_iterations=it, ev_op_max_order=mo, polarized=False, time_like=False,
                 debug_skip_singlet=False, debug_skip_non_singlet=False, n_integration_cores=1, ModSV=ScaleVariationsMethod(sv) if sv else None,
                 n3lo_ad_variation=(0,) * 7, use_fhmruvv=True, matching_order=(order[0] - 1, 0))
        op = evo.Operator(c, evo.Managers(atlas=None, couplings=Cpl(em), interpolator=disp), Segment(10.0, 100.0, 4), is_threshold=thr)
        res.append([op.quad_ker(lab, float(np.log(0.3)), list(disp)[1].areas_representation)(0.6) for lab in op.labels])
    if repr(res[0]) != repr(res[1]):
        return {"detail": "Operator(order=%s, method=%s, sv=%s, is_threshold=%s).quad_ker values differ between %s = %r and %r: %r vs %r" % (order, method, sv, thr, setting, vals[0], vals[1], res[0], res[1])}
    return None


# ---------------------------------------------------------------------------
def ab_configs(nfs):
    out = []
    for nf in nfs:
        for o0 in (1, 2, 3, 4):
            for m in METHODS:
                for sv in SVS:
                    for thr in (False, True):
                        out.append(dict(order=(o0, 0), method=m, sv=sv, thr=thr, nf=nf))
                        if o0 <= 3:
                            out.append(dict(order=(o0, 0), method=m, sv=sv, thr=thr, nf=nf, pol=True))
                            out.append(dict(order=(o0, 0), method=m, sv=sv, thr=thr, nf=nf, tl=True))
            for o1 in (1, 2):
                for sv in SVS:
                    for thr in (False, True):
                        out.append(dict(order=(o0, o1), method="ITERATE_EXACT", sv=sv, thr=thr, nf=nf))
    return out


def _chunks(xs, n):
    k = max(1, (len(xs) + n - 1) // n)
    return [xs[i:i + k] for i in range(0, len(xs), k)]


def main():
    import random

    chk = H.Check("C55")
    for n in ("eko.evolution_operator.quad_ker", "eko.evolution_operator.operator_matrix_element", "eko.couplings", "eko.runner.parts",
              "ekore.anomalous_dimensions.unpolarized.space_like", "ekore.anomalous_dimensions.unpolarized.time_like", "ekore.anomalous_dimensions.polarized.space_like",
              "ekore.operator_matrix_elements.unpolarized.space_like", "ekore.operator_matrix_elements.unpolarized.time_like",
              "ekore.operator_matrix_elements.polarized.space_like"):
        importlib.import_module(n)
    thorough = H.tier() == "thorough"
    quick = not thorough
    cfgs = ab_configs((3, 4, 5, 6) if thorough else (4,))
    if quick:
        rng = random.Random(H.seed())
        qed = [c for c in cfgs if c["order"][1] > 0]
        qcd = [c for c in cfgs if c["order"][1] == 0]
        cfgs = rng.sample(qcd, 60) + rng.sample(qed, 8)
        # every method at least once below N3LO and at N3LO
        for m in METHODS:
            for o in (2, 4):
                if not any(c["method"] == m and c["order"] == (o, 0) for c in cfgs):
                    cfgs.append(dict(order=(o, 0), method=m, sv="unvaried", thr=False, nf=4))
    chk.bounds = [
        "sites A/B: QCD orders 1-4 x 8 methods x sv mode x is_threshold x {unpolarized, polarized, time-like} and QED (1-4,1-2) iterate-exact x sv mode x is_threshold; "
        "thorough: full product, nf 3-6, all labels (%s configurations); quick: %d sampled configurations, nf 4, reduced label set" % (len(ab_configs((3, 4, 5, 6))), len(cfgs)),
        "settings symbolic: ev_op_iterations, ev_op_max_order[0] integers >= 1; n3lo_ad_variation seven integers; use_fhmruvv, alphaem_running Booleans; inversion method an opaque token; "
        "where the code converts the symbolic value (e.g. allocates an array of that length) the concrete pairs %r are compared instead" % (PAIRS,),
        "site C: Couplings.compute, orders (1-4, 0), methods expanded and exact, nf 3-6, the flag symbolic in both executions; "
        "Couplings.a inside one nf=4 patch, symbolic reference and target scales on either side of the tau mass, compute an uninterpreted recorder",
        "site G: real runner.parts.match + real OperatorMatrixElement.__init__ for hq 4-6 x pole/MSbar x recipe.inverse x matching scale below/above mu0^2 (symbolic scales, ratios, xif); stops at OperatorMatrixElement.compute",
        "site D: OperatorMatrixElement built for forward matching, matching orders 1-3, three sv modes; site E: Operator built for QCD-only configurations with concrete setting pairs",
    ]
    chk.out_of_claim = ["bitwise identity of complete solves (integration, interpolation, archive): only the Mellin-space integrand and the couplings are compared, over the reals",
                        "reading the cards from files / the EKO object (site F runs runner.parts._evolve_configs/_matching_configs on a stand-in object carrying opaque tokens)",
                        "Couplings cache (the cache key does not contain the flag; the flag is constant per object)",
                        "N3LO itself: how the variation tuple enters the N3LO anomalous dimensions"]
    chk.stubs = ["kernel bodies below the dispatchers, the QED iterated solutions and the per-order ekore functions: uninterpreted functions of their arguments",
                 "scipy.integrate.solve_ivp: uninterpreted function of (interval, initial value, args, method, rtol); float(): identity on symbols; Couplings.cache: disabled",
                 "QuadKerBase.n / .integrand: symbols; managers.couplings: uninterpreted a(scale, nf)"]
    chk.assumptions = ["irrelevance table: ev_op_iterations applies to iterate-*/perturbative-* singlet solutions beyond LO and to QED; ev_op_max_order to perturbative-*; "
                       "n3lo_ad_variation / use_fhmruvv to unpolarized space-like N3LO; em_running to QED order >= 1; inversion method to backward matching"]
    for i, ch in enumerate(_chunks(cfgs, 10 if thorough else 6)):
        chk.case("AB.%02d" % i, case_AB, cfgs=ch, quick=quick)
    chk.case("couplings", case_couplings, nfs=(3, 4, 5, 6) if thorough else (4, 5))
    from .cplkit import case_c55_em_flag  # site C': Couplings.a (tau-mass split inside a fixed-nf segment) with the flag symbolic

    chk.case("couplings.a", case_c55_em_flag)
    chk.case("matching", case_matching, quick=quick)
    chk.case("operator", case_operator, quick=quick)
    chk.case("plumbing", case_plumbing)
    chk.case("match", case_match)
    return chk.run()


if __name__ == "__main__":
    import sys

    sys.exit(main())
