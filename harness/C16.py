"""C16  Coupling threshold matching follows the decoupling relations.

Real code executed symbolically: Couplings.a (the matching loop), compute_matching_coeffs_up / _down, invert_matching_coeffs
(eko.couplings with np / float rebound), on a real Couplings object whose reference point sits ON a matching scale and whose target is the
same scale in the neighbouring patch, so that the real np.isclose skip path is taken for every zero-length segment; `Couplings.compute` is
replaced by a recording identity (fixed-flavour evolution is C15's subject) -- what remains is exactly the matching loop.
The logarithms ln(mu_match^2/m^2) are free symbols (thresholds_ratios replaced by tokens after construction: the loop only takes np.log of them).

Goals
  table   : every entry of compute_matching_coeffs_up(scheme, nf) (nf symbolic) equals the published 1/zeta_g^2 table of refs/decoupling.py
            (exact rationals exactly; decimal entries to the printed digits), and compute_matching_coeffs_down equals the published zeta_g^2.
  loop    : the coupling returned by Couplings.a equals  a (1 + sum_{n<order} sum_l c[n,l] a^n L^l)  with c the table of the right direction
            at the right nf and L the logarithm of the right threshold, applied once per threshold crossed, a_em untouched; one and two
            thresholds, upward and downward, orders 1-4, both schemes.
  contin. : for unit ratio (L = 0) the matched coupling equals the unmatched one at orders 1 and 2.
  rg      : with F(a, L) the matched coupling returned by the real loop (a = lam jet, L the AD seed), beta coefficients and gamma_m from
            refs/rge_literature.py (nf symbolic):  beta^(nf+1)(F) - dF/da beta^(nf)(a) - dF/dL * dL/dlnmu^2 = O(a^(order+1)),
            dL/dlnmu^2 = 1 (POLE) or 1 + 2 gamma_m^(nf+1)(F) (MSBAR, running heavy-quark mass).
  inverse : down(up(a)) = a + O(a^(order+1)) and up(down(a)) likewise, both through the real loop (two objects chained).
"""
from fractions import Fraction

import numpy as realnp

from .cplkit import *  # noqa
from .kern import jet_tangent
from symx.solver import explore, prove_zero, prove_rel
from symx import harness as H
from refs import decoupling as DEC
from refs import rge_literature as LIT

MOD = "harness.C16"
WALLS = [3.0, 25.0, 30000.0]  # squared matching scales of the concrete atlas (values irrelevant: only equality with the query matters)


class RatioTok:
    """Stands for a threshold ratio mu_match^2/m^2 of which the loop only takes the logarithm."""

    def __init__(self, L):
        self.L = L


class C16Numpy(CplNumpy):
    def log(self, x):
        if isinstance(x, RatioTok):
            return x.L
        return CplNumpy.log(self, x)


def _lifted(tab):
    out = realnp.empty(tab.shape, dtype=object)
    for idx in realnp.ndindex(tab.shape):
        out[idx] = lift_exact(tab[idx])
    return out


def _load():
    """eko.couplings with the shim; the upward table is handed on with every float entry lifted to the exact rational it denotes, so that the
    inversion and the matching loop run in exact arithmetic (Python float arithmetic between table entries would round)."""
    cpl = cpl_module("eko.couplings")
    cpl.np = C16Numpy()
    cpl.float = sym_float
    real_up = cpl.compute_matching_coeffs_up
    if not getattr(real_up, "_c16_lifted", False):
        def up(mass_scheme, nf):
            return _lifted(real_up(mass_scheme, nf))

        up._c16_lifted = True
        up.__wrapped__ = real_up
        cpl.compute_matching_coeffs_up = up
    return cpl


def make_sc(cpl, scheme, order, nf_ref, wall_idx, a_ref, Ls, record=None):
    """real Couplings object, reference exactly on WALLS[wall_idx] with nf_ref flavours; a_ref and the threshold logarithms symbolic."""
    from eko.quantities.couplings import CouplingEvolutionMethod, CouplingsInfo
    from eko.quantities.heavy_quarks import QuarkMassScheme

    mu = WALLS[wall_idx] ** 0.5
    info = CouplingsInfo(alphas=0.2, alphaem=0.0075, ref=(mu, nf_ref), em_running=False)
    sc = cpl.Couplings(info, (order, 0), CouplingEvolutionMethod.EXPANDED, list(WALLS), QuarkMassScheme[scheme], [1.0, 1.0, 1.0])
    # the reference scale must be bit-identical to the wall for the zero-length segments
    sc.atlas.origin = (WALLS[wall_idx], SR(nf_ref))  # nf as an exact constant: the nf-dependent table entries are then evaluated exactly
    sc.a_ref = a_ref
    sc.thresholds_ratios = [RatioTok(L) for L in Ls]

    def compute(a, nf, nl, scale_from, scale_to):
        if record is not None:
            record.append((nf, scale_from, scale_to))
        return a.copy()

    sc.compute = compute
    return sc


def apply_table(a, tab, L, order):
    fact = 1
    for n in range(1, order):
        for l in range(n + 1):
            fact = fact + a**n * L**l * tab[n, l]
    return a * fact


def _Ls():
    return [SR.var("Lc"), SR.var("Lb"), SR.var("Lt")]


def _nf_domain(nf):
    assume(nf - 3, ">=0")
    assume(5 - nf, ">=0")


# ---------------------------------------------------------------------------
DECIMALS = {("POLE", 3, 0): (Fraction(5, 10**4), Fraction(5, 10**5)), ("MSBAR", 3, 0): (Fraction(5, 10**5), Fraction(5, 10**5))}


def case_table(log, scheme):
    cpl = _load()
    log.encode(cpl.compute_matching_coeffs_up.__wrapped__, cpl.compute_matching_coeffs_down, cpl.invert_matching_coeffs)
    D = Decider(log, max_replays=4)
    bad = DEC.selftest()
    if bad:
        log.inconclusive.append("refs/decoupling.py self-test failed: %s" % bad[:3])

    def run():
        nf = SR.var("nf")
        _nf_domain(nf)
        up = cpl.compute_matching_coeffs_up(scheme, nf)
        down = cpl.compute_matching_coeffs_down(scheme, nf)
        lit_up, lit_down = DEC.up_table(scheme, nf), DEC.down_table(scheme, nf)
        for n in range(0, 4):
            for l in range(0, 4):
                for which, tab, lit in (("up", up, lit_up), ("down", down, lit_down)):
                    rp = (MOD, "replay_table", {"scheme": scheme, "which": which, "n": n, "l": l})
                    got = SR(0) + tab[n, l]
                    want = SR(0) + DEC.get(lit, n, l)
                    key = "compute_matching_coeffs_%s:%s:c%d%d" % (which, scheme, n, l)
                    if (scheme, n, l) in DECIMALS:
                        # decimal entry a + b*nf printed with finitely many digits: both printed numbers within half a unit of the last digit
                        t0, t1 = DECIMALS[(scheme, n, l)]
                        tol = t0 + t1 * 5  # |da| + |db|*nf for nf <= 5
                        for rel, expr, side in ((">=0", got - want + tol, "lower"), ("<=0", got - want - tol, "upper")):
                            v = prove_rel(expr, rel, "%s table %s: c[%d,%d](nf) equals the published value to the printed digits (%s)" % (which, scheme, n, l, side))
                            D(v, key=key, replay=rp, sampler=_sampler, candidates=[{"nf": Fraction(k)} for k in (3, 4, 5)])
                    else:
                        v = prove_zero(got - want, "%s table %s: c[%d,%d](nf) == published value" % (which, scheme, n, l))
                        D(v, key=key, replay=rp, sampler=_sampler, candidates=[{"nf": Fraction(k)} for k in (3, 4, 5)])
        log.twin("domain")
        log.collect_ctx()

    _r, pm = explore(run)
    log.path_stats(pm)


# ---------------------------------------------------------------------------
def _steps(nf_from, nf_to):
    """[(nf_lower_of_the_threshold, direction)] crossed when going from nf_from to nf_to"""
    if nf_to > nf_from:
        return [(n, "up") for n in range(nf_from, nf_to)]
    return [(n - 1, "down") for n in range(nf_from, nf_to, -1)]


def case_loop(log, scheme, order, routes):
    cpl = _load()
    log.encode(cpl.Couplings.a, cpl.compute_matching_coeffs_up.__wrapped__, cpl.compute_matching_coeffs_down, cpl.invert_matching_coeffs)
    D = Decider(log)

    def mk(nf_from, nf_to):
        def run():
            a = SR.var("a")
            aem = SR.var("aem")
            assume(a, ">0")
            Ls = _Ls()
            steps = _steps(nf_from, nf_to)
            # reference on the first wall crossed, target on the last one
            first = steps[0][0] - 3
            last = steps[-1][0] - 3
            rec = []
            sc = make_sc(cpl, scheme, order, nf_from, first, symarr([a, aem]), Ls, rec)
            got = sc.a(WALLS[last], SR(nf_to))
            want = a
            for nfl, d in steps:
                tab = cpl.compute_matching_coeffs_up(scheme, SR(nfl)) if d == "up" else cpl.compute_matching_coeffs_down(scheme, SR(nfl))
                want = apply_table(want, tab, Ls[nfl - 3], order)
            tag = "%s order %d, nf %d -> %d" % (scheme, order, nf_from, nf_to)
            rp = (MOD, "replay_loop", {"scheme": scheme, "order": order, "nf_from": nf_from, "nf_to": nf_to})
            v = prove_zero(SR(0) + got[0] - want, "%s: a_s from the matching loop == tables applied per crossed threshold" % tag)
            D(v, key="Couplings.a:matching:%s" % ("up" if nf_to > nf_from else "down"), replay=rp, sampler=_sampler)
            v = prove_zero(SR(0) + got[1] - aem, "%s: a_em untouched by the matching" % tag)
            D(v, key="Couplings.a:matching:aem", replay=rp, sampler=_sampler)
            # the evolution legs requested between the thresholds (recorded by the identity stub)
            want_legs = []
            for (n1, d1), (n2, d2) in zip(steps[:-1], steps[1:]):
                nfmid = n1 + 1 if d1 == "up" else n1
                want_legs.append((nfmid, WALLS[n1 - 3], WALLS[n2 - 3]))
            ok = [(int(n), float(f), float(t)) for n, f, t in rec] == [(n, float(f), float(t)) for n, f, t in want_legs]
            v = prove_zero(SR(0 if ok else 1), "%s: fixed-flavour legs requested between thresholds are %r" % (tag, want_legs))
            D(v, key="Couplings.a:legs", replay=rp, sampler=_sampler)
            # unmatched value restored
            v = prove_zero(SR(0) + sc.a_ref[0] - a, "%s: a_ref not modified by the matching" % tag)
            D(v, key="Couplings.a:a_ref_alias", replay=rp, sampler=_sampler)
            log.twin("domain")
            log.collect_ctx()

        return run

    for nf_from, nf_to in routes:
        _r, pm = explore(mk(nf_from, nf_to))
        log.path_stats(pm)


def case_continuity(log, scheme):
    cpl = _load()
    log.encode(cpl.Couplings.a, cpl.compute_matching_coeffs_up.__wrapped__, cpl.compute_matching_coeffs_down)
    D = Decider(log)

    def mk(order, nf_from, nf_to):
        def run():
            a = SR.var("a")
            aem = SR.var("aem")
            assume(a, ">0")
            steps = _steps(nf_from, nf_to)
            sc = make_sc(cpl, scheme, order, nf_from, steps[0][0] - 3, symarr([a, aem]), [SR(0), SR(0), SR(0)])
            got = sc.a(WALLS[steps[-1][0] - 3], SR(nf_to))
            rp = (MOD, "replay_loop", {"scheme": scheme, "order": order, "nf_from": nf_from, "nf_to": nf_to, "unit": True})
            v = prove_zero(SR(0) + got[0] - a, "%s order %d, nf %d -> %d, unit ratio: coupling continuous across the threshold" % (scheme, order, nf_from, nf_to))
            D(v, key="Couplings.a:continuity", replay=rp, sampler=_sampler)
            log.twin("domain")

        return run

    for order in (1, 2):
        for nf_from, nf_to in ((3, 4), (4, 5), (5, 6), (4, 3), (5, 4), (6, 5), (3, 6), (6, 3)):
            _r, pm = explore(mk(order, nf_from, nf_to))
            log.path_stats(pm)


# ---------------------------------------------------------------------------
def _beta_lit(nf, n, z3):
    return [LIT.beta0(nf), LIT.beta1(nf), LIT.beta2(nf), LIT.beta3(nf, z3)][:n]


def _gamma_lit(nf, n, z3):
    return [LIT.gamma0(), LIT.gamma1(nf), LIT.gamma2(nf, z3)][:n]


def case_rg(log, scheme, order):
    cpl = _load()
    log.encode(cpl.Couplings.a, cpl.compute_matching_coeffs_up.__wrapped__)
    D = Decider(log)

    def mk(nfl):
        def run():
            jetmod.set_cap(order + 2)
            z3 = SR.var("zeta3")
            assume(z3 - Fraction(12, 10), ">0")
            assume(Fraction(1203, 1000) - z3, ">0")
            L = SR.var("Lq", seed=True)
            Ls = [SR.var("L%d" % i) for i in range(3)]
            Ls[nfl - 3] = L
            aem = SR.var("aem")
            lam = Jet.lam()
            sc = make_sc(cpl, scheme, order, nfl, nfl - 3, symarr([lam, aem]), Ls)
            F = as_jet(sc.a(WALLS[nfl - 3], SR(nfl + 1))[0])
            if F.prec < order + 1:
                raise EngineError("matched coupling known only to O(a^%d)" % F.prec)
            Fn = Jet(F.v, [c.novar() for c in F.c], F.prec)
            dFdL = jet_tangent(F)
            dFda = Jet(0, [Fn._known(k) * k for k in range(1, order + 2)], INF)  # exact polynomial in a
            bl = _beta_lit(nfl, order, z3)
            bu = _beta_lit(nfl + 1, order, z3)
            beta_low = 0
            beta_up = 0
            for k in range(order):
                beta_low = beta_low - bl[k] * lam ** (k + 2)
                beta_up = beta_up - bu[k] * Fn ** (k + 2)
            dLdt = 1
            if scheme == "MSBAR":
                gu = _gamma_lit(nfl + 1, max(order - 1, 1), z3)
                for k, g in enumerate(gu):
                    dLdt = dLdt + 2 * g * Fn ** (k + 1)
            res = as_jet(beta_up - dFda * beta_low - dFdL * dLdt)
            rp = (MOD, "replay_rg", {"scheme": scheme, "order": order, "nfl": nfl})
            for k in range(0, order + 1):
                v = prove_zero(res._known(k), "%s order %d nf %d->%d: a^%d coefficient of beta'(F) - dF/da beta(a) - dF/dL dL/dlnmu^2 == 0" % (scheme, order, nfl, nfl + 1, k))
                D(v, key="compute_matching_coeffs_up:rg:%s:a%d" % (scheme, k), replay=rp, sampler=_sampler)
            log.twin("domain")
            log.collect_ctx()

        return run

    for nfl in (3, 4, 5):
        _r, pm = explore(mk(nfl))
        log.path_stats(pm)


def case_rg_symbolic_nf(log, scheme):
    """the same identity for the table functions alone with nf a symbolic real (one run for every nf) at order 4."""
    cpl = _load()
    log.encode(cpl.compute_matching_coeffs_up.__wrapped__)
    D = Decider(log)
    order = 4

    def run():
        jetmod.set_cap(order + 2)
        nf = SR.var("nf")
        _nf_domain(nf)
        z3 = SR.var("zeta3")
        L = SR.var("Lq", seed=True)
        lam = Jet.lam()
        tab = cpl.compute_matching_coeffs_up(scheme, nf)
        F = as_jet(apply_table(lam, tab, L, order))
        Fn = Jet(F.v, [c.novar() for c in F.c], F.prec)
        dFdL = jet_tangent(F)
        dFda = Jet(0, [Fn._known(k) * k for k in range(1, order + 2)], INF)
        bl, bu = _beta_lit(nf, order, z3), _beta_lit(nf + 1, order, z3)
        beta_low = 0
        beta_up = 0
        for k in range(order):
            beta_low = beta_low - bl[k] * lam ** (k + 2)
            beta_up = beta_up - bu[k] * Fn ** (k + 2)
        dLdt = 1
        if scheme == "MSBAR":
            for k, g in enumerate(_gamma_lit(nf + 1, 3, z3)):
                dLdt = dLdt + 2 * g * Fn ** (k + 1)
        res = as_jet(beta_up - dFda * beta_low - dFdL * dLdt)
        rp = (MOD, "replay_rg", {"scheme": scheme, "order": order, "nfl": None})
        for k in range(0, order + 1):
            v = prove_zero(res._known(k), "%s table, nf symbolic: a^%d coefficient of the RG consistency condition == 0" % (scheme, k))
            D(v, key="compute_matching_coeffs_up:rg:%s:a%d" % (scheme, k), replay=rp, sampler=_sampler)
        # the oracle itself is RG consistent (sanity of refs/decoupling.py)
        lit = DEC.up_table(scheme, nf)
        tabl = realnp.empty((4, 4), dtype=object)
        for n in range(4):
            for l in range(4):
                tabl[n, l] = SR(0) + DEC.get(lit, n, l)
        F2 = as_jet(apply_table(lam, tabl, L, order))
        F2n = Jet(F2.v, [c.novar() for c in F2.c], F2.prec)
        d2L = jet_tangent(F2)
        d2a = Jet(0, [F2n._known(k) * k for k in range(1, order + 2)], INF)
        bu2 = 0
        for k in range(order):
            bu2 = bu2 - bu[k] * F2n ** (k + 2)
        dLdt2 = 1
        if scheme == "MSBAR":
            for k, g in enumerate(_gamma_lit(nf + 1, 3, z3)):
                dLdt2 = dLdt2 + 2 * g * F2n ** (k + 1)
        res2 = as_jet(bu2 - d2a * beta_low - d2L * dLdt2)
        for k in range(0, order + 1):
            v = prove_zero(res2._known(k), "published %s table (refs/decoupling.py), nf symbolic: a^%d coefficient of the RG consistency condition == 0" % (scheme, k))
            if not v.holds:
                log.inconclusive.append("oracle refs/decoupling.py is not RG consistent at a^%d (%s)" % (k, scheme))
            else:
                log.ok(v)
        log.twin("domain")
        log.collect_ctx()

    _r, pm = explore(run)
    log.path_stats(pm)


def case_inverse(log, scheme, order):
    cpl = _load()
    log.encode(cpl.Couplings.a, cpl.compute_matching_coeffs_up.__wrapped__, cpl.compute_matching_coeffs_down, cpl.invert_matching_coeffs)
    D = Decider(log)

    def mk(nfl):
        def run():
            jetmod.set_cap(order + 2)
            Ls = _Ls()
            aem = SR.var("aem")
            alpha = SR.var("alpha")
            assume(alpha, ">0")
            a = Jet.lam() * alpha
            w = nfl - 3
            up = make_sc(cpl, scheme, order, nfl, w, symarr([a, aem]), Ls).a(WALLS[w], SR(nfl + 1))[0]
            back = make_sc(cpl, scheme, order, nfl + 1, w, symarr([up, aem]), Ls).a(WALLS[w], SR(nfl))[0]
            dn = make_sc(cpl, scheme, order, nfl + 1, w, symarr([a, aem]), Ls).a(WALLS[w], SR(nfl))[0]
            forth = make_sc(cpl, scheme, order, nfl, w, symarr([dn, aem]), Ls).a(WALLS[w], SR(nfl + 1))[0]
            rp = (MOD, "replay_inverse", {"scheme": scheme, "order": order, "nfl": nfl})
            for tag, x in (("down(up(a))", back), ("up(down(a))", forth)):
                d = as_jet(x) - a
                if d.prec < order + 1:
                    raise EngineError("composition known only to O(a^%d)" % d.prec)
                for k in range(0, order + 1):
                    v = prove_zero(d._known(k), "%s order %d threshold nf %d|%d: a^%d coefficient of %s - a == 0" % (scheme, order, nfl, nfl + 1, k, tag))
                    D(v, key="Couplings.a:inverse", replay=rp, sampler=_sampler)
            log.twin("domain")
            log.collect_ctx()

        return run

    for nfl in (3, 4, 5):
        _r, pm = explore(mk(nfl))
        log.path_stats(pm)


# ---------------------------------------------------------------------------
# construction: where the patches end vs the logarithm the matching uses
# ---------------------------------------------------------------------------
SR.__format__ = lambda self, spec: "<sym>"  # Atlas.__init__ logs its walls with "{w:.2e}"


def case_construction(log, scheme):
    """the real Couplings.__init__ with symbolic squared masses m_i and ratios r_i: the matching loop applies L_i = ln(thresholds_ratios[i]), i.e. the
    decoupling relation at mu^2 = thresholds_ratios[i] * m_i^2 -- the patch boundary (atlas wall) the evolution stops at must be that very scale."""
    cpl = _load()
    log.encode(cpl.Couplings.__init__)
    D = Decider(log)

    def run():
        from eko.quantities.couplings import CouplingEvolutionMethod, CouplingsInfo
        from eko.quantities.heavy_quarks import QuarkMassScheme

        ms = [SR.var("m2_%s" % q) for q in "cbt"]
        rs = [SR.var("r_%s" % q) for q in "cbt"]
        for x in ms + rs:
            assume(x, ">0")
        info = CouplingsInfo(alphas=0.2, alphaem=0.0075, ref=(10.0, 4), em_running=False)
        sc = cpl.Couplings(info, (3, 0), CouplingEvolutionMethod.EXPANDED, list(ms), QuarkMassScheme[scheme], list(rs))
        rp = (MOD, "replay_construction", {"scheme": scheme})
        walls = sc.atlas.walls
        ok = len(walls) == 5 and walls[0] == 0 and walls[-1] == float("inf") and len(sc.thresholds_ratios) == 3 and sc.atlas.origin[1] == 4
        v = prove_zero(SR(0 if ok else 1), "Couplings.__init__ (%s): atlas walls are [0, three matching scales, inf], three ratios kept, reference nf kept" % scheme)
        D(v, key="Couplings.__init__:atlas", replay=rp, sampler=_sampler)
        if ok:
            v = prove_zero(SR(0) + sc.atlas.origin[0] - 100, "Couplings.__init__ (%s): reference point of the atlas is mu_ref^2" % scheme)
            D(v, key="Couplings.__init__:atlas", replay=rp, sampler=_sampler)
            for i, q in enumerate("cbt"):
                L = cpl.np.log(sc.thresholds_ratios[i])  # what the matching loop takes
                v = prove_zero(SR(0) + L - cpl.np.log(rs[i]), "Couplings.__init__ (%s): logarithm used for the %s threshold is ln(ratio)" % (scheme, q))
                D(v, key="Couplings.__init__:matching-scale", replay=rp, sampler=_sampler)
                v = prove_zero(SR(0) + walls[i + 1] - ms[i] * sc.thresholds_ratios[i],
                               "Couplings.__init__ (%s): the %s patch boundary is the scale ratio*m^2 whose logarithm ln(ratio) the decoupling relation is applied with" % (scheme, q))
                D(v, key="Couplings.__init__:matching-scale", replay=rp, sampler=_sampler)
        log.twin("domain")
        log.collect_ctx()

    _r, pm = explore(run)
    log.path_stats(pm)


def replay_construction(point, scheme):
    """real Couplings with matching ratios != 1: a_s with nl and nl+1 flavours at mu^2 = ratio*m^2 (reference inside the nl patch) must fulfil the published
    decoupling relation with L = ln(ratio) -- independent of where the code thinks the patch ends."""
    import math

    a = float(point.get("a", 0.02))
    Ls = [float(point.get(k, d)) for k, d in (("Lc", 0.5), ("Lb", -0.5), ("Lt", 0.4))]
    if not 0.008 <= a <= 0.0285 or any(abs(x) > 1.39 for x in Ls):
        return None
    Ls = [x if abs(x) > 0.25 else 0.5 for x in Ls]
    ratios = [math.exp(x) for x in Ls]
    masses = [2.0, 22.0, 30000.0]
    for order in (2, 3):
        for nfl in (3, 4):
            w = masses[nfl - 3] * ratios[nfl - 3]
            # reference in the nl patch, a little below the matching scale (and above the lower one)
            mu2_ref = 0.8 * w if nfl == 3 else max(0.8 * w, 1.1 * masses[0] * ratios[0])
            if mu2_ref >= w:
                continue
            sc = _real_sc(scheme, order, nfl, mu2_ref, a, 0.0006, ratios, masses)
            lo = float(sc.a(w, nfl)[0])
            hi = float(sc.a(w, nfl + 1)[0])
            want = _apply_lit(lo, scheme, nfl, "up", Ls[nfl - 3], order)
            if abs(hi - want) > 1e-7 * abs(want):
                return {"detail": "a_s^(%d)(mu^2)=%r and a_s^(%d)(mu^2)=%r at mu^2 = %r*m^2 do not fulfil the decoupling relation with L=ln(%r) (expected %r; %s, order %d)"
                        % (nfl, lo, nfl + 1, hi, ratios[nfl - 3], ratios[nfl - 3], want, scheme, order)}
    return None


def _sampler(rng):
    return {"a": rnd(rng, 0.008, 0.028), "alpha": rnd(rng, 0.008, 0.028), "aem": rnd(rng, 0.0004, 0.0008, den=100000), "nf": Fraction(rng.randint(3, 5)),
            "Lc": rnd(rng, -1.38, 1.38), "Lb": rnd(rng, -1.38, 1.38), "Lt": rnd(rng, -1.38, 1.38), "Lq": rnd(rng, -1.38, 1.38)}


# ---------------------------------------------------------------------------
# replays on the real, unpatched code
# ---------------------------------------------------------------------------
def _lit_tab(scheme, nfl, direction):
    t = DEC.up_table(scheme, nfl) if direction == "up" else DEC.down_table(scheme, nfl)
    return [[float(DEC.get(t, n, l)) for l in range(4)] for n in range(4)]


def replay_table(point, scheme, which, n, l):
    from eko import couplings as cpl

    nf = int(round(float(point.get("nf", 4))))
    if not 3 <= nf <= 5:
        return None
    tab = cpl.compute_matching_coeffs_up(scheme, nf) if which == "up" else cpl.compute_matching_coeffs_down(scheme, nf)
    lit = _lit_tab(scheme, nf, which)
    tol = 1e-3 if (n, l) == (3, 0) else 1e-9 * max(1.0, abs(lit[n][l]))
    if abs(tab[n, l] - lit[n][l]) > tol:
        return {"detail": "%s-matching coefficient c[%d,%d] for scheme %s, nf=%d is %r, published value %r" % (which, n, l, scheme, nf, float(tab[n, l]), lit[n][l])}
    return None


def _real_sc(scheme, order, nf_ref, mu2_ref, a, aem, ratios, masses):
    import numpy as np
    from eko.couplings import Couplings
    from eko.quantities.couplings import CouplingEvolutionMethod, CouplingsInfo
    from eko.quantities.heavy_quarks import QuarkMassScheme

    info = CouplingsInfo(alphas=a * 4 * np.pi, alphaem=aem * 4 * np.pi, ref=(mu2_ref**0.5, nf_ref), em_running=False)
    sc = Couplings(info, (order, 0), CouplingEvolutionMethod.EXACT, masses, QuarkMassScheme[scheme], ratios)
    return sc


def _setup(point):
    import math

    Ls = [float(point.get(k, d)) for k, d in (("Lc", 0.3), ("Lb", -0.4), ("Lt", 0.5))]
    if any(abs(x) > 1.39 for x in Ls):
        return None
    ratios = [math.exp(x) for x in Ls]
    masses = [2.0, 22.0, 30000.0]
    walls = [m * r for m, r in zip(masses, ratios)]
    return Ls, ratios, masses, walls


def _apply_lit(a, scheme, nfl, direction, L, order):
    t = _lit_tab(scheme, nfl, direction)
    return a * (1 + sum(a**n * L**l * t[n][l] for n in range(1, order) for l in range(n + 1)))


def replay_loop(point, scheme, order, nf_from, nf_to, unit=False):
    """real Couplings.a, reference exactly on a matching scale, target on the neighbouring one; oracle: published tables applied per threshold,
    joined by an independent ODE solution of the fixed-flavour legs in between (literature beta coefficients)."""
    from .C15 import _ode

    a = float(point.get("a", point.get("alpha", 0.02)))
    aem = float(point.get("aem", 0.0006))
    if unit:
        point = dict(point, Lc=0, Lb=0, Lt=0)
        point.pop("Lq", None)
    st = _setup(point)
    if st is None or not 0.005 <= a <= 0.0285:
        return None
    Ls, ratios, masses, walls = st
    steps = _steps(nf_from, nf_to)
    if len(steps) > 1 and (a > 0.02 or max(abs(x) for x in Ls) > 0.7):
        return None  # keep the long legs perturbative
    import math

    sc = _real_sc(scheme, order, nf_from, walls[steps[0][0] - 3], a, aem, ratios, masses)
    sc.atlas.origin = (walls[steps[0][0] - 3], nf_from)
    got = sc.a(walls[steps[-1][0] - 3], nf_to)
    want = a
    for i, (nfl, d) in enumerate(steps):
        want = _apply_lit(want, scheme, nfl, d, Ls[nfl - 3], order)
        if i + 1 < len(steps):
            nxt = steps[i + 1][0]
            nfmid = nfl + 1 if d == "up" else nfl
            lmu = math.log(walls[nxt - 3] / walls[nfl - 3])
            want = _ode(want, aem, lmu, (order, 0), False, nfmid, 3)[0]
    tol = 1e-8 if len(steps) == 1 else 3e-5
    if abs(got[0] - want) > tol * abs(want):
        return {"detail": "a_s after matching nf %d -> %d (%s, order %d, a=%r, logs %r) = %r; published decoupling relation gives %r" % (nf_from, nf_to, scheme, order, a, Ls, float(got[0]), want)}
    if abs(got[1] - aem) > 1e-12:
        return {"detail": "a_em changed by the matching: %r -> %r" % (aem, float(got[1]))}
    if abs(sc.a_ref[0] - a) > 1e-14:
        return {"detail": "a_ref modified by a query: %r -> %r" % (a, float(sc.a_ref[0]))}
    return None


def replay_rg(point, scheme, order, nfl):
    """numerical renormalisation-group check on the real code, independent of any table: match upward at two nearby ratios of the same
    heavy-quark mass; the two matched couplings must be connected by the (nf+1)-flavour RGE when the two unmatched ones are connected by the nf-flavour
    RGE (and, in the MS-bar scheme, the mass by its own RGE), up to O(a^(order+1))."""
    import math
    from .C15 import _ode, _lit_float
    from refs import rge_literature as L

    nfs = (3, 4, 5) if nfl is None else (nfl,)
    a0 = float(point.get("a", point.get("alpha", 0.02)))
    Lq = float(point.get("Lq", 0.4))
    if not (0.008 <= a0 <= 0.0285 and abs(Lq) <= 1.3):
        return None
    for nf in nfs:
        errs = []
        lams = [1.0, 0.5, 0.25]
        for l in lams:
            a = a0 * l
            h = 0.05
            # point 1: mu1^2 = m^2 e^Lq, coupling a (nf flavours).  point 2: mu2^2 = mu1^2 e^h
            a2 = _ode(a, 0.0006, h, (order, 0), False, nf, 3)[0]
            m = 5.0  # heavy-quark mass^2 at mu1 (MS-bar: running mass m(mu1))
            if scheme == "MSBAR":
                # m(mu2)^2 from its RGE in the (nf+1) theory, d ln m^2 / d ln mu^2 = -2 gamma_m(A); A follows the (nf+1) RGE from the matched value
                F1 = _match_real(scheme, order, nf, a, Lq)
                z3 = Fraction(1.2020569031595942)
                gam = [float(L.gamma0()), float(L.gamma1(nf + 1)), float(L.gamma2(nf + 1, z3))][: max(order - 1, 1)]
                # integrate ln m^2 along with A
                import mpmath as mp

                bet = _lit_float(nf + 1, 3)[0][:order]

                def f(t, y):
                    A = y[0]
                    return [-sum(bet[k] * A ** (k + 2) for k in range(order)), -2 * sum(g * A ** (k + 1) for k, g in enumerate(gam))]

                sol = mp.odefun(f, 0, [mp.mpf(F1), mp.mpf(0)], tol=mp.mpf(10) ** (-15))
                y = sol(h)
                A2_rge, dlnm2 = float(y[0]), float(y[1])
                L2 = Lq + h - dlnm2
            else:
                F1 = _match_real(scheme, order, nf, a, Lq)
                A2_rge = _ode(F1, 0.0006, h, (order, 0), False, nf + 1, 3)[0]
                L2 = Lq + h
            F2 = _match_real(scheme, order, nf, a2, L2)
            errs.append(abs(F2 - A2_rge) / h)
        # the defect must vanish like a^(order+1)
        import math as _m

        pairs = [(l, e) for l, e in zip(lams, errs) if e > 1e-16]
        if len(pairs) < 2:
            continue
        ex = _m.log(pairs[-2][1] / pairs[-1][1]) / _m.log(pairs[-2][0] / pairs[-1][0])
        if ex < order + 1 - 0.6:
            return {"detail": "matched couplings at two nearby matching scales are not connected by the (nf+1)-flavour RGE: defect/h at a*(1,1/2,1/4) = %r scales like a^%.2f < a^%d (%s, order %d, nf %d->%d, L=%r)" % (errs, ex, order + 1, scheme, order, nf, nf + 1, Lq)}
    return None


def _match_real(scheme, order, nf, a, Lq):
    import math

    ratios = [1.0, 1.0, 1.0]
    ratios[nf - 3] = math.exp(Lq)
    masses = [2.0, 22.0, 30000.0]
    wall = masses[nf - 3] * ratios[nf - 3]
    sc = _real_sc(scheme, order, nf, wall, a, 0.0006, ratios, masses)
    sc.atlas.origin = (wall, nf)
    return float(sc.a(wall, nf + 1)[0])


def replay_inverse(point, scheme, order, nfl):
    import math

    a0 = float(point.get("alpha", point.get("a", 0.02)))
    st = _setup(point)
    if st is None or not 0.005 <= a0 <= 0.0285:
        return None
    Ls, ratios, masses, walls = st
    w = nfl - 3
    errs, lams = [], [1.0, 0.5, 0.25, 0.125]
    for l in lams:
        a = a0 * l
        s1 = _real_sc(scheme, order, nfl, walls[w], a, 0.0006, ratios, masses)
        s1.atlas.origin = (walls[w], nfl)
        up = float(s1.a(walls[w], nfl + 1)[0])
        s2 = _real_sc(scheme, order, nfl + 1, walls[w], up, 0.0006, ratios, masses)
        s2.atlas.origin = (walls[w], nfl + 1)
        back = float(s2.a(walls[w], nfl)[0])
        errs.append(abs(back - a))
    if max(errs) < 1e-15:
        return None
    pairs = [(l, e) for l, e in zip(lams, errs) if e > 1e-17]
    if len(pairs) < 2:
        return None
    ex = math.log(pairs[-2][1] / pairs[-1][1]) / math.log(pairs[-2][0] / pairs[-1][0])
    if ex < order + 1 - 0.6:
        return {"detail": "down(up(a)) - a at a*(1,1/2,1/4,1/8) = %r scales like a^%.2f < a^%d (%s, order %d, threshold nf %d|%d, L=%r)" % (errs, ex, order + 1, scheme, order, nfl, nfl + 1, Ls[w])}
    return None


# ---------------------------------------------------------------------------
def main():
    chk = H.Check("C16")
    thorough = H.tier() == "thorough"
    preimport("eko.couplings", "refs.decoupling", "refs.rge_literature")
    chk.bounds = ["schemes POLE and MSBAR, orders 1-4, every single threshold in both directions and every two- and three-threshold route (thorough) / the "
                  "two-threshold routes 3->5 and 6->4 (quick); reference coupling, alpha_em and the three threshold logarithms free symbols (any ratio)",
                  "tables: nf a symbolic real in [3,5]; decimal entries compared to the printed digits",
                  "RG consistency through O(a^order) (one order below the first unimplemented matching coefficient), literature beta_k and gamma_m,k with zeta3 symbolic",
                  "inverse: series in a carried one order beyond the asserted one"]
    chk.bounds.append("construction: Couplings.__init__ with symbolic squared masses and ratios: patch boundary == ratio*m^2, the scale whose logarithm the loop applies")
    chk.out_of_claim = ["fixed-flavour evolution between thresholds (C15) and the choice of the path (C19); here the legs are replaced by a recording identity",
                        "numerical position of the thresholds (np.isclose tolerance) in real runs", "QED corrections to the decoupling (none implemented)"]
    chk.stubs = ["Couplings.compute -> recording identity (returns a copy of its input)", "thresholds_ratios -> tokens whose np.log is a free symbol",
                 "builtin float() in eko.couplings -> identity on symbolic values",
                 "compute_matching_coeffs_up -> the real function with every float entry of its result lifted to the exact rational it denotes (so that "
                 "invert_matching_coeffs and the loop run in exact arithmetic); nf handed down as an exact constant"]
    chk.assumptions = ["refs/decoupling.py and refs/rge_literature.py transcribe the cited papers correctly (cross-validated: zeta*(1/zeta)=1, printed decimals, RG consistency of the oracle itself is an obligation)",
                       "MS-bar scheme: L = ln(mu^2/m_h(mu)^2) with the heavy-quark mass running in the (nf+1)-flavour theory (the convention of the published relation the code cites)"]
    for scheme in ("POLE", "MSBAR"):
        chk.case("table.%s" % scheme, case_table, scheme=scheme)
        singles = [(3, 4), (4, 5), (5, 6), (4, 3), (5, 4), (6, 5)]
        multi = [(3, 5), (6, 4)] if not thorough else [(3, 5), (4, 6), (3, 6), (5, 3), (6, 4), (6, 3)]
        for order in (1, 2, 3, 4):
            chk.case("loop.%s.o%d" % (scheme, order), case_loop, scheme=scheme, order=order, routes=singles + multi)
        chk.case("continuity.%s" % scheme, case_continuity, scheme=scheme)
        chk.case("construction.%s" % scheme, case_construction, scheme=scheme)
        for order in (2, 3, 4):
            chk.case("rg.%s.o%d" % (scheme, order), case_rg, scheme=scheme, order=order)
            chk.case("inverse.%s.o%d" % (scheme, order), case_inverse, scheme=scheme, order=order)
        chk.case("rg.%s.symbolic-nf" % scheme, case_rg_symbolic_nf, scheme=scheme)
    return chk.run()


if __name__ == "__main__":
    import sys

    sys.exit(main())
