"""C42  Reshaping an operator commutes with applying it.

Real code executed symbolically: eko.io.manipulate.{flavor_reshape, to_evol, to_uni_evol, xgrid_reshape,
xgrid_check, xgrid_compute_rotation, rotation} on the real eko.io.items.Operator dataclass holding symbolic
tensors, and, through xgrid_compute_rotation, the real eko.interpolation code on symbolic grids (see C34).

Goals
  flavour:  new.operator . (R_in f)  ==  R_out . (operator . f)     for symbolic operator, rotations and input f
            (R_in/R_out symbolic 2x2 / 3x3, or the constant 14x14 evolution / unified-evolution rotations)
  x-grid :  target side: operator whose output index carries a polynomial of degree <= interpdeg in u = ln x (or x)
            -> the reshaped operator carries the same polynomial evaluated at the new nodes;
            input side: symbolic operator, input vector = polynomial sampled on the new input grid
            -> same result as the original operator on the polynomial sampled on the old grid;
            including the branch where xgrid_check declares the new grid 'close' and nothing is done.
"""
from fractions import Fraction

import numpy as realnp
import z3

from .common import *  # noqa
from symx.solver import prove_zero, prove_formula, assume_z3
from symx.val import EngineError, SymbolicEscape
from symx.poly import tofrac
from symx import harness as H
from . import C34
from .C34 import explore, LogAxioms, sym_nodes, decide

MOD = "harness.C42"
KEY_EXIT = "xgrid_reshape:allclose-early-exit"


# ---------------------------------------------------------------------------
class _ExactLinalg(shim._Linalg):
    """numpy.linalg.inv of a constant integer matrix by its contract (exact inverse, rational arithmetic)."""

    def inv(self, m):
        if shim._is_obj(m):
            return super().inv(m)
        a = realnp.asarray(m)
        if a.ndim != 2 or a.shape[0] != a.shape[1] or not realnp.all(a == realnp.round(a)):
            return realnp.linalg.inv(m)
        n = a.shape[0]
        M = [[Fraction(int(a[i, j])) for j in range(n)] + [Fraction(int(i == j)) for j in range(n)] for i in range(n)]
        for c in range(n):
            p = next(r for r in range(c, n) if M[r][c] != 0)
            M[c], M[p] = M[p], M[c]
            pv = M[c][c]
            M[c] = [v / pv for v in M[c]]
            for r in range(n):
                if r != c and M[r][c] != 0:
                    f = M[r][c]
                    M[r] = [v - f * w for v, w in zip(M[r], M[c])]
        out = realnp.empty((n, n), dtype=object)
        for i in range(n):
            for j in range(n):
                out[i, j] = SR(Q(Poly.const(M[i][n + j])))
        return out


class TypedBuf(realnp.ndarray):
    """Object array that remembers the numeric dtype numpy would have given the buffer and casts on assignment the way
    numpy does (ndarray.__setitem__ casts 'unsafe': storing into an integer buffer truncates towards zero).  Values stay
    exact; a non-constant symbolic value stored into an integer buffer cannot be represented and escapes."""

    def __array_finalize__(self, obj):
        self._kind = getattr(obj, "_kind", None) if (obj is not None and self.base is not None) else getattr(self, "_kind", None)

    def _cast(self, e):
        if self._kind not in ("i", "u"):
            return e
        if isinstance(e, Cx):
            e = e.re  # numpy drops the imaginary part (ComplexWarning)
        if isinstance(e, SR):
            if not e.is_const():
                raise SymbolicEscape("symbolic value stored into an integer-dtype buffer")
            e = Fraction(e.const_value())
        if isinstance(e, (bool, realnp.bool_)):
            return int(e)
        fr = Fraction(e) if not isinstance(e, (float, realnp.floating)) else Fraction(float(e))
        return SR(Q(Poly.const(int(fr))))  # int() truncates towards zero, as the C cast does

    def __setitem__(self, key, value):
        if self._kind in ("i", "u"):
            if isinstance(value, realnp.ndarray) or isinstance(value, (list, tuple)):
                value = shim.emap(self._cast, realnp.asarray(value, dtype=object))
            else:
                value = self._cast(value)
        realnp.ndarray.__setitem__(self, key, value)


def typed_zeros(shape, kind):
    buf = realnp.empty(shape, dtype=object).view(TypedBuf)
    buf._kind = kind
    for idx in realnp.ndindex(buf.shape):
        realnp.ndarray.__setitem__(buf, idx, SR(0))
    return buf


class NP(C34.NP):
    def __init__(self):
        super().__init__()
        self.linalg = _ExactLinalg(self)

    def zeros_like(self, a, dtype=None, **k):
        """buffer with the dtype numpy would choose: for a concrete numeric array the buffer keeps that array's kind
        (integer buffers truncate what is stored into them), for symbolic / object input an ordinary object array"""
        if dtype is None and isinstance(a, realnp.ndarray) and a.dtype != object and a.dtype.kind in "iuf":
            return typed_zeros(a.shape, a.dtype.kind)
        if dtype is not None and realnp.dtype(dtype).kind in "iu":
            return typed_zeros(realnp.shape(a), realnp.dtype(dtype).kind)
        return super().zeros_like(a, dtype=dtype, **k)

    def einsum(self, *a, **k):
        k.pop("optimize", None)  # contraction order does not change the value; plain einsum works on object arrays
        a = [realnp.asarray(x, dtype=object) if isinstance(x, realnp.ndarray) else x for x in a]
        return realnp.einsum(*a, **k)


def load():
    import warnings

    warnings.simplefilter("ignore")  # "The new grid is close to the current one" etc.
    np_ = NP()
    ip = sym_module("eko.interpolation", np=np_)
    man = sym_module("eko.io.manipulate", np=np_)
    assert man.interpolation is ip
    C34.track_module_state(ip)  # every explored path starts from the import-time module state (caches, registries)
    C34.track_module_state(man)
    C34._install_memo()
    return man, ip, np_


def sym_tensor(name, shape):
    t = realnp.empty(shape, dtype=object)
    for idx in realnp.ndindex(*shape):
        t[idx] = SR.var(name + "".join("_%d" % i for i in idx))
    return t


def _apply(op, f):
    """(op . f)[a, j] = sum_{b,k} op[a,j,b,k] f[b,k]   (written out: independent of the einsum strings under test)"""
    A, J, B, K = op.shape
    out = realnp.empty((A, J), dtype=object)
    for a in range(A):
        for j in range(J):
            tot = SR(0)
            for b in range(B):
                for k in range(K):
                    tot = tot + op[a, j, b, k] * f[b, k]
            out[a, j] = tot
    return out


def _rot(R, v):
    """(R v)[c, j] = sum_a R[c,a] v[a,j]"""
    C, A = R.shape
    out = realnp.empty((C, v.shape[1]), dtype=object)
    for c in range(C):
        for j in range(v.shape[1]):
            tot = SR(0)
            for a in range(A):
                tot = tot + R[c, a] * v[a, j]
            out[c, j] = tot
    return out


def _not_near_identity(R, first_far=False):
    """domain restriction: R is either exactly the identity or fails numpy.allclose(R, eye) (defaults);
    first_far: already R[0,0] fails the closeness test (bounds the number of paths through allclose)"""
    n = R.shape[0]
    close, equal = [], []
    for i in range(n):
        for j in range(n):
            d = S.poly_to_z3((R[i, j] - int(i == j)).v.n)
            tol = z3.RealVal(str(Fraction(tofrac(1e-8)) + Fraction(tofrac(1e-5)) * int(i == j)))
            close.append(z3.And(d <= tol, -d <= tol))
            equal.append(d == 0)
    if first_far:
        assume_z3(z3.Not(close[0]))
    else:
        assume_z3(z3.Or(z3.Not(z3.And(close)), z3.And(equal)))


# ---------------------------------------------------------------------------
def case_flavor_sym(log, F, X, sides, first_far=False):
    """flavor_reshape with symbolic F x F rotations. sides in {'target', 'input', 'both'}"""
    man, ip, np_ = load()
    log.encode(man.flavor_reshape)

    def run():
        O = sym_tensor("O", (F, X, F, X))
        E = sym_tensor("E", (F, X, F, X))
        f = sym_tensor("f", (F, X))
        Rt = sym_tensor("Rt", (F, F)) if sides in ("target", "both") else None
        Ri = sym_tensor("Ri", (F, F)) if sides in ("input", "both") else None
        for R in (Rt, Ri):
            if R is not None:
                _not_near_identity(R, first_far)
        new = man.flavor_reshape(man.Operator(operator=O, error=E), targetpids=Rt, inputpids=Ri)
        lhs = _apply(new.operator, _rot(Ri, f) if Ri is not None else f)
        rhs = _apply(O, f)
        rhs = _rot(Rt, rhs) if Rt is not None else rhs
        for c in range(F):
            for j in range(X):
                v = prove_zero(lhs[c, j] - rhs[c, j], "flavor_reshape(%s): [new.(R_in f)]_%d,%d == [R_out.(op.f)]_%d,%d" % (sides, c, j, c, j))
                decide(log, v, key="flavor_reshape:commute", replay=(MOD, "replay_flavor", {"F": F, "X": X, "sides": sides}), sampler=_flavor_sampler(F, X))
        # the error tensor goes through the same linear map
        lhs = _apply(new.error, _rot(Ri, f) if Ri is not None else f)
        rhs = _apply(E, f)
        rhs = _rot(Rt, rhs) if Rt is not None else rhs
        for c in range(F):
            for j in range(X):
                v = prove_zero(lhs[c, j] - rhs[c, j], "flavor_reshape(%s): error tensor rotated like the operator, component %d,%d" % (sides, c, j))
                decide(log, v, key="flavor_reshape:error", replay=(MOD, "replay_flavor", {"F": F, "X": X, "sides": sides, "err": True}), sampler=_flavor_sampler(F, X))
        log.twin("rotations not within allclose tolerance of the identity (or exactly it)")
        log.collect_ctx()

    _r, pm = explore(run, max_paths=3000)
    log.path_stats(pm)


def case_flavor_const(log, func_name, source, target, X):
    fn = func_name
    """to_evol / to_uni_evol: constant 14x14 rotation, symbolic 14 x X x 14 x X operator"""
    man, ip, np_ = load()
    func = getattr(man, fn)
    log.encode(func, man.flavor_reshape)
    br = man.br
    Rc = br.rotate_flavor_to_evolution if fn == "to_evol" else br.rotate_flavor_to_unified_evolution

    def run():
        F = 14
        O = sym_tensor("O", (F, X, F, X))
        f = sym_tensor("f", (F, X))
        new = func(man.Operator(operator=O), source=source, target=target)
        R = realnp.empty((F, F), dtype=object)
        for i in range(F):
            for j in range(F):
                R[i, j] = SR(Q(Poly.const(int(Rc[i, j]))))
        lhs = _apply(new.operator, _rot(R, f) if source else f)
        rhs = _apply(O, f)
        rhs = _rot(R, rhs) if target else rhs
        for c in range(F):
            for j in range(X):
                v = prove_zero(lhs[c, j] - rhs[c, j], "%s(source=%s,target=%s): [new.(R f)]_%d,%d == [R'.(op.f)]_%d,%d" % (fn, source, target, c, j, c, j))
                decide(log, v, key="%s:commute" % fn, replay=(MOD, "replay_flavor_const", {"fn": fn, "source": source, "target": target, "X": X}),
                           sampler=lambda rng: {})
        if new.error is not None:
            log.inconclusive.append("%s: error tensor appeared from nowhere" % fn)
        log.twin("")
        log.collect_ctx()

    _r, pm = explore(run)
    log.path_stats(pm)


DTYPE_MATRICES = {
    # name -> rows; integer entries, inverse not integer-valued
    "2x2": [[1, -1], [1, 1]],
    "3x3": [[2, 1, 0], [1, 3, 1], [0, 1, 2]],
    "2x2diag": [[2, 0], [0, 4]],
}


def case_flavor_dtype(log, mat, dtype, sides, X=2):
    """flavor_reshape with a CONCRETE rotation matrix handed over as a numpy array of integer or float dtype (as callers do:
    br.rotate_flavor_to_evolution is int64), symbolic operator / error tensor / input vector.  The same integer-valued
    matrix must act identically whatever its dtype."""
    man, ip, np_ = load()
    log.encode(man.flavor_reshape)
    rows = DTYPE_MATRICES[mat]
    F = len(rows)

    def run():
        O = sym_tensor("O", (F, X, F, X))
        E = sym_tensor("E", (F, X, F, X))
        f = sym_tensor("f", (F, X))
        Rnp = realnp.array(rows, dtype=dtype)  # what the real function receives
        R = realnp.empty((F, F), dtype=object)
        for a in range(F):
            for b in range(F):
                R[a, b] = SR(Q(Poly.const(int(rows[a][b]))))
        Rt = Rnp.copy() if sides in ("target", "both") else None
        Ri = Rnp.copy() if sides in ("input", "both") else None
        new = man.flavor_reshape(man.Operator(operator=O, error=E), targetpids=Rt, inputpids=Ri)
        for T, Tn, key in ((O, new.operator, "flavor_reshape:commute"), (E, new.error, "flavor_reshape:error")):
            lhs = _apply(Tn, _rot(R, f) if Ri is not None else f)
            rhs = _apply(T, f)
            rhs = _rot(R, rhs) if Rt is not None else rhs
            for c in range(F):
                for j in range(X):
                    v = prove_zero(SR(0) + lhs[c, j] - rhs[c, j], "flavor_reshape(%s, %s matrix of dtype %s)%s: [new.(R_in f)]_%d,%d == [R_out.(op.f)]_%d,%d"
                                   % (sides, mat, realnp.dtype(dtype).name, " [error tensor]" if T is E else "", c, j, c, j))
                    decide(log, v, key=key, replay=(MOD, "replay_flavor_dtype", {"mat": mat, "dtype": realnp.dtype(dtype).name, "sides": sides, "X": X, "err": T is E}),
                           sampler=lambda rng: {}, candidates=[{}])
        if realnp.array_equal(Rnp, realnp.array(rows, dtype=dtype)) is False:
            raise EngineError("rotation matrix modified in place")
        log.twin("")
        log.collect_ctx()

    _r, pm = explore(run)
    log.path_stats(pm)


def _grid(ip, names, mode, ax, lo=None, hi=None):
    """real XGrid on sorted symbolic points; returns (XGrid, raw symbols, interpolation-variable values)"""
    xs = [SR.var(nm) if isinstance(nm, str) else nm for nm in names]
    first = xs[0]
    assume(first, ">0" if mode else ">=0")
    for a, b in zip(xs, xs[1:]):
        assume(b - a, ">0")
    xg = ip.XGrid(list(xs), log=mode)
    us = list(xg.grid)
    if mode:
        for x, u in zip(xs, us):
            if not any(x is y for y, _ in ax.pairs):
                ax.add(x, u)
    for a, b in zip(us, us[1:]):
        assume(b - a - ip._atol_eps, ">0")
    return xg, xs, us


def _no_window(u, us, eps):
    """u is not inside the tolerance window (u_k - eps, u_k) of an interior node of `us`"""
    for k in range(1, len(us) - 1):
        a = S.poly_to_z3((u - us[k] + eps).v.n)
        b = S.poly_to_z3((u - us[k]).v.n)
        assume_z3(z3.Or(a <= 0, b >= 0))


def case_xgrid_target(log, mode, n, deg, tspec, F=1):
    """xgrid_reshape(targetgrid=...).  tspec: list with one entry per new node: int k -> the old node x_k itself,
    ('in', k) -> a symbol in (x_k, x_{k+1}), ('near', k) -> a symbol between the neighbours of x_k (early exit reachable
    when the list has n entries)."""
    man, ip, np_ = load()
    log.encode(man.xgrid_reshape, man.xgrid_check, man.xgrid_compute_rotation, man.rotation, ip.InterpolatorDispatcher.get_interpolation,
               ip.InterpolatorDispatcher.__init__, ip.evaluate_x, ip.log_evaluate_x, ip.Area._compute_coefs)
    eps = ip._atol_eps
    tnames = []
    for i, s in enumerate(tspec):
        tnames.append("x%d" % s if isinstance(s, int) else "t%d" % i)

    def run():
        ax = LogAxioms()
        xg, xs, us = _grid(ip, ["x%d" % i for i in range(n)], mode, ax)
        tl = []
        for i, s in enumerate(tspec):
            if isinstance(s, int):
                tl.append(xs[s])
            else:
                tl.append(SR.var("t%d" % i))
        tg, ts, tus = _grid(ip, tl, mode, ax)
        for i, s in enumerate(tspec):
            if isinstance(s, int):
                continue
            kind, k = s
            lo, hi = (k, k + 1) if kind == "in" else (max(k - 1, 0), min(k + 1, n - 1))
            assume(tus[i] - us[lo], ">=0" if (kind == "near" and lo == k) else ">0")
            assume(us[hi] - tus[i], ">=0" if (kind == "near" and hi == k) else ">0")
            _no_window(tus[i], us, eps)
        # operator whose output index carries sum_m c_m u_j^m
        cs = [sym_tensor("c%d" % m, (F, F, n)) for m in range(deg + 1)]
        O = realnp.empty((F, n, F, n), dtype=object)
        for a in range(F):
            for j in range(n):
                for b in range(F):
                    for k in range(n):
                        O[a, j, b, k] = sum((cs[m][a, b, k] * us[j] ** m for m in range(deg + 1)), SR(0))
        del np_.trace[:]
        new = man.xgrid_reshape(man.Operator(operator=O), xg, deg, targetgrid=tg)
        early = any(tag in ("allclose", "array_equal") and res for tag, res in np_.trace)
        key = KEY_EXIT if early else "xgrid_reshape:target"
        if new.operator.shape != (F, len(ts), F, n):
            raise EngineError("unexpected shape %r" % (new.operator.shape,))
        for i in range(len(ts)):
            if isinstance(tspec[i], int) and not early:
                continue
            tot_what = "xgrid_reshape(target): output polynomial of degree <= %d reproduced at new node %d%s" % (deg, i, " ('close' branch: nothing done)" if early else "")
            res = SR(0)
            # one obligation per new node: all (a,b,k) components combined with fresh symbolic weights
            for a in range(F):
                for b in range(F):
                    for k in range(n):
                        want = sum((cs[m][a, b, k] * tus[i] ** m for m in range(deg + 1)), SR(0))
                        res = res + SR.var("w_%d_%d_%d" % (a, b, k)) * (new.operator[a, i, b, k] - want)
            v = prove_zero(res, tot_what)
            cands = ()
            if early and not v.holds:  # try the grid reaching x = 1e-9 first, then the solver's own model
                cands = _close_candidates(n, tspec) + ([v.model] if v.model else [])
                v.model = None
            decide(log, v, key=key, replay=(MOD, "replay_xgrid", {"mode": mode, "n": n, "deg": deg, "tnames": tnames, "side": "target"}),
                   sampler=_xgrid_sampler(n, mode, tspec), candidates=cands)
        log.twin("grids")
        log.collect_ctx()

    _r, pm = explore(run, max_paths=3000)
    log.path_stats(pm)


def case_xgrid_input(log, mode, n, deg, sspec, F=1, also_target=False):
    """xgrid_reshape(inputgrid=...): the interpolator is built on the NEW input grid and evaluated at the old nodes.
    sspec as in case_xgrid_target but must cover the old grid: first entry 0 or ('below', 0), last n-1."""
    man, ip, np_ = load()
    log.encode(man.xgrid_reshape, man.xgrid_check, man.xgrid_compute_rotation, man.rotation, ip.InterpolatorDispatcher.get_interpolation)
    eps = ip._atol_eps
    snames = ["x%d" % s if isinstance(s, int) else "s%d" % i for i, s in enumerate(sspec)]

    def run():
        ax = LogAxioms()
        xg, xs, us = _grid(ip, ["x%d" % i for i in range(n)], mode, ax)
        sl = [xs[s] if isinstance(s, int) else SR.var("s%d" % i) for i, s in enumerate(sspec)]
        sg, ss, sus = _grid(ip, sl, mode, ax)
        for i, s in enumerate(sspec):
            if isinstance(s, int):
                continue
            kind, k = s
            if kind == "below":
                assume(us[k] - sus[i], ">0")
            else:
                lo, hi = (k, k + 1) if kind == "in" else (max(k - 1, 0), min(k + 1, n - 1))
                assume(sus[i] - us[lo], ">=0" if (kind == "near" and lo == k) else ">0")
                assume(us[hi] - sus[i], ">=0" if (kind == "near" and hi == k) else ">0")
        for u in us:  # old nodes outside the tolerance windows of the new grid
            _no_window(u, sus, eps)
        m_new = len(ss)
        O = sym_tensor("O", (F, n, F, n))
        del np_.trace[:]
        if also_target:
            new = man.xgrid_reshape(man.Operator(operator=O), xg, deg, targetgrid=sg, inputgrid=sg)
        else:
            new = man.xgrid_reshape(man.Operator(operator=O), xg, deg, inputgrid=sg)
        early = any(tag in ("allclose", "array_equal") and res for tag, res in np_.trace)
        key = KEY_EXIT if early else "xgrid_reshape:input"
        if also_target and not early:
            # simultaneous rotation == target rotation followed by input rotation (both decided separately)
            one = man.xgrid_reshape(man.Operator(operator=O), xg, deg, targetgrid=sg)
            two = man.xgrid_reshape(one, xg, deg, inputgrid=sg)
            tot = SR(0)
            for idx in realnp.ndindex(*new.operator.shape):
                tot = tot + SR.var("w" + "".join("_%d" % i for i in idx)) * (new.operator[idx] - two.operator[idx])
            v = prove_zero(tot, "xgrid_reshape(target+input) == xgrid_reshape(input) o xgrid_reshape(target)")
            decide(log, v, key="xgrid_reshape:simultaneous", replay=(MOD, "replay_xgrid", {"mode": mode, "n": n, "deg": deg, "tnames": snames, "side": "both"}),
                       sampler=_xgrid_sampler(n, mode, sspec, "s"))
        else:
            for m in range(deg + 1):
                what = "xgrid_reshape(input): new.op applied to u^%d sampled on the new grid == op applied to u^%d on the old grid%s" % (m, m, " ('close' branch: nothing done)" if early else "")
                res = SR(0)
                for a in range(F):
                    for j in range(n):
                        for b in range(F):
                            lhs = sum((new.operator[a, j, b, l] * sus[l] ** m for l in range(m_new)), SR(0))
                            rhs = sum((O[a, j, b, k] * us[k] ** m for k in range(n)), SR(0))
                            res = res + SR.var("w_%d_%d_%d" % (a, j, b)) * (lhs - rhs)
                v = prove_zero(res, what)
                cands = ()
                if early and not v.holds:
                    cands = _close_candidates(n, sspec, "s") + ([v.model] if v.model else [])
                    v.model = None
                decide(log, v, key=key, replay=(MOD, "replay_xgrid", {"mode": mode, "n": n, "deg": deg, "tnames": snames, "side": "input"}),
                       sampler=_xgrid_sampler(n, mode, sspec, "s"), candidates=cands)
        log.twin("grids")
        log.collect_ctx()

    _r, pm = explore(run, max_paths=3000)
    log.path_stats(pm)


def case_xgrid_sequence(log, mode, n, deg, side, m=1):
    """State across calls: xgrid_reshape towards the new grid g is first applied to an operator living on the old grid x and
    then, in the same process, with the same degree and on the same side, to an operator living on the old grid y of equal
    length that differs from x at node m (y_m a free symbol between its neighbours).  The second result must be what a
    fresh process gives: decided by the same goals as the single-call cases, with respect to the grid y."""
    man, ip, np_ = load()
    log.encode(man.xgrid_reshape, man.xgrid_compute_rotation, man.rotation, man.xgrid_check)
    eps = ip._atol_eps
    F = 1
    spec = ([0] if side == "target" else [("below", 0)]) + [("in", k) for k in range(n - 1)] + [n - 1]
    gnames = ["x%d" % sp if isinstance(sp, int) else "g%d" % i for i, sp in enumerate(spec)]
    kw = {"mode": mode, "n": n, "deg": deg, "side": side, "m": m, "gnames": gnames}
    key = "xgrid_reshape:state-across-calls"

    def run():
        ax = LogAxioms()
        xg, xs, us = _grid(ip, ["x%d" % i for i in range(n)], mode, ax)
        z = SR.var("z")
        ylist = list(xs)
        ylist[m] = z
        yg, ys, vs = _grid(ip, ylist, mode, ax)
        gl = [xs[sp] if isinstance(sp, int) else SR.var("g%d" % i) for i, sp in enumerate(spec)]
        gg, gs, gus = _grid(ip, gl, mode, ax)
        for i, sp in enumerate(spec):
            if isinstance(sp, int):
                continue
            kind, k = sp
            if kind == "below":
                assume(us[k] - gus[i], ">0")
            else:
                assume(gus[i] - us[k], ">0")
                assume(us[k + 1] - gus[i], ">0")
        if side == "target":
            for gu in gus:  # new nodes outside the comparison windows of both old grids
                _no_window(gu, us, eps)
                _no_window(gu, vs, eps)
        else:
            for u in list(us) + [vs[m]]:  # old nodes outside the windows of the new grid
                _no_window(u, gus, eps)
        P = sym_tensor("P", (F, n, F, n))
        args = {"targetgrid": gg} if side == "target" else {"inputgrid": gg}
        man.xgrid_reshape(man.Operator(operator=P), xg, deg, **args)  # first call, on the old grid x
        smp = _seq_sampler(n, mode, spec, m)
        if side == "target":
            cs = [sym_tensor("c%d" % q, (F, F, n)) for q in range(deg + 1)]
            O = realnp.empty((F, n, F, n), dtype=object)
            for j in range(n):
                for k in range(n):
                    O[0, j, 0, k] = sum((cs[q][0, 0, k] * vs[j] ** q for q in range(deg + 1)), SR(0))
            new = man.xgrid_reshape(man.Operator(operator=O), yg, deg, **args)  # second call, on the old grid y
            for i in range(len(gs)):
                res = SR(0)
                for k in range(n):
                    want = sum((cs[q][0, 0, k] * gus[i] ** q for q in range(deg + 1)), SR(0))
                    res = res + SR.var("w_%d" % k) * (new.operator[0, i, 0, k] - want)
                v = prove_zero(res, "second xgrid_reshape(target) in the process (other old grid, same new grid): output polynomial reproduced at new node %d" % i)
                decide(log, v, key=key, replay=(MOD, "replay_xgrid_sequence", kw), sampler=smp)
        else:
            O = sym_tensor("O", (F, n, F, n))
            new = man.xgrid_reshape(man.Operator(operator=O), yg, deg, **args)
            for q in range(deg + 1):
                res = SR(0)
                for j in range(n):
                    lhs = sum((new.operator[0, j, 0, l] * gus[l] ** q for l in range(len(gs))), SR(0))
                    rhs = sum((O[0, j, 0, k] * vs[k] ** q for k in range(n)), SR(0))
                    res = res + SR.var("w_%d" % j) * (lhs - rhs)
                v = prove_zero(res, "second xgrid_reshape(input) in the process (other old grid, same new grid): u^%d on the new grid acts like u^%d on the old grid" % (q, q))
                decide(log, v, key=key, replay=(MOD, "replay_xgrid_sequence", kw), sampler=smp)
        log.twin("three grids")
        log.collect_ctx()

    _r, pm = explore(run, max_paths=3000)
    log.path_stats(pm)


def _seq_sampler(n, mode, spec, m):
    def s(rng):
        p = _xgrid_sampler(n, mode, spec, "g")(rng)
        lo, hi = p["x%d" % (m - 1)], p["x%d" % (m + 1)]
        p["z"] = lo + (hi - lo) * Fraction(rng.randint(100, 900), 1000)
        return p

    return s


def case_errors(log):
    """concrete shapes: calling without any grid / rotation is an error; error tensors stay None / are reshaped"""
    man, ip, np_ = load()
    log.encode(man.xgrid_reshape, man.flavor_reshape)

    def run():
        ax = LogAxioms()
        xg, xs, us = _grid(ip, ["x0", "x1", "x2"], True, ax)
        O = sym_tensor("O", (1, 3, 1, 3))
        flags = []
        for call in (lambda: man.xgrid_reshape(man.Operator(operator=O), xg, 1), lambda: man.flavor_reshape(man.Operator(operator=O)),
                     lambda: man.to_evol(man.Operator(operator=O), source=False, target=False)):
            try:
                call()
                flags.append(False)
            except ValueError:
                flags.append(True)
        v = prove_formula(z3.BoolVal(all(flags)), "xgrid_reshape / flavor_reshape / to_evol without any grid or rotation raise ValueError")
        decide(log, v, key="reshape:no-argument", replay=(MOD, "replay_errors", {}), candidates=[{}])
        # the same grid (identical symbols): nothing done, operator returned unchanged (copy)
        new = man.xgrid_reshape(man.Operator(operator=O), xg, 1, targetgrid=xg, inputgrid=xg)
        tot = SR(0)
        for idx in realnp.ndindex(*O.shape):
            tot = tot + SR.var("w" + "".join("_%d" % i for i in idx)) * (new.operator[idx] - O[idx])
        v = prove_zero(tot, "xgrid_reshape to the identical grids returns the operator unchanged")
        decide(log, v, key="xgrid_reshape:identical", replay=(MOD, "replay_errors", {}), candidates=[{}])
        log.twin("")

    _r, pm = explore(run)
    log.path_stats(pm)


# ---------------------------------------------------------------------------
# samplers / candidates
# ---------------------------------------------------------------------------
def _flavor_sampler(F, X):
    def s(rng):
        p = {}
        for nm in ("Rt", "Ri"):
            for i in range(F):
                for j in range(F):
                    p["%s_%d_%d" % (nm, i, j)] = rnd(rng, -2, 2) + (3 if i == j else 0)
        return p

    return s


def _spec_point(xs, spec, rng, prefix):
    p = {}
    n = len(xs)
    for i, s in enumerate(spec):
        if isinstance(s, int):
            continue
        kind, k = s
        w = Fraction(rng.randint(100, 900), 1000)
        if kind == "below":
            p["%s%d" % (prefix, i)] = xs[k] * w
        elif kind == "in":
            p["%s%d" % (prefix, i)] = xs[k] + (xs[k + 1] - xs[k]) * w
        else:
            lo, hi = max(k - 1, 0), min(k + 1, n - 1)
            p["%s%d" % (prefix, i)] = xs[lo] + (xs[hi] - xs[lo]) * w
    return p


def _xgrid_sampler(n, mode, spec, prefix="t"):
    def s(rng):
        xs = C34._grid_point(rng, n, mode)
        p = {"x%d" % i: v for i, v in enumerate(xs)}
        p.update(_spec_point(xs, spec, rng, prefix))
        return p

    return s


def _close_candidates(n, spec, prefix="t"):
    xs = [Fraction(float(10 ** (-9 * (n - 1 - i) / (n - 1)))).limit_denominator(10**15) for i in range(n)]
    p = {"x%d" % i: v for i, v in enumerate(xs)}
    for i, s in enumerate(spec):
        if isinstance(s, int):
            continue
        kind, k = s
        if kind == "near":
            p["%s%d" % (prefix, i)] = xs[k] + Fraction(5, 10**9) if k == 0 else xs[k] - min(Fraction(5, 10**9), (xs[k] - xs[k - 1]) / 2)
        elif kind == "in":
            p["%s%d" % (prefix, i)] = (xs[k] + xs[k + 1]) / 2
        else:
            p["%s%d" % (prefix, i)] = xs[k] / 2
    return [p]


# ---------------------------------------------------------------------------
# replays: real, unpatched eko.io.manipulate on floats
# ---------------------------------------------------------------------------
def _rng_tensor(seed, shape):
    import numpy as np

    return np.random.default_rng(seed).uniform(-1, 1, size=shape)


def replay_flavor(point, F, X, sides, err=False):
    import warnings

    import numpy as np
    from eko.io import manipulate
    from eko.io.items import Operator

    def mat(nm):
        try:
            return np.array([[float(point["%s_%d_%d" % (nm, i, j)]) for j in range(F)] for i in range(F)])
        except KeyError:
            return None

    Rt = mat("Rt") if sides in ("target", "both") else None
    Ri = mat("Ri") if sides in ("input", "both") else None
    for R, need in ((Rt, sides in ("target", "both")), (Ri, sides in ("input", "both"))):
        if need and (R is None or np.allclose(R, np.eye(F)) or abs(np.linalg.det(R)) < 1e-3 or np.linalg.cond(R) > 1e4):
            return None
    O = _rng_tensor(1, (F, X, F, X))
    E = _rng_tensor(2, (F, X, F, X))
    f = _rng_tensor(3, (F, X))
    with warnings.catch_warnings():
        warnings.simplefilter("ignore")
        new = manipulate.flavor_reshape(Operator(operator=O.copy(), error=E.copy()), targetpids=Rt, inputpids=Ri)
    T, Tn = (E, new.error) if err else (O, new.operator)
    fin = Ri @ f if Ri is not None else f
    lhs = np.array([[sum(Tn[c, j, d, k] * fin[d, k] for d in range(F) for k in range(X)) for j in range(X)] for c in range(F)])
    rhs = np.array([[sum(T[a, j, b, k] * f[b, k] for b in range(F) for k in range(X)) for j in range(X)] for a in range(F)])
    rhs = Rt @ rhs if Rt is not None else rhs
    if np.max(np.abs(lhs - rhs)) > 1e-8 * max(1.0, np.max(np.abs(rhs)), np.max(np.abs(lhs))):
        return {"detail": "flavor_reshape(%s)%s with targetpids=%r inputpids=%r: new.(R_in f) = %r but R_out.(op.f) = %r" % (
            sides, " [error tensor]" if err else "", None if Rt is None else Rt.tolist(), None if Ri is None else Ri.tolist(), lhs.tolist(), rhs.tolist())}
    return None


def replay_flavor_dtype(point, mat, dtype, sides, X, err=False):
    import warnings

    import numpy as np
    from eko.io import manipulate
    from eko.io.items import Operator

    rows = DTYPE_MATRICES[mat]
    F = len(rows)
    R = np.array(rows, dtype=float)  # oracle: plain float matrix algebra
    Rt = np.array(rows, dtype=dtype) if sides in ("target", "both") else None
    Ri = np.array(rows, dtype=dtype) if sides in ("input", "both") else None
    O = _rng_tensor(1, (F, X, F, X))
    E = _rng_tensor(2, (F, X, F, X))
    f = _rng_tensor(3, (F, X))
    with warnings.catch_warnings():
        warnings.simplefilter("ignore")
        new = manipulate.flavor_reshape(Operator(operator=O.copy(), error=E.copy()), targetpids=Rt, inputpids=Ri)
    T, Tn = (E, new.error) if err else (O, new.operator)
    fin = R @ f if Ri is not None else f
    lhs = np.einsum("cjdk,dk->cj", Tn, fin)
    rhs = np.einsum("ajbk,bk->aj", T, f)
    rhs = R @ rhs if Rt is not None else rhs
    if np.max(np.abs(lhs - rhs)) > 1e-8 * max(1.0, np.max(np.abs(rhs))):
        return {"detail": "flavor_reshape(%s) with the %s-dtype matrix %r%s: new.(R_in f) = %r but R_out.(op.f) = %r"
                          % (sides, dtype, rows, " [error tensor]" if err else "", lhs.tolist(), rhs.tolist())}
    return None


def replay_flavor_const(point, fn, source, target, X):
    import numpy as np
    from eko import basis_rotation as br
    from eko.io import manipulate
    from eko.io.items import Operator

    F = 14
    R = np.array(br.rotate_flavor_to_evolution if fn == "to_evol" else br.rotate_flavor_to_unified_evolution, dtype=float)
    O = _rng_tensor(1, (F, X, F, X))
    f = _rng_tensor(3, (F, X))
    new = getattr(manipulate, fn)(Operator(operator=O.copy()), source=source, target=target)
    fin = R @ f if source else f
    lhs = np.einsum("cjdk,dk->cj", new.operator, fin)
    rhs = np.einsum("ajbk,bk->aj", O, f)
    rhs = R @ rhs if target else rhs
    if np.max(np.abs(lhs - rhs)) > 1e-8 * max(1.0, np.max(np.abs(rhs))):
        return {"detail": "%s(source=%s, target=%s): new.(R f) differs from R'.(op.f) by %r" % (fn, source, target, float(np.max(np.abs(lhs - rhs))))}
    return None


def replay_xgrid(point, mode, n, deg, tnames, side):
    import warnings

    import numpy as np
    from eko import interpolation
    from eko.io import manipulate
    from eko.io.items import Operator

    g = C34._nodes(point, n, mode)
    if g is None or any(t not in point for t in tnames):
        return None
    xs, us = g
    ts = [float(point[t]) for t in tnames]
    if any(b <= a for a, b in zip(ts, ts[1:])) or (mode and ts[0] <= 0):
        return None
    tus = [float(np.log(t)) for t in ts] if mode else ts
    if any(b - a <= 1e-9 for a, b in zip(tus, tus[1:])):
        return None
    xg = interpolation.XGrid(xs, log=mode)
    tg = interpolation.XGrid(ts, log=mode)
    F = 1
    with warnings.catch_warnings():
        warnings.simplefilter("ignore")
        if side == "target":
            if ts[0] < xs[0] or ts[-1] > xs[-1] or any(C34._in_window(us, tu) for tu in tus):
                return None
            c = _rng_tensor(5, (deg + 1, F, F, n))
            O = np.zeros((F, n, F, n))
            for j in range(n):
                O[:, j, :, :] = sum(c[m] * us[j] ** m for m in range(deg + 1))
            new = manipulate.xgrid_reshape(Operator(operator=O), xg, deg, targetgrid=tg).operator
            for i, tu in enumerate(tus):
                want = sum(c[m] * tu**m for m in range(deg + 1))
                scale = sum(C34._scale(us, tu, deg, m) for m in range(deg + 1))
                err = float(np.max(np.abs(new[:, i, :, :] - want)))
                if err > 1e-8 * scale:
                    return {"detail": "log=%s degree=%d old grid %r -> target grid %r: an operator whose output is the polynomial sum_m c_m u^m (exact on the old grid) "
                                      "is reshaped to values off by %r at new node %d (x=%r); expected the polynomial at the new node" % (mode, deg, xs, ts, err, i, ts[i])}
            return None
        if xs[0] < ts[0] or xs[-1] > ts[-1] or any(C34._in_window(tus, u) for u in us):
            return None
        O = _rng_tensor(6, (F, n, F, n))
        if side == "both":
            new = manipulate.xgrid_reshape(Operator(operator=O), xg, deg, targetgrid=tg, inputgrid=tg).operator
            one = manipulate.xgrid_reshape(Operator(operator=O), xg, deg, targetgrid=tg)
            two = manipulate.xgrid_reshape(one, xg, deg, inputgrid=tg).operator
            if np.max(np.abs(new - two)) > 1e-8 * max(1.0, np.max(np.abs(two))):
                return {"detail": "simultaneous reshape differs from target-then-input reshape by %r" % float(np.max(np.abs(new - two)))}
            return None
        new = manipulate.xgrid_reshape(Operator(operator=O), xg, deg, inputgrid=tg).operator
        for m in range(deg + 1):
            lhs = np.einsum("ajbl,l->ajb", new, np.array(tus) ** m)
            rhs = np.einsum("ajbk,k->ajb", O, np.array(us) ** m)
            scale = max(C34._scale(tus, u, deg, m) for u in us) * n
            err = float(np.max(np.abs(lhs - rhs)))
            if err > 1e-8 * scale:
                return {"detail": "log=%s degree=%d old grid %r -> input grid %r: the reshaped operator applied to u^%d sampled on the new input grid differs by %r "
                                  "from the original operator applied to u^%d on the old grid" % (mode, deg, xs, ts, m, err, m)}
    return None


def replay_xgrid_sequence(point, mode, n, deg, side, m, gnames):
    """real code, one process: xgrid_reshape of an operator on the old grid x towards g, then the single-call replay
    (independent polynomial oracle) for an operator on the old grid y towards the same g"""
    import warnings

    import numpy as np
    from eko import interpolation
    from eko.io import manipulate
    from eko.io.items import Operator

    g = C34._nodes(point, n, mode)
    if g is None or "z" not in point or any(t not in point for t in gnames):
        return None
    xs, _us = g
    gs = [C34._f(point[t]) for t in gnames]
    if any(b <= a for a, b in zip(gs, gs[1:])):
        return None
    q = dict(point)
    q["x%d" % m] = point["z"]
    gq = [gn if not (gn == "x%d" % m) else None for gn in gnames]
    if None in gq:
        return None
    q.update({"gfix%d" % i: gs[i] for i in range(len(gs))})
    names = ["gfix%d" % i for i in range(len(gs))]
    if C34._nodes(q, n, mode) is None:
        return None
    with warnings.catch_warnings():
        warnings.simplefilter("ignore")
        args = {"targetgrid": interpolation.XGrid(gs, log=mode)} if side == "target" else {"inputgrid": interpolation.XGrid(gs, log=mode)}
        try:
            manipulate.xgrid_reshape(Operator(operator=_rng_tensor(9, (1, n, 1, n))), interpolation.XGrid(xs, log=mode), deg, **args)
        except ValueError:
            return None
    r = replay_xgrid(q, mode, n, deg, names, side)
    if r:
        r["detail"] = "after a first xgrid_reshape(%s) of an operator on the old grid %r towards %r: %s" % (side, xs, gs, r["detail"])
    return r


def replay_errors(point):
    import numpy as np
    from eko import interpolation
    from eko.io import manipulate
    from eko.io.items import Operator

    xg = interpolation.XGrid([0.1, 0.5, 1.0])
    O = _rng_tensor(1, (1, 3, 1, 3))
    for call in (lambda: manipulate.xgrid_reshape(Operator(operator=O), xg, 1), lambda: manipulate.flavor_reshape(Operator(operator=O)),
                 lambda: manipulate.to_evol(Operator(operator=O), source=False, target=False)):
        try:
            call()
            return {"detail": "call without grid/rotation did not raise"}
        except ValueError:
            pass
    import warnings

    with warnings.catch_warnings():
        warnings.simplefilter("ignore")
        new = manipulate.xgrid_reshape(Operator(operator=O), xg, 1, targetgrid=xg, inputgrid=xg)
    if not np.array_equal(new.operator, O):
        return {"detail": "reshape to the identical grid changed the operator"}
    return None


# ---------------------------------------------------------------------------
def main():
    chk = H.Check("C42")
    thorough = H.tier() == "thorough"
    chk.bounds = [
        "flavour rotations: fully symbolic operator, error tensor, input vector and rotation matrices for flavour dimension 2 (x-grid 2) and 3 (x-grid 1; thorough also 3 with x-grid 2), "
        "target / input / both (for dimension 3 and for 'both': matrices whose [0,0] entry is outside allclose's tolerance of 1, which bounds the paths through numpy.allclose); to_evol and to_uni_evol with the constant 14x14 matrices on a fully symbolic 14 x X x 14 x X operator, X = 1 (thorough: 2), all three (source, target) combinations",
        "concrete integer-valued rotation matrices passed as numpy arrays of integer and float dtype (2x2, 3x3; int64/int32/float64, thorough also uint8/float32), "
        "symbolic operator, error tensor and input vector; buffers allocated with zeros_like keep numpy's dtype and cast on assignment as numpy does",
        "x-grid re-interpolation: old grid of n = 3..4 (thorough: up to 6) symbolic sorted nodes, log and linear, interpolation degree 1..2 (thorough: up to 3), flavour dimension 1; "
        "new grids given by position patterns relative to the old nodes (node itself / strictly inside an interval / between the neighbours of a node) with symbolic positions",
        "state across calls: two xgrid_reshape calls in one process towards the same new grid, same degree and side, for operators on old grids of equal length that differ "
        "at one node (free symbol); n = 3..4; every explored path otherwise starts from the import-time module state",
        "polynomial test functions: all monomials u^m, m <= degree, with symbolic coefficient tensors (target side) / all monomials (input side)",
    ]
    chk.out_of_claim = [
        "floating-point evaluation; LAPACK rounding in numpy.linalg.inv of the 14x14 rotation (replaced by the exact inverse)",
        "flavour rotations within numpy.allclose's default tolerance of the identity but different from it (e.g. diag(1+9e-6, 1, ...)): flavor_reshape deliberately treats them as "
        "the identity (with a warning), the commutation then holds only to ~1e-5; excluded by assumption",
        "new nodes inside evaluate_x's 2.2e-15 tolerance window below an interior node of the interpolating grid (see C34); new grids not covered by the interpolating grid",
        "flavour dimension 14 for x-grid reshaping (the contraction is uniform in the flavour indices), EKO-level wrappers (ekobox)",
    ]
    chk.stubs = [
        "numpy.linalg.inv on a constant integer matrix: exact rational inverse (contract of inv); on a symbolic matrix: adjugate / determinant with det != 0 recorded",
        "numpy.zeros_like(concrete numeric array): object buffer tagged with the source dtype kind; item assignment into an integer-kind buffer truncates towards zero "
        "(numpy's unsafe cast); arithmetic between concrete integer arrays and symbolic tensors is exact",
        "numpy.einsum(..., optimize='optimal'): evaluated as plain einsum on object arrays (contraction order does not change the value)",
        "numpy.unique / numpy.log / numpy.allclose as in C34",
    ]
    chk.assumptions = ["floats in the source are read by the engine's float reading (symx.poly.tofrac)", "grids sorted with positive first node (log)"]
    for sides in ("target", "input", "both"):
        chk.case("flavor.sym.F2X2.%s" % sides, case_flavor_sym, F=2, X=2, sides=sides, first_far=(sides == "both"))
        chk.case("flavor.sym.F3X1.%s" % sides, case_flavor_sym, F=3, X=1, sides=sides, first_far=True)
        if thorough:
            chk.case("flavor.sym.F3X2.%s" % sides, case_flavor_sym, F=3, X=2, sides=sides, first_far=True)
    dcfg = [("2x2", "int64", "input"), ("2x2", "int64", "both"), ("2x2", "float64", "input"), ("3x3", "int32", "input"), ("2x2diag", "int64", "both"), ("3x3", "int64", "target")]
    if thorough:
        dcfg += [(m, d, sd) for m in DTYPE_MATRICES for d in ("int64", "int32", "uint8", "float64", "float32") for sd in ("target", "input", "both") if (m, d, sd) not in dcfg and not (d == "uint8" and m == "2x2")]
    for m, d, sd in dcfg:
        chk.case("flavor.dtype.%s.%s.%s" % (m, d, sd), case_flavor_dtype, mat=m, dtype=d, sides=sd)
    for fn in ("to_evol", "to_uni_evol"):
        for source, target in ((True, False), (False, True), (True, True)):
            chk.case("%s.s%d.t%d" % (fn, source, target), case_flavor_const, func_name=fn, source=source, target=target, X=2 if thorough else 1)
    for mode in (True, False):
        tag = "log" if mode else "lin"
        cfgs = [(3, 1), (4, 2)] + ([(5, 3), (6, 2), (5, 1)] if thorough else [])
        for n, d in cfgs:
            chk.case("xgrid.target.generic.%s.n%d.deg%d" % (tag, n, d), case_xgrid_target, mode=mode, n=n, deg=d,
                     tspec=[0] + [("in", k) for k in range(0, n - 1)] + [n - 1])
            chk.case("xgrid.input.generic.%s.n%d.deg%d" % (tag, n, d), case_xgrid_input, mode=mode, n=n, deg=d,
                     sspec=[("below", 0)] + [("in", k) for k in range(0, n - 1)] + [n - 1])
            # new grids of the same length that differ from the old one at a single node: the 'close' early exit is reachable
            chk.case("xgrid.target.close.%s.n%d.deg%d" % (tag, n, d), case_xgrid_target, mode=mode, n=n, deg=d,
                     tspec=[("near", 0)] + list(range(1, n)))
            chk.case("xgrid.input.close.%s.n%d.deg%d" % (tag, n, d), case_xgrid_input, mode=mode, n=n, deg=d,
                     sspec=[0] + [("near", 1)] + list(range(2, n)))
        chk.case("xgrid.both.%s.n3.deg1" % tag, case_xgrid_input, mode=mode, n=3, deg=1, sspec=[0, ("in", 0), ("in", 1), 2], also_target=True)
    seq = [(True, 3, 1, "target"), (False, 3, 1, "input"), (True, 4, 2, "input")] + ([(False, 4, 2, "target"), (True, 4, 1, "target"), (False, 4, 1, "input")] if thorough else [])
    for mode, n, d, side in seq:
        chk.case("xgrid.sequence.%s.%s.n%d.deg%d" % (side, "log" if mode else "lin", n, d), case_xgrid_sequence, mode=mode, n=n, deg=d, side=side)
    chk.case("errors", case_errors)
    import eko.io.manipulate  # noqa: F401  imported once per run; case workers are forked from here
    C34.clear_markers()
    try:
        return chk.run()
    finally:
        C34.clear_markers()


if __name__ == "__main__":
    import sys

    sys.exit(main())
