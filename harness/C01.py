"""C01  An EKO whose target equals its initial point is the identity operator (structural part).

What is decided: for a target with the same scale and the same nf as the initial point the runner builds ONE evolution part
Segment(mu0^2 -> mu0^2, nf0) (recipes._elements on the real Atlas, on and off matching scales; either cliff flag) and
runner.parts.evolve does  Operator.compute() ; PhysicalOperator.ad_to_evol_map(...).to_flavor_basis_tensor(qed).
These are executed symbolically:
  * Operator.compute / initialize_op_members / labels / copy_ns_ops (object built by __new__, module np -> shim) with the
    scale mu0^2 > 0 and (muF/muR)^2 = xif2 > 0 SYMBOLIC, for every nf 3..6, QCD order 1..4, QED order 0..2, scale-variation
    scheme none / exponentiated / expanded, is_threshold False / True, grid size 1, 2 (thorough: up to 8).  `integrate` is
    replaced by a stub that raises: goal "under the statement's condition (scheme != expanded, or xif2 == 1) the unity
    shortcut is taken and the Mellin integration is not reached" -- on a path that reaches it the solver must prove xif2 != 1
    and the scheme must be expanded.
  * the resulting members go through the real ad_to_evol_map + to_flavor_basis_tensor; the tensor is applied to a symbolic pdf
    vector f[pid, x]: goal out == f on gluon + 6 quarks + 6 antiquarks (+ photon with QED); photon row and column zero in QCD.
  * state carried between computations: every obligation is stated for the operator as computed after all the operators that
    went through compute() earlier in the same worker process (the unity cases enumerate 72 configurations in a row; the
    sequence cases run every ordered pair of perturbative orders (P, Q): P first -- including copy_ns_ops -- then Q, with
    different nf).  The history is part of the replay, which re-runs it on the real runner.parts.evolve in one interpreter.
Polarised / time-like flags, solution method, iteration counts are shown not to be read on the shortcut path (the config dict
raises if they are), hence the result does not depend on them.
"""
import importlib
from fractions import Fraction
from types import SimpleNamespace

import z3

from .common import *  # noqa
from symx.solver import explore, prove_formula, prove_rel
from symx.val import SymbolicEscape, EngineError
from symx import harness as H
from . import flavour_model as M
from . import flavour_ops as O
from .flavour_sym import box, prove_small, failed, decide_once, lin

MOD = "harness.C01"
SCHEMES = (None, "exponentiated", "expanded")
UNREAD = ("method", "ev_op_max_order", "ev_op_iterations", "polarized", "time_like", "n3lo_ad_variation", "use_fhmruvv", "n_integration_cores", "matching_order")


class IntegrationReached(Exception):
    pass


# every Operator.compute() that completed on the shortcut path in THIS process, in order: [nf, g, order, scheme, thr].
# A worker process starts from a parent that has only imported the modules, so this is the complete computation history
# the operator under test can depend on (class-level / module-level state of eko); replays re-run it on the real code.
_HISTORY = []


class GuardedConfig(dict):
    """config of Operator: reading a key that is claimed irrelevant on the shortcut path is recorded"""

    def __init__(self, d, touched):
        super().__init__(d)
        self.touched = touched

    def __getitem__(self, k):
        if k in UNREAD:
            self.touched.add(k)
            return {"method": "iterate-exact", "ev_op_max_order": (10, 0), "ev_op_iterations": 1, "polarized": False, "time_like": False,
                    "n3lo_ad_variation": (0,) * 7, "use_fhmruvv": True, "n_integration_cores": 1, "matching_order": (0, 0)}[k]
        return super().__getitem__(k)


def _mods():
    evop = sym_module("eko.evolution_operator")
    mods = O.modules()
    return evop, mods


def _scheme(name):
    from eko.io.types import ScaleVariationsMethod

    return None if name is None else ScaleVariationsMethod(name)


def _build(evop, nf, order, g, scheme, thr, mu2, xif2, touched):
    op = evop.Operator.__new__(evop.Operator)
    op.config = GuardedConfig({"order": order, "xif2": xif2, "ModSV": _scheme(scheme), "debug_skip_singlet": False, "debug_skip_non_singlet": False}, touched)
    op.managers = SimpleNamespace(interpolator=SimpleNamespace(xgrid=SimpleNamespace(size=g), log=True), couplings=None, atlas=None)
    op.nf = nf
    op.q2_from = mu2
    op.q2_to = mu2
    op._mellin_cut = 5e-2
    op.is_threshold = thr
    op.op_members = {}
    op.order = tuple(order)
    op.alphaem_running = False
    op.a = ((0.1, 0.007), (0.1, 0.007))  # only formatted into log messages on the integration path

    def stub():
        raise IntegrationReached()

    op.integrate = stub
    return op


def case_unity(log, nf, g):
    evop, mods = _mods()
    member, physical, _matching, fl = mods
    Op = evop.Operator
    log.encode(Op.compute, Op.initialize_op_members, Op.copy_ns_ops, Op.labels.fget, physical.PhysicalOperator.ad_to_evol_map,
               member.OperatorBase.to_flavor_basis_tensor, fl.pids_from_intrinsic_evol, fl.pids_from_intrinsic_unified_evol)
    evop.logger = SimpleNamespace(info=lambda *a, **k: None, warning=lambda *a, **k: None, debug=lambda *a, **k: None)

    for oq in (1, 2, 3, 4):
        for oe in (0, 1, 2):
            for scheme in SCHEMES:
                for thr in (False, True):
                    _one(log, evop, mods, nf, g, (oq, oe), scheme, thr)


def _one(log, evop, mods, nf, g, order, scheme, thr, check=True):
    """check=False: only run compute() (a predecessor in a sequence), nothing is asserted about it here"""
    member, physical, _matching, fl = mods
    qed = order[1] > 0
    me = [nf, g, list(order), scheme, thr]
    kw0 = {"nf": nf, "g": g, "order": list(order), "scheme": scheme, "thr": thr}
    tag = "nf=%d order=%r scheme=%s is_threshold=%s grid=%d%s" % (nf, order, scheme, thr, g, " after %d earlier operators in the same process" % len(_HISTORY) if _HISTORY else "")
    leaks = set()

    def run():
        touched = set()
        kw = dict(kw0, history=[list(h) for h in _HISTORY])
        mu2 = SR.var("mu2")
        xif2 = SR.var("xif2")
        assume(mu2, ">0")
        assume(xif2, ">0")
        op = _build(evop, nf, order, g, scheme, thr, mu2, xif2, touched)
        try:
            op.compute()
        except IntegrationReached:
            # allowed only outside the statement's condition: expanded scale variation with a non-unit ratio
            if scheme != "expanded":
                v = failed("%s: target == origin takes the unity shortcut (Mellin integration reached although the scheme is not 'expanded')" % tag)
            else:
                v = prove_rel(xif2 - 1, "!=0", "%s: Mellin integration is reached only if xif2 != 1" % tag)
            decide_once(log, v, key="Operator.compute:shortcut", replay=(MOD, "replay", kw), candidates=[{"xif2": Fraction(1)}, {"xif2": Fraction(4)}])
            log.twin("integration path")
            return "integrate"
        except (SymbolicEscape, EngineError):
            raise
        except Exception as e:  # noqa
            v = failed("%s: compute() raised %s: %s" % (tag, type(e).__name__, e))
            decide_once(log, v, key="Operator.compute:raises", replay=(MOD, "replay", kw), candidates=[{"xif2": Fraction(1)}])
            return "raise"
        _HISTORY.append(me)
        if not check:
            return "shortcut"
        # shortcut taken: blow the members up exactly like runner.parts.evolve and apply to a symbolic pdf
        try:
            val, _err = physical.PhysicalOperator.ad_to_evol_map(op.op_members, op.nf, op.q2_to, qed).to_flavor_basis_tensor(qed)
        except (SymbolicEscape, EngineError):
            raise
        except Exception as e:  # noqa
            v = failed("%s: ad_to_evol_map / to_flavor_basis_tensor raised %s: %s" % (tag, type(e).__name__, e))
            decide_once(log, v, key="parts.evolve:raises", replay=(MOD, "replay", kw), candidates=[{"xif2": Fraction(1)}])
            return "raise"
        f = [[SR.var("f_%s_%d" % (M.vname("p", p), k)) for k in range(g)] for p in M.PIDS]
        box([x for r in f for x in r])
        res = []
        for o, p in enumerate(M.PIDS):
            for a in range(g):
                got = SR(0)
                for i in range(14):
                    for b in range(g):
                        w = val[o, a, i, b]
                        w = w if isinstance(w, SR) else O.lift(w)
                        if not w.is_zero():
                            got = got + w * f[i][b]
                want = f[o][a] if (p != 22 or qed) else SR(0)
                res.append(got - want)
        v = prove_small(res, "%s: operator applied to any pdf f returns f on the 13 partons%s" % (tag, " and on the photon" if qed else "; photon row and column are zero"))
        decide_once(log, v, key="parts.evolve:identity[%s]" % ("qed" if qed else "qcd"), replay=(MOD, "replay", kw), candidates=[{"xif2": Fraction(1)}], sampler=_sampler)
        log.twin("shortcut path")
        log.collect_ctx()
        leaks.update(touched)
        return "shortcut"

    res, pm = explore(run)
    log.path_stats(pm)
    if leaks:
        log.inconclusive.append("%s: the shortcut path read config keys %r that the harness claims irrelevant" % (tag, sorted(leaks)))


def _sampler(rng):
    return {"xif2": Fraction(1), "__seed__": rng.randint(1, 10**6)}


def case_sequence(log, nf, nf_prev, g):
    """Operators computed one after the other in the same process (segments / targets / cards of a driver script): for every
    ordered pair of perturbative orders (P, Q) an operator with order P (nf_prev flavours) goes through compute() -- on the
    shortcut that includes copy_ns_ops -- and then the operator with order Q (nf flavours) must still be the identity.  The whole
    computation history of the process is part of every obligation and of its replay."""
    evop, mods = _mods()
    Op = evop.Operator
    log.encode(Op.compute, Op.initialize_op_members, Op.copy_ns_ops, Op.labels.fget)
    evop.logger = SimpleNamespace(info=lambda *a, **k: None, warning=lambda *a, **k: None, debug=lambda *a, **k: None)
    orders = [(oq, oe) for oq in (1, 2, 3, 4) for oe in (0, 1, 2)]
    for P in orders:
        for Q in orders:
            _one(log, evop, mods, nf_prev, g, P, None, False, check=False)
            _one(log, evop, mods, nf, g, Q, None, False)


def case_recipe(log):
    """target == origin gives exactly one evolution part Segment(mu0^2 -> mu0^2, nf0), whether or not mu0^2 sits on a matching
    scale.  Its cliff flag (= Operator.is_threshold) is not prescribed by the statement: case_unity proves the identity for
    BOTH values of is_threshold, so any Boolean the runner chooses is covered."""
    from eko.runner import recipes
    from eko.matchings import Atlas

    log.encode(recipes._elements, Atlas.path, Atlas.matched_path)

    def run():
        bad = _recipe_facts()
        what = ("recipes._elements((mu0^2, nf0)) on an atlas with origin (mu0^2, nf0) is a single evolution part mu0^2 -> mu0^2 with nf0 and a Boolean cliff flag "
                "(nf0 in 3..6, on and off matching scales; both flag values are covered by the unity cases)")
        if bad:
            log.decide(failed(what + ": " + bad[0]), key="recipes._elements:unity", replay=(MOD, "replay_recipe", {}), candidates=[{}])
        else:
            log.ok(prove_formula(z3.BoolVal(True), what), {"nontrivial": False})

    _r, pm = explore(run)
    log.path_stats(pm)


def _recipe_facts():
    from eko.io.items import Evolution
    from eko.matchings import Atlas
    from eko.runner import recipes

    bad = []
    walls = [2.0, 20.0, 30000.0]
    for nf0 in (3, 4, 5, 6):
        for mu20 in (1.0, 2.0, 10.0, 20.0, 100.0, 30000.0, 1e5):
            rs = recipes._elements((mu20, nf0), Atlas(list(walls), (mu20, nf0)))
            ok = len(rs) == 1 and isinstance(rs[0], Evolution) and rs[0].origin == mu20 and rs[0].target == mu20 and rs[0].nf == nf0 and isinstance(rs[0].cliff, bool)
            if not ok:
                bad.append("origin (%r, %d): parts %r" % (mu20, nf0, rs))
    return bad


def replay_recipe(point):
    bad = _recipe_facts()
    return {"detail": "; ".join(bad[:3])} if bad else None


# ---------------------------------------------------------------------------
# replay: the real runner.parts.evolve on real cards (tiny grid); if the shortcut is not taken the real Mellin
# integration runs (slow without JIT but finite)
# ---------------------------------------------------------------------------
def _real_evolve(nf, g, order, scheme, thr, xif2):
    """runner.parts.evolve of the real code on real cards for target == origin; returns (tensor, grid size, integrate calls)"""
    import numpy as np
    from dataclasses import dataclass

    from eko import interpolation
    from eko.io.items import Evolution
    from eko.io.types import ScaleVariationsMethod
    from eko.matchings import Segment
    from eko.runner import parts
    from ekobox import cards
    import eko.evolution_operator as evop

    tc = cards.example.theory()
    oc = cards.example.operator()
    tc.order = tuple(order)
    tc.xif = float(np.sqrt(xif2))
    # matching scales so that (mu0, nf) is a consistent point: nf-3 thresholds below mu0, the others above; thr: mu0 on a wall
    mu0 = 10.0
    for k, q in enumerate("cbt"):
        below = k < nf - 3
        setattr(tc.heavy.matching_ratios, q, 1.0)
        getattr(tc.heavy.masses, q).value = (2.0 + k) if below else (50.0 + 10 * k)
    if thr:
        if nf < 6:
            getattr(tc.heavy.masses, "cbt"[nf - 3]).value = mu0
        else:
            getattr(tc.heavy.masses, "t").value = mu0
    n = max(g, 2)
    oc.xgrid = interpolation.XGrid(np.geomspace(1e-2, 1.0, n).tolist())
    oc.configs.interpolation_polynomial_degree = 1
    oc.configs.ev_op_iterations = 1
    oc.configs.n_integration_cores = 1
    oc.configs.scvar_method = None if scheme is None else ScaleVariationsMethod(scheme)
    oc.init = (mu0, nf)
    oc.mugrid = [(mu0, nf)]

    @dataclass(frozen=True)
    class FakeEKO:
        theory_card: object
        operator_card: object

    # non-intrusive spy: records that the real Mellin integration was entered, then delegates to it
    reached = []
    real_integrate = evop.Operator.integrate

    def spy(self):
        reached.append(1)
        return real_integrate(self)

    evop.Operator.integrate = spy
    try:
        res = parts.evolve(FakeEKO(tc, oc), Evolution.from_atlas(Segment(mu0**2, mu0**2, nf), cliff=thr))
    except Exception as e:  # noqa
        e._reached = len(reached)
        raise
    finally:
        evop.Operator.integrate = real_integrate
    return np.asarray(res.operator, dtype=float), n, mu0, len(reached)


def replay(point, nf, g, order, scheme, thr, history=()):
    """the computation history of the worker process (earlier target == origin operators, all on the shortcut path) is re-run
    on the real code in this clean interpreter, then the operator under test"""
    import traceback
    import numpy as np

    xif2 = float(Fraction(point.get("xif2", 1)))
    if xif2 <= 0:
        return None
    if scheme == "expanded" and abs(xif2 - 1.0) > 1e-12:
        return None  # outside the statement: expanded scale variation with a non-unit ratio
    hist = ""
    if history:
        try:
            for h in history:
                _real_evolve(h[0], h[1], h[2], h[3], h[4], 1.0)
        except Exception as e:  # noqa
            return {"detail": "an earlier target == origin operator %r raises %s: %s" % (h, type(e).__name__, e)}
        last = history[-1]
        hist = " computed after %d earlier target == origin operators in the same process (the last one: nf=%d, order=%r, scheme=%s, cliff=%s)" % (
            len(history), last[0], last[2], last[3], last[4])
    reached = 0
    try:
        T, n, mu0, reached = _real_evolve(nf, g, order, scheme, thr, xif2)
    except Exception as e:  # noqa
        return {"detail": "runner.parts.evolve for target == origin (nf=%d, order=%r, scheme=%s, xif2=%r, cliff=%s)%s %sraises %s: %s\n%s"
                          % (nf, order, scheme, xif2, thr, hist, "does not take the unity shortcut (Operator.integrate entered) and " if getattr(e, "_reached", 0) else "",
                             type(e).__name__, e, traceback.format_exc()[-400:])}
    qed = order[1] > 0
    want = np.zeros_like(T)
    for o, p in enumerate(M.PIDS):
        if p == 22 and not qed:
            continue
        for a in range(n):
            want[o, a, o, a] = 1.0
    dev = float(np.abs(T - want).max()) if np.all(np.isfinite(T)) else float("inf")
    # the shortcut path itself only rounds at the 1e-16 level (normalised weights); a result that went through the Mellin
    # integration is the identity only up to quadrature accuracy, i.e. the weights are not "exactly one"
    if dev > 1e-9 or (reached and dev > 1e-15):
        idx = np.unravel_index(np.argmax(np.abs(T - want)), T.shape)
        return {"detail": "runner.parts.evolve for target == origin (mu0^2=%r, nf=%d, order=%r, scheme=%s, xif2=%r, cliff=%s, %d-point grid)%s: %soperator[%s,%d,%s,%d] = %r, identity has %r (max deviation %.3e)"
                          % (mu0**2, nf, order, scheme, xif2, thr, n, hist, "the unity shortcut was NOT taken (Operator.integrate entered); " if reached else "",
                             M.NAMES[idx[0]], idx[1], M.NAMES[idx[2]], idx[3], float(T[idx]), float(want[idx]), dev)}
    return None


def main():
    chk = H.Check("C01")
    deep = H.tier() == "thorough"
    chk.bounds = ["nf0 in 3..6 x QCD order 1..4 x QED order 0..2 x scale-variation scheme {none, exponentiated, expanded} x is_threshold {F,T}: enumerated (exhaustive)",
                  "mu0^2 > 0 and xif2 = (muF/muR)^2 > 0 symbolic reals; target scale identical to the initial scale (same symbol)",
                  "grid size 1 and 2 (thorough: 1..8); the grid enters only through its size (np.eye(grid_size)); interpolation degree is not read",
                  "pdf vector f[pid, x] symbolic in [-1,1]; float weights read as rationals, identity within 1e-12",
                  "computation histories: the 72-configuration enumeration of each unity case, and for each nf all 144 ordered pairs of orders (predecessor with another nf, "
                  "scheme none, grid 2) in the sequence cases; predecessors are target == origin operators on the shortcut path",
                  "polarised / time-like / method / iterations / max order / N3LO variation: shown not to be read on the shortcut path (guarded config)"]
    chk.out_of_claim = ["the Mellin integration and everything numerical (reached only for expanded scale variation with xif != 1, which the statement excludes)",
                        "'weight exactly one' at float level (normalised weights such as 1/6 are rounded; identity holds within 1e-12)",
                        "the converse (that the shortcut is NOT taken for expanded scale variation with xif != 1) is a different property and is not decided here",
                        "histories containing operators with target != origin (they need the Mellin integration) or that took the integration path",
                        "archive round trip EKO.read(path)[(mu0^2, nf0)]; debug_skip_* flags; targets whose scale differs from mu0^2 by rounding",
                        "consistency checks of the cards themselves (matching scales placed so that the point is consistent)"]
    chk.stubs = ["Operator built by __new__ with config / managers stand-ins exposing exactly what compute() reads (grid size, order, xif2, ModSV, debug flags)",
                 "Operator.integrate replaced by a stub that raises IntegrationReached", "module logger of eko.evolution_operator replaced by a no-op"]
    chk.assumptions = ["runner.parts.evolve == Operator.compute + ad_to_evol_map + to_flavor_basis_tensor (read from the source, re-checked by the replay which calls the real parts.evolve)"]
    chk.exhaustive = False
    _mods()
    gs = (1, 2, 3, 4, 5, 6, 7, 8) if deep else (1, 2)
    for nf in (3, 4, 5, 6):
        for g in gs:
            chk.case("unity.nf%d.g%d" % (nf, g), case_unity, nf=nf, g=g)
    for nf in (3, 4, 5, 6):
        chk.case("sequence.nf%d.g2" % nf, case_sequence, nf=nf, nf_prev=3 + (nf - 2) % 4, g=2)
    chk.case("recipe", case_recipe)
    return chk.run()


if __name__ == "__main__":
    import sys

    sys.exit(main())
