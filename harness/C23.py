"""C23  Matrix exponentials and eigen-projectors are correct.

Real functions executed symbolically: ekore.anomalous_dimensions.exp_matrix_2D (real and complex symbolic 2x2) and the
post-processing of exp_matrix (numpy.linalg.eig is LAPACK: stubbed by its contract M v = v diag(w)).

Goals for exp_matrix_2D(t*M), t the AD seed:
   lambda_+- are roots of the characteristic polynomial; P_i P_j = delta_ij P_i; P_+ + P_- = 1; t*M = sum lambda_i P_i;
   dP_i/dt = 0;  d/dt exp = M exp   (with sum P_i = 1 this makes exp = the matrix exponential of t*M).
"""
from fractions import Fraction

from .common import *  # noqa
import numpy as realnp
from symx.solver import explore, prove_zero
from symx import harness as H

MOD = "harness.C23"


def _mat(names, cplx):
    m = realnp.empty((2, 2), dtype=object)
    k = 0
    for i in range(2):
        for j in range(2):
            if cplx:
                m[i, j] = Cx(SR.var(names[k] + "r"), SR.var(names[k] + "i"))
            else:
                m[i, j] = SR.var(names[k])
            k += 1
    return m


def _each(x):
    return [Cx.lift(e) for e in realnp.asarray(x, dtype=object).flat]


def _tan(x):
    x = Cx.lift(x)
    return Cx(SR(x.re._dd()), SR(x.im._dd()))


def case_2d(log, cplx):
    ad = sym_module("ekore.anomalous_dimensions")
    log.encode(ad.exp_matrix_2D)
    tag = "complex" if cplx else "real"
    rp = (MOD, "replay_2d", {"cplx": cplx})
    log.register_replay("fallback:replay_2d", rp, _sampler)

    def run():
        M = _mat("abcd", cplx)
        t = SR.var("t", seed=True)
        assume(t, ">0")
        tM = M * t
        exp, lp, lm, ep, em = ad.exp_matrix_2D(tM)
        I2 = realnp.array([[1, 0], [0, 1]], dtype=object)
        tr = tM[0, 0] + tM[1, 1]
        dt = tM[0, 0] * tM[1, 1] - tM[0, 1] * tM[1, 0]
        goals = []
        for nm, l in (("lambda_p", lp), ("lambda_m", lm)):
            goals.append(("%s is a root of the characteristic polynomial" % nm, [Cx.lift(l * l - tr * l + dt)]))
        goals.append(("P_p P_p == P_p", _each(ep @ ep - ep)))
        goals.append(("P_m P_m == P_m", _each(em @ em - em)))
        goals.append(("P_p P_m == 0", _each(ep @ em)))
        goals.append(("P_m P_p == 0", _each(em @ ep)))
        goals.append(("P_p + P_m == 1", _each(ep + em - I2)))
        goals.append(("M == lambda_p P_p + lambda_m P_m", _each(ep * lp + em * lm - tM)))
        goals.append(("dP_p/dt == 0", [_tan(e) for e in ep.flat]))
        goals.append(("dP_m/dt == 0", [_tan(e) for e in em.flat]))
        # d/dt exp == M exp
        Mexp = M @ realnp.array([[Cx(Cx.lift(e).re.novar(), Cx.lift(e).im.novar()) for e in row] for row in exp], dtype=object)
        goals.append(("d/dt exp_matrix_2D(tM) == M exp_matrix_2D(tM)", [_tan(exp[i, j]) - Cx.lift(Mexp[i, j]) for i in range(2) for j in range(2)]))
        # the ODE fixes exp(tM) only up to a constant right factor; t = 0 is outside the function's domain (it divides by the
        # eigenvalue gap), so the normalisation is stated spectrally: on each (verified) eigenprojector the result acts as the
        # exponential of that eigenvalue -- on every path the code can take, whatever the size of the eigenvalues
        # (with P_p P_m = 0, P_i^2 = P_i and P_p + P_m = 1 decided above this is the same as exp P_i == e^lambda_i P_i)
        goals.append(("exp == e^lambda_p P_p + e^lambda_m P_m (spectral normalisation)", _each(exp - ep * Cx.lift(lp).exp() - em * Cx.lift(lm).exp())))
        for what, exprs in goals:
            for n, e in enumerate(exprs):
                v = prove_zero(e, "%s [%s matrix, entry %d]" % (what, tag, n), timeout_ms=60000)
                log.decide(v, key="exp_matrix_2D:%s" % what, replay=rp, sampler=_sampler_2d)
        log.twin("domain")
        log.collect_ctx()

    _r, pm = explore(run)
    log.path_stats(pm)


def case_eig_post(log, dim):
    """exp_matrix(): numpy.linalg.eig stubbed by its contract. v, w symbolic; M := v diag(w) v^-1."""
    ad = sym_module("ekore.anomalous_dimensions")
    log.encode(ad.exp_matrix)
    rp = (MOD, "replay_eig", {"dim": dim})
    log.register_replay("fallback:replay_eig", rp, _sampler)

    def run():
        v = realnp.empty((dim, dim), dtype=object)
        for i in range(dim):
            for j in range(dim):
                v[i, j] = SR.var("v%d%d" % (i, j))
        w = realnp.array([SR.var("w%d" % i) for i in range(dim)], dtype=object)
        vinv = ad.np.linalg.inv(v)
        M = v @ realnp.diag(w) @ vinv if False else (v * w[None, :]) @ vinv

        saved = ad.np.linalg

        class LA:
            def __getattr__(self, n):
                return getattr(saved, n)

            @staticmethod
            def eig(m):
                # contract check: the matrix passed is the one v, w diagonalise
                for i in range(dim):
                    for j in range(dim):
                        if not (SR(0) + m[i, j] - M[i, j]).v.canon().n.is_zero():
                            raise EngineError("eig stub called with another matrix")
                return w, v

        ad.np.linalg = LA()
        try:
            exp, ww, e = ad.exp_matrix(M)
        finally:
            ad.np.linalg = saved
        I = realnp.eye(dim, dtype=int).astype(object)
        goals = []
        for i in range(dim):
            for j in range(dim):
                tgt = e[i] if i == j else realnp.zeros((dim, dim), dtype=int).astype(object)
                goals.append(("P_%d P_%d == delta P_%d" % (i, j, i), list((e[i] @ e[j] - tgt).flat)))
        goals.append(("sum P_i == 1", list((sum(e[i] for i in range(dim)) - I).flat)))
        # the *returned* eigenvalues must belong to the returned projectors, slot by slot
        goals.append(("M == sum w_i P_i", list((sum(e[i] * ww[i] for i in range(dim)) - M).flat)))
        for i in range(dim):
            goals.append(("M P_%d == w_%d P_%d" % (i, i, i), list((M @ e[i] - e[i] * ww[i]).flat)))
        want = sum(e[i] * ww[i].exp() for i in range(dim))
        goals.append(("exp == sum exp(w_i) P_i", list((exp - want).flat)))
        ref = (v * realnp.array([x.exp() for x in w], dtype=object)[None, :]) @ vinv
        goals.append(("exp == v diag(exp w) v^-1", list((exp - ref).flat)))
        for what, exprs in goals:
            for n, ex in enumerate(exprs):
                vd = prove_zero(SR(0) + ex, "%s [dim %d, entry %d]" % (what, dim, n), timeout_ms=60000)
                log.decide(vd, key="exp_matrix:%s" % what.split(" ")[0], replay=rp, sampler=_sampler)
        log.twin("domain")
        log.collect_ctx()

    _r, pm = explore(run)
    log.path_stats(pm)


# ---------------------------------------------------------------------------
def _sampler_2d(rng):
    """also matrices whose spectrum is shifted far to the left / right (still |entries| <= 50)"""
    p = _sampler(rng)
    k = rng.randrange(3)
    if k:
        sh = (-1 if k == 1 else 1) * rnd(rng, 30, 45) / p["t"]
        for n in "ad":
            p[n] += sh
            p[n + "r"] += sh
    return p


def _sampler(rng):
    p = {"t": rnd(rng, 0.2, 2)}
    for n in "abcd":
        p[n] = rnd(rng, -3, 3)
        p[n + "r"] = rnd(rng, -3, 3)
        p[n + "i"] = rnd(rng, -3, 3)
    for i in range(4):
        p["w%d" % i] = rnd(rng, -3, 3)
        for j in range(4):
            p["v%d%d" % (i, j)] = rnd(rng, -2, 2) + (3 if i == j else 0)
    return p


def replay_2d(point, cplx):
    import numpy as np
    import scipy.linalg as sl
    from ekore import anomalous_dimensions as ad

    f = fpoint({k: v for k, v in point.items() if not k.startswith(("sqrt", "exp", "cos", "sin", "log", "atan", "cbrt"))})
    t = f.get("t", 1.0)
    if cplx:
        M = np.array([[complex(f.get(n + "r", 1.0), f.get(n + "i", 0.5)) for n in "ab"], [complex(f.get(n + "r", 1.0), f.get(n + "i", 0.5)) for n in "cd"]])
    else:
        M = np.array([[f.get("a", 1.0), f.get("b", 2.0)], [f.get("c", 0.5), f.get("d", -1.0)]], dtype=complex)
    M = M * t
    D = (M[0, 0] - M[1, 1]) ** 2 + 4 * M[0, 1] * M[1, 0]
    if abs(D) < 1e-3 or np.abs(M).max() > 50:
        return None
    exp, lp, lm, ep, em = ad.exp_matrix_2D(M)
    import mpmath as mp

    mp.mp.dps = 40
    rm = mp.expm(mp.matrix([[mp.mpc(M[i, j]) for j in range(2)] for i in range(2)]))
    ref = np.array([[complex(rm[i, j]) for j in range(2)] for i in range(2)])
    tol = 1e-8 * np.abs(ref).max()  # relative to the size of the exponential itself (it may be tiny)
    bad = []
    if np.abs(exp - ref).max() > tol:
        bad.append("exp differs from scipy.linalg.expm by %r" % np.abs(exp - ref).max())
    if np.abs(ep @ ep - ep).max() > 1e-8 or np.abs(em @ em - em).max() > 1e-8 or np.abs(ep @ em).max() > 1e-8:
        bad.append("projector algebra violated")
    if np.abs(ep + em - np.eye(2)).max() > 1e-8:
        bad.append("projectors do not sum to one")
    if np.abs(lp * ep + lm * em - M).max() > 1e-8 * max(1, np.abs(M).max()):
        bad.append("spectral decomposition does not reproduce M")
    return {"detail": "; ".join(bad) + " for M=%r" % (M.tolist(),)} if bad else None


def replay_eig(point, dim):
    import numpy as np
    import scipy.linalg as sl
    from ekore import anomalous_dimensions as ad

    f = fpoint({k: v for k, v in point.items() if k[0] in "vw" and k[1:].isdigit()})
    v = np.array([[f.get("v%d%d" % (i, j), 3.0 if i == j else 0.3 * (i - j)) for j in range(dim)] for i in range(dim)], dtype=complex)
    w = np.array([f.get("w%d" % i, 1.0 + i) for i in range(dim)], dtype=complex)
    if abs(np.linalg.det(v)) < 1e-2 or min(abs(w[i] - w[j]) for i in range(dim) for j in range(i)) < 1e-2:
        return None
    M = (v * w[None, :]) @ np.linalg.inv(v)
    exp, ww, e = ad.exp_matrix(M)
    ref = sl.expm(M)
    bad = []
    if np.abs(exp - ref).max() > 1e-7 * max(1, np.abs(ref).max()):
        bad.append("exp differs from expm by %r" % np.abs(exp - ref).max())
    for i in range(dim):
        for j in range(dim):
            tgt = e[i] if i == j else 0
            if np.abs(e[i] @ e[j] - tgt).max() > 1e-7:
                bad.append("P_%d P_%d wrong" % (i, j))
    if np.abs(sum(e) - np.eye(dim)).max() > 1e-7:
        bad.append("sum P != 1")
    if np.abs(sum(ww[i] * e[i] for i in range(dim)) - M).max() > 1e-7 * max(1, np.abs(M).max()):
        bad.append("M != sum w P")
    return {"detail": "; ".join(bad[:4]) + " (dim %d)" % dim} if bad else None


def main():
    chk = H.Check("C23")
    chk.bounds = ["exp_matrix_2D: symbolic real 2x2 (both signs of the discriminant) and symbolic complex 2x2 (8 real symbols), scale t>0 as AD seed",
                  "exp_matrix: post-processing only, dims 2-3 (quick) and 4 (thorough), eigen-decomposition symbolic"]
    chk.out_of_claim = ["numpy.linalg.eig (LAPACK) itself, conditioning, norms up to 50 in floating point; defective (non-diagonalisable) matrices"]
    chk.stubs = ["numpy.linalg.eig -> returns the symbolic (w, v) with M := v diag(w) v^-1 (argument-checked)"]
    chk.case("2d.real", case_2d, cplx=False)
    chk.case("2d.complex", case_2d, cplx=True)
    chk.case("eig.dim2", case_eig_post, dim=2)
    chk.case("eig.dim3", case_eig_post, dim=3)
    if H.tier() == "thorough":
        chk.case("eig.dim4", case_eig_post, dim=4)
    return chk.run()


if __name__ == "__main__":
    import sys

    sys.exit(main())
