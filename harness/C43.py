"""C43  Applying an EKO to a PDF is the operator contraction.

Real functions executed symbolically: ekobox.apply.apply_grids, rotate_result, apply_pdf_flavor, apply_pdf
(module global `np` rebound to the shim).  The EKO is a duck-typed in-memory stand-in that exposes only what
these functions read (items(), xgrid, mu20, theory_card.order, operator_card.configs.interpolation_polynomial_degree);
operators, errors, PDF values, x nodes, the flavour rotation (where free) and the re-interpolation matrix are symbols.

Goals
  apply_grids     pdfs[ep][r,a,j] == sum_{b,k} O_ep[a,j,b,k] * in[r,b,k]   (explicit loops, not einsum), same for errors,
                  no error entry for operators stored without error, keys == evolution points of the EKO
  rotate_result   out[ep][label_a][r,j] == sum_k X[j,k] sum_b Rot[a,b] g[r,b,k]  with Rot / X optional
  apply_pdf       out[ep][label][j] == X . Rot . O . (xf(pid, x_k, mu0^2)/x_k  or 0 for a missing flavour), Rot/labels chosen
                  by (QED order, rotate flag), X built from (eko.xgrid, card degree) and the target grid
"""
import itertools
from fractions import Fraction

import numpy as rnp
import z3

from .common import *  # noqa
from ._ekobox import explore, cleanup_markers, symarr, prove_all_zero, prove_concrete, getv, decide
from symx.solver import prove_zero, ZBool
from symx import harness as H

MOD = "harness.C43"
NF = 14
EPS = [(100.0, 5), (9.0, 4)]  # evolution points of the stand-in EKO; the second is stored without error


# ---------------------------------------------------------------------------
# stand-ins
# ---------------------------------------------------------------------------
class XG:
    """x grid stand-in: only len() and .raw are read by ekobox.apply"""

    def __init__(self, raw, log=True):
        self.raw = raw
        self.log = log

    def __len__(self):
        return len(self.raw)


class Elem:
    def __init__(self, operator, error):
        self.operator = operator
        self.error = error


class _NS:
    def __init__(self, **kw):
        self.__dict__.update(kw)


class FakeEKO:
    """exposes what ekobox.apply may legitimately read; every way of reading the initial scale is consistent:
    mu20 == operator_card.mu20 == metadata.origin[0] == operator_card.init[0]**2 (mu0 symbolic, so mu0 != mu0^2 in general)"""

    def __init__(self, xgrid, ops, mu0=None, qed=0, degree=1):
        self.xgrid = xgrid
        self._ops = ops
        mu0 = 2.0 if mu0 is None else mu0
        self.mu20 = mu0 * mu0
        self.theory_card = _NS(order=(1, qed))
        self.operator_card = _NS(configs=_NS(interpolation_polynomial_degree=degree, interpolation_is_log=getattr(xgrid, "log", True)),
                                 init=(mu0, 4), mu20=self.mu20, xgrid=xgrid)
        self.metadata = _NS(origin=(self.mu20, 4), xgrid=xgrid)
        self.loaded = 0

    def items(self):
        for ep, el in self._ops.items():
            yield ep, el


class FakeDispatcher:
    """Stand-in for eko.interpolation.InterpolatorDispatcher. Contract: get_interpolation(target) returns the matrix X with
    f(target_j) = sum_k X[j,k] f(x_k) *for the settings the dispatcher was built with* (exactness of X itself is C34).
    The stand-in is content-addressed: a symbolic matrix is registered per (x nodes, log flag, polynomial degree, target
    nodes); asking for settings that were not registered yields a fresh unrelated symbolic matrix, so using the wrong
    grid / degree / target - or a matrix left over from other settings - shows up in the value obligations."""

    table = {}
    junk = 0

    def __init__(self, xgrid=None, polynomial_degree=None, mode_N=True):
        self.xgrid = xgrid
        self.degree = polynomial_degree

    @staticmethod
    def key(xgrid, degree, target):
        try:
            return (tuple(id(x) for x in xgrid.raw), bool(getattr(xgrid, "log", True)), int(degree), tuple(id(t) for t in target))
        except Exception:  # noqa
            return None

    @classmethod
    def register(cls, eko, target, X):
        cls.table[cls.key(eko.xgrid, eko.operator_card.configs.interpolation_polynomial_degree, target)] = X

    @classmethod
    def reset(cls):
        cls.table = {}
        cls.junk = 0

    def get_interpolation(self, targetgrid):
        k = FakeDispatcher.key(self.xgrid, self.degree, targetgrid)
        X = FakeDispatcher.table.get(k) if k is not None else None
        if X is None:
            FakeDispatcher.junk += 1
            try:
                shape = (len(targetgrid), len(self.xgrid))
            except Exception:  # noqa
                shape = (1, 1)
            X = symarr("J%d" % FakeDispatcher.junk, shape)
        return X


def _mk_eko(n, qed=0, with_mu=False, xs=None, tag="", log=True, degree=1):
    ops = {}
    for i, ep in enumerate(EPS):
        O = symarr("O%s%d" % (tag, i), (NF, n, NF, n))
        E = symarr("E%s%d" % (tag, i), (NF, n, NF, n)) if i == 0 else None
        ops[ep] = Elem(O, E)
    if xs is None:
        xs = [SR.var("x%d" % k) for k in range(n)]
        for k, x in enumerate(xs):
            assume(x, ">0")
    mu0 = None
    if with_mu:
        mu0 = SR.var("mu0")
        assume(mu0, ">0")
    return FakeEKO(XG(xs, log=log), ops, mu0=mu0, qed=qed, degree=degree), xs


def _contract(O, f, n):
    """explicit loops: out[a][j] = sum_{b,k} O[a,j,b,k] f[b][k]"""
    out = [[None] * n for _ in range(NF)]
    for a in range(NF):
        for j in range(n):
            tot = SR(QZERO)
            for b in range(NF):
                for k in range(n):
                    fb = f[b][k]
                    if isinstance(fb, (int, float)) and fb == 0:
                        continue
                    tot = tot + O[a, j, b, k] * fb
            out[a][j] = tot
    return out


def _rot(M, g, n):
    if M is None:
        return g
    return [[sum((M[a][b] * g[b][k] for b in range(NF) if not (isinstance(M[a][b], (int, float)) and M[a][b] == 0)), SR(QZERO))
             for k in range(n)] for a in range(len(M))]


def _interp(X, g, n, m):
    if X is None:
        return g
    return [[sum((X[j][k] * row[k] for k in range(n)), SR(QZERO)) for j in range(m)] for row in g]


# ---------------------------------------------------------------------------
def case_apply_grids(log, n, reps):
    apply = sym_module("ekobox.apply")
    log.encode(apply.apply_grids)

    def run():
        eko, _xs = _mk_eko(n)
        f = symarr("f", (reps, NF, n))
        pdfs, errs = apply.apply_grids(eko, f)
        v = prove_concrete(list(pdfs.keys()) == EPS and list(errs.keys()) == [EPS[0]],
                           "apply_grids: one result per evolution point, an error entry exactly for operators stored with error")
        decide(log, v, key="apply_grids:keys", replay=(MOD, "replay_apply", {"n": n, "what": "grids"}), sampler=_sampler)
        for i, ep in enumerate(EPS):
            for kind, src, res in (("operator", eko._ops[ep].operator, pdfs.get(ep)), ("error", eko._ops[ep].error, errs.get(ep))):
                if src is None or res is None:
                    continue
                diffs = []
                ok_shape = tuple(rnp.shape(res)) == (reps, NF, n)
                if ok_shape:
                    for r in range(reps):
                        want = _contract(src, [[f[r, b, k] for k in range(n)] for b in range(NF)], n)
                        diffs += [res[r, a, j] - want[a][j] for a in range(NF) for j in range(n)]
                    v = prove_all_zero(diffs, "apply_grids %s at ep %d: out[r,a,j] == sum_bk T[a,j,b,k] in[r,b,k]  (n=%d, %d replicas)" % (kind, i, n, reps))
                else:
                    v = prove_concrete(False, "apply_grids %s at ep %d has shape (replica, flavour, x)" % (kind, i))
                decide(log, v, key="apply_grids:%s" % kind, replay=(MOD, "replay_apply", {"n": n, "what": "grids"}), sampler=_sampler)
        # wrong shapes are rejected (flavour axis must be 14, x axis the grid)
        bad = 0
        for shp in ((reps, NF, n + 1), (reps, NF - 1, n), (NF, n)):
            try:
                apply.apply_grids(eko, symarr("g", shp))
            except ValueError:
                bad += 1
        v = prove_concrete(bad == 3, "apply_grids rejects inputs whose shape is not (r, 14, len(xgrid))")
        decide(log, v, key="apply_grids:shape-check", replay=(MOD, "replay_apply", {"n": n, "what": "shape"}), sampler=_sampler)
        log.twin("domain")
        log.collect_ctx()

    _r, pm = explore(run)
    log.path_stats(pm)


def case_rotate_result(log, n, m, rot, reps=1):
    """rot: None | 'sym' (fully symbolic 14x14) ; m: None or number of target points (symbolic X of shape m x n)"""
    apply = sym_module("ekobox.apply")
    log.encode(apply.rotate_result)
    from eko import basis_rotation as br

    def run():
        eko, _xs = _mk_eko(n)
        grids = {ep: symarr("g%d" % i, (reps, NF, n)) for i, ep in enumerate(EPS)}
        M = symarr("R", (NF, NF)) if rot == "sym" else None
        X = symarr("X", (m, n)) if m else None
        target = [SR.var("t%d" % j) for j in range(m)] if m else None
        FakeDispatcher.reset()
        if m:
            FakeDispatcher.register(eko, target, X)
        apply.interpolation = _NS(InterpolatorDispatcher=FakeDispatcher)
        labels = list(br.evol_basis_pids) if rot else list(br.flavor_basis_pids)
        before = {ep: g.copy() for ep, g in grids.items()}
        out = apply.rotate_result(eko, grids, labels, target, M)
        mm = m or n
        v = prove_concrete(list(out.keys()) == EPS and all(list(out[ep].keys()) == labels for ep in EPS),
                           "rotate_result: same evolution points, labels in the given order")
        decide(log, v, key="rotate_result:labels", replay=(MOD, "replay_apply", {"n": n, "what": "pdf", "rotate": bool(rot), "target": bool(m)}), sampler=_sampler)
        diffs = []
        for i, ep in enumerate(EPS):
            for r in range(reps):
                g = [[before[ep][r, b, k] for k in range(n)] for b in range(NF)]
                want = _interp(X, _rot(M, g, n), n, mm)
                for a, lab in enumerate(labels):
                    row = out[ep][lab]
                    if tuple(rnp.shape(row)) != (reps, mm):
                        diffs.append(SR(QONE))
                        continue
                    diffs += [row[r, j] - want[a][j] for j in range(mm)]
        v = prove_all_zero(diffs, "rotate_result: out[label_a][r,j] == sum_k X[j,k] sum_b Rot[a,b] g[r,b,k], X = matrix of (eko.xgrid, card degree, target) (rot=%s, target=%s, n=%d)" % (rot, m, n))
        decide(log, v, key="rotate_result:value", replay=(MOD, "replay_apply", {"n": n, "what": "pdf", "rotate": bool(rot), "target": bool(m)}), sampler=_sampler)
        # input not modified
        v = prove_all_zero([grids[ep][idx] - before[ep][idx] for ep in EPS for idx in rnp.ndindex(before[ep].shape)], "rotate_result leaves its input grids unchanged")
        decide(log, v, key="rotate_result:pure", replay=(MOD, "replay_apply", {"n": n, "what": "pdf", "rotate": bool(rot), "target": bool(m)}), sampler=_sampler)
        log.twin("domain")
        log.collect_ctx()

    _r, pm = explore(run)
    log.path_stats(pm)


class SymPDF:
    """lhapdf-like stand-in: flavour availability partly symbolic (z3 Bool, forks), values symbolic."""

    def __init__(self, eko, has, F, G=None):
        self.eko = eko
        self.has = has  # pid -> bool | ZBool
        self.F = F  # pid -> list of SR (xf at the grid nodes, at the initial scale)
        self.G = G  # pid -> list of SR: slope in the scale argument, xf(pid, x_k, Q2) = F + G (Q2 - mu0^2)
        self.bad = []
        self.q2 = []

    def hasFlavor(self, pid):
        return self.has[pid]

    def xfxQ2(self, pid, x, q2):
        self.q2.append(q2)
        for k, xx in enumerate(self.eko.xgrid.raw):
            if xx is x:
                if self.G is None:
                    return self.F[pid][k]
                return self.F[pid][k] + self.G[pid][k] * (q2 - self.eko.mu20)
        self.bad.append((pid, x))
        return SR.var("junk%d" % len(self.bad))


def case_apply_pdf(log, n, qed, rotate, m, sym_pids, rest_present):
    apply = sym_module("ekobox.apply")
    log.encode(apply.apply_pdf, apply.apply_pdf_flavor, apply.rotate_result, apply.apply_grids)
    from eko import basis_rotation as br

    pids = list(br.flavor_basis_pids)
    rk = {"n": n, "what": "pdf", "rotate": rotate, "target": bool(m), "qed": qed}

    def run():
        eko, xs = _mk_eko(n, qed=qed, with_mu=True)
        has = {}
        for pid in pids:
            has[pid] = ZBool(z3.Bool("has_%s" % str(pid).replace("-", "m"))) if pid in sym_pids else (rest_present if pid != 21 else True)
        F = {pid: [SR.var("F_%s_%d" % (str(pid).replace("-", "m"), k)) for k in range(n)] for pid in pids}
        G = {pid: [SR.var("G_%s_%d" % (str(pid).replace("-", "m"), k)) for k in range(n)] for pid in pids}
        pdf = SymPDF(eko, has, F, G)
        X = symarr("X", (m, n)) if m else None
        target = [SR.var("t%d" % j) for j in range(m)] if m else None
        FakeDispatcher.reset()
        if m:
            FakeDispatcher.register(eko, target, X)
        apply.interpolation = _NS(InterpolatorDispatcher=FakeDispatcher)
        out, errs = apply.apply_pdf(eko, pdf, target, rotate)
        # which flavours are present on this path: read back the decisions from the path condition
        present = {}
        for pid in pids:
            h = has[pid]
            present[pid] = bool(h) if isinstance(h, ZBool) else h  # decided already -> no new fork
        inp = [[(F[pid][k] / xs[k]) if present[pid] else 0 for k in range(n)] for pid in pids]
        if rotate:
            M = (br.rotate_flavor_to_unified_evolution if qed else br.rotate_flavor_to_evolution).tolist()
            labels = list(br.unified_evol_basis_pids if qed else br.evol_basis_pids)
        else:
            M, labels = None, pids
        mm = m or n
        v = prove_concrete(list(out.keys()) == EPS and list(errs.keys()) == [EPS[0]] and all(list(d[ep].keys()) == labels for d in (out, errs) for ep in d),
                           "apply_pdf: evolution points and labels (%s basis)" % ("unified evolution" if rotate and qed else "evolution" if rotate else "flavour"))
        decide(log, v, key="apply_pdf:labels", replay=(MOD, "replay_apply", rk), sampler=_sampler)
        v = prove_concrete(not pdf.bad, "xfxQ2 is evaluated at the nodes of eko.xgrid only")
        decide(log, v, key="apply_pdf:nodes", replay=(MOD, "replay_apply", rk), sampler=_sampler)
        v = prove_all_zero([q - eko.mu20 for q in pdf.q2], "xfxQ2 is evaluated at the squared initial scale mu0^2 (= eko.mu20), mu0 symbolic")
        decide(log, v, key="apply_pdf:scale", replay=(MOD, "replay_apply", rk), sampler=_sampler)
        for kind, res in (("operator", out), ("error", errs)):
            diffs = []
            for i, ep in enumerate(EPS):
                T = eko._ops[ep].operator if kind == "operator" else eko._ops[ep].error
                if T is None or ep not in res:
                    continue
                want = _interp(X, _rot(M, _contract(T, inp, n), n), n, mm)
                for a, lab in enumerate(labels):
                    row = res[ep].get(lab)
                    if row is None or tuple(rnp.shape(row)) != (mm,):
                        diffs.append(SR(QONE))
                        continue
                    diffs += [row[j] - want[a][j] for j in range(mm)]
            v = prove_all_zero(diffs, "apply_pdf %s: out[label][j] == X.Rot.T.(xf/x) with missing flavours 0 (qed=%d rotate=%s target=%s n=%d)" % (kind, qed, rotate, m, n))
            decide(log, v, key="apply_pdf:%s" % kind, replay=(MOD, "replay_apply", rk), sampler=_sampler)
        log.twin("domain")
        log.collect_ctx()

    _r, pm = explore(run, max_paths=2 ** len(sym_pids) + 2)
    log.path_stats(pm)
    _validate(log, n)


def case_two_apps(log, n, m, vary):
    """Several applications in one process: EKOs that share the x nodes and the target grid but differ in the interpolation
    polynomial degree or in the log/linear flag of the grid; every result must carry the interpolation matrix of its own
    settings, whatever was applied before (A, B, then A again and B again)."""
    apply = sym_module("ekobox.apply")
    log.encode(apply.apply_pdf, apply.apply_pdf_flavor, apply.rotate_result)
    from eko import basis_rotation as br

    pids = list(br.flavor_basis_pids)
    rk = {"n": 4, "vary": vary}

    def run():
        ekoA, xs = _mk_eko(n, with_mu=True, tag="A", log=True, degree=1)
        ekoB, _ = _mk_eko(n, with_mu=True, xs=xs, tag="B", log=(vary != "log"), degree=2 if vary == "degree" else 1)
        target = [SR.var("t%d" % j) for j in range(m)]
        XA, XB = symarr("XA", (m, n)), symarr("XB", (m, n))
        FakeDispatcher.reset()
        FakeDispatcher.register(ekoA, target, XA)
        FakeDispatcher.register(ekoB, target, XB)
        apply.interpolation = _NS(InterpolatorDispatcher=FakeDispatcher)
        F = {pid: [SR.var("F_%s_%d" % (str(pid).replace("-", "m"), k)) for k in range(n)] for pid in pids}
        has = {pid: pid in (21, 1, -1, 2) for pid in pids}
        inp = [[(F[pid][k] / xs[k]) if has[pid] else 0 for k in range(n)] for pid in pids]
        for step, (eko, X, tag) in enumerate(((ekoA, XA, "A"), (ekoB, XB, "B"), (ekoA, XA, "A"), (ekoB, XB, "B"))):
            out, errs = apply.apply_pdf(eko, SymPDF(eko, has, F), target, False)
            for kind, res in (("operator", out), ("error", errs)):
                diffs = []
                for i, ep in enumerate(EPS):
                    T = eko._ops[ep].operator if kind == "operator" else eko._ops[ep].error
                    if T is None or ep not in res:
                        continue
                    want = _interp(X, _contract(T, inp, n), n, m)
                    for a, lab in enumerate(pids):
                        row = res[ep].get(lab)
                        if row is None or tuple(rnp.shape(row)) != (m,):
                            diffs.append(SR(QONE))
                            continue
                        diffs += [row[j] - want[a][j] for j in range(m)]
                v = prove_all_zero(diffs, "application %d (EKO %s, differing in %s): %s interpolated with the matrix of this EKO's own (x grid, log flag, degree)" % (step + 1, tag, vary, kind))
                decide(log, v, key="apply_pdf:interpolation-settings", replay=(MOD, "replay_two", rk), sampler=_sampler)
        log.twin("domain")
        log.collect_ctx()

    _r, pm = explore(run)
    log.path_stats(pm)


def _validate(log, n):
    """translator validation: the shimmed module on plain floats == the untouched module on floats"""
    real = real_module("ekobox.apply")
    apply = sym_module("ekobox.apply")
    rng = rnp.random.default_rng(log.rng.randint(0, 10**6))
    for _ in range(2):
        ops = {ep: Elem(rng.normal(size=(NF, n, NF, n)), rng.normal(size=(NF, n, NF, n))) for ep in EPS}
        eko = FakeEKO(XG(list(rng.uniform(0.1, 1, n))), ops)
        f = rng.normal(size=(2, NF, n))
        a, _ = apply.apply_grids(eko, f)
        b, _ = real.apply_grids(eko, f)
        for ep in EPS:
            if not rnp.allclose(rnp.array(a[ep], dtype=float), b[ep], rtol=1e-12, atol=1e-12):
                log.inconclusive.append("translator validation failed for apply_grids")
        log.validate()


def _sampler(rng):
    return {"seed": Fraction(rng.randint(1, 10**6))}


# ---------------------------------------------------------------------------
# replay: REAL ekobox.apply on a REAL EKO written to /tmp; oracle = explicit python loops
# ---------------------------------------------------------------------------
def _real_eko(tmp, n, qed, ops, mu0=2.0 ** 0.5, xs=None, log=True, degree=1, name="e.tar"):
    from eko import interpolation
    from eko.io.struct import EKO, Operator
    from ekobox import cards

    th = cards.example.theory()
    th.order = (1, qed)
    op = cards.example.operator()
    if xs is None:
        xs = [0.2, 1.0] if n == 2 else [0.15, 0.5, 1.0] if n == 3 else list(rnp.linspace(0.1, 1.0, n))
    op.xgrid = interpolation.XGrid(xs, log=log)
    op.configs.interpolation_polynomial_degree = degree
    op.configs.interpolation_is_log = log
    op.init = (mu0, 4)
    op.mugrid = [(10.0, 5), (3.0, 4)]
    eko = EKO.create(tmp / name).load_cards(th, op).build()
    for ep, (O, E) in zip(op.evolgrid, ops):
        eko[ep] = Operator(O, E)
    return eko, xs


def replay_apply(point, n, what, rotate=False, target=False, qed=0):
    import pathlib
    import tempfile
    import shutil

    from eko import basis_rotation as br
    from eko import interpolation
    from ekobox import apply

    pids = list(br.flavor_basis_pids)
    rng = rnp.random.default_rng(int(getv(point, "seed", 7)))
    ops = []
    for i in range(2):
        O = rng.normal(size=(NF, n, NF, n))
        E = rng.normal(size=(NF, n, NF, n)) if i == 0 else None
        for idx in rnp.ndindex(O.shape):
            O[idx] = getv(point, "O%d_" % i + "_".join(map(str, idx)), O[idx])
            if E is not None:
                E[idx] = getv(point, "E%d_" % i + "_".join(map(str, idx)), E[idx])
        ops.append((O, E))
    tmp = pathlib.Path(tempfile.mkdtemp(prefix="c43_", dir="/tmp"))
    try:
        mu0 = getv(point, "mu0", 2.0 ** 0.5)
        if not (0.5 < mu0 < 50) or abs(mu0 - 1.0) < 1e-3:
            mu0 = 2.0 ** 0.5
        mu20 = mu0 * mu0
        eko, xs = _real_eko(tmp, n, qed, ops, mu0=mu0)
        eps = [(100.0, 5), (9.0, 4)]
        if what == "shape":
            bad = 0
            for shp in ((2, NF, n + 1), (2, NF - 1, n), (NF, n)):
                try:
                    apply.apply_grids(eko, rng.normal(size=shp))
                except ValueError:
                    bad += 1
            return None if bad == 3 else {"detail": "apply_grids accepted %d of 3 wrongly shaped inputs" % (3 - bad)}
        if what == "grids":
            f = rng.normal(size=(2, NF, n))
            for idx in rnp.ndindex(f.shape):
                f[idx] = getv(point, "f_" + "_".join(map(str, idx)), f[idx])
            pdfs, errs = apply.apply_grids(eko, f)
            if sorted(pdfs) != sorted(eps) or list(errs) != [eps[0]]:
                return {"detail": "apply_grids keys %r / %r" % (list(pdfs), list(errs))}
            for i, ep in enumerate(eps):
                for kind, T, res in (("operator", ops[i][0], pdfs[ep]), ("error", ops[i][1], errs.get(ep))):
                    if T is None:
                        continue
                    for r in range(2):
                        for a in range(NF):
                            for j in range(n):
                                want = sum(T[a, j, b, k] * f[r, b, k] for b in range(NF) for k in range(n))
                                if abs(res[r, a, j] - want) > 1e-8 * (1 + abs(want)):
                                    return {"detail": "apply_grids %s at %r: out[%d,%d,%d]=%r but contraction gives %r" % (kind, ep, r, a, j, res[r, a, j], want)}
            return None
        # full apply_pdf
        present = {}
        for pid in pids:
            v = point.get("has_%s" % str(pid).replace("-", "m"))
            present[pid] = (str(v) == "True") if v is not None else bool(rng.integers(0, 2))
        present[21] = True
        F = {pid: [getv(point, "F_%s_%d" % (str(pid).replace("-", "m"), k), float(rng.normal())) for k in range(n)] for pid in pids}
        G = {pid: [getv(point, "G_%s_%d" % (str(pid).replace("-", "m"), k), float(rng.normal())) for k in range(n)] for pid in pids}
        seen_q2 = []

        class PDF:
            def hasFlavor(self, pid):
                return present[pid]

            def xfxQ2(self, pid, x, q2):
                seen_q2.append(q2)
                k = min(range(n), key=lambda i: abs(xs[i] - x))
                if abs(xs[k] - x) > 1e-12:
                    raise RuntimeError("off-grid x %r" % x)
                # a PDF that depends on the scale it is asked at: xf = F + G (Q2 - mu0^2)
                return F[pid][k] + G[pid][k] * (q2 - mu20)

        tg = [0.3, 0.7, 0.9][: 2 if n == 2 else 3] if target else None
        try:
            out, errs = apply.apply_pdf(eko, PDF(), tg, rotate)
        except RuntimeError as e:
            return {"detail": "apply_pdf evaluated the PDF off the eko grid: %s" % e}
        if any(abs(q - mu20) > 1e-9 * mu20 for q in seen_q2):
            return {"detail": "EKO with initial scale mu0 = %r: the input PDF is sampled at Q2 = %r instead of mu0^2 = %r" % (mu0, sorted(set(float(q) for q in seen_q2))[:3], mu20)}
        if rotate:
            M = br.rotate_flavor_to_unified_evolution if qed else br.rotate_flavor_to_evolution
            labels = list(br.unified_evol_basis_pids if qed else br.evol_basis_pids)
        else:
            M, labels = rnp.eye(NF), pids
        if tg is not None:
            X = interpolation.InterpolatorDispatcher(interpolation.XGrid(xs), 1, mode_N=False).get_interpolation(tg)
        else:
            X = rnp.eye(n)
        inp = [[F[pid][k] / xs[k] if present[pid] else 0.0 for k in range(n)] for pid in pids]
        if sorted(out) != sorted(eps) or list(errs) != [eps[0]]:
            return {"detail": "apply_pdf keys %r / %r" % (list(out), list(errs))}
        for i, ep in enumerate(eps):
            for kind, T, res in (("operator", ops[i][0], out[ep]), ("error", ops[i][1], errs.get(ep))):
                if T is None:
                    continue
                if list(res.keys()) != labels:
                    return {"detail": "apply_pdf labels %r, expected %r" % (list(res.keys()), labels)}
                c = [[sum(T[a, j, b, k] * inp[b][k] for b in range(NF) for k in range(n)) for j in range(n)] for a in range(NF)]
                c = [[sum(M[a][b] * c[b][k] for b in range(NF)) for k in range(n)] for a in range(NF)]
                c = [[sum(X[j][k] * row[k] for k in range(n)) for j in range(len(X))] for row in c]
                for a, lab in enumerate(labels):
                    if len(res[lab]) != len(X):
                        return {"detail": "apply_pdf %s: %d x values for label %r, expected %d" % (kind, len(res[lab]), lab, len(X))}
                    for j in range(len(X)):
                        if abs(res[lab][j] - c[a][j]) > 1e-8 * (1 + abs(c[a][j])):
                            return {"detail": "apply_pdf %s at %r label %r x-index %d: got %r, X.Rot.T.(xf/x) = %r (qed=%d rotate=%s target=%r)"
                                    % (kind, ep, lab, j, res[lab][j], c[a][j], qed, rotate, tg)}
        return None
    finally:
        try:
            eko.close()
        except Exception:
            pass
        shutil.rmtree(tmp, ignore_errors=True)


def replay_two(point, n, vary):
    """two real EKOs in one process: same x nodes and target grid, different degree / log flag; A, B, A, B"""
    import pathlib
    import shutil
    import tempfile

    from eko import basis_rotation as br
    from eko import interpolation
    from ekobox import apply

    pids = list(br.flavor_basis_pids)
    rng = rnp.random.default_rng(int(getv(point, "seed", 7)))
    xs = [0.1, 0.3, 0.6, 1.0]
    tg = [0.2, 0.45, 0.8]
    cfg = {"A": (True, 1), "B": ((vary != "log"), 2 if vary == "degree" else 1)}
    tmp = pathlib.Path(tempfile.mkdtemp(prefix="c43two_", dir="/tmp"))
    ekos = {}
    try:
        ops = {}
        for tag, (lg, deg) in cfg.items():
            ops[tag] = [(rng.normal(size=(NF, n, NF, n)), rng.normal(size=(NF, n, NF, n))), (rng.normal(size=(NF, n, NF, n)), None)]
            ekos[tag], _ = _real_eko(tmp, n, 0, ops[tag], xs=xs, log=lg, degree=deg, name="e%s.tar" % tag)
        F = {pid: [float(rng.normal()) for _ in range(n)] for pid in pids}

        class PDF:
            def hasFlavor(self, pid):
                return pid in (21, 1, -1, 2)

            def xfxQ2(self, pid, x, q2):
                k = min(range(n), key=lambda i: abs(xs[i] - x))
                return F[pid][k]

        inp = rnp.array([[F[pid][k] / xs[k] if pid in (21, 1, -1, 2) else 0.0 for k in range(n)] for pid in pids])
        eps = [(100.0, 5), (9.0, 4)]
        for step, tag in enumerate("ABAB"):
            lg, deg = cfg[tag]
            out, errs = apply.apply_pdf(ekos[tag], PDF(), tg)
            X = interpolation.InterpolatorDispatcher(interpolation.XGrid(xs, log=lg), deg, mode_N=False).get_interpolation(tg)
            for i, ep in enumerate(eps):
                for kind, T, res in (("operator", ops[tag][i][0], out[ep]), ("error", ops[tag][i][1], errs.get(ep))):
                    if T is None:
                        continue
                    for a, pid in enumerate(pids):
                        c = [sum(T[a, j, b, k] * inp[b][k] for b in range(NF) for k in range(n)) for j in range(n)]
                        want = [sum(X[j][k] * c[k] for k in range(n)) for j in range(len(tg))]
                        for j in range(len(tg)):
                            if abs(res[pid][j] - want[j]) > 1e-8 * (1 + abs(want[j])):
                                return {"detail": "application %d in this process (EKO %s: log=%s, degree=%d; the other EKO: log=%s, degree=%d; same x nodes %r and target grid %r): %s for pid %d at x=%r is %r, "
                                        "interpolation with this EKO's own settings gives %r" % (step + 1, tag, lg, deg, cfg["B" if tag == "A" else "A"][0], cfg["B" if tag == "A" else "A"][1], xs, tg, kind, pid, tg[j], res[pid][j], want[j])}
        return None
    finally:
        for e in ekos.values():
            try:
                e.close()
            except Exception:  # noqa
                pass
        shutil.rmtree(tmp, ignore_errors=True)


# ---------------------------------------------------------------------------
def main():
    chk = H.Check("C43")
    thorough = H.tier() == "thorough"
    chk.bounds = ["flavour dimension 14 (fixed by the code), x grid of 2 points (quick) / 2-3 points (thorough), 2 evolution points (one stored with, one without error), 1-2 replicas",
                  "operator, error, input values, x nodes (>0) symbolic reals; initial scale mu0 > 0 symbolic (so mu0 != mu0^2 in general) and the PDF depends on the scale it is asked at: xf(pid,x_k,Q2) = F + G (Q2 - mu0^2) with F, G symbolic",
                  "several applications in one process: two EKOs with the same x nodes and target grid differing in polynomial degree (1/2) or in the log flag of the grid, applied A,B,A,B",
                  "flavour rotation: none, fully symbolic 14x14 (rotate_result), the two eko tables selected by apply_pdf (QCD / QED) ; re-interpolation matrix: none or fully symbolic (2-3 target points)",
                  "missing flavours: availability of 2 (quick) / 4 (thorough) PIDs at a time symbolic (z3 Bool, all combinations), the remaining PIDs all present or all absent; groups cover all 14 PIDs in the thorough tier (all 8 (QED, rotate, target) configurations with the first group, the other group/rest patterns with the configurations in turn)"]
    chk.out_of_claim = ["the entries of the re-interpolation matrix (exactness of InterpolatorDispatcher.get_interpolation is C34) and of the rotation tables (C31)",
                        "EKO.items() loading/unloading from disk (C37-C39); floating-point summation order of einsum(optimize='optimal')"]
    chk.stubs = ["EKO -> in-memory stand-in exposing items(), xgrid(.raw, .log, len), mu20 == operator_card.mu20 == metadata.origin[0] == operator_card.init[0]^2, theory_card.order, operator_card.configs (degree, is_log)",
                 "eko.interpolation.InterpolatorDispatcher -> content-addressed stand-in: one symbolic matrix per (x nodes, log flag, degree, target nodes), an unrelated fresh matrix for any other settings"]
    chk.assumptions = ["eko.basis_rotation.rotate_flavor_to_evolution / rotate_flavor_to_unified_evolution and the *_pids label tuples are the reference for 'rotation to the evolution basis'"]
    ns = (2, 3) if thorough else (2,)
    for n in ns:
        chk.case("apply_grids.n%d" % n, case_apply_grids, n=n, reps=2)
        chk.case("rotate_result.n%d.plain" % n, case_rotate_result, n=n, m=None, rot=None)
        chk.case("rotate_result.n%d.rot" % n, case_rotate_result, n=n, m=None, rot="sym", reps=2)
        chk.case("rotate_result.n%d.target" % n, case_rotate_result, n=n, m=3 if n == 2 else 2, rot=None, reps=2)
        chk.case("rotate_result.n%d.rot+target" % n, case_rotate_result, n=n, m=n, rot="sym")
    from eko import basis_rotation as br

    for vary in ("degree", "log"):
        chk.case("two_apps.%s" % vary, case_two_apps, n=2, m=2, vary=vary)
    pids = list(br.flavor_basis_pids)
    if thorough:
        groups = [pids[0:4], pids[4:7] + [pids[8]], pids[9:12], pids[12:14] + [pids[1], pids[8]]]
        cfgs = [(qed, rot, m) for qed in (0, 1) for rot in (False, True) for m in (None, 2)]
        # every (qed, rotate, target) configuration with the first group; every group x rest pattern with the configurations in turn
        combos = [(qed, rot, m, groups[0], True) for qed, rot, m in cfgs]
        combos += [cfgs[(3 * gi + ri + 1) % 8] + (g, rest) for gi, g in enumerate(groups) for ri, rest in enumerate((True, False)) if not (gi == 0 and rest)]
    else:
        groups = [[22, 1], [-1, 6]]
        combos = [(0, False, None, groups[0], True), (0, True, 2, groups[1], False), (1, True, None, groups[0], False), (1, False, 3, groups[1], True)]
    for qed, rot, m, g, rest in combos:
        chk.case("apply_pdf.qed%d.%s.%s.%s.%s" % (qed, "rot" if rot else "flav", "t%d" % m if m else "nogrid", "_".join(map(str, g)), "rest1" if rest else "rest0"),
                 case_apply_pdf, n=2, qed=qed, rotate=rot, m=m, sym_pids=g, rest_present=rest)
    if thorough:
        chk.case("apply_pdf.n3", case_apply_pdf, n=3, qed=0, rotate=True, m=2, sym_pids=[22, -3, 4], rest_present=True)
    import ekobox.apply  # noqa: F401  imported before the workers fork (saves the import in every case)

    try:
        return chk.run()
    finally:
        cleanup_markers()


if __name__ == "__main__":
    import sys

    sys.exit(main())
